/-
Lifecycle traversals (`Node.enter / exit / reenter / commit` of Model/Commit.lean) as callback
scripts.  A script is a list of (state, method); `DKey.run` delivers it in order.  The scripts are
defined on the tree alone:

  enter    n   `n.reqPre`      pre-order along the `requested` marks, method `enter`
  exit     n   `n.activePost`  post-order of the active sub-tree,     method `exit`
  reenter  n   `n.reenterScript`, commit n  `n.commitScript`  (exits, enters and reenters)

Used by Props/C03.lean.
-/
import Hfsm.Proofs.Ids

namespace Hfsm
variable {U : Type}

abbrev Script := List (St × Method)

/-- the callbacks of a script -/
def scriptItems (l : Script) : List CbItem := l.flatMap (fun p => stateItems p.2 p.1)

/-- deliver a script -/
def DKey.run : Script → DKey U → DKey U
  | [], k => k
  | p :: rest, k => run rest (k.state p.1 p.2)

theorem DKey.run_append : (l1 l2 : Script) → (k : DKey U) → DKey.run (l1 ++ l2) k = DKey.run l2 (DKey.run l1 k)
  | [], _, _ => rfl
  | p :: l1, l2, k => by simp only [List.cons_append, DKey.run]; exact DKey.run_append l1 l2 _

theorem DKey.run_map (m : Method) : (l : List St) → (k : DKey U) →
    DKey.run (l.map (fun s => (s, m))) k = DKey.all m l k
  | [], _ => rfl
  | s :: l, k => by simp only [List.map_cons, DKey.run, DKey.all]; exact DKey.run_map m l _

theorem scriptItems_map (m : Method) (l : List St) : scriptItems (l.map (fun s => (s, m))) = expand m l := by
  simp [scriptItems, expand, List.flatMap_map]

theorem scriptItems_append (l1 l2 : Script) : scriptItems (l1 ++ l2) = scriptItems l1 ++ scriptItems l2 := by
  simp [scriptItems]

theorem DKey.run_seq : (l : Script) → (k : DKey U) →
    (DKey.run l k).seq = k.seq ++ (scriptItems l).take k.ds.length ∧
    (DKey.run l k).ds = k.ds.drop (scriptItems l).length
  | [], k => by simp [DKey.run, scriptItems]
  | p :: rest, k => by
    obtain ⟨h1, h2⟩ := DKey.run_seq rest (k.state p.1 p.2)
    rw [DKey.run, h1, h2, DKey.state_eq]
    simp only [scriptItems, List.flatMap_cons, List.length_append, List.take_append, List.length_drop,
      List.drop_drop, List.append_assoc, and_self]

/-! ### enumeration along the request marks -/

mutual
/-- what `deepEnter` will enter: head, then the requested sub-state of a composite region / every
sub-state of an orthogonal region -/
def Node.reqPre : Node → List St
  | .leaf id inj => [(id, inj, true)]
  | .compo id _ inj h _ _ _ q _ s =>
    match q with
    | some i => (id, inj, h) :: s.reqPreAt i
    | none => []
  | .ortho id _ inj h s => (id, inj, h) :: s.reqPreAll
def Subs.reqPreAt : Subs → Nat → List St
  | .nil, _ => []
  | .cons _ n _, 0 => n.reqPre
  | .cons _ _ r, i+1 => r.reqPreAt i
def Subs.reqPreAll : Subs → List St
  | .nil => []
  | .cons _ n r => n.reqPre ++ r.reqPreAll
end

/-! ### enter -/

mutual
theorem Node.enter_key : (n : Node) → (w : World U) → n.Res →
    (n.enter w).2.key = DKey.all .enter n.reqPre w.key ∧ (n.enter w).1.activePre = n.reqPre
  | .leaf id inj, w, _ => by
    simp [Node.enter, Node.reqPre, Node.activePre, DKey.all, World.key_stateMethod]
  | .compo id rid inj h st a r q m s, w, hR => by
    cases q with
    | none => simp [Node.Res] at hR
    | some qi =>
      simp only [Node.Res] at hR
      have ih := Subs.enterAt_key s qi ((w.pushRegion rid id (1 + s.size)).1.stateMethod id inj h .enter) hR
      simp only [Node.enter, World.key_popRegion, Node.activePre, Node.reqPre]
      rw [ih.1, ih.2]
      simp [DKey.all, World.key_stateMethod]
  | .ortho id rid inj h s, w, hR => by
    simp only [Node.Res] at hR
    have ih := Subs.enterAll_key s ((w.pushRegion rid id (1 + s.size)).1.stateMethod id inj h .enter) hR
    simp only [Node.enter, World.key_popRegion, Node.activePre, Node.reqPre]
    rw [ih.1, ih.2]
    simp [DKey.all, World.key_stateMethod]
theorem Subs.enterAt_key : (s : Subs) → (i : Nat) → (w : World U) → s.ResAt i →
    (s.enterAt i w).2.key = DKey.all .enter (s.reqPreAt i) w.key ∧
    (s.enterAt i w).1.activePreAt i = s.reqPreAt i
  | .nil, _, _, hR => by simp [Subs.ResAt] at hR
  | .cons b n r, 0, w, hR => by
    simp only [Subs.ResAt] at hR
    simp only [Subs.enterAt, Subs.reqPreAt, Subs.activePreAt]
    exact Node.enter_key n w hR
  | .cons b n r, i+1, w, hR => by
    simp only [Subs.ResAt] at hR
    simp only [Subs.enterAt, Subs.reqPreAt, Subs.activePreAt]
    exact Subs.enterAt_key r i w hR
theorem Subs.enterAll_key : (s : Subs) → (w : World U) → s.ResAll →
    (s.enterAll w).2.key = DKey.all .enter s.reqPreAll w.key ∧
    (s.enterAll w).1.activePreAll = s.reqPreAll
  | .nil, w, _ => by simp [Subs.enterAll, Subs.reqPreAll, Subs.activePreAll, DKey.all]
  | .cons b n r, w, hR => by
    simp only [Subs.ResAll] at hR
    have h1 := Node.enter_key n w hR.1
    have h2 := Subs.enterAll_key r (n.enter w).2 hR.2
    simp only [Subs.enterAll, Subs.reqPreAll, Subs.activePreAll, DKey.all_append]
    rw [h2.1, h1.1, h2.2, h1.2]
    exact ⟨rfl, rfl⟩
end

/-! ### exit -/

mutual
theorem Node.exit_key : (n : Node) → (w : World U) → n.Act →
    (n.exit w).2.key = DKey.all .exit n.activePost w.key
  | .leaf id inj, w, _ => by
    simp [Node.exit, Node.activePost, DKey.all]
  | .compo id rid inj h st a r q m s, w, hA => by
    cases a with
    | none => simp [Node.Act] at hA
    | some ai =>
      simp only [Node.Act] at hA
      simp only [Node.exit, World.key_exitState, Node.activePost, DKey.all_append]
      rw [Subs.exitAt_key s ai w hA]
      simp [DKey.all]
  | .ortho id rid inj h s, w, hA => by
    simp only [Node.Act] at hA
    simp only [Node.exit, World.key_exitState, Node.activePost, DKey.all_append]
    rw [Subs.exitAll_key s w hA]
    simp [DKey.all]
theorem Subs.exitAt_key : (s : Subs) → (i : Nat) → (w : World U) → s.ActAt i →
    (s.exitAt i w).2.key = DKey.all .exit (s.activePostAt i) w.key
  | .nil, _, _, hA => by simp [Subs.ActAt] at hA
  | .cons b n r, 0, w, hA => by
    simp only [Subs.ActAt] at hA
    simp only [Subs.exitAt, Subs.activePostAt]
    exact Node.exit_key n w hA.1
  | .cons b n r, i+1, w, hA => by
    simp only [Subs.ActAt] at hA
    simp only [Subs.exitAt, Subs.activePostAt]
    exact Subs.exitAt_key r i w hA.2
theorem Subs.exitAll_key : (s : Subs) → (w : World U) → s.ActAll →
    (s.exitAll w).2.key = DKey.all .exit s.activePostAll w.key
  | .nil, w, _ => by simp [Subs.exitAll, Subs.activePostAll, DKey.all]
  | .cons b n r, w, hA => by
    simp only [Subs.ActAll] at hA
    simp only [Subs.exitAll, Subs.activePostAll, DKey.all_append]
    rw [Subs.exitAll_key r _ hA.2, Node.exit_key n w hA.1]
end

/-! ### the lifecycle tracker -/

/-- the object a callback runs on: (state id, base slot) -/
abbrev Key := Nat × Nat

def CbItem.key (it : CbItem) : Key := (it.1, it.2.2)

/-- What a callback of method `m` means for the object it is delivered to, `b` = "is entered":
`enter` needs a closed object and opens it, `exit` needs an open one and closes it, `reenter`, the
periodic callbacks, `query` and `exitGuard` need an open one; `none` = violation.  Selection
callbacks and entry guards are delivered to states that are not entered; the plan callbacks are not
constrained by the property. -/
def lifeStep (m : Method) (b : Bool) : Option Bool :=
  match m with
  | .enter => if b then none else some true
  | .exit => if b then some false else none
  | .reenter | .preUpdate | .update | .postUpdate | .preReact | .react | .postReact | .query
  | .exitGuard => if b then some true else none
  | .select | .rank | .utility | .entryGuard | .planSucceeded | .planFailed => some b

/-- run the callbacks of a sequence that concern object `x` through `lifeStep` -/
def track (x : Key) : Option Bool → List CbItem → Option Bool
  | st, [] => st
  | none, _ :: _ => none
  | some b, it :: rest => if it.key = x then track x (lifeStep it.2.1 b) rest else track x (some b) rest

theorem track_none (x : Key) : (l : List CbItem) → track x none l = none
  | [] => rfl
  | _ :: _ => rfl

theorem track_append (x : Key) : (st : Option Bool) → (l1 l2 : List CbItem) →
    track x st (l1 ++ l2) = track x (track x st l1) l2
  | _, [], _ => rfl
  | none, _ :: _, l2 => by simp [track, track_none]
  | some b, it :: l1, l2 => by
    simp only [List.cons_append, track]
    split <;> exact track_append x _ l1 l2

theorem track_absent (x : Key) : (st : Option Bool) → (l : List CbItem) → (∀ it ∈ l, it.key ≠ x) →
    track x st l = st
  | _, [], _ => rfl
  | none, _ :: _, _ => rfl
  | some b, it :: l, h => by
    simp only [track]
    rw [if_neg (h it (by simp))]
    exact track_absent x _ l (fun it' h' => h it' (List.mem_cons_of_mem _ h'))

/-- methods whose handlers exist in every injected base -/
def Method.allSlots : Method → Bool
  | .select | .rank | .utility | .planSucceeded | .planFailed => false
  | _ => true

theorem nodup_reverse' {α : Type} {l : List α} (h : l.Nodup) : l.reverse.Nodup := by
  unfold List.Nodup at *
  rw [List.pairwise_reverse]
  exact h.imp (fun h => h.symm)
theorem slotOrder_spec (inj : Nat) (m : Method) (hm : m.allSlots = true) :
    (slotOrder inj m).Nodup ∧ ∀ s, s ∈ slotOrder inj m ↔ s ≤ inj := by
  have h1 : (List.range inj ++ [inj]).Nodup := by
    rw [← List.range_succ]; exact List.nodup_range
  have h2 : (inj :: (List.range inj).reverse).Nodup := by
    have := nodup_reverse' h1
    simpa using this
  have h3 : ((List.range inj).reverse ++ [inj]).Nodup := by
    have : ((inj :: List.range inj).reverse).Nodup := by
      apply nodup_reverse'
      rw [List.nodup_cons]
      exact ⟨by simp, List.nodup_range⟩
    simpa using this
  have h4 : (inj :: List.range inj).Nodup := by
    rw [List.nodup_cons]
    exact ⟨by simp, List.nodup_range⟩
  have m1 : ∀ s, s ∈ List.range inj ++ [inj] ↔ s ≤ inj := by intro s; simp [List.mem_range]; omega
  have m2 : ∀ s, s ∈ inj :: (List.range inj).reverse ↔ s ≤ inj := by intro s; simp [List.mem_range]; omega
  have m3 : ∀ s, s ∈ (List.range inj).reverse ++ [inj] ↔ s ≤ inj := by intro s; simp [List.mem_range]; omega
  have m4 : ∀ s, s ∈ inj :: List.range inj ↔ s ≤ inj := by intro s; simp [List.mem_range]; omega
  cases m <;> simp [Method.allSlots] at hm <;> simp only [slotOrder] <;>
    first | exact ⟨h1, m1⟩ | exact ⟨h2, m2⟩ | exact ⟨h3, m3⟩ | exact ⟨h4, m4⟩

theorem track_slots (x : Key) (sid : Nat) (m : Method) : (l : List Nat) → l.Nodup → (b : Bool) →
    track x (some b) (l.map (fun sl => (sid, m, sl))) =
      if x.1 = sid ∧ x.2 ∈ l then lifeStep m b else some b
  | [], _, b => by simp [track]
  | s :: rest, hn, b => by
    simp only [List.nodup_cons] at hn
    simp only [List.map_cons, track]
    by_cases hx : CbItem.key (sid, m, s) = x
    · rw [if_pos hx]
      have hx' : (sid, s) = x := hx
      subst hx'
      simp only [List.mem_cons, true_or, and_self, if_true]
      apply track_absent
      intro it hit
      simp only [List.mem_map] at hit
      obtain ⟨s', hs', rfl⟩ := hit
      simp only [CbItem.key]
      intro h
      injection h with _ h2
      exact hn.1 (h2 ▸ hs')
    · rw [if_neg hx, track_slots x sid m rest hn.2 b]
      have hx' : ¬ (sid, s) = x := hx
      have : (x.1 = sid ∧ x.2 ∈ s :: rest) ↔ (x.1 = sid ∧ x.2 ∈ rest) := by
        constructor
        · rintro ⟨h1, h2⟩
          rcases List.mem_cons.1 h2 with h2 | h2
          · exact absurd (by rw [← h1, ← h2]) hx'
          · exact ⟨h1, h2⟩
        · rintro ⟨h1, h2⟩; exact ⟨h1, List.mem_cons_of_mem _ h2⟩
      simp only [this]

/-- does the list of states contain the object `x` (a handler slot of a state with user code)? -/
def hasKey (l : List St) (x : Key) : Bool := l.any (fun s => s.2.2 && s.1 == x.1 && decide (x.2 ≤ s.2.1))

theorem track_stateItems (x : Key) (m : Method) (hm : m.allSlots = true) (s : St) (b : Bool) :
    track x (some b) (stateItems m s) = if hasKey [s] x then lifeStep m b else some b := by
  obtain ⟨id, inj, h⟩ := s
  unfold stateItems
  cases h with
  | false => simp [hasKey, track]
  | true =>
    simp only [if_true]
    rw [track_slots x id m _ (slotOrder_spec inj m hm).1]
    simp only [(slotOrder_spec inj m hm).2, hasKey, List.any_cons, List.any_nil, Bool.or_false, Bool.true_and,
      Bool.and_eq_true, beq_iff_eq, decide_eq_true_eq]
    by_cases h1 : x.1 = id
    · simp [h1]
    · have h2 : ¬ id = x.1 := fun h => h1 h.symm
      simp [h1, h2]

theorem stateItems_key (m : Method) (s : St) : ∀ it ∈ stateItems m s, it.1 = s.1 := by
  intro it hit
  unfold stateItems at hit
  split at hit
  · simp only [List.mem_map] at hit
    obtain ⟨_, _, rfl⟩ := hit
    rfl
  · simp at hit

theorem hasKey_cons (s : St) (l : List St) (x : Key) : hasKey (s :: l) x = (hasKey [s] x || hasKey l x) := by
  simp [hasKey]

theorem hasKey_append (l1 l2 : List St) (x : Key) : hasKey (l1 ++ l2) x = (hasKey l1 x || hasKey l2 x) := by
  simp [hasKey]

theorem hasKey_id (l : List St) (x : Key) (h : hasKey l x = true) : x.1 ∈ l.map (·.1) := by
  simp only [hasKey, List.any_eq_true, Bool.and_eq_true, beq_iff_eq] at h
  obtain ⟨s, hs, ⟨_, h2⟩, _⟩ := h
  exact List.mem_map.2 ⟨s, hs, h2⟩

/-- One method delivered to a list of distinct states: object `x` is stepped once if it belongs to
one of them, not at all otherwise. -/
theorem track_expand (x : Key) (m : Method) (hm : m.allSlots = true) : (l : List St) →
    (l.map (·.1)).Nodup → (b : Bool) →
    track x (some b) (expand m l) = if hasKey l x then lifeStep m b else some b
  | [], _, b => by simp [expand, track, hasKey]
  | s :: rest, hn, b => by
    simp only [List.map_cons, List.nodup_cons] at hn
    rw [expand_cons, track_append, track_stateItems x m hm, hasKey_cons s rest]
    by_cases h1 : hasKey [s] x = true
    · simp only [h1, if_true, Bool.true_or]
      apply track_absent
      intro it hit hk
      simp only [expand, List.mem_flatMap] at hit
      obtain ⟨s', hs', hit⟩ := hit
      have e1 := stateItems_key m s' it hit
      have e2 : x.1 = s.1 := by
        simp only [hasKey, List.any_cons, List.any_nil, Bool.or_false, Bool.and_eq_true, beq_iff_eq] at h1
        exact h1.1.2.symm
      apply hn.1
      rw [← e2, ← hk]
      exact List.mem_map.2 ⟨s', hs', e1.symm⟩
    · simp only [Bool.not_eq_true] at h1
      simp only [h1, Bool.false_eq_true, if_false, Bool.false_or]
      exact track_expand x m hm rest hn.2 b

/-- a trace is a well-formed lifecycle history ending with exactly the objects of `opn` entered -/
def LifeOK (opn : Key → Bool) (seq : List CbItem) : Prop := ∀ x, track x (some false) seq = some (opn x)

theorem LifeOK.enter {opn : Key → Bool} {seq : List CbItem} (h : LifeOK opn seq) (l : List St)
    (hn : (l.map (·.1)).Nodup) (hc : ∀ x, hasKey l x = true → opn x = false) :
    LifeOK (fun x => opn x || hasKey l x) (seq ++ expand .enter l) := by
  intro x
  rw [track_append, h x, track_expand x .enter rfl l hn]
  by_cases hk : hasKey l x = true
  · simp [hk, hc x hk, lifeStep]
  · simp only [Bool.not_eq_true] at hk; simp [hk]

theorem LifeOK.exit {opn : Key → Bool} {seq : List CbItem} (h : LifeOK opn seq) (l : List St)
    (hn : (l.map (·.1)).Nodup) (hc : ∀ x, hasKey l x = true → opn x = true) :
    LifeOK (fun x => opn x && !hasKey l x) (seq ++ expand .exit l) := by
  intro x
  rw [track_append, h x, track_expand x .exit rfl l hn]
  by_cases hk : hasKey l x = true
  · simp [hk, hc x hk, lifeStep]
  · simp only [Bool.not_eq_true] at hk; simp [hk]

/-- callbacks that need their object entered (or nothing at all), delivered to entered objects -/
theorem LifeOK.stay {opn : Key → Bool} {seq : List CbItem} (h : LifeOK opn seq) :
    (l : List CbItem) → (∀ it ∈ l, lifeStep it.2.1 (opn it.key) = some (opn it.key)) → LifeOK opn (seq ++ l) := by
  intro l hl x
  rw [track_append, h x]
  clear h
  induction l with
  | nil => rfl
  | cons it rest ih =>
    simp only [track]
    split
    · rename_i hk
      have := hl it (by simp)
      rw [hk] at this
      rw [this]
      exact ih (fun it' h' => hl it' (List.mem_cons_of_mem _ h'))
    · exact ih (fun it' h' => hl it' (List.mem_cons_of_mem _ h'))

/-! ### distinct ids -/

mutual
theorem Node.activePre_nodup : (n : Node) → (k : Nat) → n.IdsFrom k → (n.activePre.map (·.1)).Nodup
  | .leaf id inj, k, _ => by simp [Node.activePre]
  | .compo id rid inj hh st a r q m s, k, h => by
    cases a with
    | none => simp [Node.activePre]
    | some i =>
      have h' := h
      simp only [Node.IdsFrom] at h
      simp only [Node.activePre, List.map_cons, List.nodup_cons]
      refine ⟨?_, Subs.activePreAt_nodup s i (k+1) h.2⟩
      intro hm
      obtain ⟨x, hx, hxe⟩ := List.mem_map.1 hm
      have := Subs.activePreAt_range s i (k+1) h.2 x hx
      have hid := h.1
      have hxe' : x.1 = id := hxe
      omega
  | .ortho id rid inj hh s, k, h => by
    simp only [Node.IdsFrom] at h
    simp only [Node.activePre, List.map_cons, List.nodup_cons]
    refine ⟨?_, Subs.activePreAll_nodup s (k+1) h.2⟩
    intro hm
    obtain ⟨x, hx, hxe⟩ := List.mem_map.1 hm
    have := Subs.activePreAll_range s (k+1) h.2 x hx
    have hid := h.1
    have hxe' : x.1 = id := hxe
    omega
theorem Subs.activePreAt_nodup : (s : Subs) → (i k : Nat) → s.IdsFrom k → ((s.activePreAt i).map (·.1)).Nodup
  | .nil, _, _, _ => by simp [Subs.activePreAt]
  | .cons _ n r, 0, k, h => by
    simp only [Subs.IdsFrom] at h
    simp only [Subs.activePreAt]
    exact Node.activePre_nodup n k h.1
  | .cons _ n r, i+1, k, h => by
    simp only [Subs.IdsFrom] at h
    simp only [Subs.activePreAt]
    exact Subs.activePreAt_nodup r i (k + n.size) h.2
theorem Subs.activePreAll_nodup : (s : Subs) → (k : Nat) → s.IdsFrom k → (s.activePreAll.map (·.1)).Nodup
  | .nil, _, _ => by simp [Subs.activePreAll]
  | .cons _ n r, k, h => by
    simp only [Subs.IdsFrom] at h
    simp only [Subs.activePreAll, List.map_append, List.nodup_append]
    refine ⟨Node.activePre_nodup n k h.1, Subs.activePreAll_nodup r (k + n.size) h.2, ?_⟩
    intro a ha b hb
    obtain ⟨x, hx, rfl⟩ := List.mem_map.1 ha
    obtain ⟨y, hy, rfl⟩ := List.mem_map.1 hb
    have h1 := Node.activePre_range n k h.1 x hx
    have h2 := Subs.activePreAll_range r (k + n.size) h.2 y hy
    omega
end

mutual
theorem Node.reqPre_range : (n : Node) → (k : Nat) → n.IdsFrom k → ∀ x ∈ n.reqPre,
    k ≤ x.1 ∧ x.1 < k + n.size
  | .leaf id inj, k, h, x, hx => by
    simp only [Node.IdsFrom] at h
    simp only [Node.reqPre, List.mem_singleton] at hx
    subst hx; subst h; simp [Node.size]
  | .compo id rid inj hh st a r q m s, k, h, x, hx => by
    simp only [Node.IdsFrom] at h
    cases q with
    | none => simp [Node.reqPre] at hx
    | some i =>
      simp only [Node.reqPre, List.mem_cons] at hx
      simp only [Node.size]
      rcases hx with hx | hx
      · subst hx; obtain ⟨h1, _⟩ := h; subst h1; simp; omega
      · have := Subs.reqPreAt_range s i (k+1) h.2 x hx
        omega
  | .ortho id rid inj hh s, k, h, x, hx => by
    simp only [Node.IdsFrom] at h
    simp only [Node.reqPre, List.mem_cons] at hx
    simp only [Node.size]
    rcases hx with hx | hx
    · subst hx; obtain ⟨h1, _⟩ := h; subst h1; simp; omega
    · have := Subs.reqPreAll_range s (k+1) h.2 x hx
      omega
theorem Subs.reqPreAt_range : (s : Subs) → (i k : Nat) → s.IdsFrom k → ∀ x ∈ s.reqPreAt i,
    k ≤ x.1 ∧ x.1 < k + s.size
  | .nil, _, _, _, x, hx => by simp [Subs.reqPreAt] at hx
  | .cons _ n r, 0, k, h, x, hx => by
    simp only [Subs.IdsFrom] at h
    simp only [Subs.reqPreAt] at hx
    have := Node.reqPre_range n k h.1 x hx
    simp only [Subs.size]; omega
  | .cons _ n r, i+1, k, h, x, hx => by
    simp only [Subs.IdsFrom] at h
    simp only [Subs.reqPreAt] at hx
    have := Subs.reqPreAt_range r i (k + n.size) h.2 x hx
    simp only [Subs.size]; omega
theorem Subs.reqPreAll_range : (s : Subs) → (k : Nat) → s.IdsFrom k → ∀ x ∈ s.reqPreAll,
    k ≤ x.1 ∧ x.1 < k + s.size
  | .nil, _, _, x, hx => by simp [Subs.reqPreAll] at hx
  | .cons _ n r, k, h, x, hx => by
    simp only [Subs.IdsFrom] at h
    simp only [Subs.reqPreAll, List.mem_append] at hx
    simp only [Subs.size]
    rcases hx with hx | hx
    · have := Node.reqPre_range n k h.1 x hx; omega
    · have := Subs.reqPreAll_range r (k + n.size) h.2 x hx; omega
end


mutual
theorem Node.reqPre_nodup : (n : Node) → (k : Nat) → n.IdsFrom k → (n.reqPre.map (·.1)).Nodup
  | .leaf id inj, k, _ => by simp [Node.reqPre]
  | .compo id rid inj hh st a r q m s, k, h => by
    cases q with
    | none => simp [Node.reqPre]
    | some i =>
      have h' := h
      simp only [Node.IdsFrom] at h
      simp only [Node.reqPre, List.map_cons, List.nodup_cons]
      refine ⟨?_, Subs.reqPreAt_nodup s i (k+1) h.2⟩
      intro hm
      obtain ⟨x, hx, hxe⟩ := List.mem_map.1 hm
      have := Subs.reqPreAt_range s i (k+1) h.2 x hx
      have hid := h.1
      have hxe' : x.1 = id := hxe
      omega
  | .ortho id rid inj hh s, k, h => by
    simp only [Node.IdsFrom] at h
    simp only [Node.reqPre, List.map_cons, List.nodup_cons]
    refine ⟨?_, Subs.reqPreAll_nodup s (k+1) h.2⟩
    intro hm
    obtain ⟨x, hx, hxe⟩ := List.mem_map.1 hm
    have := Subs.reqPreAll_range s (k+1) h.2 x hx
    have hid := h.1
    have hxe' : x.1 = id := hxe
    omega
theorem Subs.reqPreAt_nodup : (s : Subs) → (i k : Nat) → s.IdsFrom k → ((s.reqPreAt i).map (·.1)).Nodup
  | .nil, _, _, _ => by simp [Subs.reqPreAt]
  | .cons _ n r, 0, k, h => by
    simp only [Subs.IdsFrom] at h
    simp only [Subs.reqPreAt]
    exact Node.reqPre_nodup n k h.1
  | .cons _ n r, i+1, k, h => by
    simp only [Subs.IdsFrom] at h
    simp only [Subs.reqPreAt]
    exact Subs.reqPreAt_nodup r i (k + n.size) h.2
theorem Subs.reqPreAll_nodup : (s : Subs) → (k : Nat) → s.IdsFrom k → (s.reqPreAll.map (·.1)).Nodup
  | .nil, _, _ => by simp [Subs.reqPreAll]
  | .cons _ n r, k, h => by
    simp only [Subs.IdsFrom] at h
    simp only [Subs.reqPreAll, List.map_append, List.nodup_append]
    refine ⟨Node.reqPre_nodup n k h.1, Subs.reqPreAll_nodup r (k + n.size) h.2, ?_⟩
    intro a ha b hb
    obtain ⟨x, hx, rfl⟩ := List.mem_map.1 ha
    obtain ⟨y, hy, rfl⟩ := List.mem_map.1 hb
    have h1 := Node.reqPre_range n k h.1 x hx
    have h2 := Subs.reqPreAll_range r (k + n.size) h.2 y hy
    omega
end

theorem Node.activePost_nodup (n : Node) (k : Nat) (h : n.IdsFrom k) : (n.activePost.map (·.1)).Nodup :=
  ((Node.activePost_perm n).map _).nodup_iff.2 (Node.activePre_nodup n k h)

theorem Node.hasKey_activePost (n : Node) (x : Key) : hasKey n.activePost x = hasKey n.activePre x := by
  unfold hasKey
  rw [Bool.eq_iff_iff, List.any_eq_true, List.any_eq_true]
  constructor
  · rintro ⟨s, hs, h⟩; exact ⟨s, (Node.activePost_perm n).mem_iff.1 hs, h⟩
  · rintro ⟨s, hs, h⟩; exact ⟨s, (Node.activePost_perm n).mem_iff.2 hs, h⟩

/-! ### exit keeps the request marks -/

mutual
theorem Node.exit_req : (n : Node) → (w : World U) →
    (n.exit w).1.reqPre = n.reqPre ∧ ((n.exit w).1.Res ↔ n.Res)
  | .leaf id inj, w => ⟨rfl, Iff.rfl⟩
  | .compo id rid inj h st a r q m s, w => by
    cases a with
    | none => exact ⟨rfl, Iff.rfl⟩
    | some ai =>
      simp only [Node.exit]
      cases q with
      | none => exact ⟨rfl, Iff.rfl⟩
      | some qi =>
        simp only [Node.reqPre, Node.Res]
        have := Subs.exitAt_req s ai w
        exact ⟨by rw [this.1], this.2 qi⟩
  | .ortho id rid inj h s, w => by
    simp only [Node.exit, Node.reqPre, Node.Res]
    have := Subs.exitAll_req s w
    exact ⟨by rw [this.1], this.2⟩
theorem Subs.exitAt_req : (s : Subs) → (i : Nat) → (w : World U) →
    (∀ j, (s.exitAt i w).1.reqPreAt j = s.reqPreAt j) ∧ (∀ j, (s.exitAt i w).1.ResAt j ↔ s.ResAt j)
  | .nil, _, w => ⟨fun _ => rfl, fun _ => Iff.rfl⟩
  | .cons b n r, 0, w => by
    simp only [Subs.exitAt]
    have := Node.exit_req n w
    constructor
    · intro j; cases j with
      | zero => simp only [Subs.reqPreAt]; exact this.1
      | succ j => rfl
    · intro j; cases j with
      | zero => simp only [Subs.ResAt]; exact this.2
      | succ j => exact Iff.rfl
  | .cons b n r, i+1, w => by
    simp only [Subs.exitAt]
    have := Subs.exitAt_req r i w
    constructor
    · intro j; cases j with
      | zero => rfl
      | succ j => simp only [Subs.reqPreAt]; exact this.1 j
    · intro j; cases j with
      | zero => exact Iff.rfl
      | succ j => simp only [Subs.ResAt]; exact this.2 j
theorem Subs.exitAll_req : (s : Subs) → (w : World U) →
    (s.exitAll w).1.reqPreAll = s.reqPreAll ∧ ((s.exitAll w).1.ResAll ↔ s.ResAll)
  | .nil, w => ⟨rfl, Iff.rfl⟩
  | .cons b n r, w => by
    simp only [Subs.exitAll, Subs.reqPreAll, Subs.ResAll]
    have h1 := Node.exit_req n w
    have h2 := Subs.exitAll_req r (n.exit w).2
    exact ⟨by rw [h1.1, h2.1], by rw [h1.2, h2.2]⟩
end

/-! ### reenter and commit: scripts and resulting configuration -/

mutual
/-- `deepReenter`: `reenter` for the head; below it the same region again (recursively), or — when
the marks name another sub-state — exit of the active one and enter of the requested one -/
def Node.reenterScript : Node → Script
  | .leaf id inj => [((id, inj, true), .reenter)]
  | .compo id _ inj h _ a _ q _ s =>
    match a, q with
    | some ai, some qi =>
      ((id, inj, h), .reenter) ::
        (if ai = qi then s.reenterScriptAt ai
         else (s.activePostAt ai).map (fun x => (x, Method.exit)) ++ (s.reqPreAt qi).map (fun x => (x, Method.enter)))
    | _, _ => []
  | .ortho id _ inj h s => ((id, inj, h), .reenter) :: s.reenterScriptAll
def Subs.reenterScriptAt : Subs → Nat → Script
  | .nil, _ => []
  | .cons _ n _, 0 => n.reenterScript
  | .cons _ _ r, i+1 => r.reenterScriptAt i
def Subs.reenterScriptAll : Subs → Script
  | .nil => []
  | .cons _ n r => n.reenterScript ++ r.reenterScriptAll
end

mutual
/-- the active enumeration after `deepReenter` -/
def Node.reenterActive : Node → List St
  | .leaf id inj => [(id, inj, true)]
  | .compo id _ inj h _ a _ q _ s =>
    match a, q with
    | some ai, some qi => (id, inj, h) :: (if ai = qi then s.reenterActiveAt ai else s.reqPreAt qi)
    | _, _ => []
  | .ortho id _ inj h s => (id, inj, h) :: s.reenterActiveAll
def Subs.reenterActiveAt : Subs → Nat → List St
  | .nil, _ => []
  | .cons _ n _, 0 => n.reenterActive
  | .cons _ _ r, i+1 => r.reenterActiveAt i
def Subs.reenterActiveAll : Subs → List St
  | .nil => []
  | .cons _ n r => n.reenterActive ++ r.reenterActiveAll
end

mutual
/-- `deepChangeToRequested`: below the regions without a mark; at a marked composite region either a
switch (exit active, enter requested), a restart in place (`remain`: exit and enter the same
sub-state) or a reenter -/
def Node.commitScript : Node → Script
  | .leaf .. => []
  | .compo _ _ _ _ _ a _ q m s =>
    match a with
    | none => []
    | some ai =>
      match q with
      | none => s.commitScriptAt ai
      | some qi =>
        if qi ≠ ai ∨ m = true then
          (s.activePostAt ai).map (fun x => (x, Method.exit)) ++ (s.reqPreAt qi).map (fun x => (x, Method.enter))
        else s.reenterScriptAt ai
  | .ortho _ _ _ _ s => s.commitScriptAll
def Subs.commitScriptAt : Subs → Nat → Script
  | .nil, _ => []
  | .cons _ n _, 0 => n.commitScript
  | .cons _ _ r, i+1 => r.commitScriptAt i
def Subs.commitScriptAll : Subs → Script
  | .nil => []
  | .cons _ n r => n.commitScript ++ r.commitScriptAll
end

mutual
/-- the active enumeration after `deepChangeToRequested` -/
def Node.commitActive : Node → List St
  | .leaf id inj => [(id, inj, true)]
  | .compo id _ inj h _ a _ q m s =>
    match a with
    | none => []
    | some ai =>
      match q with
      | none => (id, inj, h) :: s.commitActiveAt ai
      | some qi =>
        if qi ≠ ai ∨ m = true then (id, inj, h) :: s.reqPreAt qi
        else (id, inj, h) :: s.reenterActiveAt ai
  | .ortho id _ inj h s => (id, inj, h) :: s.commitActiveAll
def Subs.commitActiveAt : Subs → Nat → List St
  | .nil, _ => []
  | .cons _ n _, 0 => n.commitActive
  | .cons _ _ r, i+1 => r.commitActiveAt i
def Subs.commitActiveAll : Subs → List St
  | .nil => []
  | .cons _ n r => n.commitActive ++ r.commitActiveAll
end

/-- exit of sub-state `ai` followed by enter of sub-state `qi` (switch, restart in place) -/
theorem Subs.exit_enter_key (s : Subs) (ai qi : Nat) (w : World U) (hA : s.ActAt ai) (hR : s.ResAt qi) :
    (Subs.enterAt (Subs.exitAt s ai w).1 qi (Subs.exitAt s ai w).2).2.key =
      DKey.run ((s.activePostAt ai).map (fun x => (x, Method.exit)) ++
                (s.reqPreAt qi).map (fun x => (x, Method.enter))) w.key ∧
    (Subs.enterAt (Subs.exitAt s ai w).1 qi (Subs.exitAt s ai w).2).1.activePreAt qi = s.reqPreAt qi := by
  have hx := Subs.exitAt_req s ai w
  have he := Subs.enterAt_key (Subs.exitAt s ai w).1 qi (Subs.exitAt s ai w).2 ((hx.2 qi).2 hR)
  rw [he.1, he.2, hx.1 qi, Subs.exitAt_key s ai w hA, DKey.run_append, DKey.run_map, DKey.run_map]
  exact ⟨rfl, rfl⟩

mutual
theorem Node.reenter_key : (n : Node) → (w : World U) → n.Act → n.Res →
    (n.reenter w).2.key = DKey.run n.reenterScript w.key ∧ (n.reenter w).1.activePre = n.reenterActive
  | .leaf id inj, w, _, _ => by
    simp [Node.reenter, Node.reenterScript, Node.reenterActive, Node.activePre, DKey.run, World.key_stateMethod]
  | .compo id rid inj h st a r q m s, w, hA, hR => by
    cases a with
    | none => simp [Node.Act] at hA
    | some ai =>
      cases q with
      | none => simp [Node.Res] at hR
      | some qi =>
        simp only [Node.Act] at hA
        simp only [Node.Res] at hR
        simp only [Node.reenter, Node.reenterScript, Node.reenterActive]
        by_cases hq : ai = qi
        · subst hq
          simp only [if_true]
          have ih := Subs.reenterAt_key s ai ((w.pushRegion rid id (1 + s.size)).1.stateMethod id inj h .reenter) hA hR
          simp only [World.key_popRegion, Node.activePre]
          rw [ih.1, ih.2]
          simp [DKey.run, World.key_stateMethod]
        · simp only [hq, if_false]
          have ih := Subs.exit_enter_key s ai qi ((w.pushRegion rid id (1 + s.size)).1.stateMethod id inj h .reenter) hA hR
          simp only [World.key_popRegion, Node.activePre]
          rw [ih.1, ih.2]
          simp [DKey.run, World.key_stateMethod]
  | .ortho id rid inj h s, w, hA, hR => by
    simp only [Node.Act] at hA
    simp only [Node.Res] at hR
    have ih := Subs.reenterAll_key s ((w.pushRegion rid id (1 + s.size)).1.stateMethod id inj h .reenter) hA hR
    simp only [Node.reenter, Node.reenterScript, Node.reenterActive, World.key_popRegion, Node.activePre]
    rw [ih.1, ih.2]
    simp [DKey.run, World.key_stateMethod]
theorem Subs.reenterAt_key : (s : Subs) → (i : Nat) → (w : World U) → s.ActAt i → s.ResAt i →
    (s.reenterAt i w).2.key = DKey.run (s.reenterScriptAt i) w.key ∧
    (s.reenterAt i w).1.activePreAt i = s.reenterActiveAt i
  | .nil, _, _, hA, _ => by simp [Subs.ActAt] at hA
  | .cons b n r, 0, w, hA, hR => by
    simp only [Subs.ActAt] at hA
    simp only [Subs.ResAt] at hR
    simp only [Subs.reenterAt, Subs.reenterScriptAt, Subs.reenterActiveAt, Subs.activePreAt]
    exact Node.reenter_key n w hA.1 hR
  | .cons b n r, i+1, w, hA, hR => by
    simp only [Subs.ActAt] at hA
    simp only [Subs.ResAt] at hR
    simp only [Subs.reenterAt, Subs.reenterScriptAt, Subs.reenterActiveAt, Subs.activePreAt]
    exact Subs.reenterAt_key r i w hA.2 hR
theorem Subs.reenterAll_key : (s : Subs) → (w : World U) → s.ActAll → s.ResAll →
    (s.reenterAll w).2.key = DKey.run s.reenterScriptAll w.key ∧
    (s.reenterAll w).1.activePreAll = s.reenterActiveAll
  | .nil, w, _, _ => by simp [Subs.reenterAll, Subs.reenterScriptAll, Subs.reenterActiveAll, Subs.activePreAll, DKey.run]
  | .cons b n r, w, hA, hR => by
    simp only [Subs.ActAll] at hA
    simp only [Subs.ResAll] at hR
    have h1 := Node.reenter_key n w hA.1 hR.1
    have h2 := Subs.reenterAll_key r (n.reenter w).2 hA.2 hR.2
    simp only [Subs.reenterAll, Subs.reenterScriptAll, Subs.reenterActiveAll, Subs.activePreAll, DKey.run_append]
    rw [h2.1, h1.1, h2.2, h1.2]
    exact ⟨rfl, rfl⟩
end

mutual
theorem Node.commit_key : (n : Node) → (w : World U) → n.Act → n.COK →
    (n.commit w).2.key = DKey.run n.commitScript w.key ∧ (n.commit w).1.activePre = n.commitActive
  | .leaf id inj, w, _, _ => by
    simp [Node.commit, Node.commitScript, Node.commitActive, Node.activePre, DKey.run]
  | .compo id rid inj h st a r q m s, w, hA, hC => by
    cases a with
    | none => simp [Node.Act] at hA
    | some ai =>
      simp only [Node.Act] at hA
      cases q with
      | none =>
        simp only [Node.COK] at hC
        have ih := Subs.commitAt_key s ai (w.pushRegion rid id (1 + s.size)).1 hA hC
        simp only [Node.commit, Node.commitScript, Node.commitActive, World.key_popRegion, Node.activePre]
        rw [ih.1, ih.2]
        exact ⟨rfl, rfl⟩
      | some qi =>
        simp only [Node.COK] at hC
        simp only [Node.commit, Node.commitScript, Node.commitActive]
        by_cases hq : qi ≠ ai
        · simp only [hq, ne_eq, not_false_eq_true, true_or, if_true]
          have ih := Subs.exit_enter_key s ai qi (w.pushRegion rid id (1 + s.size)).1 hA hC
          simp only [World.key_popRegion, Node.activePre]
          rw [ih.1, ih.2]
          exact ⟨rfl, rfl⟩
        · have hq' : qi = ai := by simpa using hq
          subst hq'
          simp only [ne_eq, not_true_eq_false, if_false, false_or]
          cases m with
          | true =>
            simp only [if_true]
            have ih := Subs.exit_enter_key s qi qi (w.pushRegion rid id (1 + s.size)).1 hA hC
            simp only [World.key_popRegion, Node.activePre]
            rw [ih.1, ih.2]
            exact ⟨rfl, rfl⟩
          | false =>
            simp only [Bool.false_eq_true, if_false]
            have ih := Subs.reenterAt_key s qi (w.pushRegion rid id (1 + s.size)).1 hA hC
            simp only [World.key_popRegion, Node.activePre]
            rw [ih.1, ih.2]
            exact ⟨rfl, rfl⟩
  | .ortho id rid inj h s, w, hA, hC => by
    simp only [Node.Act] at hA
    simp only [Node.COK] at hC
    have ih := Subs.commitAll_key s w hA hC
    simp only [Node.commit, Node.commitScript, Node.commitActive, Node.activePre]
    rw [ih.1, ih.2]
    exact ⟨rfl, rfl⟩
theorem Subs.commitAt_key : (s : Subs) → (i : Nat) → (w : World U) → s.ActAt i → s.COKAt i →
    (s.commitAt i w).2.key = DKey.run (s.commitScriptAt i) w.key ∧
    (s.commitAt i w).1.activePreAt i = s.commitActiveAt i
  | .nil, _, _, hA, _ => by simp [Subs.ActAt] at hA
  | .cons b n r, 0, w, hA, hC => by
    simp only [Subs.ActAt] at hA
    simp only [Subs.COKAt] at hC
    simp only [Subs.commitAt, Subs.commitScriptAt, Subs.commitActiveAt, Subs.activePreAt]
    exact Node.commit_key n w hA.1 hC
  | .cons b n r, i+1, w, hA, hC => by
    simp only [Subs.ActAt] at hA
    simp only [Subs.COKAt] at hC
    simp only [Subs.commitAt, Subs.commitScriptAt, Subs.commitActiveAt, Subs.activePreAt]
    exact Subs.commitAt_key r i w hA.2 hC
theorem Subs.commitAll_key : (s : Subs) → (w : World U) → s.ActAll → s.COKAll →
    (s.commitAll w).2.key = DKey.run s.commitScriptAll w.key ∧
    (s.commitAll w).1.activePreAll = s.commitActiveAll
  | .nil, w, _, _ => by simp [Subs.commitAll, Subs.commitScriptAll, Subs.commitActiveAll, Subs.activePreAll, DKey.run]
  | .cons b n r, w, hA, hC => by
    simp only [Subs.ActAll] at hA
    simp only [Subs.COKAll] at hC
    have h1 := Node.commit_key n w hA.1 hC.1
    have h2 := Subs.commitAll_key r (n.commit w).2 hA.2 hC.2
    simp only [Subs.commitAll, Subs.commitScriptAll, Subs.commitActiveAll, Subs.activePreAll, DKey.run_append]
    rw [h2.1, h1.1, h2.2, h1.2]
    exact ⟨rfl, rfl⟩
end

/-! ### id ranges of scripts, and the tracker through reenter / commit -/

/-- all ids of a list of states lie in `[lo, hi)` -/
def IdRange (lo hi : Nat) (l : List St) : Prop := ∀ s ∈ l, lo ≤ s.1 ∧ s.1 < hi
def ScriptIdRange (lo hi : Nat) (l : Script) : Prop := ∀ p ∈ l, lo ≤ p.1.1 ∧ p.1.1 < hi

theorem IdRange.mono {lo hi lo' hi' : Nat} {l : List St} (h : IdRange lo hi l) (h1 : lo' ≤ lo) (h2 : hi ≤ hi') :
    IdRange lo' hi' l := fun s hs => ⟨by have := h s hs; omega, by have := h s hs; omega⟩
theorem ScriptIdRange.mono {lo hi lo' hi' : Nat} {l : Script} (h : ScriptIdRange lo hi l) (h1 : lo' ≤ lo) (h2 : hi ≤ hi') :
    ScriptIdRange lo' hi' l := fun s hs => ⟨by have := h s hs; omega, by have := h s hs; omega⟩
theorem IdRange.append {lo hi : Nat} {l1 l2 : List St} (h1 : IdRange lo hi l1) (h2 : IdRange lo hi l2) :
    IdRange lo hi (l1 ++ l2) := fun s hs => (List.mem_append.1 hs).elim (h1 s) (h2 s)
theorem ScriptIdRange.append {lo hi : Nat} {l1 l2 : Script} (h1 : ScriptIdRange lo hi l1) (h2 : ScriptIdRange lo hi l2) :
    ScriptIdRange lo hi (l1 ++ l2) := fun s hs => (List.mem_append.1 hs).elim (h1 s) (h2 s)
theorem IdRange.cons {lo hi : Nat} {s : St} {l : List St} (h1 : lo ≤ s.1 ∧ s.1 < hi) (h2 : IdRange lo hi l) :
    IdRange lo hi (s :: l) := fun t ht => (List.mem_cons.1 ht).elim (fun e => e ▸ h1) (h2 t)
theorem ScriptIdRange.cons {lo hi : Nat} {p : St × Method} {l : Script} (h1 : lo ≤ p.1.1 ∧ p.1.1 < hi) (h2 : ScriptIdRange lo hi l) :
    ScriptIdRange lo hi (p :: l) := fun t ht => (List.mem_cons.1 ht).elim (fun e => e ▸ h1) (h2 t)
theorem IdRange.nil {lo hi : Nat} : IdRange lo hi [] := fun _ h => by simp at h
theorem ScriptIdRange.nil {lo hi : Nat} : ScriptIdRange lo hi [] := fun _ h => by simp at h
theorem IdRange.script {lo hi : Nat} {l : List St} (h : IdRange lo hi l) (m : Method) :
    ScriptIdRange lo hi (l.map (fun x => (x, m))) := by
  intro p hp
  obtain ⟨s, hs, rfl⟩ := List.mem_map.1 hp
  exact h s hs

theorem Node.activePre_inRange (n : Node) (k : Nat) (h : n.IdsFrom k) : IdRange k (k + n.size) n.activePre :=
  Node.activePre_range n k h
theorem Subs.activePreAt_inRange (s : Subs) (i k : Nat) (h : s.IdsFrom k) : IdRange k (k + s.size) (s.activePreAt i) :=
  Subs.activePreAt_range s i k h
theorem Subs.activePostAt_inRange (s : Subs) (i k : Nat) (h : s.IdsFrom k) : IdRange k (k + s.size) (s.activePostAt i) :=
  fun x hx => Subs.activePreAt_range s i k h x ((Subs.activePostAt_perm s i).mem_iff.1 hx)
theorem Subs.reqPreAt_inRange (s : Subs) (i k : Nat) (h : s.IdsFrom k) : IdRange k (k + s.size) (s.reqPreAt i) :=
  Subs.reqPreAt_range s i k h

mutual
theorem Node.reenter_inRange : (n : Node) → (k : Nat) → n.IdsFrom k →
    ScriptIdRange k (k + n.size) n.reenterScript ∧ IdRange k (k + n.size) n.reenterActive
  | .leaf id inj, k, h => by
    simp only [Node.IdsFrom] at h
    subst h
    simp only [Node.reenterScript, Node.reenterActive, Node.size]
    exact ⟨ScriptIdRange.cons ⟨Nat.le_refl _, by simp⟩ ScriptIdRange.nil, IdRange.cons ⟨Nat.le_refl _, by simp⟩ IdRange.nil⟩
  | .compo id rid inj hh st a r q m s, k, h => by
    simp only [Node.IdsFrom] at h
    obtain ⟨h1, h2⟩ := h
    subst h1
    simp only [Node.reenterScript, Node.reenterActive, Node.size]
    cases a with
    | none => exact ⟨ScriptIdRange.nil, IdRange.nil⟩
    | some ai =>
      cases q with
      | none => exact ⟨ScriptIdRange.nil, IdRange.nil⟩
      | some qi =>
        simp only
        have hd : id ≤ id ∧ id < id + (1 + s.size) := ⟨Nat.le_refl _, by omega⟩
        have ih := Subs.reenterAt_inRange s ai (id+1) h2
        have e1 := ((Subs.activePostAt_inRange s ai (id+1) h2).script .exit)
        have e2 := ((Subs.reqPreAt_inRange s qi (id+1) h2).script .enter)
        have e3 := (Subs.reqPreAt_inRange s qi (id+1) h2)
        refine ⟨ScriptIdRange.cons hd ?_, IdRange.cons hd ?_⟩
        · split
          · exact ih.1.mono (by omega) (by omega)
          · exact (e1.append e2).mono (by omega) (by omega)
        · split
          · exact ih.2.mono (by omega) (by omega)
          · exact e3.mono (by omega) (by omega)
  | .ortho id rid inj hh s, k, h => by
    simp only [Node.IdsFrom] at h
    obtain ⟨h1, h2⟩ := h
    subst h1
    simp only [Node.reenterScript, Node.reenterActive, Node.size]
    have hd : id ≤ id ∧ id < id + (1 + s.size) := ⟨Nat.le_refl _, by omega⟩
    have ih := Subs.reenterAll_inRange s (id+1) h2
    exact ⟨ScriptIdRange.cons hd (ih.1.mono (by omega) (by omega)), IdRange.cons hd (ih.2.mono (by omega) (by omega))⟩
theorem Subs.reenterAt_inRange : (s : Subs) → (i k : Nat) → s.IdsFrom k →
    ScriptIdRange k (k + s.size) (s.reenterScriptAt i) ∧ IdRange k (k + s.size) (s.reenterActiveAt i)
  | .nil, _, _, _ => ⟨ScriptIdRange.nil, IdRange.nil⟩
  | .cons _ n r, 0, k, h => by
    simp only [Subs.IdsFrom] at h
    have ih := Node.reenter_inRange n k h.1
    simp only [Subs.reenterScriptAt, Subs.reenterActiveAt, Subs.size]
    exact ⟨ih.1.mono (Nat.le_refl _) (by omega), ih.2.mono (Nat.le_refl _) (by omega)⟩
  | .cons _ n r, i+1, k, h => by
    simp only [Subs.IdsFrom] at h
    have ih := Subs.reenterAt_inRange r i (k + n.size) h.2
    simp only [Subs.reenterScriptAt, Subs.reenterActiveAt, Subs.size]
    exact ⟨ih.1.mono (by omega) (by omega), ih.2.mono (by omega) (by omega)⟩
theorem Subs.reenterAll_inRange : (s : Subs) → (k : Nat) → s.IdsFrom k →
    ScriptIdRange k (k + s.size) s.reenterScriptAll ∧ IdRange k (k + s.size) s.reenterActiveAll
  | .nil, _, _ => ⟨ScriptIdRange.nil, IdRange.nil⟩
  | .cons _ n r, k, h => by
    simp only [Subs.IdsFrom] at h
    have h1 := Node.reenter_inRange n k h.1
    have h2 := Subs.reenterAll_inRange r (k + n.size) h.2
    simp only [Subs.reenterScriptAll, Subs.reenterActiveAll, Subs.size]
    exact ⟨(h1.1.mono (Nat.le_refl _) (by omega)).append (h2.1.mono (by omega) (by omega)),
           (h1.2.mono (Nat.le_refl _) (by omega)).append (h2.2.mono (by omega) (by omega))⟩
end
mutual
theorem Node.commit_inRange : (n : Node) → (k : Nat) → n.IdsFrom k →
    ScriptIdRange k (k + n.size) n.commitScript ∧ IdRange k (k + n.size) n.commitActive
  | .leaf id inj, k, h => by
    simp only [Node.IdsFrom] at h
    subst h
    simp only [Node.commitScript, Node.commitActive, Node.size]
    exact ⟨ScriptIdRange.nil, IdRange.cons ⟨Nat.le_refl _, by simp⟩ IdRange.nil⟩
  | .compo id rid inj hh st a r q m s, k, h => by
    simp only [Node.IdsFrom] at h
    obtain ⟨h1, h2⟩ := h
    subst h1
    simp only [Node.commitScript, Node.commitActive, Node.size]
    cases a with
    | none => exact ⟨ScriptIdRange.nil, IdRange.nil⟩
    | some ai =>
      have hd : id ≤ id ∧ id < id + (1 + s.size) := ⟨Nat.le_refl _, by omega⟩
      cases q with
      | none =>
        simp only
        have ih := Subs.commitAt_inRange s ai (id+1) h2
        exact ⟨ih.1.mono (by omega) (by omega), IdRange.cons hd (ih.2.mono (by omega) (by omega))⟩
      | some qi =>
        simp only
        have ih := Subs.reenterAt_inRange s ai (id+1) h2
        have e1 := ((Subs.activePostAt_inRange s ai (id+1) h2).script .exit)
        have e2 := ((Subs.reqPreAt_inRange s qi (id+1) h2).script .enter)
        have e3 := (Subs.reqPreAt_inRange s qi (id+1) h2)
        constructor
        · split
          · exact (e1.append e2).mono (by omega) (by omega)
          · exact ih.1.mono (by omega) (by omega)
        · split
          · exact IdRange.cons hd (e3.mono (by omega) (by omega))
          · exact IdRange.cons hd (ih.2.mono (by omega) (by omega))
  | .ortho id rid inj hh s, k, h => by
    simp only [Node.IdsFrom] at h
    obtain ⟨h1, h2⟩ := h
    subst h1
    simp only [Node.commitScript, Node.commitActive, Node.size]
    have hd : id ≤ id ∧ id < id + (1 + s.size) := ⟨Nat.le_refl _, by omega⟩
    have ih := Subs.commitAll_inRange s (id+1) h2
    exact ⟨ih.1.mono (by omega) (by omega), IdRange.cons hd (ih.2.mono (by omega) (by omega))⟩
theorem Subs.commitAt_inRange : (s : Subs) → (i k : Nat) → s.IdsFrom k →
    ScriptIdRange k (k + s.size) (s.commitScriptAt i) ∧ IdRange k (k + s.size) (s.commitActiveAt i)
  | .nil, _, _, _ => ⟨ScriptIdRange.nil, IdRange.nil⟩
  | .cons _ n r, 0, k, h => by
    simp only [Subs.IdsFrom] at h
    have ih := Node.commit_inRange n k h.1
    simp only [Subs.commitScriptAt, Subs.commitActiveAt, Subs.size]
    exact ⟨ih.1.mono (Nat.le_refl _) (by omega), ih.2.mono (Nat.le_refl _) (by omega)⟩
  | .cons _ n r, i+1, k, h => by
    simp only [Subs.IdsFrom] at h
    have ih := Subs.commitAt_inRange r i (k + n.size) h.2
    simp only [Subs.commitScriptAt, Subs.commitActiveAt, Subs.size]
    exact ⟨ih.1.mono (by omega) (by omega), ih.2.mono (by omega) (by omega)⟩
theorem Subs.commitAll_inRange : (s : Subs) → (k : Nat) → s.IdsFrom k →
    ScriptIdRange k (k + s.size) s.commitScriptAll ∧ IdRange k (k + s.size) s.commitActiveAll
  | .nil, _, _ => ⟨ScriptIdRange.nil, IdRange.nil⟩
  | .cons _ n r, k, h => by
    simp only [Subs.IdsFrom] at h
    have h1 := Node.commit_inRange n k h.1
    have h2 := Subs.commitAll_inRange r (k + n.size) h.2
    simp only [Subs.commitScriptAll, Subs.commitActiveAll, Subs.size]
    exact ⟨(h1.1.mono (Nat.le_refl _) (by omega)).append (h2.1.mono (by omega) (by omega)),
           (h1.2.mono (Nat.le_refl _) (by omega)).append (h2.2.mono (by omega) (by omega))⟩
end

/-! ### a key outside the id range is not concerned -/

theorem hasKey_of_outside {lo hi : Nat} {l : List St} (h : IdRange lo hi l) (x : Key)
    (hx : x.1 < lo ∨ hi ≤ x.1) : hasKey l x = false := by
  cases hk : hasKey l x with
  | false => rfl
  | true =>
    obtain ⟨s, hs, he⟩ := List.mem_map.1 (hasKey_id l x hk)
    have := h s hs
    have he' : s.1 = x.1 := he
    omega

theorem track_of_outside {lo hi : Nat} {l : Script} (h : ScriptIdRange lo hi l) (x : Key)
    (hx : x.1 < lo ∨ hi ≤ x.1) (st : Option Bool) : track x st (scriptItems l) = st := by
  apply track_absent
  intro it hit hk
  simp only [scriptItems, List.mem_flatMap] at hit
  obtain ⟨p, hp, hit⟩ := hit
  have e1 := stateItems_key p.2 p.1 it hit
  have := h p hp
  have e2 : it.1 = x.1 := congrArg Prod.fst hk
  omega

/-- exit of the states `l1`, then enter of the states `l2` -/
theorem track_exit_enter (x : Key) (l1 l2 : List St) (n1 : (l1.map (·.1)).Nodup) (n2 : (l2.map (·.1)).Nodup)
    (b : Bool) (h1 : hasKey l1 x = true → b = true)
    (h2 : hasKey l2 x = true → b = false ∨ hasKey l1 x = true) :
    track x (some b) (scriptItems (l1.map (fun s => (s, Method.exit)) ++ l2.map (fun s => (s, Method.enter)))) =
      some ((b && !hasKey l1 x) || hasKey l2 x) := by
  rw [scriptItems_append, scriptItems_map, scriptItems_map, track_append, track_expand x .exit rfl l1 n1]
  cases hk1 : hasKey l1 x <;> cases hk2 : hasKey l2 x <;> cases b <;>
    simp_all [lifeStep, track_expand x .enter rfl l2 n2]

theorem hasKey_perm {l1 l2 : List St} (h : l1.Perm l2) (x : Key) : hasKey l1 x = hasKey l2 x := by
  unfold hasKey
  rw [Bool.eq_iff_iff, List.any_eq_true, List.any_eq_true]
  constructor
  · rintro ⟨s, hs, h'⟩; exact ⟨s, h.mem_iff.1 hs, h'⟩
  · rintro ⟨s, hs, h'⟩; exact ⟨s, h.mem_iff.2 hs, h'⟩

theorem hasKey_head_id (id inj : Nat) (h : Bool) (x : Key) (hk : hasKey [(id, inj, h)] x = true) : x.1 = id := by
  simp only [hasKey, List.any_cons, List.any_nil, Bool.or_false, Bool.and_eq_true, beq_iff_eq] at hk
  exact hk.1.2.symm

/-- a head that stays, above a sub-tree whose script is known -/
theorem track_under_head (id inj : Nat) (h : Bool) (x : Key) (L L' : List St) (sc : Script) (hi : Nat)
    (rL : IdRange (id+1) hi L) (rL' : IdRange (id+1) hi L') (rs : ScriptIdRange (id+1) hi sc)
    (ih : track x (some (hasKey L x)) (scriptItems sc) = some (hasKey L' x)) :
    track x (some (hasKey ((id, inj, h) :: L) x)) (scriptItems sc) = some (hasKey ((id, inj, h) :: L') x) := by
  rw [hasKey_cons _ L, hasKey_cons _ L']
  by_cases hx : x.1 = id
  · have ho : x.1 < id + 1 ∨ hi ≤ x.1 := Or.inl (by omega)
    rw [hasKey_of_outside rL x ho, hasKey_of_outside rL' x ho, track_of_outside rs x ho]
  · have : hasKey [(id, inj, h)] x = false := by
      cases hk : hasKey [(id, inj, h)] x with
      | false => rfl
      | true => exact absurd (hasKey_head_id id inj h x hk) hx
    simp only [this, Bool.false_or]
    exact ih

theorem track_head_reenter (s : St) (x : Key) (L : List St) :
    track x (some (hasKey (s :: L) x)) (stateItems .reenter s) = some (hasKey (s :: L) x) := by
  rw [track_stateItems x .reenter rfl, hasKey_cons s L]
  cases hk : hasKey [s] x <;> simp [lifeStep]

theorem scriptItems_cons (p : St × Method) (l : Script) : scriptItems (p :: l) = stateItems p.2 p.1 ++ scriptItems l := by
  simp [scriptItems]

/-- switch / restart in place below a head that stays -/
theorem track_switch (id inj : Nat) (h : Bool) (x : Key) (Lpre Lpost Lreq : List St) (hi : Nat)
    (hperm : Lpost.Perm Lpre)
    (rpre : IdRange (id+1) hi Lpre) (rreq : IdRange (id+1) hi Lreq)
    (n1 : (Lpost.map (·.1)).Nodup) (n2 : (Lreq.map (·.1)).Nodup) :
    track x (some (hasKey ((id, inj, h) :: Lpre) x))
      (scriptItems (Lpost.map (fun s => (s, Method.exit)) ++ Lreq.map (fun s => (s, Method.enter)))) =
    some (hasKey ((id, inj, h) :: Lreq) x) := by
  have e := hasKey_perm hperm x
  have f1 : hasKey [(id, inj, h)] x = true → hasKey Lpre x = false ∧ hasKey Lreq x = false := by
    intro hk
    have hx := hasKey_head_id id inj h x hk
    have ho : x.1 < id + 1 ∨ hi ≤ x.1 := Or.inl (by omega)
    exact ⟨hasKey_of_outside rpre x ho, hasKey_of_outside rreq x ho⟩
  rw [track_exit_enter x Lpost Lreq n1 n2, hasKey_cons _ Lpre, hasKey_cons _ Lreq, e]
  · cases hd : hasKey [(id, inj, h)] x <;> cases hp : hasKey Lpre x <;> cases hr : hasKey Lreq x <;> simp_all
  · intro hk; rw [hasKey_cons, ← e, hk]; simp
  · intro hk
    rw [hasKey_cons, e]
    cases hd : hasKey [(id, inj, h)] x
    · cases hp : hasKey Lpre x <;> simp
    · have := (f1 hd).2; rw [hk] at this; exact absurd this (by simp)

mutual
theorem Node.reenter_track : (n : Node) → (k : Nat) → n.Act → n.Res → n.IdsFrom k → ∀ x : Key,
    track x (some (hasKey n.activePre x)) (scriptItems n.reenterScript) = some (hasKey n.reenterActive x)
  | .leaf id inj, k, _, _, _, x => by
    simp only [Node.activePre, Node.reenterScript, Node.reenterActive, scriptItems_cons]
    rw [show scriptItems [] = [] from rfl, List.append_nil]
    exact track_head_reenter _ x []
  | .compo id rid inj h st a r q m s, k, hA, hR, hI, x => by
    cases a with
    | none => simp [Node.Act] at hA
    | some ai =>
      cases q with
      | none => simp [Node.Res] at hR
      | some qi =>
        simp only [Node.Act] at hA
        simp only [Node.Res] at hR
        simp only [Node.IdsFrom] at hI
        obtain ⟨hid, hI⟩ := hI
        subst hid
        simp only [Node.activePre, Node.reenterScript, Node.reenterActive, scriptItems_cons]
        rw [track_append, track_head_reenter]
        by_cases hq : ai = qi
        · subst hq
          simp only [if_true]
          have rg := Subs.reenterAt_inRange s ai (id+1) hI
          exact track_under_head id inj h x _ _ _ _ (Subs.activePreAt_inRange s ai (id+1) hI) rg.2 rg.1
            (Subs.reenterAt_track s ai (id+1) hA hR hI x)
        · simp only [hq, if_false]
          exact track_switch id inj h x _ _ _ _ (Subs.activePostAt_perm s ai)
            (Subs.activePreAt_inRange s ai (id+1) hI) (Subs.reqPreAt_inRange s qi (id+1) hI)
            (((Subs.activePostAt_perm s ai).map _).nodup_iff.2 (Subs.activePreAt_nodup s ai (id+1) hI))
            (Subs.reqPreAt_nodup s qi (id+1) hI)
  | .ortho id rid inj h s, k, hA, hR, hI, x => by
    simp only [Node.Act] at hA
    simp only [Node.Res] at hR
    simp only [Node.IdsFrom] at hI
    obtain ⟨hid, hI⟩ := hI
    subst hid
    simp only [Node.activePre, Node.reenterScript, Node.reenterActive, scriptItems_cons]
    rw [track_append, track_head_reenter]
    have rg := Subs.reenterAll_inRange s (id+1) hI
    exact track_under_head id inj h x _ _ _ _ (Subs.activePreAll_range s (id+1) hI) rg.2 rg.1
      (Subs.reenterAll_track s (id+1) hA hR hI x)
theorem Subs.reenterAt_track : (s : Subs) → (i k : Nat) → s.ActAt i → s.ResAt i → s.IdsFrom k → ∀ x : Key,
    track x (some (hasKey (s.activePreAt i) x)) (scriptItems (s.reenterScriptAt i)) =
      some (hasKey (s.reenterActiveAt i) x)
  | .nil, _, _, hA, _, _, _ => by simp [Subs.ActAt] at hA
  | .cons _ n r, 0, k, hA, hR, hI, x => by
    simp only [Subs.ActAt] at hA
    simp only [Subs.ResAt] at hR
    simp only [Subs.IdsFrom] at hI
    simp only [Subs.activePreAt, Subs.reenterScriptAt, Subs.reenterActiveAt]
    exact Node.reenter_track n k hA.1 hR hI.1 x
  | .cons _ n r, i+1, k, hA, hR, hI, x => by
    simp only [Subs.ActAt] at hA
    simp only [Subs.ResAt] at hR
    simp only [Subs.IdsFrom] at hI
    simp only [Subs.activePreAt, Subs.reenterScriptAt, Subs.reenterActiveAt]
    exact Subs.reenterAt_track r i (k + n.size) hA.2 hR hI.2 x
theorem Subs.reenterAll_track : (s : Subs) → (k : Nat) → s.ActAll → s.ResAll → s.IdsFrom k → ∀ x : Key,
    track x (some (hasKey s.activePreAll x)) (scriptItems s.reenterScriptAll) =
      some (hasKey s.reenterActiveAll x)
  | .nil, _, _, _, _, x => by simp [Subs.activePreAll, Subs.reenterScriptAll, Subs.reenterActiveAll, scriptItems, track]
  | .cons _ n r, k, hA, hR, hI, x => by
    simp only [Subs.ActAll] at hA
    simp only [Subs.ResAll] at hR
    simp only [Subs.IdsFrom] at hI
    simp only [Subs.activePreAll, Subs.reenterScriptAll, Subs.reenterActiveAll, scriptItems_append,
      hasKey_append, track_append]
    have rn := Node.reenter_inRange n k hI.1
    have rr := Subs.reenterAll_inRange r (k + n.size) hI.2
    by_cases hx : x.1 < k + n.size
    · have ho : x.1 < k + n.size ∨ k + n.size + r.size ≤ x.1 := Or.inl hx
      rw [hasKey_of_outside (Subs.activePreAll_range r (k + n.size) hI.2) x ho, hasKey_of_outside rr.2 x ho,
        Bool.or_false, Bool.or_false, Node.reenter_track n k hA.1 hR.1 hI.1 x, track_of_outside rr.1 x ho]
    · have ho : x.1 < k ∨ k + n.size ≤ x.1 := Or.inr (by omega)
      rw [hasKey_of_outside (Node.activePre_range n k hI.1) x ho, hasKey_of_outside rn.2 x ho,
        Bool.false_or, Bool.false_or, track_of_outside rn.1 x ho]
      exact Subs.reenterAll_track r (k + n.size) hA.2 hR.2 hI.2 x
end

mutual
theorem Node.commit_track : (n : Node) → (k : Nat) → n.Act → n.COK → n.IdsFrom k → ∀ x : Key,
    track x (some (hasKey n.activePre x)) (scriptItems n.commitScript) = some (hasKey n.commitActive x)
  | .leaf id inj, k, _, _, _, x => by
    simp [Node.activePre, Node.commitScript, Node.commitActive, scriptItems, track]
  | .compo id rid inj h st a r q m s, k, hA, hC, hI, x => by
    cases a with
    | none => simp [Node.Act] at hA
    | some ai =>
      simp only [Node.Act] at hA
      simp only [Node.IdsFrom] at hI
      obtain ⟨hid, hI⟩ := hI
      subst hid
      cases q with
      | none =>
        simp only [Node.COK] at hC
        simp only [Node.activePre, Node.commitScript, Node.commitActive]
        have rg := Subs.commitAt_inRange s ai (id+1) hI
        exact track_under_head id inj h x _ _ _ _ (Subs.activePreAt_inRange s ai (id+1) hI) rg.2 rg.1
          (Subs.commitAt_track s ai (id+1) hA hC hI x)
      | some qi =>
        simp only [Node.COK] at hC
        simp only [Node.activePre, Node.commitScript, Node.commitActive]
        split
        · exact track_switch id inj h x _ _ _ _ (Subs.activePostAt_perm s ai)
            (Subs.activePreAt_inRange s ai (id+1) hI) (Subs.reqPreAt_inRange s qi (id+1) hI)
            (((Subs.activePostAt_perm s ai).map _).nodup_iff.2 (Subs.activePreAt_nodup s ai (id+1) hI))
            (Subs.reqPreAt_nodup s qi (id+1) hI)
        · rename_i hq
          have hq' : qi = ai := by
            by_cases e : qi = ai
            · exact e
            · exact absurd (Or.inl e) hq
          subst hq'
          have rg := Subs.reenterAt_inRange s qi (id+1) hI
          exact track_under_head id inj h x _ _ _ _ (Subs.activePreAt_inRange s qi (id+1) hI) rg.2 rg.1
            (Subs.reenterAt_track s qi (id+1) hA hC hI x)
  | .ortho id rid inj h s, k, hA, hC, hI, x => by
    simp only [Node.Act] at hA
    simp only [Node.COK] at hC
    simp only [Node.IdsFrom] at hI
    obtain ⟨hid, hI⟩ := hI
    subst hid
    simp only [Node.activePre, Node.commitScript, Node.commitActive]
    have rg := Subs.commitAll_inRange s (id+1) hI
    exact track_under_head id inj h x _ _ _ _ (Subs.activePreAll_range s (id+1) hI) rg.2 rg.1
      (Subs.commitAll_track s (id+1) hA hC hI x)
theorem Subs.commitAt_track : (s : Subs) → (i k : Nat) → s.ActAt i → s.COKAt i → s.IdsFrom k → ∀ x : Key,
    track x (some (hasKey (s.activePreAt i) x)) (scriptItems (s.commitScriptAt i)) =
      some (hasKey (s.commitActiveAt i) x)
  | .nil, _, _, hA, _, _, _ => by simp [Subs.ActAt] at hA
  | .cons _ n r, 0, k, hA, hC, hI, x => by
    simp only [Subs.ActAt] at hA
    simp only [Subs.COKAt] at hC
    simp only [Subs.IdsFrom] at hI
    simp only [Subs.activePreAt, Subs.commitScriptAt, Subs.commitActiveAt]
    exact Node.commit_track n k hA.1 hC hI.1 x
  | .cons _ n r, i+1, k, hA, hC, hI, x => by
    simp only [Subs.ActAt] at hA
    simp only [Subs.COKAt] at hC
    simp only [Subs.IdsFrom] at hI
    simp only [Subs.activePreAt, Subs.commitScriptAt, Subs.commitActiveAt]
    exact Subs.commitAt_track r i (k + n.size) hA.2 hC hI.2 x
theorem Subs.commitAll_track : (s : Subs) → (k : Nat) → s.ActAll → s.COKAll → s.IdsFrom k → ∀ x : Key,
    track x (some (hasKey s.activePreAll x)) (scriptItems s.commitScriptAll) =
      some (hasKey s.commitActiveAll x)
  | .nil, _, _, _, _, x => by simp [Subs.activePreAll, Subs.commitScriptAll, Subs.commitActiveAll, scriptItems, track]
  | .cons _ n r, k, hA, hC, hI, x => by
    simp only [Subs.ActAll] at hA
    simp only [Subs.COKAll] at hC
    simp only [Subs.IdsFrom] at hI
    simp only [Subs.activePreAll, Subs.commitScriptAll, Subs.commitActiveAll, scriptItems_append,
      hasKey_append, track_append]
    have rn := Node.commit_inRange n k hI.1
    have rr := Subs.commitAll_inRange r (k + n.size) hI.2
    by_cases hx : x.1 < k + n.size
    · have ho : x.1 < k + n.size ∨ k + n.size + r.size ≤ x.1 := Or.inl hx
      rw [hasKey_of_outside (Subs.activePreAll_range r (k + n.size) hI.2) x ho, hasKey_of_outside rr.2 x ho,
        Bool.or_false, Bool.or_false, Node.commit_track n k hA.1 hC.1 hI.1 x, track_of_outside rr.1 x ho]
    · have ho : x.1 < k ∨ k + n.size ≤ x.1 := Or.inr (by omega)
      rw [hasKey_of_outside (Node.activePre_range n k hI.1) x ho, hasKey_of_outside rn.2 x ho,
        Bool.false_or, Bool.false_or, track_of_outside rn.1 x ho]
      exact Subs.commitAll_track r (k + n.size) hA.2 hC.2 hI.2 x
end


end Hfsm
