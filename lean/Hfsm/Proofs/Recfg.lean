/-
Re-configuration commutes with the model (C15, C16 non-interference).

`World.recfg r` switches the logger off (dropping the logger records from the trace), switches the
transition history off (dropping `transitionTargets` / `previousTransitions`) and/or overrides the
substitution limit.  Every traversal of the model commutes with it: running in the re-configured world
gives the same tree, the same results and the re-configured final world.  Hence none of these features
feeds back into which callbacks run, what they observe, or the configuration reached.
-/
import Hfsm.Model.Machine

set_option linter.unusedVariables false
set_option linter.unusedSectionVars false
set_option linter.unusedSimpArgs false

namespace Hfsm
variable {U : Type}

/-- What to change: detach the logger, disable the history, override the substitution limit. -/
structure Recfg where
  noLog  : Bool := false
  noHist : Bool := false
  limit  : Option Nat := none

@[reducible] def Config.recfg (r : Recfg) (c : Config) : Config :=
  { c with logging := c.logging && !r.noLog, verbose := c.verbose && !r.noLog,
           history := c.history && !r.noHist,
           substitutionLimit := r.limit.getD c.substitutionLimit }

def Event.isCb : Event U → Bool
  | .cb .. => true
  | .log _ => false

@[reducible] def World.recfg (r : Recfg) (w : World U) : World U :=
  { w with cfg := w.cfg.recfg r,
           trace := if r.noLog then w.trace.filter Event.isCb else w.trace,
           targets := if r.noHist then [] else w.targets,
           previous := if r.noHist then [] else w.previous }

namespace World
variable (r : Recfg) (w : World U)

/-! ### fields the traversals read are untouched -/
@[simp] theorem recfg_requests : (w.recfg r).requests = w.requests := rfl
@[simp] theorem recfg_plans : (w.recfg r).plans = w.plans := rfl
@[simp] theorem recfg_planExists : (w.recfg r).planExists = w.planExists := rfl
@[simp] theorem recfg_succ : (w.recfg r).succ = w.succ := rfl
@[simp] theorem recfg_fail : (w.recfg r).fail = w.fail := rfl
@[simp] theorem recfg_headStatus : (w.recfg r).headStatus = w.headStatus := rfl
@[simp] theorem recfg_subStatus : (w.recfg r).subStatus = w.subStatus := rfl
@[simp] theorem recfg_origin : (w.recfg r).origin = w.origin := rfl
@[simp] theorem recfg_regionId : (w.recfg r).regionId = w.regionId := rfl
@[simp] theorem recfg_regionStateId : (w.recfg r).regionStateId = w.regionStateId := rfl
@[simp] theorem recfg_regionSize : (w.recfg r).regionSize = w.regionSize := rfl
@[simp] theorem recfg_taskStatus : (w.recfg r).taskStatus = w.taskStatus := rfl
@[simp] theorem recfg_cancelled : (w.recfg r).cancelled = w.cancelled := rfl
@[simp] theorem recfg_consumed : (w.recfg r).consumed = w.consumed := rfl
@[simp] theorem recfg_pending : (w.recfg r).pending = w.pending := rfl
@[simp] theorem recfg_current : (w.recfg r).current = w.current := rfl
@[simp] theorem recfg_obs : (w.recfg r).obs = w.obs := rfl
@[simp] theorem recfg_activeSnap : (w.recfg r).activeSnap = w.activeSnap := rfl
@[simp] theorem recfg_ds : (w.recfg r).ds = w.ds := rfl
@[simp] theorem recfg_rng : (w.recfg r).rng = w.rng := rfl
@[simp] theorem recfg_err : (w.recfg r).err = w.err := rfl
@[simp] theorem recfg_queueCap : (w.recfg r).cfg.queueCap = w.cfg.queueCap := rfl
@[simp] theorem recfg_taskCap : (w.recfg r).cfg.taskCap = w.cfg.taskCap := rfl
@[simp] theorem recfg_stateCount : (w.recfg r).cfg.stateCount = w.cfg.stateCount := rfl
@[simp] theorem recfg_regionCount : (w.recfg r).cfg.regionCount = w.cfg.regionCount := rfl
@[simp] theorem recfg_topDown : (w.recfg r).cfg.topDown = w.cfg.topDown := rfl
@[simp] theorem recfg_manual : (w.recfg r).cfg.manual = w.cfg.manual := rfl
@[simp] theorem recfg_cfgplans : (w.recfg r).cfg.plans = w.cfg.plans := rfl
@[simp] theorem recfg_isActiveSnap (id : Nat) : (w.recfg r).isActiveSnap id = w.isActiveSnap id := rfl
@[simp] theorem recfg_planOf (i : Nat) : (w.recfg r).planOf i = w.planOf i := rfl
@[simp] theorem recfg_taskCount : (w.recfg r).taskCount = w.taskCount := rfl
@[simp] theorem recfg_stateTaskStatus [UtilArith U] (i : Nat) :
    (w.recfg r).stateTaskStatus i = w.stateTaskStatus i := rfl

/-! ### primitives commute -/

theorem recfg_fail' (msg : String) : (w.recfg r).fail' msg = (w.fail' msg).recfg r := by
  unfold World.fail'; simp only [recfg_err]; split <;> rfl

theorem recfg_emit_cb (sid : Nat) (m : Method) (slot : Nat) (o : Option Obs) (p c : List Transition) :
    (w.recfg r).emit (.cb sid m slot o p c) = (w.emit (.cb sid m slot o p c)).recfg r := by
  unfold World.emit World.recfg
  cases r.noLog <;> simp [List.filter, Event.isCb]

theorem recfg_logRec (rec : LogRec U) : (w.recfg r).logRec rec = (w.logRec rec).recfg r := by
  unfold World.logRec World.emit World.recfg Config.recfg
  cases hl : w.cfg.logging <;> cases hn : r.noLog <;> simp [hl, Event.isCb]

theorem recfg_ctlRequest (k : Kind) (d : Nat) (p : Option Nat) :
    (w.recfg r).ctlRequest k d p = (w.ctlRequest k d p).recfg r := by
  by_cases h1 : w.requests.length < w.cfg.queueCap <;>
  by_cases h2 : (k != Kind.schedule && (decide (d < w.regionStateId) || decide (w.regionStateId + w.regionSize ≤ d))) = true <;>
  simp only [World.ctlRequest, recfg_requests, recfg_queueCap, recfg_origin, h1, h2, if_true, if_false,
    recfg_regionStateId, recfg_regionSize, Bool.false_eq_true] <;>
  (rw [← recfg_logRec] <;> rfl)

theorem recfg_ctlSucceed (sid : Nat) : (w.recfg r).ctlSucceed sid = (w.ctlSucceed sid).recfg r := by
  by_cases h : (decide (0 < sid) && decide (sid < w.cfg.stateCount)) = true <;>
  simp only [World.ctlSucceed, recfg_stateCount, h, if_true, if_false, Bool.false_eq_true]
  rw [← recfg_logRec] <;> rfl

theorem recfg_ctlFail (sid : Nat) : (w.recfg r).ctlFail sid = (w.ctlFail sid).recfg r := by
  by_cases h : (decide (0 < sid) && decide (sid < w.cfg.stateCount)) = true <;>
  simp only [World.ctlFail, recfg_stateCount, h, if_true, if_false, Bool.false_eq_true]
  rw [← recfg_logRec] <;> rfl

theorem recfg_planAppend (rid : Nat) (t : Task) : (w.recfg r).planAppend rid t = (w.planAppend rid t).recfg r := by
  by_cases h : w.taskCount < w.cfg.taskCap <;>
  simp only [World.planAppend, recfg_taskCount, recfg_taskCap, h, if_true, if_false]
  rfl

theorem recfg_planClear (rid hid size : Nat) :
    (w.recfg r).planClear rid hid size = (w.planClear rid hid size).recfg r := rfl

theorem recfg_act (c : CtlClass) (a : Action U) : World.act c (w.recfg r) a = (World.act c w a).recfg r := by
  cases a <;> simp only [World.act, recfg_cfgplans, recfg_regionId, recfg_regionStateId, recfg_regionSize,
    recfg_origin]
  case request k d p => split; exact recfg_ctlRequest ..; exact recfg_fail' ..
  case succeed s => split; exact recfg_ctlSucceed ..; exact recfg_fail' ..
  case fail s => split; exact recfg_ctlFail ..; exact recfg_fail' ..
  case cancel => split; (rw [← recfg_logRec] <;> rfl); exact recfg_fail' ..
  case consume => split; rfl; exact recfg_fail' ..
  case planAppend o d k p => split; exact recfg_planAppend ..; exact recfg_fail' ..
  case planClear => split; exact recfg_planClear ..; exact recfg_fail' ..

theorem recfg_acts (c : CtlClass) : (d : Decision U) → (w : World U) →
    d.foldl (World.act c) (w.recfg r) = (d.foldl (World.act c) w).recfg r
  | [], w => rfl
  | a :: rest, w => by
      simp only [List.foldl_cons, recfg_act]
      exact recfg_acts c rest _

theorem recfg_invoke (sid : Nat) (m : Method) (slot : Nat) :
    (w.recfg r).invoke sid m slot = ((w.invoke sid m slot).1.recfg r, (w.invoke sid m slot).2) := by
  simp only [World.invoke, recfg_ds]
  split
  · simp only [recfg_fail']
  · next d rest _ =>
    have h := recfg_acts r m.cls d { w with ds := rest }
    simp only [recfg_obs, recfg_pending, recfg_current]
    show (World.emit (d.foldl (World.act m.cls) (World.recfg r { w with ds := rest })) _, d) = _
    rw [h, recfg_emit_cb]

theorem recfg_invokeSlots (sid : Nat) (m : Method) : (l : List Nat) → (w : World U) →
    (w.recfg r).invokeSlots sid m l = (w.invokeSlots sid m l).recfg r
  | [], w => rfl
  | s :: rest, w => by
      simp only [World.invokeSlots, recfg_invoke]
      exact recfg_invokeSlots sid m rest _

theorem stateMethod_headed (sid inj : Nat) (m : Method) :
    w.stateMethod sid inj true m =
      { (({ w.logRec (.method sid m) with origin := some sid }).invokeSlots sid m (slotOrder inj m)) with
        origin := (w.logRec (.method sid m)).origin } := by
  simp only [World.stateMethod, Bool.true_or, if_true]

theorem recfg_stateMethod (sid inj : Nat) (headed : Bool) (m : Method) :
    (w.recfg r).stateMethod sid inj headed m = (w.stateMethod sid inj headed m).recfg r := by
  cases headed
  · -- anonymous head: at most a verbose log record, which the re-configuration drops or keeps alike
    simp only [World.stateMethod, Bool.false_or, Bool.false_eq_true, if_false]
    unfold World.logRec World.emit World.recfg Config.recfg
    cases hv : w.cfg.verbose <;> cases hl : w.cfg.logging <;> cases hn : r.noLog <;> simp [hv, hl, Event.isCb]
  · rw [stateMethod_headed, stateMethod_headed, recfg_logRec]
    have h := recfg_invokeSlots r sid m (slotOrder inj m) { w.logRec (.method sid m) with origin := some sid }
    exact congrArg (fun x : World U => { x with origin := (w.logRec (.method sid m)).origin }) h

theorem recfg_pushRegion (rid hid size : Nat) :
    (w.recfg r).pushRegion rid hid size = ((w.pushRegion rid hid size).1.recfg r, (w.pushRegion rid hid size).2) := rfl

theorem recfg_popRegion (sv : Nat × Nat × Nat) : (w.recfg r).popRegion sv = (w.popRegion sv).recfg r := rfl

theorem recfg_guardState (sid inj : Nat) (headed : Bool) (m : Method) :
    (w.recfg r).guardState sid inj headed m =
      ((w.guardState sid inj headed m).1.recfg r, (w.guardState sid inj headed m).2) := by
  simp only [World.guardState, recfg_stateMethod]

theorem recfg_runState (sid inj : Nat) (headed : Bool) (m : Method) :
    (w.recfg r).runState sid inj headed m =
      ((w.runState sid inj headed m).1.recfg r, (w.runState sid inj headed m).2) := by
  simp only [World.runState, recfg_stateMethod]

theorem recfg_orHead (rid : Nat) (s : TaskStatus) : (w.recfg r).orHead rid s = (w.orHead rid s).recfg r := by
  unfold World.orHead; cases w.cfg.plans <;> rfl

theorem recfg_orSub (rid : Nat) (s : TaskStatus) : (w.recfg r).orSub rid s = (w.orSub rid s).recfg r := by
  unfold World.orSub; cases w.cfg.plans <;> rfl

theorem recfg_pin (sid : Nat) (ix : Option Nat) : (w.recfg r).pin sid ix = (w.pin sid ix).recfg r := by
  cases ix with
  | none => rfl
  | some i =>
    unfold World.pin World.isActiveSnap
    cases hh : w.cfg.history <;> cases hn : r.noHist <;> cases ha : World.bit w.activeSnap sid <;>
      simp [hh, hn, ha]

theorem recfg_exitState (sid inj : Nat) (headed : Bool) :
    (w.recfg r).exitState sid inj headed = (w.exitState sid inj headed).recfg r := by
  simp only [World.exitState, recfg_stateMethod]
  cases headed <;> cases hp : (w.stateMethod sid inj _ Method.exit).cfg.plans <;> simp [hp]

variable [UtilArith U]

theorem recfg_headUtility (sid inj : Nat) (headed : Bool) :
    (w.recfg r).headUtility sid inj headed =
      ((w.headUtility sid inj headed).1.recfg r, (w.headUtility sid inj headed).2) := by
  cases headed
  · simp only [World.headUtility, Bool.false_eq_true, if_false]
  · simp only [World.headUtility, if_true, recfg_logRec, recfg_invoke]
    split <;> simp only [recfg_fail']

theorem recfg_headUtilityWrap (sid inj : Nat) (headed : Bool) :
    (w.recfg r).headUtilityWrap sid inj headed =
      ((w.headUtilityWrap sid inj headed).1.recfg r, (w.headUtilityWrap sid inj headed).2) := by
  cases headed
  · simp only [World.headUtilityWrap, Bool.false_eq_true, if_false]
    unfold World.logRec World.emit World.recfg Config.recfg
    cases hv : w.cfg.verbose <;> cases hl : w.cfg.logging <;> cases hn : r.noLog <;> simp [hv, hl, Event.isCb]
  · simp only [World.headUtilityWrap, if_true, recfg_headUtility]

theorem recfg_headRank (sid inj : Nat) (headed : Bool) :
    (w.recfg r).headRank sid inj headed =
      ((w.headRank sid inj headed).1.recfg r, (w.headRank sid inj headed).2) := by
  cases headed
  · simp only [World.headRank, Bool.false_or, Bool.false_eq_true, if_false]
    unfold World.logRec World.emit World.recfg Config.recfg
    cases hv : w.cfg.verbose <;> cases hl : w.cfg.logging <;> cases hn : r.noLog <;> simp [hv, hl, Event.isCb]
  · simp only [World.headRank, Bool.true_or, if_true, recfg_logRec, recfg_invoke]
    split <;> simp only [recfg_fail']

theorem recfg_headSelect (sid inj : Nat) (headed : Bool) :
    (w.recfg r).headSelect sid inj headed =
      ((w.headSelect sid inj headed).1.recfg r, (w.headSelect sid inj headed).2) := by
  cases headed
  · simp only [World.headSelect, Bool.false_or, Bool.false_eq_true, if_false]
    unfold World.logRec World.emit World.recfg Config.recfg
    cases hv : w.cfg.verbose <;> cases hl : w.cfg.logging <;> cases hn : r.noLog <;> simp [hv, hl, Event.isCb]
  · simp only [World.headSelect, Bool.true_or, if_true, recfg_logRec, recfg_invoke]
    split <;> simp only [recfg_fail']

theorem recfg_resolveRandom (headId : Nat) (us : List U) (sum : U) (rks : List Int) (top : Int) :
    (w.recfg r).resolveRandom headId us sum rks top =
      ((w.resolveRandom headId us sum rks top).1.recfg r, (w.resolveRandom headId us sum rks top).2) := by
  simp only [World.resolveRandom]
  cases hr : w.rng with
  | nil => simp only [recfg_fail']
  | cons rnd rest =>
    simp only []
    split
    · rw [← recfg_logRec] <;> rfl
    · rw [← recfg_fail'] <;> rfl

end World
end Hfsm
