/-
The substitution loop `Mach.rounds` taken apart: one iteration (`roundStep`), a ghost log of the
iterations (`roundsLog`), and what one iteration does to the world and to the tree.
-/
import Hfsm.Proofs.ApplyStep
import Hfsm.Proofs.Payload
import Hfsm.Proofs.GuardCancel
import Hfsm.Proofs.TreeFrame

set_option linter.unusedSectionVars false

namespace Hfsm
variable {U : Type} [UtilArith U]

namespace Mach

/-- How one iteration of the substitution loop ended. -/
inductive Outcome
  | unchanged   -- the requests did not alter the marks: dropped, no guards consulted
  | approved    -- guards consulted, none cancelled: the round is appended to `currentTransitions`
  | vetoed      -- a guard cancelled: marks restored from the backup
  deriving DecidableEq, Repr

/-- One iteration of the loop of `R_::processTransitions` / `R_::initialEnter` (the request queue is not
empty): new machine, new backup, new `currentTransitions`, outcome. -/
def roundStep (initial : Bool) (m : Mach U) (backup : Node) (current : List Transition) :
    Mach U × Node × List Transition × Outcome :=
  let reqs := m.w.requests
  let m1 := m.applyAll reqs 0
  if m1.root.marksDiffer backup then
    let m2 : Mach U := { m1 with w := { m1.w with requests := [] } }
    let r := if initial then m2.approvedByEntryGuards current reqs else m2.approvedByGuards current reqs
    if r.2 then (r.1, r.1.root, current ++ reqs, .approved)
    else ({ r.1 with root := r.1.root.restoreMarks backup, w := if initial then r.1.w else r.1.w.clearTargets },
          backup, current, .vetoed)
  else ({ m1 with w := { m1.w with requests := [] } }, backup, current, .unchanged)

theorem rounds_zero (initial : Bool) (m : Mach U) (backup : Node) (current : List Transition) :
    rounds initial 0 m backup current = (m, current) := by
  simp only [rounds]

/-- `rounds` is the iteration of `roundStep` while requests are queued, at most `fuel` times. -/
theorem rounds_succ (initial : Bool) (fuel : Nat) (m : Mach U) (backup : Node) (current : List Transition) :
    rounds initial (fuel+1) m backup current =
      if m.w.requests.isEmpty then (m, current) else
        rounds initial fuel (roundStep initial m backup current).1 (roundStep initial m backup current).2.1
          (roundStep initial m backup current).2.2.1 := by
  rw [rounds]
  unfold roundStep
  by_cases he : m.w.requests.isEmpty = true
  · simp only [he, if_true]
  · simp only [he]
    by_cases hd : ((m.applyAll m.w.requests 0).root.marksDiffer backup) = true
    · simp only [hd, if_true]
      cases initial
      · simp only [Bool.false_eq_true, if_false]
        cases hr : (Mach.approvedByGuards { (m.applyAll m.w.requests 0) with w := { (m.applyAll m.w.requests 0).w with requests := [] } } current m.w.requests) with
        | mk m' ok => cases ok <;> simp only [Bool.false_eq_true, if_false, if_true]
      · simp only [if_true]
        cases hr : (Mach.approvedByEntryGuards { (m.applyAll m.w.requests 0) with w := { (m.applyAll m.w.requests 0).w with requests := [] } } current m.w.requests) with
        | mk m' ok => cases ok <;> simp only [Bool.false_eq_true, if_false, if_true]
    · simp only [hd]
      rfl

end Mach

/-! ### the apply phase -/

/-- What applying the queued requests with indices in `[lo, hi)` does to the world. -/
structure ApplyRel (lo hi : Nat) (w w' : World U) : Prop where
  cfg : w'.cfg = w.cfg
  requests : w'.requests = w.requests
  previous : w'.previous = w.previous
  pending : w'.pending = w.pending
  current : w'.current = w.current
  cancelled : w.cancelled = true → w'.cancelled = true
  trace : ∃ evs, w'.trace = evs ++ w.trace ∧ ∀ e ∈ evs, FwdEv e
  targetsLen : w'.targets.length = w.targets.length
  targets : ∀ s, w'.targets.getD s none = w.targets.getD s none ∨
    ∃ i, lo ≤ i ∧ i < hi ∧ w'.targets.getD s none = some i
  err : w.err.isSome → w'.err = w.err

theorem ApplyRel.rfl' (lo hi : Nat) (w : World U) : ApplyRel lo hi w w :=
  ⟨rfl, rfl, rfl, rfl, rfl, id, ⟨[], rfl, fun _ h => nomatch h⟩, rfl, fun _ => .inl rfl, fun _ => rfl⟩

theorem ApplyRel.trans {lo mid hi : Nat} {w w1 w2 : World U} (h1 : ApplyRel lo mid w w1) (h2 : ApplyRel mid hi w1 w2)
    (hlm : lo ≤ mid) (hmh : mid ≤ hi) : ApplyRel lo hi w w2 := by
  refine ⟨h2.cfg.trans h1.cfg, h2.requests.trans h1.requests, h2.previous.trans h1.previous,
    h2.pending.trans h1.pending, h2.current.trans h1.current, fun h => h2.cancelled (h1.cancelled h), ?_,
    h2.targetsLen.trans h1.targetsLen, ?_, ?_⟩
  · obtain ⟨v1, e1, p1⟩ := h1.trace
    obtain ⟨v2, e2, p2⟩ := h2.trace
    refine ⟨v2 ++ v1, by rw [e2, e1, List.append_assoc], ?_⟩
    intro e he
    rcases List.mem_append.mp he with he | he
    · exact p2 e he
    · exact p1 e he
  · intro s
    rcases h2.targets s with h | ⟨i, hi1, hi2, h⟩
    · rw [h]
      rcases h1.targets s with h | ⟨i, hi1, hi2, h⟩
      · exact .inl h
      · exact .inr ⟨i, hi1, by omega, h⟩
    · exact .inr ⟨i, by omega, hi2, h⟩
  · intro h
    rw [h2.err (by rw [h1.err h]; exact h), h1.err h]

theorem Frame.applyRel {i : Nat} {w w' : World U} (f : Frame (allowFwd (some i)) w w')
    (hr : w'.requests = w.requests) : ApplyRel i (i+1) w w' := by
  refine ⟨f.cfg, hr, f.previous, f.pending, f.current, f.cancelled, ?_, f.targetsLen, ?_, f.err⟩
  · obtain ⟨evs, e, p⟩ := f.trace
    exact ⟨evs, e, fun ev hev => (p ev hev).fwd⟩
  · intro s
    rcases f.targets s with h | ⟨j, hj, h⟩
    · exact .inl h
    · have hj' : some j = some i := hj
      cases hj'
      exact .inr ⟨i, Nat.le_refl _, Nat.lt_succ_self _, h⟩

theorem fwd_requests {idx : Option Nat} {w w' : World U} (h : Steps (allowFwd idx) w w') : w'.requests = w.requests :=
  h.requests_of_not_full (fun _ m hm => by have : m.cls = .const := hm; rw [this]; rfl) (fun h => h)

namespace Mach

theorem applyRequest_rel (m : Mach U) (t : Transition) (i : Nat) : ApplyRel i (i+1) m.w (m.applyRequest t i).w := by
  have snap : ApplyRel i i m.w (m.w.snapshot m.root true false) :=
    ⟨rfl, rfl, rfl, rfl, rfl, id, ⟨[], rfl, fun _ h => nomatch h⟩, rfl, fun _ => .inl rfl, fun _ => rfl⟩
  have key : ∀ w', Steps (allowFwd (some i)) (m.w.snapshot m.root true false) w' → ApplyRel i (i+1) m.w w' := by
    intro w' h
    exact snap.trans (h.frame.applyRel (fwd_requests h)) (Nat.le_refl _) (Nat.le_succ _)
  unfold applyRequest
  dsimp only
  split
  · split
    · exact key _ (Steps.refl _)
    · exact key _ ((Steps.refl _).fail' _)
  · split
    · exact key _ (Node.request_steps m.root ⟨_, some i⟩ _ _ (Steps.refl _))
    · split
      · exact key _ ((Steps.refl _).fail' _)
      · exact key _ (Node.fwdActive_steps _ ⟨_, some i⟩ _ _ (Steps.refl _))

theorem applyAll_rel : (ts : List Transition) → (m : Mach U) → (i : Nat) →
    ApplyRel i (i + ts.length) m.w (m.applyAll ts i).w
  | [], m, i => by simp only [applyAll]; exact ApplyRel.rfl' _ _ _
  | t :: rest, m, i => by
    simp only [applyAll, List.length_cons]
    have h1 : ApplyRel i (i+1) m.w (if t.dest < m.w.cfg.stateCount then m.applyRequest t i else m).w := by
      split
      · exact applyRequest_rel m t i
      · exact ApplyRel.rfl' _ _ _
    have h2 := applyAll_rel rest (if t.dest < m.w.cfg.stateCount then m.applyRequest t i else m) (i+1)
    have : i + (rest.length + 1) = i + 1 + rest.length := by omega
    rw [this]
    exact h1.trans h2 (Nat.le_succ _) (Nat.le_add_right _ _)

end Mach

/-! ### the apply phase of a replay: entries beyond the capacity of `previousTransitions` pin nothing -/

theorem ApplyRel.weaken {lo hi hi' : Nat} {w w' : World U} (h : ApplyRel lo hi w w') (hlh : lo ≤ hi) (hh : hi ≤ hi') :
    ApplyRel lo hi' w w' :=
  h.trans (ApplyRel.rfl' hi hi' w') hlh hh

/-- a forward pass with `index = INVALID_SHORT` pins nothing at all -/
theorem Frame.applyRelNone {w w' : World U} (f : Frame (allowFwd none) w w')
    (hr : w'.requests = w.requests) (lo : Nat) : ApplyRel lo lo w w' := by
  refine ⟨f.cfg, hr, f.previous, f.pending, f.current, f.cancelled, ?_, f.targetsLen, ?_, f.err⟩
  · obtain ⟨evs, e, p⟩ := f.trace
    exact ⟨evs, e, fun ev hev => (p ev hev).fwd⟩
  · intro s
    rcases f.targets s with h | ⟨j, hj, _⟩
    · exact .inl h
    · have hj' : some j = none := hj
      cases hj'

namespace Mach

theorem applyRequestNoPin_rel (m : Mach U) (t : Transition) (lo : Nat) :
    ApplyRel lo lo m.w (m.applyRequestNoPin t).w := by
  have snap : ApplyRel lo lo m.w (m.w.snapshot m.root true false) :=
    ⟨rfl, rfl, rfl, rfl, rfl, id, ⟨[], rfl, fun _ h => nomatch h⟩, rfl, fun _ => .inl rfl, fun _ => rfl⟩
  have key : ∀ w', Steps (allowFwd none) (m.w.snapshot m.root true false) w' → ApplyRel lo lo m.w w' := by
    intro w' h
    exact snap.trans (h.frame.applyRelNone (fwd_requests h) lo) (Nat.le_refl _) (Nat.le_refl _)
  unfold applyRequestNoPin
  dsimp only
  split
  · split
    · exact key _ (Steps.refl _)
    · exact key _ ((Steps.refl _).fail' _)
  · split
    · exact key _ (Node.request_steps m.root ⟨_, none⟩ _ _ (Steps.refl _))
    · split
      · exact key _ ((Steps.refl _).fail' _)
      · exact key _ (Node.fwdActive_steps _ ⟨_, none⟩ _ _ (Steps.refl _))

/-- nothing is pinned: `transitionTargets` is as it was -/
theorem applyRequestNoPin_targets (m : Mach U) (t : Transition) : (m.applyRequestNoPin t).w.targets = m.w.targets := by
  have h := applyRequestNoPin_rel m t 0
  apply List.ext_getElem?
  intro s
  have hl := h.targetsLen
  rcases h.targets s with h1 | ⟨i, hi1, hi2, _⟩
  · by_cases hs : s < m.w.targets.length
    · have hs' : s < (m.applyRequestNoPin t).w.targets.length := by rw [hl]; exact hs
      rw [List.getD_eq_getElem?_getD, List.getD_eq_getElem?_getD, List.getElem?_eq_getElem hs,
        List.getElem?_eq_getElem hs'] at h1
      rw [List.getElem?_eq_getElem hs, List.getElem?_eq_getElem hs']
      exact congrArg some h1
    · rw [List.getElem?_eq_none (by omega), List.getElem?_eq_none (by omega)]
  · omega

theorem applyStep_rel (m : Mach U) (x : Transition × Nat) : ApplyRel x.2 (x.2 + 1) m.w (applyStep m x).w := by
  unfold applyStep
  split
  · exact applyRequest_rel m x.1 x.2
  · exact (applyRequestNoPin_rel m x.1 x.2).weaken (Nat.le_refl _) (Nat.le_succ _)

theorem foldl_applyStep_cfg (l : List (Transition × Nat)) (m : Mach U) : (l.foldl applyStep m).w.cfg = m.w.cfg :=
  foldl_applyStep_inv (P := fun m' => m'.w.cfg = m.w.cfg)
    (fun m' t i h => (applyRequest_rel m' t i).cfg.trans h)
    (fun m' t h => (applyRequestNoPin_rel m' t 0).cfg.trans h) l m rfl

/-- The apply phase of a replay pins queue indices below `historyCap` (and below the length of the list) only:
every pin addresses a slot of `previousTransitions` that the replay fills. -/
theorem foldl_applyStep_rel : (ts : List Transition) → (m : Mach U) → (i : Nat) →
    ApplyRel i (max i (min (i + ts.length) m.w.cfg.historyCap)) m.w ((ts.zipIdx i).foldl applyStep m).w
  | [], m, i => by
    simp only [List.zipIdx_nil, List.foldl_nil]
    exact ApplyRel.rfl' _ _ _
  | t :: rest, m, i => by
    simp only [List.zipIdx_cons, List.foldl_cons, List.length_cons]
    have h1 := applyStep_rel m (t, i)
    have h2 := foldl_applyStep_rel rest (applyStep m (t, i)) (i+1)
    have hc : (applyStep m (t, i)).w.cfg = m.w.cfg := foldl_applyStep_cfg [(t, i)] m
    rw [hc] at h2
    dsimp only at h1
    by_cases hlt : i < m.w.cfg.historyCap
    · have e2 : max i (min (i + (rest.length + 1)) m.w.cfg.historyCap) =
          max (i + 1) (min (i + 1 + rest.length) m.w.cfg.historyCap) := by omega
      rw [e2]
      exact h1.trans h2 (Nat.le_succ _) (Nat.le_max_left _ _)
    · have e2 : max i (min (i + (rest.length + 1)) m.w.cfg.historyCap) = i := by omega
      have e3 : max (i + 1) (min (i + 1 + rest.length) m.w.cfg.historyCap) = i + 1 := by omega
      rw [e2]
      rw [e3] at h2
      -- beyond the capacity: neither this step nor the rest pins anything
      have h1' : ApplyRel i i m.w (applyStep m (t, i)).w := by
        unfold applyStep
        rw [if_neg hlt]
        exact applyRequestNoPin_rel m t i
      have h2' : ApplyRel i i (applyStep m (t, i)).w ((rest.zipIdx (i+1)).foldl applyStep (applyStep m (t, i))).w := by
        refine ⟨h2.cfg, h2.requests, h2.previous, h2.pending, h2.current, h2.cancelled, h2.trace, h2.targetsLen, ?_,
          h2.err⟩
        intro s
        rcases h2.targets s with h | ⟨j, hj1, hj2, _⟩
        · exact .inl h
        · omega
      exact h1'.trans h2' (Nat.le_refl _) (Nat.le_refl _)

theorem applyRequests_rel (m : Mach U) (ts : List Transition) :
    ApplyRel 0 (min ts.length m.w.cfg.historyCap) m.w.freshControl (m.applyRequests ts).1.w := by
  have h := foldl_applyStep_rel ts ({ m with w := m.w.freshControl } : Mach U) 0
  rw [Nat.zero_add, Nat.zero_max] at h
  exact h

/-- While the indices stay below `historyCap` the loop of `applyRequests` is the plain indexed one. -/
theorem foldl_applyStep_eq_of_fits : (l : List (Transition × Nat)) → (m : Mach U) →
    (∀ x ∈ l, x.2 < m.w.cfg.historyCap) →
    l.foldl applyStep m = l.foldl (fun m (x : Transition × Nat) => m.applyRequest x.1 x.2) m
  | [], _, _ => rfl
  | x :: rest, m, h => by
    simp only [List.foldl_cons]
    have e : applyStep m x = m.applyRequest x.1 x.2 := by
      unfold applyStep; rw [if_pos (h x List.mem_cons_self)]
    rw [e]
    exact foldl_applyStep_eq_of_fits rest _ (fun y hy => by
      rw [(applyRequest_rel m x.1 x.2).cfg]; exact h y (List.mem_cons_of_mem _ hy))

/-- **A history that fits `previousTransitions` is replayed as before the fix 6770c20**: every entry is applied with
its index. -/
theorem applyRequests_eq_of_fits (m : Mach U) (ts : List Transition) (hfit : ts.length ≤ m.w.cfg.historyCap) :
    m.applyRequests ts =
      (ts.zipIdx.foldl (fun m (x : Transition × Nat) => m.applyRequest x.1 x.2) ({ m with w := m.w.freshControl } : Mach U),
       (ts.zipIdx.foldl (fun m (x : Transition × Nat) => m.applyRequest x.1 x.2)
          ({ m with w := m.w.freshControl } : Mach U)).root.marksDiffer m.root) := by
  rw [applyRequests_eq, foldl_applyStep_eq_of_fits]
  intro x hx
  have := List.snd_lt_of_mem_zipIdx hx
  show x.2 < m.w.cfg.historyCap
  omega

/-! ### the guard phase -/

end Mach

/-- What consulting the guards for a round (pending `pend`, approved so far `curr`) does to the world:
`exitEvs` (older) then `entryEvs` (newer) are appended to the trace. -/
structure GuardRel (pend curr : List Transition) (ok : Bool) (w w' : World U)
    (entryEvs exitEvs : List (Event U)) : Prop where
  cfg : w'.cfg = w.cfg
  previous : w'.previous = w.previous
  targets : w'.targets = w.targets
  requests : ∃ add, w'.requests = w.requests ++ add
  trace : w'.trace = entryEvs ++ exitEvs ++ w.trace
  exitEv : ∀ e ∈ exitEvs, GuardEv .exitGuard pend curr e
  entryEv : ∀ e ∈ entryEvs, GuardEv .entryGuard pend curr e
  noCancel : ok = true → w'.cancelled = false
  err : w.err.isSome → w'.err = w.err

namespace Mach

theorem approvedByGuards_root (m : Mach U) (curr pend : List Transition) :
    (m.approvedByGuards curr pend).1.root = m.root := by
  unfold approvedByGuards; rfl

theorem approvedByGuards_rel (m : Mach U) (curr pend : List Transition) :
    ∃ entry exit, GuardRel pend curr (m.approvedByGuards curr pend).2 m.w (m.approvedByGuards curr pend).1.w entry exit := by
  unfold approvedByGuards
  dsimp only
  generalize hw0 : ({ m.w.freshControl with pending := pend, current := curr }).snapshot m.root true true = w0
  have e0 : w0.cfg = m.w.cfg ∧ w0.previous = m.w.previous ∧ w0.targets = m.w.targets ∧ w0.requests = m.w.requests ∧
      w0.trace = m.w.trace ∧ w0.cancelled = false ∧ w0.err = m.w.err ∧ w0.pending = pend ∧ w0.current = curr := by
    subst hw0; exact ⟨rfl, rfl, rfl, rfl, rfl, rfl, rfl, rfl, rfl⟩
  obtain ⟨e0c, e0p, e0t, e0r, e0tr, e0x, e0e, e0pd, e0cu⟩ := e0
  have s1 := Node.fwdExitGuard_steps m.root w0 w0 (Steps.refl _)
  have f1 := s1.frame
  have g1 := Node.fwdExitGuard_gok m.root w0
  generalize hr1 : m.root.fwdExitGuard w0 = r1 at s1 f1 g1
  obtain ⟨w1, ok1⟩ := r1
  dsimp only at s1 f1 g1 ⊢
  obtain ⟨ev1, et1, ep1⟩ := f1.trace
  obtain ⟨a1, er1⟩ := f1.requests
  cases ok1 with
  | false =>
    simp only [Bool.false_eq_true, if_false]
    refine ⟨[], ev1, f1.cfg.trans e0c, f1.previous.trans e0p, (s1.targets_of_no_pin (fun _ h => h)).trans e0t,
      ⟨a1, by rw [er1, e0r]⟩, by rw [et1, e0tr]; rfl, ?_, (fun _ h => nomatch h), (fun h => nomatch h),
      fun h => by rw [f1.err (by rw [e0e]; exact h), e0e]⟩
    intro e he
    have := (ep1 e he).exitGuard
    rwa [e0pd, e0cu] at this
  | true =>
    simp only [if_true]
    have s2 := Node.fwdEntryGuard_steps m.root w1 w1 (Steps.refl _)
    have f2 := s2.frame
    have g2 := Node.fwdEntryGuard_gok m.root w1
    generalize hr2 : m.root.fwdEntryGuard w1 = r2 at s2 f2 g2
    obtain ⟨w2, ok2⟩ := r2
    dsimp only at s2 f2 g2 ⊢
    obtain ⟨ev2, et2, ep2⟩ := f2.trace
    obtain ⟨a2, er2⟩ := f2.requests
    refine ⟨ev2, ev1, f2.cfg.trans (f1.cfg.trans e0c), f2.previous.trans (f1.previous.trans e0p),
      (s2.targets_of_no_pin (fun _ h => h)).trans ((s1.targets_of_no_pin (fun _ h => h)).trans e0t),
      ⟨a1 ++ a2, by rw [er2, er1, e0r, List.append_assoc]⟩,
      by rw [et2, et1, e0tr, List.append_assoc], ?_, ?_, ?_, ?_⟩
    · intro e he
      have := (ep1 e he).exitGuard
      rwa [e0pd, e0cu] at this
    · intro e he
      have := (ep2 e he).entryGuard
      rwa [f1.pending, f1.current, e0pd, e0cu] at this
    · intro h
      exact g2 (g1 e0x rfl) h
    · intro h
      have h1 := f1.err (by rw [e0e]; exact h)
      rw [f2.err (by rw [h1, e0e]; exact h), h1, e0e]

theorem approvedByEntryGuards_root (m : Mach U) (curr pend : List Transition) :
    (m.approvedByEntryGuards curr pend).1.root = m.root := by
  unfold approvedByEntryGuards; rfl

theorem approvedByEntryGuards_rel (m : Mach U) (curr pend : List Transition) :
    ∃ entry, GuardRel pend curr (m.approvedByEntryGuards curr pend).2 m.w (m.approvedByEntryGuards curr pend).1.w entry [] := by
  unfold approvedByEntryGuards
  dsimp only
  generalize hw0 : ({ m.w.freshControl with pending := pend, current := curr }).snapshot m.root true true = w0
  have e0 : w0.cfg = m.w.cfg ∧ w0.previous = m.w.previous ∧ w0.targets = m.w.targets ∧ w0.requests = m.w.requests ∧
      w0.trace = m.w.trace ∧ w0.cancelled = false ∧ w0.err = m.w.err ∧ w0.pending = pend ∧ w0.current = curr := by
    subst hw0; exact ⟨rfl, rfl, rfl, rfl, rfl, rfl, rfl, rfl, rfl⟩
  obtain ⟨e0c, e0p, e0t, e0r, e0tr, e0x, e0e, e0pd, e0cu⟩ := e0
  have s1 := Node.entryGuard_steps m.root w0 w0 (Steps.refl _)
  have f1 := s1.frame
  have g1 := Node.entryGuard_gok m.root w0
  generalize hr1 : m.root.entryGuard w0 = r1 at s1 f1 g1
  obtain ⟨w1, ok1⟩ := r1
  dsimp only at s1 f1 g1 ⊢
  obtain ⟨ev1, et1, ep1⟩ := f1.trace
  obtain ⟨a1, er1⟩ := f1.requests
  refine ⟨ev1, f1.cfg.trans e0c, f1.previous.trans e0p, (s1.targets_of_no_pin (fun _ h => h)).trans e0t,
    ⟨a1, by rw [er1, e0r]⟩, by rw [et1, e0tr, List.append_nil], (fun _ h => nomatch h), ?_, (fun h => g1 e0x h),
    fun h => by rw [f1.err (by rw [e0e]; exact h), e0e]⟩
  intro e he
  have := (ep1 e he).entryGuard
  rwa [e0pd, e0cu] at this

/-! ### what a round does to the tree -/

theorem applyRequest_frozen (m : Mach U) (t : Transition) (i : Nat) :
    (m.applyRequest t i).root.frozen = m.root.frozen := by
  unfold applyRequest
  dsimp only
  split
  · split
    · exact Node.frozen_of_noResumable (Node.schedule_noRes _ _)
    · rfl
  · split
    · exact Node.frozen_of_clearMarks (Node.request_clearMarks _ _ _)
    · split
      · rfl
      · exact Node.frozen_of_clearMarks ((Node.fwdActive_clearMarks _ _ _).trans (Node.mark_clearMarks _ _))

theorem applyRequest_clearMarks (m : Mach U) (t : Transition) (i : Nat) (hk : t.kind ≠ .schedule) :
    (m.applyRequest t i).root.clearMarks = m.root.clearMarks := by
  unfold applyRequest
  dsimp only
  split
  · next h => exact absurd h hk
  · split
    · exact Node.request_clearMarks _ _ _
    · split
      · rfl
      · exact (Node.fwdActive_clearMarks _ _ _).trans (Node.mark_clearMarks _ _)

theorem applyRequestNoPin_frozen (m : Mach U) (t : Transition) :
    (m.applyRequestNoPin t).root.frozen = m.root.frozen := by
  unfold applyRequestNoPin
  dsimp only
  split
  · split
    · exact Node.frozen_of_noResumable (Node.schedule_noRes _ _)
    · rfl
  · split
    · exact Node.frozen_of_clearMarks (Node.request_clearMarks _ _ _)
    · split
      · rfl
      · exact Node.frozen_of_clearMarks ((Node.fwdActive_clearMarks _ _ _).trans (Node.mark_clearMarks _ _))

theorem applyRequestNoPin_clearMarks (m : Mach U) (t : Transition) (hk : t.kind ≠ .schedule) :
    (m.applyRequestNoPin t).root.clearMarks = m.root.clearMarks := by
  unfold applyRequestNoPin
  dsimp only
  split
  · next h => exact absurd h hk
  · split
    · exact Node.request_clearMarks _ _ _
    · split
      · rfl
      · exact (Node.fwdActive_clearMarks _ _ _).trans (Node.mark_clearMarks _ _)

theorem applyRequests_frozen (m : Mach U) (ts : List Transition) : (m.applyRequests ts).1.root.frozen = m.root.frozen :=
  applyRequests_inv (P := fun m' => m'.root.frozen = m.root.frozen)
    (fun m' t i h => (applyRequest_frozen m' t i).trans h)
    (fun m' t h => (applyRequestNoPin_frozen m' t).trans h) m ts rfl

theorem applyAll_frozen : (ts : List Transition) → (m : Mach U) → (i : Nat) →
    (m.applyAll ts i).root.frozen = m.root.frozen
  | [], m, i => by simp only [applyAll]
  | t :: rest, m, i => by
    simp only [applyAll]
    rw [applyAll_frozen rest]
    split
    · exact applyRequest_frozen m t i
    · rfl

/-- Without `schedule` requests the apply phase changes request marks only. -/
theorem applyAll_clearMarks : (ts : List Transition) → (m : Mach U) → (i : Nat) →
    (∀ t ∈ ts, t.kind ≠ .schedule) → (m.applyAll ts i).root.clearMarks = m.root.clearMarks
  | [], m, i, _ => by simp only [applyAll]
  | t :: rest, m, i, h => by
    simp only [applyAll]
    rw [applyAll_clearMarks rest _ _ (fun t' h' => h t' (List.mem_cons_of_mem _ h'))]
    split
    · exact applyRequest_clearMarks m t i (h t List.mem_cons_self)
    · rfl

/-! ### one round -/

/-- What one round (`roundStep initial m backup current = (m', backup', current', outcome)`) does to the
world. `reqs` are the requests queued when the round starts. -/
structure RoundSpec (initial : Bool) (m : Mach U) (current : List Transition)
    (m' : Mach U) (current' : List Transition) (o : Outcome) (fwd exit entry : List (Event U)) : Prop where
  trace : m'.w.trace = entry ++ exit ++ fwd ++ m.w.trace
  fwdEv : ∀ e ∈ fwd, FwdEv e
  exitEv : ∀ e ∈ exit, GuardEv .exitGuard m.w.requests current e
  entryEv : ∀ e ∈ entry, GuardEv .entryGuard m.w.requests current e
  unchanged : o = .unchanged → exit = [] ∧ entry = [] ∧ m'.w.requests = []
  initialNoExit : initial = true → exit = []
  current : current' = if o = .approved then current ++ m.w.requests else current
  cfg : m'.w.cfg = m.w.cfg
  previous : m'.w.previous = m.w.previous
  noCancel : o = .approved → m'.w.cancelled = false
  err : m.w.err.isSome → m'.w.err = m.w.err
  targetsLen : m'.w.targets.length = m.w.targets.length
  targets : ∀ s, m'.w.targets.getD s none = m.w.targets.getD s none ∨ m'.w.targets.getD s none = none ∨
    ∃ i, i < m.w.requests.length ∧ m'.w.targets.getD s none = some i
  vetoTargets : o = .vetoed → initial = false → m.w.cfg.history = true → ∀ s, m'.w.targets.getD s none = none

theorem World.clearTargets_getD (w : World U) (s : Nat) (h : w.cfg.history = true) :
    w.clearTargets.targets.getD s none = none := by
  unfold World.clearTargets
  rw [if_pos h]
  dsimp only
  rw [List.getD_eq_getElem?_getD]
  by_cases hs : s < w.cfg.stateCount
  · rw [List.getElem?_replicate_of_lt hs]; rfl
  · rw [List.getElem?_eq_none (by rw [List.length_replicate]; omega)]; rfl

theorem roundStep_spec (initial : Bool) (m : Mach U) (backup : Node) (current : List Transition)
    (hlen : m.w.targets.length = m.w.cfg.stateCount ∨ m.w.cfg.history = false) :
    ∃ fwd exit entry, RoundSpec initial m current (roundStep initial m backup current).1
      (roundStep initial m backup current).2.2.1 (roundStep initial m backup current).2.2.2 fwd exit entry := by
  have ha := applyAll_rel m.w.requests m 0
  obtain ⟨fwd, hft, hfp⟩ := ha.trace
  have htg : ∀ s, (m.applyAll m.w.requests 0).w.targets.getD s none = m.w.targets.getD s none ∨
      ∃ i, i < m.w.requests.length ∧ (m.applyAll m.w.requests 0).w.targets.getD s none = some i := by
    intro s
    rcases ha.targets s with h | ⟨i, _, hi, h⟩
    · exact .inl h
    · exact .inr ⟨i, by omega, h⟩
  unfold roundStep
  dsimp only
  by_cases hd : ((m.applyAll m.w.requests 0).root.marksDiffer backup) = true
  · simp only [hd, if_true]
    generalize hm2 : ({ (m.applyAll m.w.requests 0) with w := { (m.applyAll m.w.requests 0).w with requests := [] } } : Mach U) = m2
    have e2 : m2.w.cfg = (m.applyAll m.w.requests 0).w.cfg ∧ m2.w.previous = (m.applyAll m.w.requests 0).w.previous ∧
        m2.w.targets = (m.applyAll m.w.requests 0).w.targets ∧ m2.w.trace = (m.applyAll m.w.requests 0).w.trace ∧
        m2.w.err = (m.applyAll m.w.requests 0).w.err ∧ m2.w.requests = [] := by
      subst hm2; exact ⟨rfl, rfl, rfl, rfl, rfl, rfl⟩
    obtain ⟨e2c, e2p, e2t, e2tr, e2e, e2r⟩ := e2
    have hg : ∃ entry exit, GuardRel m.w.requests current
        (if initial = true then m2.approvedByEntryGuards current m.w.requests else m2.approvedByGuards current m.w.requests).2
        m2.w (if initial = true then m2.approvedByEntryGuards current m.w.requests else m2.approvedByGuards current m.w.requests).1.w
        entry exit ∧ (initial = true → exit = []) := by
      split
      · obtain ⟨entry, h⟩ := approvedByEntryGuards_rel m2 current m.w.requests
        exact ⟨entry, [], h, fun _ => rfl⟩
      · next hi =>
        obtain ⟨entry, exit, h⟩ := approvedByGuards_rel m2 current m.w.requests
        exact ⟨entry, exit, h, fun h' => absurd h' hi⟩
    have hroot : (if initial = true then m2.approvedByEntryGuards current m.w.requests else m2.approvedByGuards current m.w.requests).1.root = m2.root := by
      split
      · exact approvedByEntryGuards_root _ _ _
      · exact approvedByGuards_root _ _ _
    generalize (if initial = true then m2.approvedByEntryGuards current m.w.requests else m2.approvedByGuards current m.w.requests) = r at hg hroot
    obtain ⟨m3, ok⟩ := r
    obtain ⟨entry, exit, hg, hie⟩ := hg
    dsimp only at hg hroot ⊢
    have htr : m3.w.trace = entry ++ exit ++ fwd ++ m.w.trace := by
      rw [hg.trace, e2tr, hft, List.append_assoc (entry ++ exit)]
    have herr : m.w.err.isSome → m3.w.err = m.w.err := by
      intro h
      have h1 := ha.err h
      rw [hg.err (by rw [e2e, h1]; exact h), e2e, h1]
    cases ok with
    | true =>
      simp only [if_true]
      refine ⟨fwd, exit, entry, htr, hfp, hg.exitEv, hg.entryEv, (fun h => nomatch h), hie, by simp,
        by rw [hg.cfg, e2c, ha.cfg], by rw [hg.previous, e2p, ha.previous], fun _ => hg.noCancel rfl, herr,
        by rw [hg.targets, e2t, ha.targetsLen], ?_, (fun h => nomatch h)⟩
      intro s
      rw [hg.targets, e2t]
      rcases htg s with h | h
      · exact .inl h
      · exact .inr (.inr h)
    | false =>
      simp only [Bool.false_eq_true, if_false]
      have hcfg : m3.w.cfg = m.w.cfg := by rw [hg.cfg, e2c, ha.cfg]
      refine ⟨fwd, exit, entry, ?_, hfp, hg.exitEv, hg.entryEv, (fun h => nomatch h), hie, by simp, ?_, ?_,
        (fun h => nomatch h), ?_, ?_, ?_, ?_⟩
      · dsimp only; split
        · exact htr
        · unfold World.clearTargets; split <;> exact htr
      · dsimp only; split
        · exact hcfg
        · unfold World.clearTargets; split <;> exact hcfg
      · dsimp only; split
        · rw [hg.previous, e2p, ha.previous]
        · unfold World.clearTargets; split <;> rw [hg.previous, e2p, ha.previous]
      · dsimp only; split
        · exact herr
        · unfold World.clearTargets; split <;> exact herr
      · dsimp only; split
        · rw [hg.targets, e2t, ha.targetsLen]
        · unfold World.clearTargets; split
          · next hh =>
            dsimp only
            rw [List.length_replicate, hcfg]
            rcases hlen with h | h
            · exact h.symm
            · rw [hcfg] at hh; rw [h] at hh; cases hh
          · rw [hg.targets, e2t, ha.targetsLen]
      · intro s
        dsimp only; split
        · rw [hg.targets, e2t]
          rcases htg s with h | h
          · exact .inl h
          · exact .inr (.inr h)
        · by_cases hh : m3.w.cfg.history = true
          · exact .inr (.inl (World.clearTargets_getD _ s hh))
          · unfold World.clearTargets; rw [if_neg hh, hg.targets, e2t]
            rcases htg s with h | h
            · exact .inl h
            · exact .inr (.inr h)
      · intro _ hi hh s
        dsimp only
        rw [if_neg (by rw [hi]; exact Bool.false_ne_true)]
        exact World.clearTargets_getD _ s (by rw [hcfg]; exact hh)
  · simp only [hd]
    refine ⟨fwd, [], [], ?_, hfp, (fun _ h => nomatch h), (fun _ h => nomatch h), fun _ => ⟨rfl, rfl, rfl⟩,
      fun _ => rfl, by simp, ha.cfg, ha.previous, (fun h => nomatch h), ha.err, ha.targetsLen, ?_, (fun h => nomatch h)⟩
    · rw [hft]; rfl
    · intro s
      rcases htg s with h | h
      · exact .inl h
      · exact .inr (.inr h)

/-- What one round does to the tree: the guards never touch it; an approved or unchanged round keeps the
applied marks, a vetoed round restores the backup (keeping scheduled resumable marks). -/
theorem roundStep_tree (initial : Bool) (m : Mach U) (backup : Node) (current : List Transition)
    (hinv : m.root.frozen = backup.frozen) :
    let r := roundStep initial m backup current
    let applied := (m.applyAll m.w.requests 0).root
    (r.2.2.2 = .approved → r.2.1 = applied ∧ r.1.root = applied) ∧
    (r.2.2.2 = .vetoed → r.2.1 = backup ∧ r.1.root = backup.withResumableOf applied) ∧
    (r.2.2.2 = .unchanged → r.2.1 = backup ∧ r.1.root = applied) ∧
    r.1.root.frozen = r.2.1.frozen ∧ r.1.root.marksDiffer r.2.1 = false := by
  have hfa : (m.applyAll m.w.requests 0).root.frozen = backup.frozen := (applyAll_frozen _ _ _).trans hinv
  unfold roundStep
  dsimp only
  by_cases hd : ((m.applyAll m.w.requests 0).root.marksDiffer backup) = true
  · simp only [hd, if_true]
    generalize hm2 : ({ (m.applyAll m.w.requests 0) with w := { (m.applyAll m.w.requests 0).w with requests := [] } } : Mach U) = m2
    have e2 : m2.root = (m.applyAll m.w.requests 0).root := by subst hm2; rfl
    have hroot : (if initial = true then m2.approvedByEntryGuards current m.w.requests else m2.approvedByGuards current m.w.requests).1.root = m2.root := by
      split
      · exact approvedByEntryGuards_root _ _ _
      · exact approvedByGuards_root _ _ _
    generalize (if initial = true then m2.approvedByEntryGuards current m.w.requests else m2.approvedByGuards current m.w.requests) = r at hroot
    obtain ⟨m3, ok⟩ := r
    dsimp only at hroot ⊢
    cases ok with
    | true =>
      simp only [if_true]
      refine ⟨fun _ => ⟨by rw [hroot, e2], by rw [hroot, e2]⟩, ?_, ?_, ?_, Node.marksDiffer_self _⟩
      all_goals first | rfl | trivial | (intro h; cases h)
    | false =>
      simp only [Bool.false_eq_true, if_false]
      have hf3 : m3.root.frozen = backup.frozen := by rw [hroot, e2]; exact hfa
      have heq : m3.root.restoreMarks backup = backup.withResumableOf (m.applyAll m.w.requests 0).root := by
        rw [Node.restoreMarks_eq _ _ hf3, hroot, e2]
      refine ⟨?_, fun _ => ⟨by first | rfl | trivial, heq⟩, ?_, ?_, ?_⟩
      · intro h; cases h
      · intro h; cases h
      · rw [heq]; exact Node.withResumableOf_frozen _ _
      · rw [heq]; exact Node.withResumableOf_marksDiffer _ _
  · simp only [hd]
    refine ⟨?_, ?_, fun _ => ⟨by first | rfl | trivial, by first | rfl | trivial⟩, hfa, ?_⟩
    · intro h; cases h
    · intro h; cases h
    · simpa using hd

/-! ### the loop -/

/-- Ghost log of the loop: the requests and the outcome of every round, oldest first. -/
def roundsLog (initial : Bool) : Nat → Mach U → Node → List Transition → List (List Transition × Outcome)
  | 0, _, _, _ => []
  | fuel+1, m, backup, current =>
    if m.w.requests.isEmpty then [] else
      (m.w.requests, (roundStep initial m backup current).2.2.2) ::
        roundsLog initial fuel (roundStep initial m backup current).1 (roundStep initial m backup current).2.1
          (roundStep initial m backup current).2.2.1

theorem roundsLog_length_le (initial : Bool) : (fuel : Nat) → (m : Mach U) → (backup : Node) →
    (current : List Transition) → (roundsLog initial fuel m backup current).length ≤ fuel
  | 0, _, _, _ => by simp only [roundsLog, List.length_nil, Nat.le_refl]
  | fuel+1, m, backup, current => by
    simp only [roundsLog]
    split
    · simp only [List.length_nil, Nat.zero_le]
    · simp only [List.length_cons]
      exact Nat.succ_le_succ (roundsLog_length_le initial fuel _ _ _)

/-- the requests of the approved rounds of a log, concatenated in order -/
def approvedOf : List (List Transition × Outcome) → List Transition
  | [] => []
  | (reqs, o) :: rest => (if o = .approved then reqs else []) ++ approvedOf rest

end Mach

/-- The events a run of the substitution loop (at most `n` rounds, `curr` approved so far) appends to the
trace, newest first, and its log.  Every round contributes forward-pass events, then exit-guard events,
then entry-guard events, the guard events showing that round's requests as pending. -/
inductive LoopRun : Nat → List Transition → List (Event U) → List (List Transition × Mach.Outcome) → Prop
  | done (n : Nat) (curr : List Transition) : LoopRun n curr [] []
  | round {n : Nat} {curr : List Transition} (pend : List Transition) (o : Mach.Outcome)
      (fwd exit entry rest : List (Event U)) (recs : List (List Transition × Mach.Outcome))
      (hne : pend ≠ [])
      (hf : ∀ e ∈ fwd, FwdEv e) (hx : ∀ e ∈ exit, GuardEv .exitGuard pend curr e)
      (he : ∀ e ∈ entry, GuardEv .entryGuard pend curr e)
      (hu : o = .unchanged → exit = [] ∧ entry = [])
      (hr : LoopRun n (if o = .approved then curr ++ pend else curr) rest recs) :
      LoopRun (n+1) curr (rest ++ (entry ++ exit ++ fwd)) ((pend, o) :: recs)

namespace Mach

/-- invariant of the loop needed by `roundStep_spec` -/
def TargetsSized (w : World U) : Prop := w.targets.length = w.cfg.stateCount ∨ w.cfg.history = false

theorem rounds_run (initial : Bool) : (fuel : Nat) → (m : Mach U) → (backup : Node) → (current : List Transition) →
    TargetsSized m.w →
    ∃ evs, (rounds initial fuel m backup current).1.w.trace = evs ++ m.w.trace ∧
      LoopRun fuel current evs (roundsLog initial fuel m backup current) ∧
      (rounds initial fuel m backup current).2 = current ++ approvedOf (roundsLog initial fuel m backup current)
  | 0, m, backup, current, _ => by
    refine ⟨[], ?_, ?_, ?_⟩
    · rw [rounds_zero]; rfl
    · simp only [roundsLog]; exact .done _ _
    · rw [rounds_zero]; simp only [roundsLog, approvedOf, List.append_nil]
  | fuel+1, m, backup, current, hts => by
    rw [rounds_succ]
    simp only [roundsLog]
    by_cases he : m.w.requests.isEmpty = true
    · simp only [he, if_true]
      exact ⟨[], rfl, .done _ _, by simp only [approvedOf, List.append_nil]⟩
    · simp only [he, Bool.false_eq_true, if_false]
      obtain ⟨fwd, exit, entry, sp⟩ := roundStep_spec initial m backup current hts
      have hts' : TargetsSized (roundStep initial m backup current).1.w := by
        unfold TargetsSized at hts ⊢
        rw [sp.targetsLen, sp.cfg]; exact hts
      obtain ⟨evs, ht, hl, hc⟩ := rounds_run initial fuel (roundStep initial m backup current).1
        (roundStep initial m backup current).2.1 (roundStep initial m backup current).2.2.1 hts'
      refine ⟨evs ++ (entry ++ exit ++ fwd), ?_, ?_, ?_⟩
      · rw [ht, sp.trace]; simp only [List.append_assoc]
      · refine .round m.w.requests _ fwd exit entry evs _ ?_ sp.fwdEv sp.exitEv sp.entryEv
          (fun h => ⟨(sp.unchanged h).1, (sp.unchanged h).2.1⟩) ?_
        · intro h; rw [h] at he; exact he rfl
        · rw [← sp.current]; exact hl
      · rw [hc, sp.current]
        simp only [approvedOf]
        split <;> simp only [List.append_assoc, List.nil_append]

theorem roundStep_sized (initial : Bool) (m : Mach U) (backup : Node) (current : List Transition)
    (h : TargetsSized m.w) : TargetsSized (roundStep initial m backup current).1.w := by
  obtain ⟨_, _, _, sp⟩ := roundStep_spec initial m backup current h
  unfold TargetsSized at h ⊢
  rw [sp.targetsLen, sp.cfg]; exact h

/-- Invariants of the loop: a property of (machine, backup, current) preserved by every round holds at the
end. -/
theorem rounds_induct (initial : Bool) (P : Mach U → Node → List Transition → Prop)
    (hstep : ∀ m b c, P m b c → TargetsSized m.w → m.w.requests.isEmpty = false →
      P (roundStep initial m b c).1 (roundStep initial m b c).2.1 (roundStep initial m b c).2.2.1) :
    (fuel : Nat) → (m : Mach U) → (backup : Node) → (current : List Transition) → TargetsSized m.w →
    P m backup current →
    ∃ b', P (rounds initial fuel m backup current).1 b' (rounds initial fuel m backup current).2
  | 0, m, backup, current, _, h => by rw [rounds_zero]; exact ⟨backup, h⟩
  | fuel+1, m, backup, current, hs, h => by
    rw [rounds_succ]
    by_cases he : m.w.requests.isEmpty = true
    · rw [if_pos he]; exact ⟨backup, h⟩
    · rw [if_neg he]
      exact rounds_induct initial P hstep fuel _ _ _ (roundStep_sized initial m backup current hs)
        (hstep m backup current h hs (by simpa using he))

theorem rounds_cfg (initial : Bool) (fuel : Nat) (m : Mach U) (backup : Node) (current : List Transition)
    (hs : TargetsSized m.w) : (rounds initial fuel m backup current).1.w.cfg = m.w.cfg := by
  obtain ⟨_, h⟩ := rounds_induct initial (fun m' _ _ => m'.w.cfg = m.w.cfg)
    (fun m' b c h hs' _ => by
      obtain ⟨_, _, _, sp⟩ := roundStep_spec initial m' b c hs'
      rw [sp.cfg]; exact h) fuel m backup current hs rfl
  exact h

theorem rounds_frozen (initial : Bool) (fuel : Nat) (m : Mach U) (backup : Node) (current : List Transition)
    (hs : TargetsSized m.w) (hinv : m.root.frozen = backup.frozen) :
    (rounds initial fuel m backup current).1.root.frozen = backup.frozen := by
  obtain ⟨_, h⟩ := rounds_induct initial (fun m' b' _ => m'.root.frozen = b'.frozen ∧ b'.frozen = backup.frozen)
    (fun m' b c h _ _ => by
      have t := roundStep_tree initial m' b c h.1
      dsimp only at t
      obtain ⟨ta, tv, tu, tf, _⟩ := t
      refine ⟨tf, ?_⟩
      cases ho : (roundStep initial m' b c).2.2.2 with
      | approved => rw [(ta ho).1, applyAll_frozen, h.1, h.2]
      | vetoed => rw [(tv ho).1, h.2]
      | unchanged => rw [(tu ho).1, h.2]) fuel m backup current hs ⟨hinv, rfl⟩
  rw [h.1, h.2]

/-- `transitionTargets` after the loop: every entry is what it was before the loop, or empty, or an index
into the request list of one of the rounds (the round that pinned it last). -/
theorem rounds_targets (initial : Bool) : (fuel : Nat) → (m : Mach U) → (backup : Node) → (current : List Transition) →
    TargetsSized m.w → ∀ s,
      (rounds initial fuel m backup current).1.w.targets.getD s none = m.w.targets.getD s none ∨
      (rounds initial fuel m backup current).1.w.targets.getD s none = none ∨
      ∃ i, (rounds initial fuel m backup current).1.w.targets.getD s none = some i ∧
        ∃ r ∈ roundsLog initial fuel m backup current, i < r.1.length
  | 0, m, backup, current, _, s => by rw [rounds_zero]; exact .inl rfl
  | fuel+1, m, backup, current, hts, s => by
    rw [rounds_succ]
    simp only [roundsLog]
    by_cases he : m.w.requests.isEmpty = true
    · rw [if_pos he]; exact .inl rfl
    · rw [if_neg he, if_neg he]
      obtain ⟨fwd, exit, entry, sp⟩ := roundStep_spec initial m backup current hts
      have ih := rounds_targets initial fuel (roundStep initial m backup current).1
        (roundStep initial m backup current).2.1 (roundStep initial m backup current).2.2.1
        (roundStep_sized initial m backup current hts) s
      rcases ih with h | h | ⟨i, h, r, hr, hi⟩
      · rw [h]
        rcases sp.targets s with h' | h' | ⟨i, hi, h'⟩
        · exact .inl h'
        · exact .inr (.inl h')
        · exact .inr (.inr ⟨i, h', _, List.mem_cons_self, hi⟩)
      · exact .inr (.inl h)
      · exact .inr (.inr ⟨i, h, r, List.mem_cons_of_mem _ hr, hi⟩)

/-- An approved round leaves `transitionTargets` as the apply phase set them. -/
theorem roundStep_approved_targets (m : Mach U) (backup : Node) (current : List Transition)
    (h : (roundStep false m backup current).2.2.2 = .approved) :
    (roundStep false m backup current).1.w.targets = (m.applyAll m.w.requests 0).w.targets := by
  unfold roundStep at h ⊢
  dsimp only at h ⊢
  by_cases hd : ((m.applyAll m.w.requests 0).root.marksDiffer backup) = true
  · simp only [hd, if_true, Bool.false_eq_true, if_false] at h ⊢
    obtain ⟨_, _, g⟩ := approvedByGuards_rel ({ (m.applyAll m.w.requests 0) with w := { (m.applyAll m.w.requests 0).w with requests := [] } }) current m.w.requests
    cases hok : (Mach.approvedByGuards { (m.applyAll m.w.requests 0) with w := { (m.applyAll m.w.requests 0).w with requests := [] } } current m.w.requests).2 with
    | true => simp only [↓reduceIte]; exact g.targets
    | false => simp only [hok] at h; cases h
  · simp only [hd] at h; cases h

end Mach
end Hfsm
