/-
Simulation lemmas: every concrete pool operation, started in a state satisfying `Rep`, is defined
(no out-of-bounds reference), returns what the reference machine `G` returns, and re-establishes
`Rep` with the reference machine's successor state.
-/
import Hfsm.Proofs.Pool

namespace Hfsm.Model

theorem Rep.new {cap : Nat} (hpos : 0 < cap) (hle : cap ≤ INVALID) : Rep cap (Pool.new cap) G.new where
  pos := hpos
  capLe := hle
  size := by simp [Pool.new]
  last := rfl
  lastLe := by simp [G.new]
  count := by simp [Pool.new, G.new]
  nodup := by simp [G.new]
  mem := by intro i; simp [G.new, Live.empty]; omega
  bound := by intro i x h; simp [G.new, Live.empty] at h
  num := by simp [Pool.new, G.new]; omega
  head := by simp [Pool.new, G.new]
  tail := by simp [Pool.new, G.new]
  tailLast := by simp [G.new]
  linked := trivial
  cont := by intro i x h; simp [G.new, Live.empty] at h

/-- `clear()` on *any* pool object of the right size (whatever its items and links hold) yields a
state representing the fresh reference state. -/
theorem Rep.clear {cap : Nat} (p : Pool) (hpos : 0 < cap) (hle : cap ≤ INVALID)
    (hsz : p.items.size = cap) : Rep cap p.clear G.new where
  pos := hpos
  capLe := hle
  size := by simpa [Pool.clear] using hsz
  last := rfl
  lastLe := by simp [G.new]
  count := by simp [Pool.clear, G.new]
  nodup := by simp [G.new]
  mem := by intro i; simp [G.new, Live.empty]; omega
  bound := by intro i x h; simp [G.new, Live.empty] at h
  num := by simp [Pool.clear, G.new]; omega
  head := by simp [Pool.clear, G.new]
  tail := by simp [Pool.clear, G.new]
  tailLast := by simp [G.new]
  linked := trivial
  cont := by intro i x h; simp [G.new, Live.empty] at h

variable {cap : Nat} {p : Pool} {g : G}

/-- Full branch. -/
theorem emplace_full (r : Rep cap p g) (x : Item) (hv : g.vac = []) :
    p.emplace x = some (p, INVALID) ∧ g.emplace cap x = (g, INVALID) := by
  have hc := r.vac_nil_count hv
  constructor
  · simp [Pool.emplace, Pool.cap, r.size, hc]
  · simp [G.emplace, hv]

/-- Grow branch: single-element chain, `_last < CAPACITY - 1`. -/
theorem emplace_grow (r : Rep cap p g) (x : Item) {h : Nat} (hv : g.vac = [h])
    (hl : g.last + 1 < cap) :
    ∃ p', p.emplace x = some (p', h) ∧
      Rep cap p' { vac := [g.last + 1], last := g.last + 1, live := g.live.set h (some x) } := by
  have hc : p.count < cap := r.count_lt_of_vac (by simp [hv])
  have hmem := (r.mem h).mp (by simp [hv])
  have hhead : p.vacantHead = h := by simpa [hv] using r.head
  have htail : p.vacantTail = h := by simpa [hv] using r.tail
  obtain ⟨ih, hih⟩ := rd_some_of_lt p.items (by rw [r.size]; exact hmem.1 : h < p.items.size)
  obtain ⟨il, hil⟩ := rd_some_of_lt p.items (by rw [r.size]; exact hl : g.last + 1 < p.items.size)
  have hne : g.last + 1 ≠ h := by omega
  have hlivel : g.live (g.last + 1) = none := by
    cases hq : g.live (g.last + 1) with
    | none => rfl
    | some y => have := (r.bound _ _ hq).2; omega
  refine ⟨?_, ?_, ?_⟩
  rotate_left
  · simp only [Pool.emplace, Pool.cap, r.size, hc, if_true, hhead, htail, hih, r.last, hl,
      hil, ne_eq, not_true_eq_false, if_false]
    rfl
  · exact {
      pos := r.pos
      capLe := r.capLe
      size := by simp [r.size]
      last := rfl
      lastLe := by simp; omega
      count := by
        show p.count + 1 = _
        rw [liveCount_set_some cap g.live x hmem.1 hmem.2.2, r.count]
      nodup := by simp
      mem := by
        intro i
        simp only [List.mem_singleton]
        constructor
        · intro e; subst e
          refine ⟨hl, Nat.le_refl _, ?_⟩
          rw [Live.set_ne _ _ hne]; exact hlivel
        · intro ⟨h1, h2, h3⟩
          by_cases hih' : i = h
          · subst hih'; simp at h3
          · rw [Live.set_ne _ _ hih'] at h3
            by_cases hle : i ≤ g.last
            · have : i ∈ g.vac := (r.mem i).mpr ⟨h1, hle, h3⟩
              rw [hv] at this; simp at this; exact absurd this hih'
            · omega
      bound := by
        intro i y hy
        dsimp only at hy ⊢
        by_cases hih' : i = h
        · subst hih'; exact ⟨hmem.1, by omega⟩
        · rw [Live.set_ne _ _ hih'] at hy
          have := r.bound i y hy
          exact ⟨this.1, by omega⟩
      num := by
        have := r.num
        rw [hv] at this
        simp at this ⊢
        omega
      head := by simp
      tail := by simp
      tailLast := by simp
      linked := trivial
      cont := by
        intro i y hy
        dsimp only at hy ⊢
        by_cases hih' : i = h
        · subst hih'
          simp at hy; subst hy
          exact rd_wr_same _ _ (by simp [r.size]; exact hmem.1)
        · rw [Live.set_ne _ _ hih'] at hy
          have hb := r.bound i y hy
          rw [rd_wr_ne _ _ (Ne.symm hih'), rd_wr_ne _ _ (by omega : g.last + 1 ≠ i)]
          exact r.cont i y hy }

/-- Last branch: single-element chain, no unused slot left above `_last`. -/
theorem emplace_last (r : Rep cap p g) (x : Item) {h : Nat} (hv : g.vac = [h])
    (hl : ¬ g.last + 1 < cap) :
    ∃ p', p.emplace x = some (p', h) ∧
      Rep cap p' { vac := [], last := cap, live := g.live.set h (some x) } := by
  have hc : p.count < cap := r.count_lt_of_vac (by simp [hv])
  have hmem := (r.mem h).mp (by simp [hv])
  have hhead : p.vacantHead = h := by simpa [hv] using r.head
  have htail : p.vacantTail = h := by simpa [hv] using r.tail
  obtain ⟨ih, hih⟩ := rd_some_of_lt p.items (by rw [r.size]; exact hmem.1 : h < p.items.size)
  have hlastLe := r.lastLe
  refine ⟨?_, ?_, ?_⟩
  rotate_left
  · simp only [Pool.emplace, Pool.cap, r.size, hc, if_true, hhead, htail, hih, r.last, hl,
      ne_eq, not_true_eq_false, if_false]
    rfl
  · exact {
      pos := r.pos
      capLe := r.capLe
      size := by simp [r.size]
      last := rfl
      lastLe := Nat.le_refl _
      count := by
        show p.count + 1 = _
        rw [liveCount_set_some cap g.live x hmem.1 hmem.2.2, r.count]
      nodup := by simp
      mem := by
        intro i
        simp only [List.not_mem_nil, false_iff, not_and]
        intro h1 _ h3
        by_cases hih' : i = h
        · subst hih'; simp at h3
        · rw [Live.set_ne _ _ hih'] at h3
          have : i ∈ g.vac := (r.mem i).mpr ⟨h1, by omega, h3⟩
          rw [hv] at this; simp at this; exact hih' this
      bound := by
        intro i y hy
        dsimp only at hy ⊢
        by_cases hih' : i = h
        · subst hih'; exact ⟨hmem.1, Nat.le_of_lt hmem.1⟩
        · rw [Live.set_ne _ _ hih'] at hy
          have := r.bound i y hy
          exact ⟨this.1, Nat.le_of_lt this.1⟩
      num := by
        have := r.num
        rw [hv] at this
        simp at this ⊢
        omega
      head := by simp
      tail := by simp
      tailLast := by simp
      linked := trivial
      cont := by
        intro i y hy
        dsimp only at hy ⊢
        by_cases hih' : i = h
        · subst hih'
          simp at hy; subst hy
          exact rd_wr_same _ _ (by rw [r.size]; exact hmem.1)
        · rw [Live.set_ne _ _ hih'] at hy
          rw [rd_wr_ne _ _ (Ne.symm hih')]
          exact r.cont i y hy }

/-- Recycle branch: the chain has at least two elements. -/
theorem emplace_recycle (r : Rep cap p g) (x : Item) {h h2 : Nat} {t : List Nat}
    (hv : g.vac = h :: h2 :: t) :
    ∃ p', p.emplace x = some (p', h) ∧
      Rep cap p' { vac := h2 :: t, last := g.last, live := g.live.set h (some x) } := by
  have hc : p.count < cap := r.count_lt_of_vac (by simp [hv])
  have hmem := (r.mem h).mp (by simp [hv])
  have hmem2 := (r.mem h2).mp (by simp [hv])
  have hnd := r.nodup
  rw [hv] at hnd
  have hnd' := List.nodup_cons.mp hnd
  have hhead : p.vacantHead = h := by simpa [hv] using r.head
  have htail : p.vacantTail = ((h2 :: t).getLast?).getD INVALID := by
    have := r.tail; rw [hv, List.getLast?_cons_cons] at this; exact this
  have hht : p.vacantHead ≠ p.vacantTail := by
    rw [hhead, htail]
    intro e
    have hm : ((h2 :: t).getLast?).getD INVALID ∈ (h2 :: t) := by
      rw [List.getLast?_eq_some_getLast (by simp)]
      exact List.getLast_mem _
    rw [← e] at hm
    exact hnd'.1 hm
  have hht' : ¬ h = p.vacantTail := by rw [hhead] at hht; exact hht
  have hlk := r.linked
  rw [hv] at hlk
  obtain ⟨⟨ix, iy, hx, hy, hn1, _⟩, hrest⟩ := hlk
  have hh2 : h ≠ h2 := fun e => hnd'.1 (by simp [e])
  refine ⟨?_, ?_, ?_⟩
  rotate_left
  · simp only [Pool.emplace, Pool.cap, r.size, hc, if_true, hhead, hx, hn1, hy]
    simp only [ne_eq, hht', not_false_eq_true, if_true]
    rfl
  · exact {
      pos := r.pos
      capLe := r.capLe
      size := by simp [r.size]
      last := r.last
      lastLe := r.lastLe
      count := by
        show p.count + 1 = _
        rw [liveCount_set_some cap g.live x hmem.1 hmem.2.2, r.count]
      nodup := hnd'.2
      mem := by
        intro i
        show i ∈ h2 :: t ↔ i < cap ∧ i ≤ g.last ∧ (g.live.set h (some x)) i = none
        constructor
        · intro hm
          have hi : i ≠ h := fun e => hnd'.1 (e ▸ hm)
          have := (r.mem i).mp (by rw [hv]; exact List.mem_cons_of_mem _ hm)
          rw [Live.set_ne _ _ hi]; exact this
        · intro ⟨h1, h2', h3⟩
          by_cases hi : i = h
          · subst hi; simp at h3
          · rw [Live.set_ne _ _ hi] at h3
            have := (r.mem i).mpr ⟨h1, h2', h3⟩
            rw [hv] at this
            cases this with
            | head => exact absurd rfl hi
            | tail _ hm => exact hm
      bound := by
        intro i y hy'
        dsimp only at hy' ⊢
        by_cases hi : i = h
        · subst hi; exact ⟨hmem.1, hmem.2.1⟩
        · rw [Live.set_ne _ _ hi] at hy'
          exact r.bound i y hy'
      num := by
        have := r.num
        rw [hv] at this
        simp at this ⊢
        omega
      head := by simp
      tail := htail
      tailLast := by
        intro hl
        have := r.tailLast hl
        rw [hv, List.getLast?_cons_cons] at this; exact this
      linked := by
        show Linked (wr (wr p.items h2 { iy with prev := INVALID }) h x) (h2 :: t)
        apply Linked.wr_notin _ hnd'.1
        exact Linked.wr_head_prev INVALID hrest (List.nodup_cons.mp hnd'.2).1 hy
      cont := by
        intro i y hy'
        dsimp only at hy' ⊢
        by_cases hi : i = h
        · subst hi
          simp at hy'; subst hy'
          exact rd_wr_same _ _ (by simp [r.size]; exact hmem.1)
        · rw [Live.set_ne _ _ hi] at hy'
          have hnv := r.live_not_vac hy'
          rw [hv] at hnv
          have hi2 : h2 ≠ i := fun e => hnv (by simp [e])
          rw [rd_wr_ne _ _ (Ne.symm hi), rd_wr_ne _ _ hi2]
          exact r.cont i y hy' }

/-- `emplace` simulates the reference machine, in every branch. -/
theorem emplace_sim (r : Rep cap p g) (x : Item) :
    ∃ p', p.emplace x = some (p', (g.emplace cap x).2) ∧ Rep cap p' (g.emplace cap x).1 := by
  cases hv : g.vac with
  | nil =>
    have := emplace_full r x hv
    exact ⟨p, by rw [this.2]; exact this.1, by rw [this.2]; exact r⟩
  | cons h t =>
    cases t with
    | nil =>
      by_cases hl : g.last + 1 < cap
      · obtain ⟨p', h1, h2⟩ := emplace_grow r x hv hl
        refine ⟨p', ?_, ?_⟩ <;> simp only [G.emplace, hv, hl, if_true] <;> assumption
      · obtain ⟨p', h1, h2⟩ := emplace_last r x hv hl
        refine ⟨p', ?_, ?_⟩ <;> simp only [G.emplace, hv, hl, if_false] <;> assumption
    | cons h2 t =>
      obtain ⟨p', h1, h2'⟩ := emplace_recycle r x hv
      refine ⟨p', ?_, ?_⟩ <;> simp only [G.emplace, hv] <;> assumption

/-- `remove i` of a live slot simulates the reference machine (both branches). -/
theorem remove_sim (r : Rep cap p g) {i : Nat} {y : Item} (hy : g.live i = some y) :
    ∃ p', p.remove i = some p' ∧ Rep cap p' (g.remove i) := by
  have hcp := r.count_pos hy
  have hb := r.bound i y hy
  have hri := r.cont i y hy
  have hnv := r.live_not_vac hy
  have hcnt : p.count - 1 = liveCount cap (g.live.set i none) := by
    have := liveCount_set_none cap g.live hb.1 hy
    rw [r.count]; omega
  have hmem' : ∀ j, j ∈ i :: g.vac ↔ j < cap ∧ j ≤ g.last ∧ (g.live.set i none) j = none := by
    intro j
    constructor
    · intro hm
      cases hm with
      | head => exact ⟨hb.1, hb.2, by simp⟩
      | tail _ hm =>
        have hji : j ≠ i := fun e => hnv (e ▸ hm)
        rw [Live.set_ne _ _ hji]; exact (r.mem j).mp hm
    · intro ⟨h1, h2, h3⟩
      by_cases hji : j = i
      · subst hji; exact List.mem_cons_self
      · rw [Live.set_ne _ _ hji] at h3
        exact List.mem_cons_of_mem _ ((r.mem j).mpr ⟨h1, h2, h3⟩)
  have hbound' : ∀ j z, (g.live.set i none) j = some z → j < cap ∧ j ≤ g.last := by
    intro j z hz
    by_cases hji : j = i
    · subst hji; simp at hz
    · rw [Live.set_ne _ _ hji] at hz; exact r.bound j z hz
  cases hv : g.vac with
  | nil =>
    have hc := r.vac_nil_count hv
    have hlast := r.vac_nil_last hv
    refine ⟨?_, ?_, ?_⟩
    rotate_left
    · simp only [Pool.remove, Pool.cap, r.size, hc, hri]
      have : ¬ cap = 0 := by have := r.pos; omega
      simp only [this, if_false, Nat.lt_irrefl]
      rfl
    · exact {
        pos := r.pos
        capLe := r.capLe
        size := by simp [r.size]
        last := r.last
        lastLe := r.lastLe
        count := by
          show cap - 1 = liveCount cap (g.live.set i none)
          rw [← hcnt, hc]
        nodup := by simp [G.remove, hv]
        mem := hmem'
        bound := hbound'
        num := by
          show cap - 1 + (i :: g.vac).length = min (g.last + 1) cap
          have := r.pos
          rw [hv, hlast]; simp; omega
        head := by simp [G.remove]
        tail := by simp [G.remove, hv]
        tailLast := by
          intro hl
          have : (g.remove i).last = g.last := rfl
          rw [this, hlast] at hl; omega
        linked := by simp [G.remove, hv, Linked]
        cont := by
          intro j z hz
          by_cases hji : j = i
          · subst hji; simp [G.remove] at hz
          · have hz' : g.live j = some z := by
              have : (g.remove i).live j = g.live j := Live.set_ne _ _ hji
              rw [← this]; exact hz
            rw [rd_wr_ne _ _ (Ne.symm hji)]
            exact r.cont j z hz' }
  | cons h t =>
    have hc : p.count < cap := r.count_lt_of_vac (by simp [hv])
    have hmem := (r.mem h).mp (by simp [hv])
    have hhead : p.vacantHead = h := by simpa [hv] using r.head
    have hih : i ≠ h := fun e => hnv (by simp [hv, e])
    obtain ⟨ih, hih'⟩ := rd_some_of_lt p.items (by rw [r.size]; exact hmem.1 : h < p.items.size)
    have hnd := r.nodup
    rw [hv] at hnd
    have hnd' := List.nodup_cons.mp hnd
    have hnvt : i ∉ h :: t := by rw [← hv]; exact hnv
    refine ⟨?_, ?_, ?_⟩
    rotate_left
    · have hc0 : ¬ p.count = 0 := by omega
      simp only [Pool.remove, Pool.cap, r.size, hc, hri, hc0, if_false, if_true, hhead,
        rd_wr_ne _ _ hih, hih']
      rfl
    · exact {
        pos := r.pos
        capLe := r.capLe
        size := by simp [r.size]
        last := r.last
        lastLe := r.lastLe
        count := hcnt
        nodup := by
          show (i :: g.vac).Nodup
          exact List.nodup_cons.mpr ⟨hnv, r.nodup⟩
        mem := hmem'
        bound := hbound'
        num := by
          show p.count - 1 + (i :: g.vac).length = min (g.last + 1) cap
          have := r.num
          simp at this ⊢
          omega
        head := by simp [G.remove]
        tail := by
          show p.vacantTail = ((i :: g.vac).getLast?).getD INVALID
          rw [hv, List.getLast?_cons_cons, ← hv]; exact r.tail
        tailLast := by
          intro hl
          show (i :: g.vac).getLast? = some g.last
          rw [hv, List.getLast?_cons_cons, ← hv]; exact r.tailLast hl
        linked := by
          show Linked (wr (wr p.items i { y with prev := INVALID, next := h }) h { ih with prev := i })
            (i :: g.vac)
          rw [hv]
          have hl1 : Linked (wr p.items i { y with prev := INVALID, next := h }) (h :: t) := by
            have := r.linked; rw [hv] at this
            exact Linked.wr_notin _ hnvt this
          have hrh : rd (wr p.items i { y with prev := INVALID, next := h }) h = some ih := by
            rw [rd_wr_ne _ _ hih]; exact hih'
          refine ⟨⟨{ y with prev := INVALID, next := h }, { ih with prev := i }, ?_, ?_, rfl, rfl⟩,
            Linked.wr_head_prev i hl1 hnd'.1 hrh⟩
          · rw [rd_wr_ne _ _ (Ne.symm hih)]
            exact rd_wr_same _ _ (lt_of_rd_some hri)
          · exact rd_wr_same _ _ (by simp [r.size]; exact hmem.1)
        cont := by
          intro j z hz
          by_cases hji : j = i
          · subst hji; simp [G.remove] at hz
          · have hz' : g.live j = some z := by
              have : (g.remove i).live j = g.live j := Live.set_ne _ _ hji
              rw [← this]; exact hz
            have hjv := r.live_not_vac hz'
            have hjh : h ≠ j := fun e => hjv (by simp [hv, e])
            rw [rd_wr_ne _ _ hjh, rd_wr_ne _ _ (Ne.symm hji)]
            exact r.cont j z hz' }

end Hfsm.Model

namespace Hfsm.Model

/-- What the reference `emplace` does when the vacant chain is non-empty. -/
theorem G.emplace_cons {cap : Nat} {g : G} {hd : Nat} {t : List Nat} (x : Item)
    (hv : g.vac = hd :: t) :
    (g.emplace cap x).2 = hd ∧ (g.emplace cap x).1.live = g.live.set hd (some x) := by
  cases t with
  | nil =>
    simp only [G.emplace, hv]
    split <;> exact ⟨rfl, rfl⟩
  | cons h2 t =>
    simp [G.emplace, hv]

/-- Below capacity the vacant chain is non-empty and its head is a dead slot `< cap`. -/
theorem Rep.vac_head {cap : Nat} {p : Pool} {g : G} (r : Rep cap p g) (hc : p.count < cap) :
    ∃ hd t, g.vac = hd :: t ∧ hd < cap ∧ g.live hd = none := by
  cases hv : g.vac with
  | nil => have := r.vac_nil_count hv; omega
  | cons hd t =>
    have hm := (r.mem hd).mp (by simp [hv])
    exact ⟨hd, t, rfl, hm.1, hm.2.2⟩

end Hfsm.Model
