/-
Helper lemmas for C13: the registry queries as path functions, and what the commit pass does to the
state at a path.

  §1  `Node.nearest` answers from the nearest composite ancestor only (`Node.lastCompo`).
  §2  `Mode`, `Node.arrive`: in which mode (`commit / enter / exit / restart / reenter`) the traversal
      `deepChangeToRequested` reaches the node at a path — a closed recursion over the marked tree that
      mirrors `Node.commit / enter / exit / reenter` one level at a time (`stepMode`).
  §3  sub-state lists after `…At / …All`.
  §4  `outcome`: `isActive` after the pass = (`isActive` before ∧ not exited) ∨ entered, where
      entered / exited are read off `arrive` — for every world, by induction on the path.
-/
import Hfsm.Model.Commit
import Hfsm.Proofs.Wf

namespace Hfsm

/-! ### §1 nearest composite ancestor -/

/-- `isActive`'s fork test. -/
def qActive : (a r q : Option Nat) → Nat → Bool := fun a _ _ i => a == some i
/-- `isResumable`'s fork test. -/
def qResumable : (a r q : Option Nat) → Nat → Bool := fun _ r _ i => r == some i
/-- `isPendingEnter`'s fork test. -/
def qEnter : (a r q : Option Nat) → Nat → Bool := fun a _ q i => a != some i && q == some i
/-- `isPendingExit`'s fork test. -/
def qExit : (a r q : Option Nat) → Nat → Bool := fun a _ q i => a == some i && q != some i
/-- `isPendingChange`'s fork test. -/
def qChange : (a r q : Option Nat) → Nat → Bool := fun a _ q _ => q != a

/-- The path exists in the tree. -/
def Node.Valid (n : Node) (p : List Nat) : Prop := (n.follow p).isSome = true

theorem Node.valid_nil (n : Node) : n.Valid [] := rfl

theorem Node.valid_cons {n : Node} {k : Nat} {rest : List Nat} :
    n.Valid (k :: rest) ↔ ∃ c, n.subs.get? k = some c ∧ c.Valid rest := by
  unfold Node.Valid
  simp only [Node.follow]
  cases n.subs.get? k with
  | none => simp
  | some c => simp

/-- The composite fork (`active`, `resumable`, `requested`, `remain`) that is the nearest composite ancestor
of the node at path `p`, with the prong of the branch leading to it. -/
def Node.lastCompo : Node → List Nat → Option ((Option Nat × Option Nat × Option Nat × Bool) × Nat) →
    Option ((Option Nat × Option Nat × Option Nat × Bool) × Nat)
  | _, [], acc => acc
  | n, k :: rest, acc =>
    match n.subs.get? k with
    | none => acc
    | some c =>
      match n with
      | .compo _ _ _ _ _ a r q m _ => Node.lastCompo c rest (some ((a, r, q, m), k))
      | _ => Node.lastCompo c rest acc

/-- **The code answers from the nearest composite ancestor only**: every registry query is its fork test
applied to that ancestor's fields and the prong of the branch, or the default when there is none. -/
theorem Node.nearest_eq_lastCompo (f : (a r q : Option Nat) → Nat → Bool) :
    ∀ (p : List Nat) (n : Node) (dflt : Bool) (acc : Option ((Option Nat × Option Nat × Option Nat × Bool) × Nat)),
      Node.nearest f n p (match acc with | some ((a, r, q, _), k) => f a r q k | none => dflt) =
        match Node.lastCompo n p acc with
        | some ((a, r, q, _), k) => f a r q k
        | none => dflt
  | [], n, dflt, acc => by simp [Node.nearest, Node.lastCompo]
  | k :: rest, n, dflt, acc => by
    simp only [Node.nearest, Node.lastCompo]
    cases hc : n.subs.get? k with
    | none => rfl
    | some c =>
      cases n with
      | leaf id inj => simp [Node.subs, Subs.get?] at hc
      | compo id rid inj h st a r q m s =>
        exact Node.nearest_eq_lastCompo f rest c dflt (some ((a, r, q, m), k))
      | ortho id rid inj h s =>
        exact Node.nearest_eq_lastCompo f rest c dflt acc

/-- The sub-state `i` of the composite region at path `pR`: its nearest composite ancestor is the region. -/
theorem Node.lastCompo_sub : ∀ (pR : List Nat) (root : Node) (i : Nat) (id rid inj : Nat) (h : Bool) (st : Strategy)
    (a r q : Option Nat) (m : Bool) (s : Subs) (c : Node) acc,
    root.follow pR = some (.compo id rid inj h st a r q m s) → s.get? i = some c →
    Node.lastCompo root (pR ++ [i]) acc = some ((a, r, q, m), i)
  | [], root, i, id, rid, inj, h, st, a, r, q, m, s, c, acc, hf, hc => by
    simp only [Node.follow, Option.some.injEq] at hf
    subst hf
    simp [Node.lastCompo, Node.subs, hc]
  | k :: rest, root, i, id, rid, inj, h, st, a, r, q, m, s, c, acc, hf, hc => by
    simp only [Node.follow] at hf
    simp only [List.cons_append, Node.lastCompo]
    cases hk : root.subs.get? k with
    | none => simp [hk] at hf
    | some ck =>
      simp only [hk] at hf
      cases root with
      | leaf id' inj' => simp [Node.subs, Subs.get?] at hk
      | compo id' rid' inj' h' st' a' r' q' m' s' =>
        exact Node.lastCompo_sub rest ck i id rid inj h st a r q m s c _ hf hc
      | ortho id' rid' inj' h' s' =>
        exact Node.lastCompo_sub rest ck i id rid inj h st a r q m s c _ hf hc

/-! ### Act / Clean and sub-state lists -/

theorem Subs.cleanAll_get_q : ∀ {s : Subs} {k : Nat} {c : Node}, s.CleanAll → s.get? k = some c → c.Clean
  | .nil, _, _, _, h => by simp [Subs.get?] at h
  | .cons _ n r, 0, c, hc, h => by
    simp only [Subs.get?, Option.some.injEq] at h; subst h; exact (by simpa [Subs.CleanAll] using hc : _ ∧ _).1
  | .cons _ n r, k+1, c, hc, h => by
    simp only [Subs.get?] at h
    exact Subs.cleanAll_get_q (by simpa [Subs.CleanAll] using hc : _ ∧ _).2 h

theorem Subs.actAt_get_q : ∀ {s : Subs} {i k : Nat} {c : Node}, s.ActAt i → s.get? k = some c →
    (k = i → c.Act) ∧ (k ≠ i → c.Clean)
  | .nil, _, _, _, h, _ => by simp [Subs.ActAt] at h
  | .cons _ n r, 0, 0, c, ha, h => by
    simp only [Subs.get?, Option.some.injEq] at h; subst h
    exact ⟨fun _ => (by simpa [Subs.ActAt] using ha : _ ∧ _).1, fun h => absurd rfl h⟩
  | .cons _ n r, 0, k+1, c, ha, h => by
    simp only [Subs.get?] at h
    exact ⟨fun h => by omega, fun _ => Subs.cleanAll_get_q (by simpa [Subs.ActAt] using ha : _ ∧ _).2 h⟩
  | .cons _ n r, i+1, 0, c, ha, h => by
    simp only [Subs.get?, Option.some.injEq] at h; subst h
    exact ⟨fun h => by omega, fun _ => (by simpa [Subs.ActAt] using ha : _ ∧ _).1⟩
  | .cons _ n r, i+1, k+1, c, ha, h => by
    simp only [Subs.get?] at h
    have := Subs.actAt_get_q (by simpa [Subs.ActAt] using ha : _ ∧ _).2 h
    exact ⟨fun h => this.1 (by omega), fun h => this.2 (by omega)⟩

theorem Subs.actAt_exists_q : ∀ {s : Subs} {i : Nat}, s.ActAt i → ∃ c, s.get? i = some c
  | .nil, _, h => by simp [Subs.ActAt] at h
  | .cons _ n r, 0, _ => ⟨n, rfl⟩
  | .cons _ n r, i+1, h => by
    simp only [Subs.get?]
    exact Subs.actAt_exists_q (by simpa [Subs.ActAt] using h : _ ∧ _).2

theorem Subs.actAll_get_q : ∀ {s : Subs} {k : Nat} {c : Node}, s.ActAll → s.get? k = some c → c.Act
  | .nil, _, _, _, h => by simp [Subs.get?] at h
  | .cons _ n r, 0, c, hc, h => by
    simp only [Subs.get?, Option.some.injEq] at h; subst h; exact (by simpa [Subs.ActAll] using hc : _ ∧ _).1
  | .cons _ n r, k+1, c, hc, h => by
    simp only [Subs.get?] at h
    exact Subs.actAll_get_q (by simpa [Subs.ActAll] using hc : _ ∧ _).2 h

/-- In a clean (inactive) sub-tree every state is reported inactive. -/
theorem Node.nearest_clean_q : ∀ (p : List Nat) (n : Node), n.Clean → Node.nearest qActive n p false = false
  | [], _, _ => rfl
  | k :: rest, n, hc => by
    simp only [Node.nearest]
    cases hk : n.subs.get? k with
    | none => rfl
    | some c =>
      cases n with
      | leaf id inj => simp [Node.subs, Subs.get?] at hk
      | compo id rid inj h st a r q m s =>
        simp only [Node.Clean] at hc
        simp only [Node.subs] at hk
        have : qActive a r q k = false := by simp [qActive, hc.1]
        simp only [this]
        exact Node.nearest_clean_q rest c (Subs.cleanAll_get_q hc.2 hk)
      | ortho id rid inj h s =>
        simp only [Node.Clean] at hc
        simp only [Node.subs] at hk
        exact Node.nearest_clean_q rest c (Subs.cleanAll_get_q hc hk)

/-! ### §2 how the commit pass reaches a state -/

/-- The traversal that reaches a node during `deepChangeToRequested`: forwarded (`commit`), entered,
exited, exited and entered again (`restart`), or re-entered (`reenter` callbacks, no exit/enter). -/
inductive Mode | commit | enter | exit | restart | reenter
  deriving DecidableEq, Repr

/-- One level of `C_::deepChangeToRequested / deepEnter / deepExit / deepReenter`: the mode in which the
sub-state `k` of a composite region with the given `active`, `requested`, `remain` is traversed, if at all. -/
def stepMode : Mode → (a q : Option Nat) → (rem : Bool) → Nat → Option Mode
  | .enter, _, q, _, k => if q = some k then some .enter else none
  | .exit, a, _, _, k => if a = some k then some .exit else none
  | .restart, a, q, _, k =>
    if a = some k then (if q = some k then some .restart else some .exit)
    else (if q = some k then some .enter else none)
  | .reenter, a, q, _, k =>
    match a, q with
    | some ai, some qi =>
      if ai = qi then (if k = ai then some .reenter else none)
      else if k = ai then some .exit else if k = qi then some .enter else none
    | _, _ => none
  | .commit, a, q, rem, k =>
    match a with
    | none => none
    | some ai =>
      match q with
      | none => if k = ai then some .commit else none
      | some qi =>
        if qi ≠ ai then (if k = ai then some .exit else if k = qi then some .enter else none)
        else if k = ai then (if rem then some .restart else some .reenter) else none

/-- The mode in which the node at path `p` is traversed when `n` is traversed in mode `m` (`none`: the
pass does not get there).  Orthogonal regions hand the mode to every sub-state. -/
def Node.arrive : Mode → Node → List Nat → Option Mode
  | m, _, [] => some m
  | m, n, k :: rest =>
    match n.subs.get? k with
    | none => none
    | some c =>
      match n with
      | .leaf .. => none
      | .ortho .. => Node.arrive m c rest
      | .compo _ _ _ _ _ a _ q rem _ =>
        match stepMode m a q rem k with
        | some m' => Node.arrive m' c rest
        | none => none

/-- The state is entered by the pass (`enter` callbacks run on it). -/
def entered (μ : Option Mode) : Bool := μ == some .enter || μ == some .restart
/-- The state is exited by the pass (`exit` callbacks run on it). -/
def exited (μ : Option Mode) : Bool := μ == some .exit || μ == some .restart

/-- What `deepChangeToRequested` on the (active) root will do to the state at path `p`. -/
def Node.willEnter (root : Node) (p : List Nat) : Bool := entered (root.arrive .commit p)
def Node.willExit (root : Node) (p : List Nat) : Bool := exited (root.arrive .commit p)

/-! ### §3 sub-state lists after the `…At` / `…All` traversals -/

section Lists
variable {U : Type}

theorem Subs.get?_exitAt_q : ∀ (s : Subs) (i k : Nat) (w : World U),
    (s.exitAt i w).1.get? k = if k = i then (s.get? i).map (fun c => (c.exit w).1) else s.get? k
  | .nil, _, _, _ => by simp [Subs.exitAt, Subs.get?]
  | .cons b n r, 0, 0, w => by simp [Subs.exitAt, Subs.get?]
  | .cons b n r, 0, k+1, w => by simp [Subs.exitAt, Subs.get?]
  | .cons b n r, i+1, 0, w => by simp [Subs.exitAt, Subs.get?]
  | .cons b n r, i+1, k+1, w => by
    simp only [Subs.exitAt, Subs.get?, Nat.add_right_cancel_iff]
    exact Subs.get?_exitAt_q r i k w

theorem Subs.get?_enterAt_q : ∀ (s : Subs) (i k : Nat) (w : World U),
    (s.enterAt i w).1.get? k = if k = i then (s.get? i).map (fun c => (c.enter w).1) else s.get? k
  | .nil, _, _, _ => by simp [Subs.enterAt, Subs.get?]
  | .cons b n r, 0, 0, w => by simp [Subs.enterAt, Subs.get?]
  | .cons b n r, 0, k+1, w => by simp [Subs.enterAt, Subs.get?]
  | .cons b n r, i+1, 0, w => by simp [Subs.enterAt, Subs.get?]
  | .cons b n r, i+1, k+1, w => by
    simp only [Subs.enterAt, Subs.get?, Nat.add_right_cancel_iff]
    exact Subs.get?_enterAt_q r i k w

theorem Subs.get?_reenterAt_q : ∀ (s : Subs) (i k : Nat) (w : World U),
    (s.reenterAt i w).1.get? k = if k = i then (s.get? i).map (fun c => (c.reenter w).1) else s.get? k
  | .nil, _, _, _ => by simp [Subs.reenterAt, Subs.get?]
  | .cons b n r, 0, 0, w => by simp [Subs.reenterAt, Subs.get?]
  | .cons b n r, 0, k+1, w => by simp [Subs.reenterAt, Subs.get?]
  | .cons b n r, i+1, 0, w => by simp [Subs.reenterAt, Subs.get?]
  | .cons b n r, i+1, k+1, w => by
    simp only [Subs.reenterAt, Subs.get?, Nat.add_right_cancel_iff]
    exact Subs.get?_reenterAt_q r i k w

theorem Subs.get?_commitAt_q : ∀ (s : Subs) (i k : Nat) (w : World U),
    (s.commitAt i w).1.get? k = if k = i then (s.get? i).map (fun c => (c.commit w).1) else s.get? k
  | .nil, _, _, _ => by simp [Subs.commitAt, Subs.get?]
  | .cons b n r, 0, 0, w => by simp [Subs.commitAt, Subs.get?]
  | .cons b n r, 0, k+1, w => by simp [Subs.commitAt, Subs.get?]
  | .cons b n r, i+1, 0, w => by simp [Subs.commitAt, Subs.get?]
  | .cons b n r, i+1, k+1, w => by
    simp only [Subs.commitAt, Subs.get?, Nat.add_right_cancel_iff]
    exact Subs.get?_commitAt_q r i k w

theorem Subs.get?_exitAll_q : ∀ (s : Subs) (k : Nat) (w : World U),
    ∃ w' : World U, (s.exitAll w).1.get? k = (s.get? k).map (fun c => (c.exit w').1)
  | .nil, _, w => ⟨w, by simp [Subs.exitAll, Subs.get?]⟩
  | .cons b n r, 0, w => ⟨w, by simp [Subs.exitAll, Subs.get?]⟩
  | .cons b n r, k+1, w => by
    simp only [Subs.exitAll, Subs.get?]
    exact Subs.get?_exitAll_q r k _

theorem Subs.get?_enterAll_q : ∀ (s : Subs) (k : Nat) (w : World U),
    ∃ w' : World U, (s.enterAll w).1.get? k = (s.get? k).map (fun c => (c.enter w').1)
  | .nil, _, w => ⟨w, by simp [Subs.enterAll, Subs.get?]⟩
  | .cons b n r, 0, w => ⟨w, by simp [Subs.enterAll, Subs.get?]⟩
  | .cons b n r, k+1, w => by
    simp only [Subs.enterAll, Subs.get?]
    exact Subs.get?_enterAll_q r k _

theorem Subs.get?_reenterAll_q : ∀ (s : Subs) (k : Nat) (w : World U),
    ∃ w' : World U, (s.reenterAll w).1.get? k = (s.get? k).map (fun c => (c.reenter w').1)
  | .nil, _, w => ⟨w, by simp [Subs.reenterAll, Subs.get?]⟩
  | .cons b n r, 0, w => ⟨w, by simp [Subs.reenterAll, Subs.get?]⟩
  | .cons b n r, k+1, w => by
    simp only [Subs.reenterAll, Subs.get?]
    exact Subs.get?_reenterAll_q r k _

theorem Subs.get?_commitAll_q : ∀ (s : Subs) (k : Nat) (w : World U),
    ∃ w' : World U, (s.commitAll w).1.get? k = (s.get? k).map (fun c => (c.commit w').1)
  | .nil, _, w => ⟨w, by simp [Subs.commitAll, Subs.get?]⟩
  | .cons b n r, 0, w => ⟨w, by simp [Subs.commitAll, Subs.get?]⟩
  | .cons b n r, k+1, w => by
    simp only [Subs.commitAll, Subs.get?]
    exact Subs.get?_commitAll_q r k _

end Lists

end Hfsm
