/-
`World.recfg` commutes with the request / report / forward passes (Model/Forward.lean).
-/
import Hfsm.Proofs.RecfgTrav

set_option linter.unusedVariables false
set_option linter.unusedSectionVars false
set_option linter.unusedSimpArgs false

namespace Hfsm
variable {U : Type} [UtilArith U] (r : Recfg)
open World

mutual
theorem Node.reportChange_recfg : (n : Node) → (w : World U) →
    n.reportChange (w.recfg r) = ((n.reportChange w).1, (n.reportChange w).2.1.recfg r, (n.reportChange w).2.2)
  | .leaf .., w => by rc Node.reportChange []
  | .compo _ _ _ _ st _ _ _ _ s, w => by
      cases st <;> rc Node.reportChange [Subs.reportChangeAt_recfg s, Subs.reportChangeAll_recfg s,
        Subs.reportRankAll_recfg s, Subs.reportChangeTop_recfg s]
  | .ortho _ _ _ _ s, w => by rc Node.reportChange [Subs.reportChangeAll_recfg s]
theorem Subs.reportChangeAt_recfg : (s : Subs) → (i : Nat) → (w : World U) →
    s.reportChangeAt i (w.recfg r) =
      ((s.reportChangeAt i w).1, (s.reportChangeAt i w).2.1.recfg r, (s.reportChangeAt i w).2.2)
  | .nil, _, w => by rc Subs.reportChangeAt []
  | .cons _ n _, 0, w => by rc Subs.reportChangeAt [Node.reportChange_recfg n]
  | .cons _ _ rest, i+1, w => by rc Subs.reportChangeAt [Subs.reportChangeAt_recfg rest]
theorem Subs.reportChangeAll_recfg : (s : Subs) → (w : World U) →
    s.reportChangeAll (w.recfg r) =
      ((s.reportChangeAll w).1, (s.reportChangeAll w).2.1.recfg r, (s.reportChangeAll w).2.2)
  | .nil, w => by rc Subs.reportChangeAll []
  | .cons _ n rest, w => by rc Subs.reportChangeAll [Node.reportChange_recfg n, Subs.reportChangeAll_recfg rest]
theorem Subs.reportChangeTop_recfg : (s : Subs) → (rks : List Int) → (top : Int) → (w : World U) →
    s.reportChangeTop rks top (w.recfg r) =
      ((s.reportChangeTop rks top w).1, (s.reportChangeTop rks top w).2.1.recfg r,
       (s.reportChangeTop rks top w).2.2)
  | .nil, _, _, w => by rc Subs.reportChangeTop []
  | .cons _ n rest, rks, top, w => by
      rc Subs.reportChangeTop [Node.reportChange_recfg n, Subs.reportChangeTop_recfg rest]
theorem Subs.reportRankAll_recfg : (s : Subs) → (w : World U) →
    s.reportRankAll (w.recfg r) = ((s.reportRankAll w).1.recfg r, (s.reportRankAll w).2)
  | .nil, w => by rc Subs.reportRankAll []
  | .cons _ n rest, w => by cases n <;> rc Subs.reportRankAll [Subs.reportRankAll_recfg rest]
end

mutual
theorem Node.reportUtilize_recfg : (n : Node) → (w : World U) →
    n.reportUtilize (w.recfg r) = ((n.reportUtilize w).1, (n.reportUtilize w).2.1.recfg r, (n.reportUtilize w).2.2)
  | .leaf .., w => by rc Node.reportUtilize []
  | .compo _ _ _ _ _ _ _ _ _ s, w => by rc Node.reportUtilize [Subs.reportUtilizeAll_recfg s]
  | .ortho _ _ _ _ s, w => by rc Node.reportUtilize [Subs.reportUtilizeAll_recfg s]
theorem Subs.reportUtilizeAll_recfg : (s : Subs) → (w : World U) →
    s.reportUtilizeAll (w.recfg r) =
      ((s.reportUtilizeAll w).1, (s.reportUtilizeAll w).2.1.recfg r, (s.reportUtilizeAll w).2.2)
  | .nil, w => by rc Subs.reportUtilizeAll []
  | .cons _ n rest, w => by rc Subs.reportUtilizeAll [Node.reportUtilize_recfg n, Subs.reportUtilizeAll_recfg rest]
end

mutual
theorem Node.reportRandomize_recfg : (n : Node) → (w : World U) →
    n.reportRandomize (w.recfg r) =
      ((n.reportRandomize w).1, (n.reportRandomize w).2.1.recfg r, (n.reportRandomize w).2.2)
  | .leaf .., w => by rc Node.reportRandomize []
  | .compo _ _ _ _ _ _ _ _ _ s, w => by
      rc Node.reportRandomize [Subs.reportRankAll_recfg r s, Subs.reportRandomizeTop_recfg s]
  | .ortho _ _ _ _ s, w => by rc Node.reportRandomize [Subs.reportRandomizeAll_recfg s]
theorem Subs.reportRandomizeAll_recfg : (s : Subs) → (w : World U) →
    s.reportRandomizeAll (w.recfg r) =
      ((s.reportRandomizeAll w).1, (s.reportRandomizeAll w).2.1.recfg r, (s.reportRandomizeAll w).2.2)
  | .nil, w => by rc Subs.reportRandomizeAll []
  | .cons _ n rest, w => by
      rc Subs.reportRandomizeAll [Node.reportRandomize_recfg n, Subs.reportRandomizeAll_recfg rest]
theorem Subs.reportRandomizeTop_recfg : (s : Subs) → (rks : List Int) → (top : Int) → (w : World U) →
    s.reportRandomizeTop rks top (w.recfg r) =
      ((s.reportRandomizeTop rks top w).1, (s.reportRandomizeTop rks top w).2.1.recfg r,
       (s.reportRandomizeTop rks top w).2.2)
  | .nil, _, _, w => by rc Subs.reportRandomizeTop []
  | .cons _ n rest, rks, top, w => by
      rc Subs.reportRandomizeTop [Node.reportRandomize_recfg n, Subs.reportRandomizeTop_recfg rest]
end

mutual
theorem Node.request_recfg : (n : Node) → (rq : Req) → (w : World U) →
    n.request rq (w.recfg r) = ((n.request rq w).1, (n.request rq w).2.recfg r)
  | .leaf .., rq, w => by rc Node.request []
  | .ortho _ _ _ _ s, rq, w => by rc Node.request [Subs.requestAll_recfg s]
  | .compo _ _ _ _ st _ _ _ _ s, rq, w => by
      cases st <;> cases hk : rq.kind <;> simp only [Node.request, effectiveKind, hk] <;>
        rc Node.request [Subs.requestAt_recfg s, Subs.reportChangeAll_recfg r s, Subs.reportUtilizeAll_recfg r s,
          Subs.reportRankAll_recfg r s, Subs.reportChangeTop_recfg r s, Subs.reportRandomizeTop_recfg r s]
theorem Subs.requestAt_recfg : (s : Subs) → (i : Nat) → (rq : Req) → (w : World U) →
    s.requestAt i rq (w.recfg r) = ((s.requestAt i rq w).1, (s.requestAt i rq w).2.recfg r)
  | .nil, _, _, w => by rc Subs.requestAt []
  | .cons _ n _, 0, rq, w => by rc Subs.requestAt [Node.request_recfg n]
  | .cons _ _ rest, i+1, rq, w => by rc Subs.requestAt [Subs.requestAt_recfg rest]
theorem Subs.requestAll_recfg : (s : Subs) → (rq : Req) → (w : World U) →
    s.requestAll rq (w.recfg r) = ((s.requestAll rq w).1, (s.requestAll rq w).2.recfg r)
  | .nil, _, w => by rc Subs.requestAll []
  | .cons _ n rest, rq, w => by rc Subs.requestAll [Node.request_recfg n, Subs.requestAll_recfg rest]
end

mutual
theorem Node.fwdRequest_recfg : (n : Node) → (rq : Req) → (w : World U) →
    n.fwdRequest rq (w.recfg r) = ((n.fwdRequest rq w).1, (n.fwdRequest rq w).2.recfg r)
  | .leaf .., rq, w => by rc Node.fwdRequest []
  | .compo id rid inj h st a rs q m s, rq, w => by
      cases q <;> rc Node.fwdRequest [Subs.fwdRequestAt_recfg s, Node.request_recfg r]
  | .ortho id rid inj h s, rq, w => by
      rc Node.fwdRequest [Subs.fwdRequestAll_recfg s, Node.request_recfg r]
theorem Subs.fwdRequestAt_recfg : (s : Subs) → (i : Nat) → (rq : Req) → (w : World U) →
    s.fwdRequestAt i rq (w.recfg r) = ((s.fwdRequestAt i rq w).1, (s.fwdRequestAt i rq w).2.recfg r)
  | .nil, _, _, w => by rc Subs.fwdRequestAt []
  | .cons _ n _, 0, rq, w => by rc Subs.fwdRequestAt [Node.fwdRequest_recfg n]
  | .cons _ _ rest, i+1, rq, w => by rc Subs.fwdRequestAt [Subs.fwdRequestAt_recfg rest]
theorem Subs.fwdRequestAll_recfg : (s : Subs) → (rq : Req) → (w : World U) →
    s.fwdRequestAll rq (w.recfg r) = ((s.fwdRequestAll rq w).1, (s.fwdRequestAll rq w).2.recfg r)
  | .nil, _, w => by rc Subs.fwdRequestAll []
  | .cons _ n rest, rq, w => by rc Subs.fwdRequestAll [Node.fwdRequest_recfg n, Subs.fwdRequestAll_recfg rest]
end

mutual
theorem Node.fwdActive_recfg : (n : Node) → (rq : Req) → (w : World U) →
    n.fwdActive rq (w.recfg r) = ((n.fwdActive rq w).1, (n.fwdActive rq w).2.recfg r)
  | .leaf .., rq, w => by rc Node.fwdActive []
  | .compo _ _ _ _ _ a _ q _ s, rq, w => by
      cases q <;> cases a <;> rc Node.fwdActive [Subs.fwdActiveAt_recfg s, Subs.fwdRequestAt_recfg r s]
  | .ortho _ _ _ _ s, rq, w => by rc Node.fwdActive [Subs.fwdActiveBits_recfg s]
theorem Subs.fwdActiveAt_recfg : (s : Subs) → (i : Nat) → (rq : Req) → (w : World U) →
    s.fwdActiveAt i rq (w.recfg r) = ((s.fwdActiveAt i rq w).1, (s.fwdActiveAt i rq w).2.recfg r)
  | .nil, _, _, w => by rc Subs.fwdActiveAt []
  | .cons _ n _, 0, rq, w => by rc Subs.fwdActiveAt [Node.fwdActive_recfg n]
  | .cons _ _ rest, i+1, rq, w => by rc Subs.fwdActiveAt [Subs.fwdActiveAt_recfg rest]
theorem Subs.fwdActiveBits_recfg : (s : Subs) → (rq : Req) → (w : World U) →
    s.fwdActiveBits rq (w.recfg r) = ((s.fwdActiveBits rq w).1, (s.fwdActiveBits rq w).2.recfg r)
  | .nil, _, w => by rc Subs.fwdActiveBits []
  | .cons b n rest, rq, w => by
      cases b <;> rc Subs.fwdActiveBits [Node.fwdActive_recfg n, Subs.fwdActiveBits_recfg rest]
end

end Hfsm
