/-
C13: `isActive` after the commit pass, as a function of the marked tree before it.

`actP n p acc` is the code's `isActive` for the state at path `p` below `n` (`acc` = the answer for `n`
itself).  For every traversal of the commit pass the theorem `…_outcome` says

    active after  =  (active before ∧ ¬ exited) ∨ entered

where `entered / exited` are read off `Node.arrive` (Proofs/Query.lean).  All statements are for every
world (= whatever the callbacks do) and every valid path, by induction on the path.
-/
import Hfsm.Proofs.Query

namespace Hfsm
variable {U : Type}

/-- `isActive` along a path (`RegistryT::isActive(stateId)` with the id resolved to its path). -/
def Node.actP (n : Node) (p : List Nat) (acc : Bool) : Bool := Node.nearest qActive n p acc

@[simp] theorem Node.actP_nil (n : Node) (acc : Bool) : n.actP [] acc = acc := rfl

theorem Node.actP_compo (id rid inj : Nat) (h : Bool) (st : Strategy) (a r q : Option Nat) (m : Bool) (s : Subs)
    (k : Nat) (rest : List Nat) (acc : Bool) (c : Node) (hc : s.get? k = some c) :
    (Node.compo id rid inj h st a r q m s).actP (k :: rest) acc = c.actP rest (a == some k) := by
  simp [Node.actP, Node.nearest, Node.subs, hc, qActive]

theorem Node.actP_ortho (id rid inj : Nat) (h : Bool) (s : Subs)
    (k : Nat) (rest : List Nat) (acc : Bool) (c : Node) (hc : s.get? k = some c) :
    (Node.ortho id rid inj h s).actP (k :: rest) acc = c.actP rest acc := by
  simp [Node.actP, Node.nearest, Node.subs, hc]

theorem Node.actP_clean (p : List Nat) (n : Node) (hc : n.Clean) : n.actP p false = false :=
  Node.nearest_clean_q p n hc

/-! ### shapes of the results -/

theorem Node.exit_compo_q (id rid inj : Nat) (h : Bool) (st : Strategy) (ai : Nat) (r q : Option Nat) (m : Bool)
    (s : Subs) (w : World U) :
    (Node.exit (.compo id rid inj h st (some ai) r q m s) w).1 =
      .compo id rid inj h st none (some ai) q m (s.exitAt ai w).1 := by
  simp only [Node.exit]

theorem Node.exit_ortho_q (id rid inj : Nat) (h : Bool) (s : Subs) (w : World U) :
    (Node.exit (.ortho id rid inj h s) w).1 = .ortho id rid inj h (s.exitAll w).1 := by
  simp only [Node.exit]

theorem Node.enter_compo_q (id rid inj : Nat) (h : Bool) (st : Strategy) (a r : Option Nat) (qi : Nat) (m : Bool)
    (s : Subs) (w : World U) :
    ∃ (r' : Option Nat) (w' : World U), (Node.enter (.compo id rid inj h st a r (some qi) m s) w).1 =
      .compo id rid inj h st (some qi) r' none m (s.enterAt qi w').1 := by
  simp only [Node.enter]; exact ⟨_, _, rfl⟩

theorem Node.enter_compo_none_q (id rid inj : Nat) (h : Bool) (st : Strategy) (a r : Option Nat) (m : Bool)
    (s : Subs) (w : World U) :
    (Node.enter (.compo id rid inj h st a r none m s) w).1 = .compo id rid inj h st none r none m s := by
  simp only [Node.enter]

theorem Node.enter_ortho_q (id rid inj : Nat) (h : Bool) (s : Subs) (w : World U) :
    ∃ w' : World U, (Node.enter (.ortho id rid inj h s) w).1 = .ortho id rid inj h (s.enterAll w').1 := by
  simp only [Node.enter]; exact ⟨_, rfl⟩

/-! ### exit -/

mutual
/-- After `deepExit` of a well-formed active sub-tree nothing below it is active. -/
theorem Node.exit_clean_q : (n : Node) → (w : World U) → n.Act → (n.exit w).1.Clean
  | .leaf id inj, w, _ => by simp [Node.exit, Node.Clean]
  | .compo id rid inj h st a r q m s, w, ha => by
    cases a with
    | none => simp [Node.Act] at ha
    | some ai =>
      rw [Node.exit_compo_q]
      simp only [Node.Act] at ha
      exact ⟨rfl, Subs.exitAt_clean_q s ai w ha⟩
  | .ortho id rid inj h s, w, ha => by
    rw [Node.exit_ortho_q]
    simp only [Node.Act] at ha
    exact Subs.exitAll_clean_q s w ha
theorem Subs.exitAt_clean_q : (s : Subs) → (i : Nat) → (w : World U) → s.ActAt i → (s.exitAt i w).1.CleanAll
  | .nil, _, _, h => by simp [Subs.ActAt] at h
  | .cons b n r, 0, w, h => by
    simp only [Subs.ActAt] at h
    simp only [Subs.exitAt, Subs.CleanAll]
    exact ⟨Node.exit_clean_q n w h.1, h.2⟩
  | .cons b n r, i+1, w, h => by
    simp only [Subs.ActAt] at h
    simp only [Subs.exitAt, Subs.CleanAll]
    exact ⟨h.1, Subs.exitAt_clean_q r i w h.2⟩
theorem Subs.exitAll_clean_q : (s : Subs) → (w : World U) → s.ActAll → (s.exitAll w).1.CleanAll
  | .nil, _, _ => by simp [Subs.exitAll, Subs.CleanAll]
  | .cons b n r, w, h => by
    simp only [Subs.ActAll] at h
    simp only [Subs.exitAll, Subs.CleanAll]
    exact ⟨Node.exit_clean_q n w h.1, Subs.exitAll_clean_q r _ h.2⟩
end

/-- `deepExit` changes neither the structure nor the request marks: paths stay valid … -/
theorem Node.valid_exit : ∀ (p : List Nat) (n : Node) (w : World U), (n.exit w).1.Valid p ↔ n.Valid p
  | [], n, w => by simp [Node.Valid, Node.follow]
  | k :: rest, n, w => by
    rw [Node.valid_cons, Node.valid_cons]
    cases n with
    | leaf id inj => simp [Node.exit, Node.subs, Subs.get?]
    | compo id rid inj h st a r q m s =>
      cases a with
      | none => simp [Node.exit]
      | some ai =>
        rw [Node.exit_compo_q]
        simp only [Node.subs, Subs.get?_exitAt_q]
        by_cases hk : k = ai
        · subst hk
          cases hc : s.get? k with
          | none => simp
          | some c => simp [Node.valid_exit rest c w]
        · simp [hk]
    | ortho id rid inj h s =>
      rw [Node.exit_ortho_q]
      obtain ⟨w', hw⟩ := Subs.get?_exitAll_q s k w
      simp only [Node.subs, hw]
      cases hc : s.get? k with
      | none => simp
      | some c => simp [Node.valid_exit rest c w']

/-- … and `deepEnter` afterwards follows the same marks. -/
theorem Node.arrive_enter_exit : ∀ (p : List Nat) (n : Node) (w : World U),
    (n.exit w).1.arrive .enter p = n.arrive .enter p
  | [], n, w => rfl
  | k :: rest, n, w => by
    cases n with
    | leaf id inj => simp [Node.exit]
    | compo id rid inj h st a r q m s =>
      cases a with
      | none => simp [Node.exit]
      | some ai =>
        rw [Node.exit_compo_q]
        simp only [Node.arrive, Node.subs, Subs.get?_exitAt_q, stepMode]
        by_cases hk : k = ai
        · subst hk
          cases hc : s.get? k with
          | none => simp
          | some c =>
            simp only [if_true, Option.map_some]
            by_cases hq : q = some k
            · simp only [hq, if_true]
              exact Node.arrive_enter_exit rest c w
            · simp only [hq, if_false]
        · simp [hk]
    | ortho id rid inj h s =>
      rw [Node.exit_ortho_q]
      obtain ⟨w', hw⟩ := Subs.get?_exitAll_q s k w
      simp only [Node.arrive, Node.subs, hw]
      cases hc : s.get? k with
      | none => simp
      | some c => simp [Node.arrive_enter_exit rest c w']

/-- `deepExit` reaches exactly the active states. -/
theorem Node.actP_eq_arrive_exit : ∀ (p : List Nat) (n : Node), n.Act → n.Valid p →
    n.actP p true = (n.arrive .exit p).isSome
  | [], n, _, _ => rfl
  | k :: rest, n, ha, hv => by
    obtain ⟨c, hc, hvc⟩ := Node.valid_cons.mp hv
    cases n with
    | leaf id inj => simp [Node.subs, Subs.get?] at hc
    | compo id rid inj h st a r q m s =>
      simp only [Node.subs] at hc
      rw [Node.actP_compo _ _ _ _ _ _ _ _ _ _ _ _ _ c hc]
      cases a with
      | none => simp [Node.Act] at ha
      | some ai =>
        simp only [Node.Act] at ha
        have hkc := Subs.actAt_get_q ha hc
        simp only [Node.arrive, Node.subs, hc, stepMode]
        by_cases hk : k = ai
        · subst hk
          simp only [BEq.rfl, if_true]
          exact Node.actP_eq_arrive_exit rest c (hkc.1 rfl) hvc
        · have : (some ai == some k) = false := by simp; omega
          have hne : ¬ (some ai = some k) := by simp; omega
          simp only [this, hne, if_false]
          rw [Node.actP_clean rest c (hkc.2 hk)]; rfl
    | ortho id rid inj h s =>
      simp only [Node.subs] at hc
      rw [Node.actP_ortho _ _ _ _ _ _ _ _ c hc]
      simp only [Node.Act] at ha
      simp only [Node.arrive, Node.subs, hc]
      exact Node.actP_eq_arrive_exit rest c (Subs.actAll_get_q ha hc) hvc

/-- After `deepExit` every state below is reported inactive. -/
theorem Node.actP_exit (p : List Nat) (n : Node) (w : World U) (ha : n.Act) : (n.exit w).1.actP p false = false :=
  Node.actP_clean p _ (Node.exit_clean_q n w ha)

/-! ### enter -/

/-- `deepEnter` of an inactive sub-tree activates exactly the states it reaches (following `requested`). -/
theorem Node.actP_enter : ∀ (p : List Nat) (n : Node) (w : World U), n.Clean → n.Valid p →
    (n.enter w).1.actP p true = (n.arrive .enter p).isSome
  | [], n, w, _, _ => rfl
  | k :: rest, n, w, hcl, hv => by
    obtain ⟨c, hc, hvc⟩ := Node.valid_cons.mp hv
    cases n with
    | leaf id inj => simp [Node.subs, Subs.get?] at hc
    | compo id rid inj h st a r q m s =>
      simp only [Node.subs] at hc
      simp only [Node.Clean] at hcl
      have hcc : c.Clean := Subs.cleanAll_get_q hcl.2 hc
      cases q with
      | none =>
        rw [Node.enter_compo_none_q, Node.actP_compo _ _ _ _ _ _ _ _ _ _ _ _ _ c hc]
        simp only [Node.arrive, Node.subs, hc, stepMode]
        simpa using Node.actP_clean rest c hcc
      | some qi =>
        obtain ⟨r', w', he⟩ := Node.enter_compo_q id rid inj h st a r qi m s w
        rw [he]
        simp only [Node.arrive, Node.subs, hc, stepMode]
        by_cases hk : k = qi
        · subst hk
          have hc' : (s.enterAt k w').1.get? k = some (c.enter w').1 := by simp [Subs.get?_enterAt_q, hc]
          rw [Node.actP_compo _ _ _ _ _ _ _ _ _ _ _ _ _ _ hc']
          simp only [BEq.rfl, if_true]
          exact Node.actP_enter rest c w' hcc hvc
        · have hc' : (s.enterAt qi w').1.get? k = some c := by simp [Subs.get?_enterAt_q, hk, hc]
          rw [Node.actP_compo _ _ _ _ _ _ _ _ _ _ _ _ _ _ hc']
          have h1 : (some qi == some k) = false := by simp; omega
          have h2 : ¬ (some qi = some k) := by simp; omega
          simp only [h1, h2, if_false]
          simpa using Node.actP_clean rest c hcc
    | ortho id rid inj h s =>
      simp only [Node.subs] at hc
      simp only [Node.Clean] at hcl
      obtain ⟨w', he⟩ := Node.enter_ortho_q id rid inj h s w
      rw [he]
      obtain ⟨w'', hw⟩ := Subs.get?_enterAll_q s k w'
      have hc' : (s.enterAll w').1.get? k = some (c.enter w'').1 := by rw [hw, hc]; rfl
      rw [Node.actP_ortho _ _ _ _ _ _ _ _ _ hc']
      simp only [Node.arrive, Node.subs, hc]
      exact Node.actP_enter rest c w'' (Subs.cleanAll_get_q hcl hc) hvc

/-! ### restart = exit, then enter -/

theorem Node.arrive_exit_cases : ∀ (p : List Nat) (n : Node) (μ : Mode), n.arrive .exit p = some μ → μ = .exit
  | [], _, _, h => by simp [Node.arrive] at h; exact h.symm
  | k :: rest, n, μ, h => by
    simp only [Node.arrive] at h
    cases hc : n.subs.get? k with
    | none => simp [hc] at h
    | some c =>
      simp only [hc] at h
      cases n with
      | leaf id inj => simp at h
      | compo id rid inj hh st a r q m s =>
        simp only [stepMode] at h
        by_cases ha : a = some k
        · simp only [ha, if_true] at h; exact Node.arrive_exit_cases rest c μ h
        · simp [ha] at h
      | ortho id rid inj hh s => exact Node.arrive_exit_cases rest c μ h

theorem Node.arrive_enter_cases : ∀ (p : List Nat) (n : Node) (μ : Mode), n.arrive .enter p = some μ → μ = .enter
  | [], _, _, h => by simp [Node.arrive] at h; exact h.symm
  | k :: rest, n, μ, h => by
    simp only [Node.arrive] at h
    cases hc : n.subs.get? k with
    | none => simp [hc] at h
    | some c =>
      simp only [hc] at h
      cases n with
      | leaf id inj => simp at h
      | compo id rid inj hh st a r q m s =>
        simp only [stepMode] at h
        by_cases hq : q = some k
        · simp only [hq, if_true] at h; exact Node.arrive_enter_cases rest c μ h
        · simp [hq] at h
      | ortho id rid inj hh s => exact Node.arrive_enter_cases rest c μ h

theorem exited_arrive_exit (n : Node) (p : List Nat) : exited (n.arrive .exit p) = (n.arrive .exit p).isSome := by
  cases h : n.arrive .exit p with
  | none => rfl
  | some μ => rw [Node.arrive_exit_cases p n μ h]; rfl

theorem entered_arrive_exit (n : Node) (p : List Nat) : entered (n.arrive .exit p) = false := by
  cases h : n.arrive .exit p with
  | none => rfl
  | some μ => rw [Node.arrive_exit_cases p n μ h]; rfl

theorem entered_arrive_enter (n : Node) (p : List Nat) : entered (n.arrive .enter p) = (n.arrive .enter p).isSome := by
  cases h : n.arrive .enter p with
  | none => rfl
  | some μ => rw [Node.arrive_enter_cases p n μ h]; rfl

theorem exited_arrive_enter (n : Node) (p : List Nat) : exited (n.arrive .enter p) = false := by
  cases h : n.arrive .enter p with
  | none => rfl
  | some μ => rw [Node.arrive_enter_cases p n μ h]; rfl

/-- A restarted sub-tree: a state is exited iff `deepExit` reaches it and entered iff `deepEnter` does. -/
theorem Node.arrive_restart : ∀ (p : List Nat) (n : Node),
    exited (n.arrive .restart p) = (n.arrive .exit p).isSome ∧
    entered (n.arrive .restart p) = (n.arrive .enter p).isSome
  | [], _ => ⟨rfl, rfl⟩
  | k :: rest, n => by
    simp only [Node.arrive]
    cases hc : n.subs.get? k with
    | none => exact ⟨rfl, rfl⟩
    | some c =>
      cases n with
      | leaf id inj => exact ⟨rfl, rfl⟩
      | compo id rid inj hh st a r q m s =>
        simp only [stepMode]
        by_cases ha : a = some k <;> by_cases hq : q = some k <;> simp only [ha, hq, if_true, if_false]
        · exact Node.arrive_restart rest c
        · exact ⟨exited_arrive_exit c rest, by rw [entered_arrive_exit]; rfl⟩
        · exact ⟨by rw [exited_arrive_enter]; rfl, entered_arrive_enter c rest⟩
        · exact ⟨rfl, rfl⟩
      | ortho id rid inj hh s => exact Node.arrive_restart rest c

/-! ### reenter and commit -/

theorem Node.reenter_compo_same_q (id rid inj : Nat) (h : Bool) (st : Strategy) (ai : Nat) (r : Option Nat) (m : Bool)
    (s : Subs) (w : World U) :
    ∃ w' : World U, (Node.reenter (.compo id rid inj h st (some ai) r (some ai) m s) w).1 =
      .compo id rid inj h st (some ai) r none m (s.reenterAt ai w').1 := by
  simp only [Node.reenter, if_true]; exact ⟨_, rfl⟩

theorem Node.reenter_compo_switch_q (id rid inj : Nat) (h : Bool) (st : Strategy) (ai qi : Nat) (r : Option Nat) (m : Bool)
    (s : Subs) (w : World U) (hne : ai ≠ qi) :
    ∃ w1 w2 : World U, (Node.reenter (.compo id rid inj h st (some ai) r (some qi) m s) w).1 =
      .compo id rid inj h st (some qi) (some ai) none m ((s.exitAt ai w1).1.enterAt qi w2).1 := by
  simp only [Node.reenter, hne, if_false]; exact ⟨_, _, rfl⟩

theorem Node.reenter_compo_none_q (id rid inj : Nat) (h : Bool) (st : Strategy) (a r : Option Nat) (m : Bool)
    (s : Subs) (w : World U) :
    (Node.reenter (.compo id rid inj h st a r none m s) w).1 = .compo id rid inj h st a r none m s := by
  cases a <;> simp only [Node.reenter]

theorem Node.reenter_ortho_q (id rid inj : Nat) (h : Bool) (s : Subs) (w : World U) :
    ∃ w' : World U, (Node.reenter (.ortho id rid inj h s) w).1 = .ortho id rid inj h (s.reenterAll w').1 := by
  simp only [Node.reenter]; exact ⟨_, rfl⟩

theorem Node.commit_compo_forward_q (id rid inj : Nat) (h : Bool) (st : Strategy) (ai : Nat) (r : Option Nat) (m : Bool)
    (s : Subs) (w : World U) :
    ∃ w' : World U, (Node.commit (.compo id rid inj h st (some ai) r none m s) w).1 =
      .compo id rid inj h st (some ai) r none m (s.commitAt ai w').1 := by
  simp only [Node.commit]; exact ⟨_, rfl⟩

theorem Node.commit_compo_switch_q (id rid inj : Nat) (h : Bool) (st : Strategy) (ai qi : Nat) (r : Option Nat) (m : Bool)
    (s : Subs) (w : World U) (hne : qi ≠ ai) :
    ∃ w1 w2 : World U, (Node.commit (.compo id rid inj h st (some ai) r (some qi) m s) w).1 =
      .compo id rid inj h st (some qi) (some ai) none m ((s.exitAt ai w1).1.enterAt qi w2).1 := by
  simp only [Node.commit, ne_eq, hne, not_false_eq_true, if_true]; exact ⟨_, _, rfl⟩

theorem Node.commit_compo_restart_q (id rid inj : Nat) (h : Bool) (st : Strategy) (ai : Nat) (r : Option Nat)
    (s : Subs) (w : World U) :
    ∃ w1 w2 : World U, (Node.commit (.compo id rid inj h st (some ai) r (some ai) true s) w).1 =
      .compo id rid inj h st (some ai) r none true ((s.exitAt ai w1).1.enterAt ai w2).1 := by
  simp only [Node.commit, ne_eq, not_true_eq_false, if_false, if_true]; exact ⟨_, _, rfl⟩

theorem Node.commit_compo_reenter_q (id rid inj : Nat) (h : Bool) (st : Strategy) (ai : Nat) (r : Option Nat)
    (s : Subs) (w : World U) :
    ∃ w' : World U, (Node.commit (.compo id rid inj h st (some ai) r (some ai) false s) w).1 =
      .compo id rid inj h st (some ai) r none false (s.reenterAt ai w').1 := by
  simp only [Node.commit, ne_eq, not_true_eq_false, if_false, Bool.false_eq_true]; exact ⟨_, rfl⟩

theorem Node.commit_ortho_q (id rid inj : Nat) (h : Bool) (s : Subs) (w : World U) :
    (Node.commit (.ortho id rid inj h s) w).1 = .ortho id rid inj h (s.commitAll w).1 := by
  simp only [Node.commit]

/-- The mode of sub-state `k` below a fork that is traversed in mode `m`. -/
def below (m : Mode) (a q : Option Nat) (rem : Bool) (k : Nat) (c : Node) (rest : List Nat) : Option Mode :=
  match stepMode m a q rem k with
  | some m' => c.arrive m' rest
  | none => none

theorem bool_absorb_q (x e : Bool) : ((x && !x) || e) = e := by cases x <;> cases e <;> rfl

/-- A fork that exits sub-state `ai` and enters sub-state `qi` (a switch when they differ, a restart in
place when they are equal): activity below it afterwards. -/
theorem Subs.switch_outcome (s : Subs) (ai qi k : Nat) (rem : Bool) (c : Node) (rest : List Nat) (w1 w2 : World U)
    (ha : s.ActAt ai) (hc : s.get? k = some c) (hv : c.Valid rest) :
    ∃ c', ((s.exitAt ai w1).1.enterAt qi w2).1.get? k = some c' ∧
      c'.actP rest (some qi == some k) =
        ((c.actP rest (some ai == some k) && !exited (below .restart (some ai) (some qi) rem k c rest)) ||
          entered (below .restart (some ai) (some qi) rem k c rest)) := by
  have hkc := Subs.actAt_get_q ha hc
  simp only [below, stepMode]
  by_cases hka : k = ai
  · subst hka
    have hact : c.Act := hkc.1 rfl
    by_cases hkq : k = qi
    · subst hkq
      refine ⟨((c.exit w1).1.enter w2).1, by simp [Subs.get?_enterAt_q, Subs.get?_exitAt_q, hc], ?_⟩
      simp only [BEq.rfl, if_true]
      rw [Node.actP_enter rest _ w2 (Node.exit_clean_q c w1 hact) ((Node.valid_exit rest c w1).mpr hv),
        Node.arrive_enter_exit, (Node.arrive_restart rest c).1, (Node.arrive_restart rest c).2,
        Node.actP_eq_arrive_exit rest c hact hv, bool_absorb_q]
    · have h1 : (some qi == some k) = false := by simp; omega
      have h2 : ¬ (some qi = some k) := by simp; omega
      refine ⟨(c.exit w1).1, by simp [Subs.get?_enterAt_q, Subs.get?_exitAt_q, hc, hkq], ?_⟩
      simp only [h1, h2, BEq.rfl, if_true, if_false]
      rw [Node.actP_exit rest c w1 hact, exited_arrive_exit, entered_arrive_exit,
        Node.actP_eq_arrive_exit rest c hact hv, bool_absorb_q]
  · have hcl : c.Clean := hkc.2 hka
    have h1 : (some ai == some k) = false := by simp; omega
    have h2 : ¬ (some ai = some k) := by simp; omega
    by_cases hkq : k = qi
    · subst hkq
      refine ⟨(c.enter w2).1, by simp [Subs.get?_enterAt_q, Subs.get?_exitAt_q, hc, hka], ?_⟩
      simp only [h1, h2, BEq.rfl, if_true, if_false]
      rw [Node.actP_enter rest c w2 hcl hv, Node.actP_clean rest c hcl, entered_arrive_enter]
      simp
    · have h3 : (some qi == some k) = false := by simp; omega
      have h4 : ¬ (some qi = some k) := by simp; omega
      refine ⟨c, by simp [Subs.get?_enterAt_q, Subs.get?_exitAt_q, hc, hka, hkq], ?_⟩
      simp only [h1, h2, h3, h4, if_false]
      simp [entered, exited]

/-- **`deepReenter`**: activity afterwards = (activity before ∧ ¬ exited) ∨ entered. -/
theorem Node.reenter_outcome : ∀ (p : List Nat) (n : Node) (w : World U), n.Act → n.Valid p →
    (n.reenter w).1.actP p true =
      ((n.actP p true && !exited (n.arrive .reenter p)) || entered (n.arrive .reenter p))
  | [], n, w, _, _ => rfl
  | k :: rest, n, w, hact, hv => by
    obtain ⟨c, hc, hvc⟩ := Node.valid_cons.mp hv
    cases n with
    | leaf id inj => simp [Node.subs, Subs.get?] at hc
    | compo id rid inj h st a r q m s =>
      simp only [Node.subs] at hc
      cases a with
      | none => simp [Node.Act] at hact
      | some ai =>
        simp only [Node.Act] at hact
        have harr : (Node.compo id rid inj h st (some ai) r q m s).arrive .reenter (k :: rest) =
            below .reenter (some ai) q m k c rest := by
          simp only [Node.arrive, Node.subs, hc, below]; rfl
        rw [harr, Node.actP_compo _ _ _ _ _ _ _ _ _ _ _ _ _ c hc]
        cases q with
        | none =>
          rw [Node.reenter_compo_none_q, Node.actP_compo _ _ _ _ _ _ _ _ _ _ _ _ _ c hc]
          simp [below, stepMode, entered, exited]
        | some qi =>
          by_cases hq : ai = qi
          · subst hq
            obtain ⟨w', he⟩ := Node.reenter_compo_same_q id rid inj h st ai r m s w
            rw [he]
            by_cases hk : k = ai
            · subst hk
              have hc' : (s.reenterAt k w').1.get? k = some (c.reenter w').1 := by simp [Subs.get?_reenterAt_q, hc]
              rw [Node.actP_compo _ _ _ _ _ _ _ _ _ _ _ _ _ _ hc']
              simp only [below, stepMode, BEq.rfl, if_true]
              exact Node.reenter_outcome rest c w' ((Subs.actAt_get_q hact hc).1 rfl) hvc
            · have hc' : (s.reenterAt ai w').1.get? k = some c := by simp [Subs.get?_reenterAt_q, hc, hk]
              rw [Node.actP_compo _ _ _ _ _ _ _ _ _ _ _ _ _ _ hc']
              simp [below, stepMode, hk, entered, exited]
          · obtain ⟨w1, w2, he⟩ := Node.reenter_compo_switch_q id rid inj h st ai qi r m s w hq
            rw [he]
            obtain ⟨c', hc', hout⟩ := Subs.switch_outcome s ai qi k m c rest w1 w2 hact hc hvc
            rw [Node.actP_compo _ _ _ _ _ _ _ _ _ _ _ _ _ _ hc', hout]
            have : below .reenter (some ai) (some qi) m k c rest = below .restart (some ai) (some qi) m k c rest := by
              simp only [below, stepMode, hq, if_false]
              by_cases hka : k = ai
              · subst hka
                have : ¬ (some qi = some k) := by simp; omega
                simp [this]
              · have : ¬ (some ai = some k) := by simp; omega
                simp only [hka, this, if_false]
                by_cases hkq : k = qi
                · subst hkq; simp
                · have : ¬ (some qi = some k) := by simp; omega
                  simp [hkq, this]
            rw [this]
    | ortho id rid inj h s =>
      simp only [Node.subs] at hc
      simp only [Node.Act] at hact
      obtain ⟨w', he⟩ := Node.reenter_ortho_q id rid inj h s w
      rw [he]
      obtain ⟨w'', hw⟩ := Subs.get?_reenterAll_q s k w'
      have hc' : (s.reenterAll w').1.get? k = some (c.reenter w'').1 := by rw [hw, hc]; rfl
      rw [Node.actP_ortho _ _ _ _ _ _ _ _ _ hc', Node.actP_ortho _ _ _ _ _ _ _ _ c hc]
      simp only [Node.arrive, Node.subs, hc]
      exact Node.reenter_outcome rest c w'' (Subs.actAll_get_q hact hc) hvc

/-- **`deepChangeToRequested`** (the commit pass): for every state, addressed by its path,

    isActive afterwards  =  (isActive before ∧ ¬ willExit) ∨ willEnter. -/
theorem Node.commit_outcome : ∀ (p : List Nat) (n : Node) (w : World U), n.Act → n.Valid p →
    (n.commit w).1.actP p true = ((n.actP p true && !n.willExit p) || n.willEnter p)
  | [], n, w, _, _ => rfl
  | k :: rest, n, w, hact, hv => by
    obtain ⟨c, hc, hvc⟩ := Node.valid_cons.mp hv
    unfold Node.willExit Node.willEnter
    cases n with
    | leaf id inj => simp [Node.subs, Subs.get?] at hc
    | compo id rid inj h st a r q m s =>
      simp only [Node.subs] at hc
      cases a with
      | none => simp [Node.Act] at hact
      | some ai =>
        simp only [Node.Act] at hact
        have harr : (Node.compo id rid inj h st (some ai) r q m s).arrive .commit (k :: rest) =
            below .commit (some ai) q m k c rest := by
          simp only [Node.arrive, Node.subs, hc, below]; rfl
        rw [harr, Node.actP_compo _ _ _ _ _ _ _ _ _ _ _ _ _ c hc]
        cases q with
        | none =>
          obtain ⟨w', he⟩ := Node.commit_compo_forward_q id rid inj h st ai r m s w
          rw [he]
          by_cases hk : k = ai
          · subst hk
            have hc' : (s.commitAt k w').1.get? k = some (c.commit w').1 := by simp [Subs.get?_commitAt_q, hc]
            rw [Node.actP_compo _ _ _ _ _ _ _ _ _ _ _ _ _ _ hc']
            simp only [below, stepMode, BEq.rfl, if_true]
            exact Node.commit_outcome rest c w' ((Subs.actAt_get_q hact hc).1 rfl) hvc
          · have hc' : (s.commitAt ai w').1.get? k = some c := by simp [Subs.get?_commitAt_q, hc, hk]
            rw [Node.actP_compo _ _ _ _ _ _ _ _ _ _ _ _ _ _ hc']
            simp [below, stepMode, hk, entered, exited]
        | some qi =>
          by_cases hq : qi = ai
          · subst hq
            cases m with
            | true =>
              obtain ⟨w1, w2, he⟩ := Node.commit_compo_restart_q id rid inj h st qi r s w
              rw [he]
              obtain ⟨c', hc', hout⟩ := Subs.switch_outcome s qi qi k true c rest w1 w2 hact hc hvc
              rw [Node.actP_compo _ _ _ _ _ _ _ _ _ _ _ _ _ _ hc', hout]
              have : below .commit (some qi) (some qi) true k c rest = below .restart (some qi) (some qi) true k c rest := by
                simp only [below, stepMode, ne_eq, not_true_eq_false, if_false, if_true]
                by_cases hk : k = qi
                · subst hk; simp
                · have : ¬ (some qi = some k) := by simp; omega
                  simp [hk, this]
              rw [this]
            | false =>
              obtain ⟨w', he⟩ := Node.commit_compo_reenter_q id rid inj h st qi r s w
              rw [he]
              by_cases hk : k = qi
              · subst hk
                have hc' : (s.reenterAt k w').1.get? k = some (c.reenter w').1 := by simp [Subs.get?_reenterAt_q, hc]
                rw [Node.actP_compo _ _ _ _ _ _ _ _ _ _ _ _ _ _ hc']
                simp only [below, stepMode, ne_eq, not_true_eq_false, if_false, if_true, BEq.rfl, Bool.false_eq_true]
                exact Node.reenter_outcome rest c w' ((Subs.actAt_get_q hact hc).1 rfl) hvc
              · have hc' : (s.reenterAt qi w').1.get? k = some c := by simp [Subs.get?_reenterAt_q, hc, hk]
                rw [Node.actP_compo _ _ _ _ _ _ _ _ _ _ _ _ _ _ hc']
                simp [below, stepMode, hk, entered, exited]
          · obtain ⟨w1, w2, he⟩ := Node.commit_compo_switch_q id rid inj h st ai qi r m s w hq
            rw [he]
            obtain ⟨c', hc', hout⟩ := Subs.switch_outcome s ai qi k m c rest w1 w2 hact hc hvc
            rw [Node.actP_compo _ _ _ _ _ _ _ _ _ _ _ _ _ _ hc', hout]
            have : below .commit (some ai) (some qi) m k c rest = below .restart (some ai) (some qi) m k c rest := by
              simp only [below, stepMode, ne_eq, hq, not_false_eq_true, if_true]
              by_cases hka : k = ai
              · subst hka
                have : ¬ (some qi = some k) := by simp; omega
                simp [this]
              · have : ¬ (some ai = some k) := by simp; omega
                simp only [hka, this, if_false]
                by_cases hkq : k = qi
                · subst hkq; simp
                · have : ¬ (some qi = some k) := by simp; omega
                  simp [hkq, this]
            rw [this]
    | ortho id rid inj h s =>
      simp only [Node.subs] at hc
      simp only [Node.Act] at hact
      rw [Node.commit_ortho_q]
      obtain ⟨w'', hw⟩ := Subs.get?_commitAll_q s k w
      have hc' : (s.commitAll w).1.get? k = some (c.commit w'').1 := by rw [hw, hc]; rfl
      rw [Node.actP_ortho _ _ _ _ _ _ _ _ _ hc', Node.actP_ortho _ _ _ _ _ _ _ _ c hc]
      simp only [Node.arrive, Node.subs, hc]
      exact Node.commit_outcome rest c w'' (Subs.actAll_get_q hact hc) hvc

end Hfsm
