/-
Projections ("views") of the machine tree and what each registry function preserves.

`n.view ka kr km` keeps the `active` fields iff `ka`, the `resumable` fields iff `kr`, the request marks
(`requested`, `remain`, orthogonal bits) iff `km`, and the static structure always.  Every predicate
of Proofs/Wf.lean factors through one of these views and every model function preserves one of them,
which replaces a quadratic number of "f preserves Q" lemmas:

  forward passes (`mark`, `report*`, `request*`, `fwdRequest*`, `fwdActive*`, `clearMarks`,
                  `restoreMarks`)                     preserve `view true true false`
  `schedule`, `noResumable`, `withResumableOf`        preserve `view true false true`
  `exit`                                              preserves `view false false true`
  `enter`, `reenter`, `commit`, `cleared`             preserve `view false false false` (= `cleared`)
-/
import Hfsm.Proofs.Wf
import Hfsm.Model.Machine
import Hfsm.Proofs.CommitTree

namespace Hfsm

mutual
def Node.view (ka kr km : Bool) : Node → Node
  | .leaf id inj => .leaf id inj
  | .compo id rid inj h st a r q m s =>
      .compo id rid inj h st (if ka then a else none) (if kr then r else none) (if km then q else none)
        (km && m) (s.viewAll ka kr km)
  | .ortho id rid inj h s => .ortho id rid inj h (s.viewAll ka kr km)
def Subs.viewAll (ka kr km : Bool) : Subs → Subs
  | .nil => .nil
  | .cons b n r => .cons (km && b) (n.view ka kr km) (r.viewAll ka kr km)
end

mutual
theorem Node.view_view (a r m a' r' m' : Bool) : (n : Node) →
    (n.view a r m).view a' r' m' = n.view (a && a') (r && r') (m && m')
  | .leaf .. => rfl
  | .compo id rid inj h st av rv q mv s => by
      simp only [Node.view, Subs.viewAll_viewAll a r m a' r' m' s]
      cases a <;> cases a' <;> cases r <;> cases r' <;> cases m <;> cases m' <;> simp
  | .ortho id rid inj h s => by simp only [Node.view, Subs.viewAll_viewAll a r m a' r' m' s]
theorem Subs.viewAll_viewAll (a r m a' r' m' : Bool) : (s : Subs) →
    (s.viewAll a r m).viewAll a' r' m' = s.viewAll (a && a') (r && r') (m && m')
  | .nil => rfl
  | .cons b n rest => by
      simp only [Subs.viewAll, Node.view_view a r m a' r' m' n, Subs.viewAll_viewAll a r m a' r' m' rest]
      cases m <;> cases m' <;> simp
end

/-- Agreement on a view implies agreement on every coarser view. -/
theorem Node.view_mono {n n' : Node} {a r m : Bool} (h : n'.view a r m = n.view a r m) (a' r' m' : Bool) :
    n'.view (a && a') (r && r') (m && m') = n.view (a && a') (r && r') (m && m') := by
  rw [← Node.view_view, ← Node.view_view, h]

mutual
theorem Node.view_true : (n : Node) → n.view true true true = n
  | .leaf .. => rfl
  | .compo id rid inj h st a r q m s => by simp [Node.view, Subs.viewAll_true s]
  | .ortho id rid inj h s => by simp [Node.view, Subs.viewAll_true s]
theorem Subs.viewAll_true : (s : Subs) → s.viewAll true true true = s
  | .nil => rfl
  | .cons b n r => by simp [Subs.viewAll, Node.view_true n, Subs.viewAll_true r]
end

mutual
theorem Node.cleared_eq_view : (n : Node) → n.cleared = n.view false false false
  | .leaf .. => rfl
  | .compo id rid inj h st a r q m s => by simp [Node.view, Node.cleared, Subs.cleared_eq_view s]
  | .ortho id rid inj h s => by simp [Node.view, Node.cleared, Subs.cleared_eq_view s]
theorem Subs.cleared_eq_view : (s : Subs) → s.cleared = s.viewAll false false false
  | .nil => rfl
  | .cons b n r => by simp [Subs.viewAll, Subs.cleared, Node.cleared_eq_view n, Subs.cleared_eq_view r]
end

/-! ### predicates factor through views -/

theorem Subs.viewAll_len (a r m : Bool) : (s : Subs) → (s.viewAll a r m).len = s.len
  | .nil => rfl
  | .cons _ _ rest => by simp [Subs.viewAll, Subs.len, Subs.viewAll_len a r m rest]

mutual
theorem Node.view_size (a r m : Bool) : (n : Node) → (n.view a r m).size = n.size
  | .leaf .. => rfl
  | .compo _ _ _ _ _ _ _ _ _ s => by simp [Node.view, Node.size, Subs.viewAll_size a r m s]
  | .ortho _ _ _ _ s => by simp [Node.view, Node.size, Subs.viewAll_size a r m s]
theorem Subs.viewAll_size (a r m : Bool) : (s : Subs) → (s.viewAll a r m).size = s.size
  | .nil => rfl
  | .cons _ n rest => by simp [Subs.viewAll, Subs.size, Node.view_size a r m n, Subs.viewAll_size a r m rest]
end

theorem Node.view_id (a r m : Bool) : (n : Node) → (n.view a r m).id = n.id
  | .leaf .. => rfl
  | .compo .. => rfl
  | .ortho .. => rfl

mutual
theorem Node.view_ok (a r m : Bool) : (n : Node) → ((n.view a r m).OK ↔ n.OK)
  | .leaf .. => Iff.rfl
  | .compo _ _ _ _ _ _ _ _ _ s => by simp [Node.view, Node.OK, Subs.viewAll_len, Subs.viewAll_ok a r m s]
  | .ortho _ _ _ _ s => by simp [Node.view, Node.OK, Subs.viewAll_len, Subs.viewAll_ok a r m s]
theorem Subs.viewAll_ok (a r m : Bool) : (s : Subs) → ((s.viewAll a r m).OKAll ↔ s.OKAll)
  | .nil => Iff.rfl
  | .cons _ n rest => by simp [Subs.viewAll, Subs.OKAll, Node.view_ok a r m n, Subs.viewAll_ok a r m rest]
end

mutual
theorem Node.view_act (r m : Bool) : (n : Node) →
    ((n.view true r m).Act ↔ n.Act) ∧ ((n.view true r m).Clean ↔ n.Clean)
  | .leaf .. => ⟨Iff.rfl, Iff.rfl⟩
  | .compo _ _ _ _ _ av _ _ _ s => by
      have h := Subs.viewAll_act r m s
      simp only [Node.view, Node.Act, Node.Clean, if_true, h.2.1]
      refine ⟨?_, trivial⟩
      cases av with
      | none => exact Iff.rfl
      | some ai => exact h.2.2 ai
  | .ortho _ _ _ _ s => by
      have h := Subs.viewAll_act r m s
      simp only [Node.view, Node.Act, Node.Clean]
      exact ⟨h.1, h.2.1⟩
theorem Subs.viewAll_act (r m : Bool) : (s : Subs) →
    ((s.viewAll true r m).ActAll ↔ s.ActAll) ∧ ((s.viewAll true r m).CleanAll ↔ s.CleanAll) ∧
    (∀ j, (s.viewAll true r m).ActAt j ↔ s.ActAt j)
  | .nil => ⟨Iff.rfl, Iff.rfl, fun _ => Iff.rfl⟩
  | .cons _ n rest => by
      have h1 := Node.view_act r m n
      have h2 := Subs.viewAll_act r m rest
      simp only [Subs.viewAll, Subs.ActAll, Subs.CleanAll, h1.1, h1.2, h2.1, h2.2.1, true_and]
      intro j; cases j <;> simp [Subs.ActAt, h1.1, h1.2, h2.2.1, h2.2.2]
end

mutual
theorem Node.view_resumableOK (a m : Bool) : (n : Node) → ((n.view a true m).ResumableOK ↔ n.ResumableOK)
  | .leaf .. => Iff.rfl
  | .compo _ _ _ _ _ _ _ _ _ s => by
      simp [Node.view, Node.ResumableOK, Subs.viewAll_len, Subs.viewAll_resumableOK a m s]
  | .ortho _ _ _ _ s => by simp [Node.view, Node.ResumableOK, Subs.viewAll_resumableOK a m s]
theorem Subs.viewAll_resumableOK (a m : Bool) : (s : Subs) →
    ((s.viewAll a true m).ResumableOKAll ↔ s.ResumableOKAll)
  | .nil => Iff.rfl
  | .cons _ n rest => by
      simp [Subs.viewAll, Subs.ResumableOKAll, Node.view_resumableOK a m n, Subs.viewAll_resumableOK a m rest]
end

mutual
theorem Node.view_noMarks (a r : Bool) : (n : Node) → ((n.view a r true).NoMarks ↔ n.NoMarks)
  | .leaf .. => Iff.rfl
  | .compo _ _ _ _ _ _ _ _ _ s => by simp [Node.view, Node.NoMarks, Subs.viewAll_noMarks a r s]
  | .ortho _ _ _ _ s => by simp [Node.view, Node.NoMarks, Subs.viewAll_noMarks a r s]
theorem Subs.viewAll_noMarks (a r : Bool) : (s : Subs) → ((s.viewAll a r true).NoMarksAll ↔ s.NoMarksAll)
  | .nil => Iff.rfl
  | .cons _ n rest => by
      simp [Subs.viewAll, Subs.NoMarksAll, Node.view_noMarks a r n, Subs.viewAll_noMarks a r rest]
end

mutual
theorem Node.view_res (a r : Bool) : (n : Node) → ((n.view a r true).Res ↔ n.Res)
  | .leaf .. => Iff.rfl
  | .compo _ _ _ _ _ _ _ q _ s => by
      have h := Subs.viewAll_res a r s
      simp only [Node.view, Node.Res, if_true]
      cases q with
      | none => exact Iff.rfl
      | some qi => exact h.2 qi
  | .ortho _ _ _ _ s => by
      simp only [Node.view, Node.Res]; exact (Subs.viewAll_res a r s).1
theorem Subs.viewAll_res (a r : Bool) : (s : Subs) →
    ((s.viewAll a r true).ResAll ↔ s.ResAll) ∧ (∀ j, (s.viewAll a r true).ResAt j ↔ s.ResAt j)
  | .nil => ⟨Iff.rfl, fun _ => Iff.rfl⟩
  | .cons _ n rest => by
      have h1 := Node.view_res a r n
      have h2 := Subs.viewAll_res a r rest
      simp only [Subs.viewAll, Subs.ResAll, h1, h2.1, true_and]
      intro j; cases j <;> simp [Subs.ResAt, h1, h2.2]
end

mutual
theorem Node.view_cok (r : Bool) : (n : Node) → ((n.view true r true).COK ↔ n.COK)
  | .leaf .. => Iff.rfl
  | .compo _ _ _ _ _ av _ q _ s => by
      have h := Subs.viewAll_cok r s
      have h' := Subs.viewAll_res true r s
      simp only [Node.view, Node.COK, if_true]
      cases q with
      | none => cases av with
        | none => exact Iff.rfl
        | some ai => exact h.2 ai
      | some qi => exact h'.2 qi
  | .ortho _ _ _ _ s => by
      simp only [Node.view, Node.COK]; exact (Subs.viewAll_cok r s).1
theorem Subs.viewAll_cok (r : Bool) : (s : Subs) →
    ((s.viewAll true r true).COKAll ↔ s.COKAll) ∧ (∀ j, (s.viewAll true r true).COKAt j ↔ s.COKAt j)
  | .nil => ⟨Iff.rfl, fun _ => Iff.rfl⟩
  | .cons _ n rest => by
      have h1 := Node.view_cok r n
      have h2 := Subs.viewAll_cok r rest
      simp only [Subs.viewAll, Subs.COKAll, h1, h2.1, true_and]
      intro j; cases j <;> simp [Subs.COKAt, h1, h2.2]
end

mutual
theorem Node.view_pathTo (a r m : Bool) : (n : Node) → (d : Nat) → (n.view a r m).pathTo d = n.pathTo d
  | .leaf .., _ => rfl
  | .compo _ _ _ _ _ _ _ _ _ s, d => by simp [Node.view, Node.pathTo, Subs.viewAll_pathIn a r m s]
  | .ortho _ _ _ _ s, d => by simp [Node.view, Node.pathTo, Subs.viewAll_pathIn a r m s]
theorem Subs.viewAll_pathIn (a r m : Bool) : (s : Subs) → (d i : Nat) → (s.viewAll a r m).pathIn d i = s.pathIn d i
  | .nil, _, _ => rfl
  | .cons _ n rest, d, i => by
      simp [Subs.viewAll, Subs.pathIn, Node.view_pathTo a r m n, Subs.viewAll_pathIn a r m rest]
end

/-! ### transfer lemmas: what agreement on a view gives -/

theorem Node.ok_congr {n n' : Node} {a r m : Bool} (h : n'.view a r m = n.view a r m) : n'.OK ↔ n.OK := by
  rw [← Node.view_ok a r m n', ← Node.view_ok a r m n, h]

theorem Node.pathTo_congr {n n' : Node} {a r m : Bool} (h : n'.view a r m = n.view a r m) (d : Nat) :
    n'.pathTo d = n.pathTo d := by
  rw [← Node.view_pathTo a r m n', ← Node.view_pathTo a r m n, h]

theorem Node.size_congr {n n' : Node} {a r m : Bool} (h : n'.view a r m = n.view a r m) : n'.size = n.size := by
  rw [← Node.view_size a r m n', ← Node.view_size a r m n, h]

theorem Node.act_congr {n n' : Node} {r m : Bool} (h : n'.view true r m = n.view true r m) : n'.Act ↔ n.Act := by
  rw [← (Node.view_act r m n').1, ← (Node.view_act r m n).1, h]

theorem Node.clean_congr {n n' : Node} {r m : Bool} (h : n'.view true r m = n.view true r m) : n'.Clean ↔ n.Clean := by
  rw [← (Node.view_act r m n').2, ← (Node.view_act r m n).2, h]

theorem Node.resumableOK_congr {n n' : Node} {a m : Bool} (h : n'.view a true m = n.view a true m) :
    n'.ResumableOK ↔ n.ResumableOK := by
  rw [← Node.view_resumableOK a m n', ← Node.view_resumableOK a m n, h]

theorem Node.noMarks_congr {n n' : Node} {a r : Bool} (h : n'.view a r true = n.view a r true) :
    n'.NoMarks ↔ n.NoMarks := by
  rw [← Node.view_noMarks a r n', ← Node.view_noMarks a r n, h]

theorem Node.res_congr {n n' : Node} {a r : Bool} (h : n'.view a r true = n.view a r true) : n'.Res ↔ n.Res := by
  rw [← Node.view_res a r n', ← Node.view_res a r n, h]

theorem Node.cok_congr {n n' : Node} {r : Bool} (h : n'.view true r true = n.view true r true) : n'.COK ↔ n.COK := by
  rw [← Node.view_cok r n', ← Node.view_cok r n, h]

/-! ### what the pure registry functions preserve -/

theorem Subs.setBit_view (a r : Bool) : (s : Subs) → (i : Nat) → (s.setBit i).viewAll a r false = s.viewAll a r false
  | .nil, _ => rfl
  | .cons _ _ _, 0 => by simp [Subs.setBit, Subs.viewAll]
  | .cons _ _ rest, i+1 => by simp [Subs.setBit, Subs.viewAll, Subs.setBit_view a r rest i]

mutual
theorem Node.mark_view (a r : Bool) : (n : Node) → (p : List Nat) → (n.mark p).1.view a r false = n.view a r false
  | .leaf .., p => by cases p <;> rfl
  | .compo id rid inj h st av rv q m s, [] => by simp [Node.mark]
  | .compo id rid inj h st av rv q m s, i :: rest => by
      have ih := Subs.markAt_view a r s i rest
      simp only [Node.mark]
      generalize s.markAt i rest = res at ih
      obtain ⟨s', ph⟩ := res
      simp only at ih
      cases ph with
      | p1 => simp [Node.view, ih]
      | p2 => simp only; split <;> simp [Node.view, ih]
      | p3 => simp [Node.view, ih]
  | .ortho id rid inj h s, [] => by simp [Node.mark]
  | .ortho id rid inj h s, i :: rest => by
      have ih := Subs.markAt_view a r s i rest
      simp only [Node.mark]
      generalize s.markAt i rest = res at ih
      obtain ⟨s', ph⟩ := res
      simp only at ih
      simp [Node.view, Subs.setBit_view, ih]
theorem Subs.markAt_view (a r : Bool) : (s : Subs) → (i : Nat) → (p : List Nat) →
    (s.markAt i p).1.viewAll a r false = s.viewAll a r false
  | .nil, _, _ => rfl
  | .cons b n rest, 0, p => by simp [Subs.markAt, Subs.viewAll, Node.mark_view a r n p]
  | .cons b n rest, i+1, p => by simp [Subs.markAt, Subs.viewAll, Subs.markAt_view a r rest i p]
end

mutual
theorem Node.schedule_view (a : Bool) : (n : Node) → (p : List Nat) → (n.schedule p).view a false true = n.view a false true
  | .leaf .., p => by cases p <;> rfl
  | .compo .., [] => by simp [Node.schedule]
  | .compo id rid inj h st av rv q m s, [i] => by simp [Node.schedule, Node.view]
  | .compo id rid inj h st av rv q m s, i :: j :: rest => by
      simp [Node.schedule, Node.view, Subs.scheduleAt_view a s i (j :: rest)]
  | .ortho .., [] => by simp [Node.schedule]
  | .ortho id rid inj h s, [_] => by simp [Node.schedule]
  | .ortho id rid inj h s, i :: j :: rest => by
      simp [Node.schedule, Node.view, Subs.scheduleAt_view a s i (j :: rest)]
theorem Subs.scheduleAt_view (a : Bool) : (s : Subs) → (i : Nat) → (p : List Nat) →
    (s.scheduleAt i p).viewAll a false true = s.viewAll a false true
  | .nil, _, _ => rfl
  | .cons b n rest, 0, p => by simp [Subs.scheduleAt, Subs.viewAll, Node.schedule_view a n p]
  | .cons b n rest, i+1, p => by simp [Subs.scheduleAt, Subs.viewAll, Subs.scheduleAt_view a rest i p]
end

mutual
theorem Node.clearMarks_view (a r : Bool) : (n : Node) → n.clearMarks.view a r false = n.view a r false
  | .leaf .. => rfl
  | .compo _ _ _ _ _ _ _ _ _ s => by simp [Node.clearMarks, Node.view, Subs.clearMarks_view a r s]
  | .ortho _ _ _ _ s => by simp [Node.clearMarks, Node.view, Subs.clearMarks_view a r s]
theorem Subs.clearMarks_view (a r : Bool) : (s : Subs) → s.clearMarks.viewAll a r false = s.viewAll a r false
  | .nil => rfl
  | .cons _ n rest => by simp [Subs.clearMarks, Subs.viewAll, Node.clearMarks_view a r n, Subs.clearMarks_view a r rest]
end

mutual
theorem Node.clearMarks_noMarks : (n : Node) → n.clearMarks.NoMarks
  | .leaf .. => trivial
  | .compo _ _ _ _ _ _ _ _ _ s => by simp [Node.clearMarks, Node.NoMarks, Subs.clearMarks_noMarks s]
  | .ortho _ _ _ _ s => by simp [Node.clearMarks, Node.NoMarks, Subs.clearMarks_noMarks s]
theorem Subs.clearMarks_noMarks : (s : Subs) → s.clearMarks.NoMarksAll
  | .nil => trivial
  | .cons _ n rest => by simp [Subs.clearMarks, Subs.NoMarksAll, Node.clearMarks_noMarks n, Subs.clearMarks_noMarks rest]
end

mutual
theorem Node.noResumable_view (a : Bool) : (n : Node) → n.noResumable.view a false true = n.view a false true
  | .leaf .. => rfl
  | .compo _ _ _ _ _ _ _ _ _ s => by simp [Node.noResumable, Node.view, Subs.noResumable_view a s]
  | .ortho _ _ _ _ s => by simp [Node.noResumable, Node.view, Subs.noResumable_view a s]
theorem Subs.noResumable_view (a : Bool) : (s : Subs) → s.noResumable.viewAll a false true = s.viewAll a false true
  | .nil => rfl
  | .cons _ n rest => by simp [Subs.noResumable, Subs.viewAll, Node.noResumable_view a n, Subs.noResumable_view a rest]
end

mutual
theorem Node.noResumable_resumableOK : (n : Node) → n.noResumable.ResumableOK
  | .leaf .. => trivial
  | .compo _ _ _ _ _ _ _ _ _ s => by simp [Node.noResumable, Node.ResumableOK, Subs.noResumable_resumableOK s]
  | .ortho _ _ _ _ s => by simp [Node.noResumable, Node.ResumableOK, Subs.noResumable_resumableOK s]
theorem Subs.noResumable_resumableOK : (s : Subs) → s.noResumable.ResumableOKAll
  | .nil => trivial
  | .cons _ n rest => by
      simp [Subs.noResumable, Subs.ResumableOKAll, Node.noResumable_resumableOK n, Subs.noResumable_resumableOK rest]
end

-- `restoreMarks cur bak` keeps the activity and resumable fields of `cur` …
mutual
theorem Node.restoreMarks_view (a r : Bool) : (n b : Node) → (n.restoreMarks b).view a r false = n.view a r false
  | .leaf .., _ => by simp [Node.restoreMarks]
  | .compo _ _ _ _ _ _ _ _ _ s, .compo _ _ _ _ _ _ _ _ _ s' => by
      simp [Node.restoreMarks, Node.view, Subs.restoreMarks_view a r s s']
  | .compo .., .leaf .. => by simp [Node.restoreMarks]
  | .compo .., .ortho .. => by simp [Node.restoreMarks]
  | .ortho _ _ _ _ s, .ortho _ _ _ _ s' => by simp [Node.restoreMarks, Node.view, Subs.restoreMarks_view a r s s']
  | .ortho .., .leaf .. => by simp [Node.restoreMarks]
  | .ortho .., .compo .. => by simp [Node.restoreMarks]
theorem Subs.restoreMarks_view (a r : Bool) : (s b : Subs) → (s.restoreMarks b).viewAll a r false = s.viewAll a r false
  | .nil, _ => by simp [Subs.restoreMarks]
  | .cons _ _ _, .nil => by simp [Subs.restoreMarks]
  | .cons _ n rest, .cons _ n' rest' => by
      simp [Subs.restoreMarks, Subs.viewAll, Node.restoreMarks_view a r n n', Subs.restoreMarks_view a r rest rest']
end

-- … and, when both have the same activity fields and structure, the marks of `bak`.
mutual
theorem Node.restoreMarks_marks (a : Bool) : (n b : Node) → n.view a false false = b.view a false false →
    (n.restoreMarks b).view a false true = b.view a false true
  | .leaf .., .leaf .., h => by simpa [Node.restoreMarks, Node.view] using h
  | .leaf .., .compo .., h => by simp [Node.view] at h
  | .leaf .., .ortho .., h => by simp [Node.view] at h
  | .compo _ _ _ _ _ _ _ _ _ s, .compo _ _ _ _ _ _ _ _ _ s', h => by
      simp only [Node.view, Node.compo.injEq] at h
      obtain ⟨h1, h2, h3, h4, h5, h6, _, _, _, h7⟩ := h
      simp [Node.restoreMarks, Node.view, Subs.restoreMarks_marks a s s' h7, h1, h2, h3, h4, h5, h6]
  | .compo .., .leaf .., h => by simp [Node.view] at h
  | .compo .., .ortho .., h => by simp [Node.view] at h
  | .ortho _ _ _ _ s, .ortho _ _ _ _ s', h => by
      simp only [Node.view, Node.ortho.injEq] at h
      obtain ⟨h1, h2, h3, h4, h7⟩ := h
      simp [Node.restoreMarks, Node.view, Subs.restoreMarks_marks a s s' h7, h1, h2, h3, h4]
  | .ortho .., .leaf .., h => by simp [Node.view] at h
  | .ortho .., .compo .., h => by simp [Node.view] at h
theorem Subs.restoreMarks_marks (a : Bool) : (s b : Subs) → s.viewAll a false false = b.viewAll a false false →
    (s.restoreMarks b).viewAll a false true = b.viewAll a false true
  | .nil, .nil, _ => rfl
  | .nil, .cons .., h => by simp [Subs.viewAll] at h
  | .cons .., .nil, h => by simp [Subs.viewAll] at h
  | .cons _ n rest, .cons _ n' rest', h => by
      simp only [Subs.viewAll, Subs.cons.injEq] at h
      simp [Subs.restoreMarks, Subs.viewAll, Node.restoreMarks_marks a n n' h.2.1, Subs.restoreMarks_marks a rest rest' h.2.2]
end

-- `withResumableOf cur snap` keeps everything of `cur` but the resumable fields …
mutual
theorem Node.withResumableOf_view (a : Bool) : (n b : Node) → (n.withResumableOf b).view a false true = n.view a false true
  | .leaf .., _ => by simp [Node.withResumableOf]
  | .compo _ _ _ _ _ _ _ _ _ s, .compo _ _ _ _ _ _ _ _ _ s' => by
      simp [Node.withResumableOf, Node.view, Subs.withResumableOf_view a s s']
  | .compo .., .leaf .. => by simp [Node.withResumableOf]
  | .compo .., .ortho .. => by simp [Node.withResumableOf]
  | .ortho _ _ _ _ s, .ortho _ _ _ _ s' => by simp [Node.withResumableOf, Node.view, Subs.withResumableOf_view a s s']
  | .ortho .., .leaf .. => by simp [Node.withResumableOf]
  | .ortho .., .compo .. => by simp [Node.withResumableOf]
theorem Subs.withResumableOf_view (a : Bool) : (s b : Subs) → (s.withResumableOf b).viewAll a false true = s.viewAll a false true
  | .nil, _ => by simp [Subs.withResumableOf]
  | .cons _ _ _, .nil => by simp [Subs.withResumableOf]
  | .cons _ n rest, .cons _ n' rest' => by
      simp [Subs.withResumableOf, Subs.viewAll, Node.withResumableOf_view a n n', Subs.withResumableOf_view a rest rest']
end

-- … which, for a snapshot of the same structure, are those of the snapshot.
mutual
theorem Node.withResumableOf_resumable : (n b : Node) → n.view false false false = b.view false false false →
    (n.withResumableOf b).view false true false = b.view false true false
  | .leaf .., .leaf .., h => by simpa [Node.withResumableOf, Node.view] using h
  | .leaf .., .compo .., h => by simp [Node.view] at h
  | .leaf .., .ortho .., h => by simp [Node.view] at h
  | .compo _ _ _ _ _ _ _ _ _ s, .compo _ _ _ _ _ _ _ _ _ s', h => by
      simp only [Node.view, Node.compo.injEq] at h
      obtain ⟨h1, h2, h3, h4, h5, _, _, _, _, h7⟩ := h
      simp [Node.withResumableOf, Node.view, Subs.withResumableOf_resumable s s' h7, h1, h2, h3, h4, h5]
  | .compo .., .leaf .., h => by simp [Node.view] at h
  | .compo .., .ortho .., h => by simp [Node.view] at h
  | .ortho _ _ _ _ s, .ortho _ _ _ _ s', h => by
      simp only [Node.view, Node.ortho.injEq] at h
      obtain ⟨h1, h2, h3, h4, h7⟩ := h
      simp [Node.withResumableOf, Node.view, Subs.withResumableOf_resumable s s' h7, h1, h2, h3, h4]
  | .ortho .., .leaf .., h => by simp [Node.view] at h
  | .ortho .., .compo .., h => by simp [Node.view] at h
theorem Subs.withResumableOf_resumable : (s b : Subs) → s.viewAll false false false = b.viewAll false false false →
    (s.withResumableOf b).viewAll false true false = b.viewAll false true false
  | .nil, .nil, _ => rfl
  | .nil, .cons .., h => by simp [Subs.viewAll] at h
  | .cons .., .nil, h => by simp [Subs.viewAll] at h
  | .cons _ n rest, .cons _ n' rest', h => by
      simp only [Subs.viewAll, Subs.cons.injEq] at h
      simp [Subs.withResumableOf, Subs.viewAll, Node.withResumableOf_resumable n n' h.2.1,
        Subs.withResumableOf_resumable rest rest' h.2.2]
end

end Hfsm
