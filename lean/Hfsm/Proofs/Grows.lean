/-
Every traversal of the model only appends to the callback sequence, and what it appends are
callbacks of a known kind (`World.GrowsBy`, Proofs/Trace.lean).  All lemmas are in
"post-composition" form (`GrowsBy P w w1 → GrowsBy P w (f … w1)`) so that they chain backwards.
-/
import Hfsm.Proofs.Trace

namespace Hfsm
variable {U : Type} [UtilArith U]
set_option linter.unusedSectionVars false

/-- backward chaining through the world-threading `let`s of a traversal; `$t` proves `P` for the
callbacks the traversal makes -/
macro "grow1" "[" t:term "]" : tactic =>
  `(tactic| (first
      | exact World.GrowsBy.refl _
      | assumption
      | exact $t
      | (intro _; exact $t)
      | with_reducible apply World.g_fail'
      | with_reducible apply World.g_logRec
      | with_reducible apply World.g_pin
      | with_reducible apply World.g_orHead
      | with_reducible apply World.g_orSub
      | with_reducible apply World.g_pushRegion
      | with_reducible apply World.g_popRegion
      | with_reducible apply World.g_ctlRequest
      | with_reducible apply World.g_setPlan
      | with_reducible apply World.g_invoke
      | with_reducible apply World.g_stateMethod
      | with_reducible apply World.g_runState
      | with_reducible apply World.g_guardState
      | with_reducible apply World.g_exitState))

section forward
variable {P : CbItem → Prop} (hC : ∀ sid m slot, m.cls = .const → P (sid, m, slot))
include hC

theorem World.g_headUtility {w w1 : World U} (sid inj : Nat) (hd : Bool) (h : GrowsBy P w w1) :
    GrowsBy P w (w1.headUtility sid inj hd).1 := by
  unfold World.headUtility
  dsimp only
  repeat' split
  all_goals repeat grow1 [hC _ _ _ rfl]

theorem World.g_headUtilityWrap {w w1 : World U} (sid inj : Nat) (hd : Bool) (h : GrowsBy P w w1) :
    GrowsBy P w (w1.headUtilityWrap sid inj hd).1 := by
  unfold World.headUtilityWrap
  split
  · exact World.g_headUtility hC sid inj true h
  · dsimp only
    split
    all_goals repeat grow1 [hC _ _ _ rfl]

theorem World.g_headRank {w w1 : World U} (sid inj : Nat) (hd : Bool) (h : GrowsBy P w w1) :
    GrowsBy P w (w1.headRank sid inj hd).1 := by
  unfold World.headRank
  dsimp only
  repeat' split
  all_goals repeat grow1 [hC _ _ _ rfl]

theorem World.g_headSelect {w w1 : World U} (sid inj : Nat) (hd : Bool) (h : GrowsBy P w w1) :
    GrowsBy P w (w1.headSelect sid inj hd).1 := by
  unfold World.headSelect
  dsimp only
  repeat' split
  all_goals repeat grow1 [hC _ _ _ rfl]

omit hC in
theorem World.g_resolveRandom {w w1 : World U} (hid : Nat) (us : List U) (sum : U) (rks : List Int) (top : Int)
    (h : GrowsBy P w w1) : GrowsBy P w (w1.resolveRandom hid us sum rks top).1 := by
  unfold World.resolveRandom
  dsimp only
  repeat' split
  all_goals first
    | (repeat grow1 [h])
    | (apply World.g_logRec; exact h.of_seq rfl)
    | (apply World.g_fail'; exact h.of_seq rfl)

mutual
theorem Node.g_reportChange {w : World U} : (n : Node) → (w1 : World U) → World.GrowsBy P w w1 →
    World.GrowsBy P w (n.reportChange w1).2.1
  | .leaf id inj, w1, h => by
    simp only [Node.reportChange]
    exact World.g_headUtility hC _ _ _ h
  | .compo id rid inj hd st a r q m s, w1, h => by
    simp only [Node.reportChange]
    repeat' split
    all_goals repeat (first
      | grow1 [hC _ _ _ rfl]
      | with_reducible apply World.g_headUtility hC
      | with_reducible apply World.g_resolveRandom
      | with_reducible apply Subs.g_reportChangeAt
      | with_reducible apply Subs.g_reportChangeAll
      | with_reducible apply Subs.g_reportChangeTop
      | with_reducible apply Subs.g_reportRankAll)
  | .ortho id rid inj hd s, w1, h => by
    simp only [Node.reportChange]
    repeat (first
      | grow1 [hC _ _ _ rfl]
      | with_reducible apply World.g_headUtility hC
      | with_reducible apply Subs.g_reportChangeAll)
theorem Subs.g_reportChangeAt {w : World U} : (s : Subs) → (i : Nat) → (w1 : World U) → World.GrowsBy P w w1 →
    World.GrowsBy P w (s.reportChangeAt i w1).2.1
  | .nil, _, w1, h => by simp only [Subs.reportChangeAt]; exact World.g_fail' _ h
  | .cons b n r, 0, w1, h => by simp only [Subs.reportChangeAt]; exact Node.g_reportChange n w1 h
  | .cons b n r, i+1, w1, h => by simp only [Subs.reportChangeAt]; exact Subs.g_reportChangeAt r i w1 h
theorem Subs.g_reportChangeAll {w : World U} : (s : Subs) → (w1 : World U) → World.GrowsBy P w w1 →
    World.GrowsBy P w (s.reportChangeAll w1).2.1
  | .nil, w1, h => by simp only [Subs.reportChangeAll]; exact h
  | .cons b n r, w1, h => by
    simp only [Subs.reportChangeAll]
    exact Subs.g_reportChangeAll r _ (Node.g_reportChange n w1 h)
theorem Subs.g_reportChangeTop {w : World U} : (s : Subs) → (rks : List Int) → (top : Int) → (w1 : World U) →
    World.GrowsBy P w w1 → World.GrowsBy P w (s.reportChangeTop rks top w1).2.1
  | .nil, _, _, w1, h => by simp only [Subs.reportChangeTop]; exact h
  | .cons b n r, rks, top, w1, h => by
    simp only [Subs.reportChangeTop]
    split
    · exact Subs.g_reportChangeTop r _ _ _ (Node.g_reportChange n w1 h)
    · exact Subs.g_reportChangeTop r _ _ _ h
theorem Subs.g_reportRankAll {w : World U} : (s : Subs) → (w1 : World U) → World.GrowsBy P w w1 →
    World.GrowsBy P w (s.reportRankAll w1).1
  | .nil, w1, h => by simp only [Subs.reportRankAll]; exact h
  | .cons b n r, w1, h => by
    simp only [Subs.reportRankAll]
    apply Subs.g_reportRankAll r
    split <;> exact World.g_headRank hC _ _ _ h
end

mutual
theorem Node.g_reportUtilize {w : World U} : (n : Node) → (w1 : World U) → World.GrowsBy P w w1 →
    World.GrowsBy P w (n.reportUtilize w1).2.1
  | .leaf id inj, w1, h => by
    simp only [Node.reportUtilize]
    exact World.g_headUtility hC _ _ _ h
  | .compo id rid inj hd st a r q m s, w1, h => by
    simp only [Node.reportUtilize]
    repeat' split
    all_goals repeat (first
      | grow1 [hC _ _ _ rfl]
      | with_reducible apply World.g_headUtility hC
      | with_reducible apply Subs.g_reportUtilizeAll)
  | .ortho id rid inj hd s, w1, h => by
    simp only [Node.reportUtilize]
    repeat (first
      | grow1 [hC _ _ _ rfl]
      | with_reducible apply World.g_headUtility hC
      | with_reducible apply Subs.g_reportUtilizeAll)
theorem Subs.g_reportUtilizeAll {w : World U} : (s : Subs) → (w1 : World U) → World.GrowsBy P w w1 →
    World.GrowsBy P w (s.reportUtilizeAll w1).2.1
  | .nil, w1, h => by simp only [Subs.reportUtilizeAll]; exact h
  | .cons b n r, w1, h => by
    simp only [Subs.reportUtilizeAll]
    exact Subs.g_reportUtilizeAll r _ (Node.g_reportUtilize n w1 h)
end

mutual
theorem Node.g_reportRandomize {w : World U} : (n : Node) → (w1 : World U) → World.GrowsBy P w w1 →
    World.GrowsBy P w (n.reportRandomize w1).2.1
  | .leaf id inj, w1, h => by
    simp only [Node.reportRandomize]
    exact World.g_headUtility hC _ _ _ h
  | .compo id rid inj hd st a r q m s, w1, h => by
    simp only [Node.reportRandomize]
    repeat (first
      | grow1 [hC _ _ _ rfl]
      | with_reducible apply World.g_headUtility hC
      | with_reducible apply World.g_headUtilityWrap hC
      | with_reducible apply World.g_resolveRandom
      | with_reducible apply Subs.g_reportRankAll hC
      | with_reducible apply Subs.g_reportRandomizeTop)
  | .ortho id rid inj hd s, w1, h => by
    simp only [Node.reportRandomize]
    repeat (first
      | grow1 [hC _ _ _ rfl]
      | with_reducible apply World.g_headUtility hC
      | with_reducible apply World.g_headUtilityWrap hC
      | with_reducible apply Subs.g_reportRandomizeAll)
theorem Subs.g_reportRandomizeAll {w : World U} : (s : Subs) → (w1 : World U) → World.GrowsBy P w w1 →
    World.GrowsBy P w (s.reportRandomizeAll w1).2.1
  | .nil, w1, h => by simp only [Subs.reportRandomizeAll]; exact h
  | .cons b n r, w1, h => by
    simp only [Subs.reportRandomizeAll]
    exact Subs.g_reportRandomizeAll r _ (Node.g_reportRandomize n w1 h)
theorem Subs.g_reportRandomizeTop {w : World U} : (s : Subs) → (rks : List Int) → (top : Int) → (w1 : World U) →
    World.GrowsBy P w w1 → World.GrowsBy P w (s.reportRandomizeTop rks top w1).2.1
  | .nil, _, _, w1, h => by simp only [Subs.reportRandomizeTop]; exact h
  | .cons b n r, rks, top, w1, h => by
    simp only [Subs.reportRandomizeTop]
    split
    · exact Subs.g_reportRandomizeTop r _ _ _ (Node.g_reportRandomize n w1 h)
    · exact Subs.g_reportRandomizeTop r _ _ _ h
end

mutual
theorem Node.g_request {w : World U} : (n : Node) → (rq : Req) → (w1 : World U) → World.GrowsBy P w w1 →
    World.GrowsBy P w (n.request rq w1).2
  | .leaf id inj, rq, w1, h => by
    simp only [Node.request]
    exact World.g_pin _ _ h
  | .ortho id rid inj hd s, rq, w1, h => by
    simp only [Node.request]
    exact Subs.g_requestAll s rq _ (World.g_pin _ _ h)
  | .compo id rid inj hd st a r q m s, rq, w1, h => by
    simp only [Node.request]
    repeat' split
    all_goals repeat (first
      | grow1 [hC _ _ _ rfl]
      | with_reducible apply World.g_headUtility hC
      | with_reducible apply World.g_headSelect hC
      | with_reducible apply World.g_resolveRandom
      | with_reducible apply Subs.g_reportChangeAll hC
      | with_reducible apply Subs.g_reportChangeTop hC
      | with_reducible apply Subs.g_reportRankAll hC
      | with_reducible apply Subs.g_reportUtilizeAll hC
      | with_reducible apply Subs.g_reportRandomizeTop hC
      | with_reducible apply Subs.g_requestAt)
theorem Subs.g_requestAt {w : World U} : (s : Subs) → (i : Nat) → (rq : Req) → (w1 : World U) →
    World.GrowsBy P w w1 → World.GrowsBy P w (s.requestAt i rq w1).2
  | .nil, _, _, w1, h => by simp only [Subs.requestAt]; exact World.g_fail' _ h
  | .cons b n r, 0, rq, w1, h => by simp only [Subs.requestAt]; exact Node.g_request n rq w1 h
  | .cons b n r, i+1, rq, w1, h => by simp only [Subs.requestAt]; exact Subs.g_requestAt r i rq w1 h
theorem Subs.g_requestAll {w : World U} : (s : Subs) → (rq : Req) → (w1 : World U) → World.GrowsBy P w w1 →
    World.GrowsBy P w (s.requestAll rq w1).2
  | .nil, _, w1, h => by simp only [Subs.requestAll]; exact h
  | .cons b n r, rq, w1, h => by
    simp only [Subs.requestAll]
    exact Subs.g_requestAll r rq _ (Node.g_request n rq w1 h)
end

mutual
theorem Node.g_fwdRequest {w : World U} : (n : Node) → (rq : Req) → (w1 : World U) → World.GrowsBy P w w1 →
    World.GrowsBy P w (n.fwdRequest rq w1).2
  | .leaf id inj, rq, w1, h => by
    simp only [Node.fwdRequest]
    exact World.g_pin _ _ h
  | .compo id rid inj hd st a r q m s, rq, w1, h => by
    simp only [Node.fwdRequest]
    split
    · exact Subs.g_fwdRequestAt s _ rq _ (World.g_pin _ _ h)
    · exact Node.g_request hC _ rq _ (World.g_pin _ _ h)
  | .ortho id rid inj hd s, rq, w1, h => by
    simp only [Node.fwdRequest]
    split
    · exact Subs.g_fwdRequestAll s rq _ (World.g_pin _ _ h)
    · exact Node.g_request hC _ rq _ (World.g_pin _ _ h)
theorem Subs.g_fwdRequestAt {w : World U} : (s : Subs) → (i : Nat) → (rq : Req) → (w1 : World U) →
    World.GrowsBy P w w1 → World.GrowsBy P w (s.fwdRequestAt i rq w1).2
  | .nil, _, _, w1, h => by simp only [Subs.fwdRequestAt]; exact World.g_fail' _ h
  | .cons b n r, 0, rq, w1, h => by simp only [Subs.fwdRequestAt]; exact Node.g_fwdRequest n rq w1 h
  | .cons b n r, i+1, rq, w1, h => by simp only [Subs.fwdRequestAt]; exact Subs.g_fwdRequestAt r i rq w1 h
theorem Subs.g_fwdRequestAll {w : World U} : (s : Subs) → (rq : Req) → (w1 : World U) → World.GrowsBy P w w1 →
    World.GrowsBy P w (s.fwdRequestAll rq w1).2
  | .nil, _, w1, h => by simp only [Subs.fwdRequestAll]; exact h
  | .cons b n r, rq, w1, h => by
    simp only [Subs.fwdRequestAll]
    exact Subs.g_fwdRequestAll r rq _ (Node.g_fwdRequest n rq w1 h)
end

mutual
theorem Node.g_fwdActive {w : World U} : (n : Node) → (rq : Req) → (w1 : World U) → World.GrowsBy P w w1 →
    World.GrowsBy P w (n.fwdActive rq w1).2
  | .leaf id inj, rq, w1, h => by
    simp only [Node.fwdActive]
    exact h
  | .compo id rid inj hd st a r q m s, rq, w1, h => by
    simp only [Node.fwdActive]
    repeat' split
    · exact Subs.g_fwdActiveAt s _ rq _ h
    · exact World.g_fail' _ h
    · exact Subs.g_fwdRequestAt hC s _ rq _ h
  | .ortho id rid inj hd s, rq, w1, h => by
    simp only [Node.fwdActive]
    exact Subs.g_fwdActiveBits s rq _ h
theorem Subs.g_fwdActiveAt {w : World U} : (s : Subs) → (i : Nat) → (rq : Req) → (w1 : World U) →
    World.GrowsBy P w w1 → World.GrowsBy P w (s.fwdActiveAt i rq w1).2
  | .nil, _, _, w1, h => by simp only [Subs.fwdActiveAt]; exact World.g_fail' _ h
  | .cons b n r, 0, rq, w1, h => by simp only [Subs.fwdActiveAt]; exact Node.g_fwdActive n rq w1 h
  | .cons b n r, i+1, rq, w1, h => by simp only [Subs.fwdActiveAt]; exact Subs.g_fwdActiveAt r i rq w1 h
theorem Subs.g_fwdActiveBits {w : World U} : (s : Subs) → (rq : Req) → (w1 : World U) → World.GrowsBy P w w1 →
    World.GrowsBy P w (s.fwdActiveBits rq w1).2
  | .nil, _, w1, h => by simp only [Subs.fwdActiveBits]; exact h
  | .cons b n r, rq, w1, h => by
    simp only [Subs.fwdActiveBits]
    split
    · exact Subs.g_fwdActiveBits r rq _ (Node.g_fwdActive n rq w1 h)
    · exact Subs.g_fwdActiveBits r rq _ h
end

end forward
/-! ### Commit.lean -/

section entryGuards
variable {P : CbItem → Prop} (hG : ∀ sid slot, P (sid, .entryGuard, slot))
include hG

mutual
theorem Node.g_entryGuard {w : World U} : (n : Node) → (w1 : World U) → World.GrowsBy P w w1 →
    World.GrowsBy P w (n.entryGuard w1).1
  | .leaf id inj, w1, h => by
    simp only [Node.entryGuard]
    exact World.g_guardState _ _ _ _ (hG _) h
  | .compo id rid inj hd st a r q m s, w1, h => by
    simp only [Node.entryGuard]
    repeat' split
    all_goals repeat (first
      | grow1 [hG _ _]
      | with_reducible apply Subs.g_entryGuardAt)
  | .ortho id rid inj hd s, w1, h => by
    simp only [Node.entryGuard]
    repeat' split
    all_goals repeat (first
      | grow1 [hG _ _]
      | with_reducible apply Subs.g_entryGuardAll)
theorem Subs.g_entryGuardAt {w : World U} : (s : Subs) → (i : Nat) → (w1 : World U) → World.GrowsBy P w w1 →
    World.GrowsBy P w (s.entryGuardAt i w1).1
  | .nil, _, w1, h => by simp only [Subs.entryGuardAt]; exact World.g_fail' _ h
  | .cons b n r, 0, w1, h => by simp only [Subs.entryGuardAt]; exact Node.g_entryGuard n w1 h
  | .cons b n r, i+1, w1, h => by simp only [Subs.entryGuardAt]; exact Subs.g_entryGuardAt r i w1 h
theorem Subs.g_entryGuardAll {w : World U} : (s : Subs) → (w1 : World U) → World.GrowsBy P w w1 →
    World.GrowsBy P w (s.entryGuardAll w1).1
  | .nil, w1, h => by simp only [Subs.entryGuardAll]; exact h
  | .cons b n r, w1, h => by
    simp only [Subs.entryGuardAll]
    exact Subs.g_entryGuardAll r _ (Node.g_entryGuard n w1 h)
end

mutual
theorem Node.g_fwdEntryGuard {w : World U} : (n : Node) → (w1 : World U) → World.GrowsBy P w w1 →
    World.GrowsBy P w (n.fwdEntryGuard w1).1
  | .leaf id inj, w1, h => by
    simp only [Node.fwdEntryGuard]
    exact h
  | .compo id rid inj hd st a r q m s, w1, h => by
    simp only [Node.fwdEntryGuard]
    repeat' split
    all_goals repeat (first
      | grow1 [h]
      | with_reducible apply Subs.g_fwdEntryGuardAt
      | with_reducible apply Subs.g_entryGuardAt hG)
  | .ortho id rid inj hd s, w1, h => by
    simp only [Node.fwdEntryGuard]
    repeat' split
    all_goals repeat (first
      | grow1 [h]
      | with_reducible apply Subs.g_fwdEntryGuardBits
      | with_reducible apply Subs.g_fwdEntryGuardAll)
theorem Subs.g_fwdEntryGuardAt {w : World U} : (s : Subs) → (i : Nat) → (w1 : World U) → World.GrowsBy P w w1 →
    World.GrowsBy P w (s.fwdEntryGuardAt i w1).1
  | .nil, _, w1, h => by simp only [Subs.fwdEntryGuardAt]; exact World.g_fail' _ h
  | .cons b n r, 0, w1, h => by simp only [Subs.fwdEntryGuardAt]; exact Node.g_fwdEntryGuard n w1 h
  | .cons b n r, i+1, w1, h => by simp only [Subs.fwdEntryGuardAt]; exact Subs.g_fwdEntryGuardAt r i w1 h
theorem Subs.g_fwdEntryGuardBits {w : World U} : (s : Subs) → (w1 : World U) → World.GrowsBy P w w1 →
    World.GrowsBy P w (s.fwdEntryGuardBits w1).1
  | .nil, w1, h => by simp only [Subs.fwdEntryGuardBits]; exact h
  | .cons b n r, w1, h => by
    simp only [Subs.fwdEntryGuardBits]
    apply Subs.g_fwdEntryGuardBits r
    split
    · exact Node.g_fwdEntryGuard n w1 h
    · exact h
theorem Subs.g_fwdEntryGuardAll {w : World U} : (s : Subs) → (w1 : World U) → World.GrowsBy P w w1 →
    World.GrowsBy P w (s.fwdEntryGuardAll w1).1
  | .nil, w1, h => by simp only [Subs.fwdEntryGuardAll]; exact h
  | .cons b n r, w1, h => by
    simp only [Subs.fwdEntryGuardAll]
    exact Subs.g_fwdEntryGuardAll r _ (Node.g_fwdEntryGuard n w1 h)
end

end entryGuards

section anything
variable {P : CbItem → Prop} (hT : ∀ x, P x)
include hT

mutual
theorem Node.g_exitGuard {w : World U} : (n : Node) → (w1 : World U) → World.GrowsBy P w w1 →
    World.GrowsBy P w (n.exitGuard w1).1
  | .leaf id inj, w1, h => by
    simp only [Node.exitGuard]
    exact World.g_guardState _ _ _ _ (fun _ => hT _) h
  | .compo id rid inj hd st a r q m s, w1, h => by
    simp only [Node.exitGuard]
    repeat' split
    all_goals repeat (first
      | grow1 [hT _]
      | with_reducible apply Subs.g_exitGuardAt)
  | .ortho id rid inj hd s, w1, h => by
    simp only [Node.exitGuard]
    repeat' split
    all_goals repeat (first
      | grow1 [hT _]
      | with_reducible apply Subs.g_exitGuardAll)
theorem Subs.g_exitGuardAt {w : World U} : (s : Subs) → (i : Nat) → (w1 : World U) → World.GrowsBy P w w1 →
    World.GrowsBy P w (s.exitGuardAt i w1).1
  | .nil, _, w1, h => by simp only [Subs.exitGuardAt]; exact World.g_fail' _ h
  | .cons b n r, 0, w1, h => by simp only [Subs.exitGuardAt]; exact Node.g_exitGuard n w1 h
  | .cons b n r, i+1, w1, h => by simp only [Subs.exitGuardAt]; exact Subs.g_exitGuardAt r i w1 h
theorem Subs.g_exitGuardAll {w : World U} : (s : Subs) → (w1 : World U) → World.GrowsBy P w w1 →
    World.GrowsBy P w (s.exitGuardAll w1).1
  | .nil, w1, h => by simp only [Subs.exitGuardAll]; exact h
  | .cons b n r, w1, h => by
    simp only [Subs.exitGuardAll]
    exact Subs.g_exitGuardAll r _ (Node.g_exitGuard n w1 h)
end

mutual
theorem Node.g_fwdExitGuard {w : World U} : (n : Node) → (w1 : World U) → World.GrowsBy P w w1 →
    World.GrowsBy P w (n.fwdExitGuard w1).1
  | .leaf id inj, w1, h => by
    simp only [Node.fwdExitGuard]
    exact h
  | .compo id rid inj hd st a r q m s, w1, h => by
    simp only [Node.fwdExitGuard]
    repeat' split
    all_goals repeat (first
      | grow1 [h]
      | with_reducible apply Subs.g_fwdExitGuardAt
      | with_reducible apply Subs.g_exitGuardAt hT)
  | .ortho id rid inj hd s, w1, h => by
    simp only [Node.fwdExitGuard]
    repeat' split
    all_goals repeat (first
      | grow1 [h]
      | with_reducible apply Subs.g_fwdExitGuardBits
      | with_reducible apply Subs.g_fwdExitGuardAll)
theorem Subs.g_fwdExitGuardAt {w : World U} : (s : Subs) → (i : Nat) → (w1 : World U) → World.GrowsBy P w w1 →
    World.GrowsBy P w (s.fwdExitGuardAt i w1).1
  | .nil, _, w1, h => by simp only [Subs.fwdExitGuardAt]; exact World.g_fail' _ h
  | .cons b n r, 0, w1, h => by simp only [Subs.fwdExitGuardAt]; exact Node.g_fwdExitGuard n w1 h
  | .cons b n r, i+1, w1, h => by simp only [Subs.fwdExitGuardAt]; exact Subs.g_fwdExitGuardAt r i w1 h
theorem Subs.g_fwdExitGuardBits {w : World U} : (s : Subs) → (w1 : World U) → World.GrowsBy P w w1 →
    World.GrowsBy P w (s.fwdExitGuardBits w1).1
  | .nil, w1, h => by simp only [Subs.fwdExitGuardBits]; exact h
  | .cons b n r, w1, h => by
    simp only [Subs.fwdExitGuardBits]
    apply Subs.g_fwdExitGuardBits r
    split
    · exact Node.g_fwdExitGuard n w1 h
    · exact h
theorem Subs.g_fwdExitGuardAll {w : World U} : (s : Subs) → (w1 : World U) → World.GrowsBy P w w1 →
    World.GrowsBy P w (s.fwdExitGuardAll w1).1
  | .nil, w1, h => by simp only [Subs.fwdExitGuardAll]; exact h
  | .cons b n r, w1, h => by
    simp only [Subs.fwdExitGuardAll]
    exact Subs.g_fwdExitGuardAll r _ (Node.g_fwdExitGuard n w1 h)
end

mutual
theorem Node.g_enter {w : World U} : (n : Node) → (w1 : World U) → World.GrowsBy P w w1 →
    World.GrowsBy P w (n.enter w1).2
  | .leaf id inj, w1, h => by
    simp only [Node.enter]
    repeat grow1 [hT _]
  | .compo id rid inj hd st a r q m s, w1, h => by
    simp only [Node.enter]
    repeat' split
    all_goals repeat (first
      | grow1 [hT _]
      | with_reducible apply Subs.g_enterAt)
  | .ortho id rid inj hd s, w1, h => by
    simp only [Node.enter]
    repeat (first
      | grow1 [hT _]
      | with_reducible apply Subs.g_enterAll)
theorem Subs.g_enterAt {w : World U} : (s : Subs) → (i : Nat) → (w1 : World U) → World.GrowsBy P w w1 →
    World.GrowsBy P w (s.enterAt i w1).2
  | .nil, _, w1, h => by simp only [Subs.enterAt]; exact World.g_fail' _ h
  | .cons b n r, 0, w1, h => by simp only [Subs.enterAt]; exact Node.g_enter n w1 h
  | .cons b n r, i+1, w1, h => by simp only [Subs.enterAt]; exact Subs.g_enterAt r i w1 h
theorem Subs.g_enterAll {w : World U} : (s : Subs) → (w1 : World U) → World.GrowsBy P w w1 →
    World.GrowsBy P w (s.enterAll w1).2
  | .nil, w1, h => by simp only [Subs.enterAll]; exact h
  | .cons b n r, w1, h => by
    simp only [Subs.enterAll]
    exact Subs.g_enterAll r _ (Node.g_enter n w1 h)
end

mutual
theorem Node.g_exit {w : World U} : (n : Node) → (w1 : World U) → World.GrowsBy P w w1 →
    World.GrowsBy P w (n.exit w1).2
  | .leaf id inj, w1, h => by
    simp only [Node.exit]
    repeat grow1 [hT _]
  | .compo id rid inj hd st a r q m s, w1, h => by
    simp only [Node.exit]
    repeat' split
    all_goals repeat (first
      | grow1 [hT _]
      | with_reducible apply Subs.g_exitAt)
  | .ortho id rid inj hd s, w1, h => by
    simp only [Node.exit]
    repeat (first
      | grow1 [hT _]
      | with_reducible apply Subs.g_exitAll)
theorem Subs.g_exitAt {w : World U} : (s : Subs) → (i : Nat) → (w1 : World U) → World.GrowsBy P w w1 →
    World.GrowsBy P w (s.exitAt i w1).2
  | .nil, _, w1, h => by simp only [Subs.exitAt]; exact World.g_fail' _ h
  | .cons b n r, 0, w1, h => by simp only [Subs.exitAt]; exact Node.g_exit n w1 h
  | .cons b n r, i+1, w1, h => by simp only [Subs.exitAt]; exact Subs.g_exitAt r i w1 h
theorem Subs.g_exitAll {w : World U} : (s : Subs) → (w1 : World U) → World.GrowsBy P w w1 →
    World.GrowsBy P w (s.exitAll w1).2
  | .nil, w1, h => by simp only [Subs.exitAll]; exact h
  | .cons b n r, w1, h => by
    simp only [Subs.exitAll]
    exact Subs.g_exitAll r _ (Node.g_exit n w1 h)
end

mutual
theorem Node.g_reenter {w : World U} : (n : Node) → (w1 : World U) → World.GrowsBy P w w1 →
    World.GrowsBy P w (n.reenter w1).2
  | .leaf id inj, w1, h => by
    simp only [Node.reenter]
    repeat grow1 [hT _]
  | .compo id rid inj hd st a r q m s, w1, h => by
    simp only [Node.reenter]
    repeat' split
    all_goals repeat (first
      | grow1 [hT _]
      | with_reducible apply Subs.g_enterAt hT
      | with_reducible apply Subs.g_exitAt hT
      | with_reducible apply Subs.g_reenterAt)
  | .ortho id rid inj hd s, w1, h => by
    simp only [Node.reenter]
    repeat (first
      | grow1 [hT _]
      | with_reducible apply Subs.g_reenterAll)
theorem Subs.g_reenterAt {w : World U} : (s : Subs) → (i : Nat) → (w1 : World U) → World.GrowsBy P w w1 →
    World.GrowsBy P w (s.reenterAt i w1).2
  | .nil, _, w1, h => by simp only [Subs.reenterAt]; exact World.g_fail' _ h
  | .cons b n r, 0, w1, h => by simp only [Subs.reenterAt]; exact Node.g_reenter n w1 h
  | .cons b n r, i+1, w1, h => by simp only [Subs.reenterAt]; exact Subs.g_reenterAt r i w1 h
theorem Subs.g_reenterAll {w : World U} : (s : Subs) → (w1 : World U) → World.GrowsBy P w w1 →
    World.GrowsBy P w (s.reenterAll w1).2
  | .nil, w1, h => by simp only [Subs.reenterAll]; exact h
  | .cons b n r, w1, h => by
    simp only [Subs.reenterAll]
    exact Subs.g_reenterAll r _ (Node.g_reenter n w1 h)
end

mutual
theorem Node.g_commit {w : World U} : (n : Node) → (w1 : World U) → World.GrowsBy P w w1 →
    World.GrowsBy P w (n.commit w1).2
  | .leaf id inj, w1, h => by
    simp only [Node.commit]
    repeat grow1 [hT _]
  | .compo id rid inj hd st a r q m s, w1, h => by
    simp only [Node.commit]
    repeat' split
    all_goals repeat (first
      | grow1 [hT _]
      | with_reducible apply Subs.g_enterAt hT
      | with_reducible apply Subs.g_exitAt hT
      | with_reducible apply Subs.g_reenterAt hT
      | with_reducible apply Subs.g_commitAt)
  | .ortho id rid inj hd s, w1, h => by
    simp only [Node.commit]
    repeat (first
      | grow1 [hT _]
      | with_reducible apply Subs.g_commitAll)
theorem Subs.g_commitAt {w : World U} : (s : Subs) → (i : Nat) → (w1 : World U) → World.GrowsBy P w w1 →
    World.GrowsBy P w (s.commitAt i w1).2
  | .nil, _, w1, h => by simp only [Subs.commitAt]; exact World.g_fail' _ h
  | .cons b n r, 0, w1, h => by simp only [Subs.commitAt]; exact Node.g_commit n w1 h
  | .cons b n r, i+1, w1, h => by simp only [Subs.commitAt]; exact Subs.g_commitAt r i w1 h
theorem Subs.g_commitAll {w : World U} : (s : Subs) → (w1 : World U) → World.GrowsBy P w w1 →
    World.GrowsBy P w (s.commitAll w1).2
  | .nil, w1, h => by simp only [Subs.commitAll]; exact h
  | .cons b n r, w1, h => by
    simp only [Subs.commitAll]
    exact Subs.g_commitAll r _ (Node.g_commit n w1 h)
end

end anything

/-! ### Dispatch.lean: plans -/

section plans
variable {P : CbItem → Prop} (hT : ∀ x, P x)
include hT

omit hT in
theorem World.g_runTasks {w : World U} (headId : Nat) : (ts : List Task) → (w1 : World U) → (clr : Nat) →
    World.GrowsBy P w w1 → World.GrowsBy P w (World.runTasks headId ts w1 clr).2.1
  | [], w1, clr, h => by simp only [World.runTasks]; exact h
  | t :: rest, w1, clr, h => by
    simp only [World.runTasks]
    repeat' split
    · exact h
    · apply World.g_runTasks headId rest
      refine World.GrowsBy.of_seq (w1 := ({ w1 with origin := some headId }).ctlRequest .change t.dest t.payload) rfl ?_
      apply World.g_ctlRequest
      exact h.of_seq rfl
    · apply World.g_runTasks headId rest
      refine World.GrowsBy.of_seq (w1 := ({ w1 with origin := some headId }).ctlRequest .change t.dest t.payload) rfl ?_
      apply World.g_ctlRequest
      exact h.of_seq rfl
    · exact World.g_runTasks headId rest _ _ h

theorem World.g_updatePlan {w w1 : World U} (headId inj : Nat) (hd : Bool) (st : TaskStatus)
    (h : World.GrowsBy P w w1) : World.GrowsBy P w (w1.updatePlan headId inj hd st).1 := by
  unfold World.updatePlan
  dsimp only
  repeat' split
  · apply World.g_stateMethod _ _ _ _ (fun _ => hT _)
    apply World.g_logRec
    exact h.of_seq rfl
  · refine World.GrowsBy.of_seq (w1 := (World.runTasks headId (w1.planOf w1.regionId) w1 0).2.1) rfl ?_
    exact World.g_runTasks _ _ _ _ h
  · apply World.g_stateMethod _ _ _ _ (fun _ => hT _)
    apply World.g_logRec
    exact h.of_seq rfl
  · exact h

mutual
theorem Node.g_updatePlans {w : World U} : (n : Node) → (w1 : World U) → World.GrowsBy P w w1 →
    World.GrowsBy P w (n.updatePlans w1).1
  | .leaf id inj, w1, h => by
    simp only [Node.updatePlans]
    exact h
  | .compo id rid inj hd st a r q m s, w1, h => by
    simp only [Node.updatePlans]
    repeat' split
    all_goals repeat (first
      | grow1 [hT _]
      | with_reducible apply World.g_updatePlan hT
      | with_reducible apply Subs.g_updatePlansAt)
  | .ortho id rid inj hd s, w1, h => by
    simp only [Node.updatePlans]
    repeat' split
    all_goals repeat (first
      | grow1 [hT _]
      | with_reducible apply World.g_updatePlan hT
      | with_reducible apply Subs.g_updatePlansAll)
theorem Subs.g_updatePlansAt {w : World U} : (s : Subs) → (i : Nat) → (w1 : World U) → World.GrowsBy P w w1 →
    World.GrowsBy P w (s.updatePlansAt i w1).1
  | .nil, _, w1, h => by simp only [Subs.updatePlansAt]; exact World.g_fail' _ h
  | .cons b n r, 0, w1, h => by simp only [Subs.updatePlansAt]; exact Node.g_updatePlans n w1 h
  | .cons b n r, i+1, w1, h => by simp only [Subs.updatePlansAt]; exact Subs.g_updatePlansAt r i w1 h
theorem Subs.g_updatePlansAll {w : World U} : (s : Subs) → (w1 : World U) → World.GrowsBy P w w1 →
    World.GrowsBy P w (s.updatePlansAll w1).1
  | .nil, w1, h => by simp only [Subs.updatePlansAll]; exact h
  | .cons b n r, w1, h => by
    simp only [Subs.updatePlansAll]
    exact Subs.g_updatePlansAll r _ (Node.g_updatePlans n w1 h)
end

end plans

/-! ### Machine.lean: the transition processing -/

namespace World
variable {P : CbItem → Prop} {w w1 : World U}
omit [UtilArith U]

theorem g_freshControl (h : GrowsBy P w w1) : GrowsBy P w w1.freshControl := h.of_seq rfl
theorem g_snapshot (root : Node) (o g : Bool) (h : GrowsBy P w w1) : GrowsBy P w (w1.snapshot root o g) :=
  h.of_seq rfl
theorem g_clearTargets (h : GrowsBy P w w1) : GrowsBy P w w1.clearTargets := by
  unfold World.clearTargets; split
  · exact h.of_seq rfl
  · exact h
theorem g_clearStatuses (h : GrowsBy P w w1) : GrowsBy P w w1.clearStatuses := h.of_seq rfl
theorem g_clearPlanData (h : GrowsBy P w w1) : GrowsBy P w w1.clearPlanData := h.of_seq rfl

end World

section machine
variable {P : CbItem → Prop} (hT : ∀ x, P x)
include hT

namespace Mach

theorem g_applyRequest {w : World U} (m : Mach U) (t : Transition) (i : Nat)
    (h : World.GrowsBy P w m.w) : World.GrowsBy P w (m.applyRequest t i).w := by
  unfold Mach.applyRequest
  dsimp only
  repeat' split
  all_goals repeat (first
    | grow1 [h]
    | with_reducible apply World.g_snapshot
    | with_reducible apply Node.g_request (fun _ _ _ _ => hT _)
    | with_reducible apply Node.g_fwdActive (fun _ _ _ _ => hT _))

theorem g_applyAll {w : World U} : (ts : List Transition) → (m : Mach U) → (i : Nat) →
    World.GrowsBy P w m.w → World.GrowsBy P w (m.applyAll ts i).w
  | [], m, _, h => by simp only [Mach.applyAll]; exact h
  | t :: rest, m, i, h => by
    simp only [Mach.applyAll]
    apply g_applyAll rest
    split
    · exact g_applyRequest hT m t i h
    · exact h

theorem g_approvedByGuards {w : World U} (m : Mach U) (cur pend : List Transition)
    (h : World.GrowsBy P w m.w) : World.GrowsBy P w (m.approvedByGuards cur pend).1.w := by
  unfold Mach.approvedByGuards
  dsimp only
  have h0 : World.GrowsBy P w (({ m.w.freshControl with pending := pend, current := cur }).snapshot m.root true true) :=
    h.of_seq rfl
  split
  · exact Node.g_fwdEntryGuard (fun _ _ => hT _) _ _ (Node.g_fwdExitGuard hT _ _ h0)
  · exact Node.g_fwdExitGuard hT _ _ h0

theorem g_approvedByEntryGuards {w : World U} (m : Mach U) (cur pend : List Transition)
    (h : World.GrowsBy P w m.w) : World.GrowsBy P w (m.approvedByEntryGuards cur pend).1.w := by
  unfold Mach.approvedByEntryGuards
  dsimp only
  have h0 : World.GrowsBy P w (({ m.w.freshControl with pending := pend, current := cur }).snapshot m.root true true) :=
    h.of_seq rfl
  exact Node.g_entryGuard (fun _ _ => hT _) _ _ h0

theorem g_rounds {w : World U} (initial : Bool) : (fuel : Nat) → (m : Mach U) → (bak : Node) →
    (cur : List Transition) → World.GrowsBy P w m.w → World.GrowsBy P w (rounds initial fuel m bak cur).1.w
  | 0, m, _, _, h => by simp only [rounds]; exact h
  | fuel+1, m, bak, cur, h => by
    simp only [rounds]
    split
    · exact h
    · have h1 := g_applyAll hT m.w.requests m 0 h
      split
      · have h2 : World.GrowsBy P w
            ({ (m.applyAll m.w.requests 0) with w := { (m.applyAll m.w.requests 0).w with requests := [] } } : Mach U).w :=
          h1.of_seq rfl
        cases initial with
        | true =>
          simp only [if_true]
          have h3 := g_approvedByEntryGuards hT _ cur m.w.requests h2
          split
          · exact g_rounds true fuel _ _ _ h3
          · exact g_rounds true fuel _ _ _ h3
        | false =>
          simp only [Bool.false_eq_true, if_false]
          have h3 := g_approvedByGuards hT _ cur m.w.requests h2
          split
          · exact g_rounds false fuel _ _ _ h3
          · exact g_rounds false fuel _ _ _ (World.g_clearTargets h3)
      · exact g_rounds initial fuel _ _ _ (h1.of_seq rfl)

theorem g_updateActivity {w : World U} (m : Mach U) (h : World.GrowsBy P w m.w) :
    World.GrowsBy P w m.updateActivity.w := h

theorem g_processRequest {w : World U} (m : Mach U) (h : World.GrowsBy P w m.w) :
    World.GrowsBy P w m.processRequest.w := by
  unfold Mach.processRequest
  dsimp only
  split
  · exact (World.g_clearTargets h).of_seq rfl
  · have h1 := g_rounds hT false m.w.clearTargets.cfg.substitutionLimit
      { m with w := m.w.clearTargets.freshControl } m.root [] (World.g_freshControl (World.g_clearTargets h))
    split
    · exact h1.of_seq rfl
    · refine World.GrowsBy.of_seq rfl (Node.g_commit hT _ _ ?_)
      exact h1.of_seq rfl

end Mach
end machine

end Hfsm
