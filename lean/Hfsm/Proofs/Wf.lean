/-
Shared predicates on the machine tree (definitions only; lemmas live in the Proofs/* files that use
them).  Ported from the design spike (design_spike/Core*.lean), now over the real `Node`/`Subs`.

  Clean n   nothing below `n` is active            (every composite region has `active = none`)
  Act n     `n` is entered and well formed: a composite region has exactly one entered sub-state
            (`active = some i`, `i` in range, the others clean), an orthogonal one all of them
  NoMarks n no request marks (`requested`, orthogonal bits, `remain`) anywhere below `n`
  Res n     every composite region the commit pass would enter below `n` has a valid `requested`
  COK n     what `commit` needs of an active sub-tree (forward / switch / restart in place / reenter)
  OK n      structural sanity: every region has at least one sub-state
-/
import Hfsm.Model.Tree

namespace Hfsm

mutual
def Node.Clean : Node → Prop
  | .leaf .. => True
  | .compo _ _ _ _ _ a _ _ _ s => a = none ∧ s.CleanAll
  | .ortho _ _ _ _ s => s.CleanAll
def Subs.CleanAll : Subs → Prop
  | .nil => True
  | .cons _ n r => n.Clean ∧ r.CleanAll
end

mutual
def Node.Act : Node → Prop
  | .leaf .. => True
  | .compo _ _ _ _ _ a _ _ _ s => match a with
    | some i => s.ActAt i
    | none => False
  | .ortho _ _ _ _ s => s.ActAll
/-- sub-state `i` exists, is active and well formed; all others are clean -/
def Subs.ActAt : Subs → Nat → Prop
  | .nil, _ => False
  | .cons _ n r, 0 => n.Act ∧ r.CleanAll
  | .cons _ n r, i+1 => n.Clean ∧ r.ActAt i
def Subs.ActAll : Subs → Prop
  | .nil => True
  | .cons _ n r => n.Act ∧ r.ActAll
end

mutual
def Node.NoMarks : Node → Prop
  | .leaf .. => True
  | .compo _ _ _ _ _ _ _ q m s => q = none ∧ m = false ∧ s.NoMarksAll
  | .ortho _ _ _ _ s => s.NoMarksAll
def Subs.NoMarksAll : Subs → Prop
  | .nil => True
  | .cons b n r => b = false ∧ n.NoMarks ∧ r.NoMarksAll
end

mutual
def Node.Res : Node → Prop
  | .leaf .. => True
  | .compo _ _ _ _ _ _ _ q _ s => match q with
    | some i => s.ResAt i
    | none => False
  | .ortho _ _ _ _ s => s.ResAll
def Subs.ResAt : Subs → Nat → Prop
  | .nil, _ => False
  | .cons _ n _, 0 => n.Res
  | .cons _ _ r, i+1 => r.ResAt i
def Subs.ResAll : Subs → Prop
  | .nil => True
  | .cons _ n r => n.Res ∧ r.ResAll
end

mutual
def Node.COK : Node → Prop
  | .leaf .. => True
  | .compo _ _ _ _ _ a _ q _ s => match q with
    | none => (match a with | some ai => s.COKAt ai | none => True)
    | some qi => s.ResAt qi
  | .ortho _ _ _ _ s => s.COKAll
def Subs.COKAt : Subs → Nat → Prop
  | .nil, _ => True
  | .cons _ n _, 0 => n.COK
  | .cons _ _ r, i+1 => r.COKAt i
def Subs.COKAll : Subs → Prop
  | .nil => True
  | .cons _ n r => n.COK ∧ r.COKAll
end

mutual
def Node.OK : Node → Prop
  | .leaf .. => True
  | .compo _ _ _ _ _ _ _ _ _ s => 0 < s.len ∧ s.OKAll
  | .ortho _ _ _ _ s => 0 < s.len ∧ s.OKAll
def Subs.OKAll : Subs → Prop
  | .nil => True
  | .cons _ n r => n.OK ∧ r.OKAll
end

-- The resumable mark of every composite region, when present, names an existing sub-state.
mutual
def Node.ResumableOK : Node → Prop
  | .leaf .. => True
  | .compo _ _ _ _ _ _ r _ _ s => (match r with | some ri => ri < s.len | none => True) ∧ s.ResumableOKAll
  | .ortho _ _ _ _ s => s.ResumableOKAll
def Subs.ResumableOKAll : Subs → Prop
  | .nil => True
  | .cons _ n r => n.ResumableOK ∧ r.ResumableOKAll
end

/-- State of the tree between API calls on an activated instance. -/
def Node.Settled (n : Node) : Prop := n.OK ∧ n.Act ∧ n.NoMarks ∧ n.ResumableOK

/-- State of the tree of an instance that is not activated. -/
def Node.Idle (n : Node) : Prop := n.OK ∧ n.Clean ∧ n.NoMarks ∧ n.ResumableOK

end Hfsm
