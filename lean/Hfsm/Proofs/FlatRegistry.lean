/-
The flat registry (Model/FlatRegistry.lean) agrees with the tree model (Model/Tree.lean,
Model/Forward.lean): helper lemmas.  Theorems of the property are in Props/C17Flat.lean.

Plan of the proof
* `Node.chain ix n path`: the `Parent`s an upward walk from the node at `path` passes (bottom first),
  computed by descending with the template index arithmetic;
* tree side, by mutual structural induction with the arrays framed as `pre ++ n.dyn ++ post`:
  `nearest` (queries) = first composite parent of the chain; `mark` = the phase fold `runRI` over the
  chain; `schedule` = one write for the first parent;
* flat side, generic: if consecutive chain elements are linked by `forkParent`, the fuel loops
  compute exactly those folds;
* glue: the records of `Shape.nodes` (Props/C17.lean: `register_tables`,
  `parent_is_containing_fork`, …) show that the tables link the chain.
-/
import Hfsm.Model.FlatRegistry
import Hfsm.Props.C17

namespace Hfsm

/-! ### array segments -/

@[simp] theorem Dyn.append_compoActive (a b : Dyn) :
    (a ++ b).compoActive = a.compoActive ++ b.compoActive := rfl
@[simp] theorem Dyn.append_compoResumable (a b : Dyn) :
    (a ++ b).compoResumable = a.compoResumable ++ b.compoResumable := rfl
@[simp] theorem Dyn.append_compoRequested (a b : Dyn) :
    (a ++ b).compoRequested = a.compoRequested ++ b.compoRequested := rfl
@[simp] theorem Dyn.append_compoRemains (a b : Dyn) :
    (a ++ b).compoRemains = a.compoRemains ++ b.compoRemains := rfl
@[simp] theorem Dyn.append_orthoRequested (a b : Dyn) :
    (a ++ b).orthoRequested = a.orthoRequested ++ b.orthoRequested := rfl

theorem Dyn.ext' {a b : Dyn} (h1 : a.compoActive = b.compoActive)
    (h2 : a.compoResumable = b.compoResumable) (h3 : a.compoRequested = b.compoRequested)
    (h4 : a.compoRemains = b.compoRemains) (h5 : a.orthoRequested = b.orthoRequested) : a = b := by
  cases a; cases b; simp_all

theorem Dyn.append_assoc (a b c : Dyn) : a ++ b ++ c = a ++ (b ++ c) := by
  apply Dyn.ext' <;> simp

@[simp] theorem Dyn.empty_append (a : Dyn) : Dyn.empty ++ a = a := by
  apply Dyn.ext' <;> simp [Dyn.empty]

@[simp] theorem Dyn.append_empty (a : Dyn) : a ++ Dyn.empty = a := by
  apply Dyn.ext' <;> simp [Dyn.empty]

/-! ### sizes of a tree and of its declaration -/

def sumCompo (l : List Info) : Nat := (l.map (·.compoCount)).sum
def sumOrtho (l : List Info) : Nat := (l.map (·.orthoCount)).sum

theorem csiFold_counts (l : List Info) :
    (csiFold l).compoCount = sumCompo l ∧ (csiFold l).orthoCount = sumOrtho l := by
  induction l with
  | nil => simp [Info.zero, sumCompo, sumOrtho]
  | cons i r ih => rw [csiFold_cons]; simp [Info.consC, ih, sumCompo, sumOrtho]

theorem osiFold_counts (l : List Info) :
    (osiFold l).compoCount = sumCompo l ∧ (osiFold l).orthoCount = sumOrtho l := by
  induction l with
  | nil => simp [Info.zero, sumCompo, sumOrtho]
  | cons i r ih => rw [osiFold_cons]; simp [Info.consO, Info.consC, ih, sumCompo, sumOrtho]

theorem Subs.len_shapes : (s : Subs) → s.shapes.length = s.len
  | .nil => rfl
  | .cons _ _ r => by simp [Subs.shapes, Shapes.length, Subs.len, Subs.len_shapes r]

mutual
theorem Node.size_eq : (n : Node) → n.shape.info.stateCount = n.size
  | .leaf .. => rfl
  | .compo _ _ _ _ _ _ _ _ _ s => by
    simp [Node.shape, Shape.info, Info.compo, Node.size, csiFold_stateCount, Subs.size_eq s]
  | .ortho _ _ _ _ s => by
    simp [Node.shape, Shape.info, Info.ortho, Node.size, osiFold_stateCount, Subs.size_eq s]
theorem Subs.size_eq : (s : Subs) → sumStates s.shapes.infos = s.size
  | .nil => rfl
  | .cons _ n r => by
    simp [Subs.shapes, Shapes.infos, sumStates, Subs.size, Node.size_eq n]
    exact Subs.size_eq r
end

mutual
theorem Node.dyn_lengths : (n : Node) →
    n.dyn.compoActive.length = n.shape.info.compoCount ∧
    n.dyn.compoResumable.length = n.shape.info.compoCount ∧
    n.dyn.compoRequested.length = n.shape.info.compoCount ∧
    n.dyn.compoRemains.length = n.shape.info.compoCount ∧
    n.dyn.orthoRequested.length = n.shape.info.orthoCount
  | .leaf .. => by simp [Node.dyn, Dyn.empty, Node.shape, Shape.info, Info.state]
  | .compo _ _ _ _ _ _ _ _ _ s => by
    have ih := Subs.dyn_lengths s
    have hc := csiFold_counts s.shapes.infos
    simp [Node.dyn, Node.shape, Shape.info, Info.compo, hc.1, hc.2, ih.1, ih.2.1, ih.2.2.1,
      ih.2.2.2.1, ih.2.2.2.2]
  | .ortho _ _ _ _ s => by
    have ih := Subs.dyn_lengths s
    have hc := osiFold_counts s.shapes.infos
    simp [Node.dyn, Node.shape, Shape.info, Info.ortho, hc.1, hc.2, ih.1, ih.2.1, ih.2.2.1,
      ih.2.2.2.1, ih.2.2.2.2]
theorem Subs.dyn_lengths : (s : Subs) →
    s.dyn.compoActive.length = sumCompo s.shapes.infos ∧
    s.dyn.compoResumable.length = sumCompo s.shapes.infos ∧
    s.dyn.compoRequested.length = sumCompo s.shapes.infos ∧
    s.dyn.compoRemains.length = sumCompo s.shapes.infos ∧
    s.dyn.orthoRequested.length = sumOrtho s.shapes.infos
  | .nil => by simp [Subs.dyn, Dyn.empty, Subs.shapes, Shapes.infos, sumCompo, sumOrtho]
  | .cons _ n r => by
    have h1 := Node.dyn_lengths n
    have h2 := Subs.dyn_lengths r
    simp only [sumCompo, sumOrtho] at h2 ⊢
    simp [Subs.dyn, Subs.shapes, Shapes.infos, h1.1, h1.2.1, h1.2.2.1, h1.2.2.2.1, h1.2.2.2.2,
      h2.1, h2.2.1, h2.2.2.1, h2.2.2.2.1, h2.2.2.2.2]
end

/-! ### `pathTo` finds exactly the node with the given id -/

theorem Subs.get?_len : (s : Subs) → (i : Nat) → (s.get? i).isSome = decide (i < s.len)
  | .nil, i => by simp [Subs.get?, Subs.len]
  | .cons _ _ r, 0 => by simp [Subs.get?, Subs.len]
  | .cons _ _ r, i + 1 => by simp [Subs.get?, Subs.len, Subs.get?_len r i]

/-- Follow a path below the `i`-th sub-state. -/
def Subs.followAt (s : Subs) (i : Nat) (p : List Nat) : Option Node :=
  (s.get? i).bind (·.follow p)

theorem Node.follow_cons (n : Node) (i : Nat) (p : List Nat) :
    n.follow (i :: p) = n.subs.followAt i p := by
  simp only [Node.follow, Subs.followAt]
  cases n.subs.get? i <;> rfl

mutual
theorem Node.pathTo_sound : (n : Node) → (d : Nat) → (p : List Nat) → n.pathTo d = some p →
    ∃ c, n.follow p = some c ∧ c.id = d
  | .leaf id inj, d, p, h => by
    simp only [Node.pathTo] at h
    split at h
    · cases h; exact ⟨_, rfl, by simpa [Node.id]⟩
    · cases h
  | .compo id rid inj hd st a r q m s, d, p, h => by
    simp only [Node.pathTo] at h
    split at h
    · cases h; exact ⟨_, rfl, by simpa [Node.id]⟩
    · obtain ⟨i, p', rfl, hi, c, hc, hid⟩ := Subs.pathIn_sound s d 0 p h
      refine ⟨c, ?_, hid⟩
      rw [Node.follow_cons]; simpa [Node.subs] using hc
  | .ortho id rid inj hd s, d, p, h => by
    simp only [Node.pathTo] at h
    split at h
    · cases h; exact ⟨_, rfl, by simpa [Node.id]⟩
    · obtain ⟨i, p', rfl, hi, c, hc, hid⟩ := Subs.pathIn_sound s d 0 p h
      refine ⟨c, ?_, hid⟩
      rw [Node.follow_cons]; simpa [Node.subs] using hc
theorem Subs.pathIn_sound : (s : Subs) → (d : Nat) → (k : Nat) → (p : List Nat) →
    s.pathIn d k = some p → ∃ i p', p = (k + i) :: p' ∧ True ∧ ∃ c, s.followAt i p' = some c ∧ c.id = d
  | .nil, d, k, p, h => by simp [Subs.pathIn] at h
  | .cons b n r, d, k, p, h => by
    simp only [Subs.pathIn] at h
    split at h
    · rename_i p' hp'
      cases h
      obtain ⟨c, hc, hid⟩ := Node.pathTo_sound n d p' hp'
      exact ⟨0, p', rfl, trivial, c, by simpa [Subs.followAt, Subs.get?] using hc, hid⟩
    · obtain ⟨i, p', rfl, _, c, hc, hid⟩ := Subs.pathIn_sound r d (k + 1) p h
      refine ⟨i + 1, p', by congr 1; omega, trivial, c, ?_, hid⟩
      simpa [Subs.followAt, Subs.get?] using hc
end

mutual
theorem Node.pathTo_complete : (n : Node) → (a : Nat) → n.IdsFrom a → (d : Nat) →
    (a ≤ d ∧ d < a + n.size → ∃ p, n.pathTo d = some p) ∧
    (¬ (a ≤ d ∧ d < a + n.size) → n.pathTo d = none)
  | .leaf id inj, a, h, d => by
    simp only [Node.IdsFrom] at h
    subst h
    simp only [Node.pathTo, Node.size]
    constructor
    · intro hd; exact ⟨[], by rw [if_pos (by omega)]⟩
    · intro hd; rw [if_neg (by omega)]
  | .compo id rid inj hd st ac r q m s, a, h, d => by
    simp only [Node.IdsFrom] at h
    obtain ⟨rfl, hs⟩ := h
    have ih := Subs.pathIn_complete s (id + 1) hs d 0
    simp only [Node.pathTo, Node.size]
    constructor
    · intro hd
      by_cases e : id = d
      · exact ⟨[], by rw [if_pos e]⟩
      · rw [if_neg e]; exact ih.1 (by omega)
    · intro hd
      rw [if_neg (by omega)]; exact ih.2 (by omega)
  | .ortho id rid inj hd s, a, h, d => by
    simp only [Node.IdsFrom] at h
    obtain ⟨rfl, hs⟩ := h
    have ih := Subs.pathIn_complete s (id + 1) hs d 0
    simp only [Node.pathTo, Node.size]
    constructor
    · intro hd
      by_cases e : id = d
      · exact ⟨[], by rw [if_pos e]⟩
      · rw [if_neg e]; exact ih.1 (by omega)
    · intro hd
      rw [if_neg (by omega)]; exact ih.2 (by omega)
theorem Subs.pathIn_complete : (s : Subs) → (a : Nat) → s.IdsFrom a → (d : Nat) → (k : Nat) →
    (a ≤ d ∧ d < a + s.size → ∃ p, s.pathIn d k = some p) ∧
    (¬ (a ≤ d ∧ d < a + s.size) → s.pathIn d k = none)
  | .nil, a, _, d, k => by simp [Subs.pathIn, Subs.size]
  | .cons b n r, a, h, d, k => by
    simp only [Subs.IdsFrom] at h
    have ih1 := Node.pathTo_complete n a h.1 d
    have ih2 := Subs.pathIn_complete r (a + n.size) h.2 d (k + 1)
    simp only [Subs.pathIn, Subs.size]
    by_cases hn : a ≤ d ∧ d < a + n.size
    · obtain ⟨p, hp⟩ := ih1.1 hn
      rw [hp]
      exact ⟨fun _ => ⟨_, rfl⟩, fun hc => absurd (by omega) hc⟩
    · rw [ih1.2 hn]
      constructor
      · intro hd; exact ih2.1 (by omega)
      · intro hd; exact ih2.2 (by omega)
end

/-! ### a path is shorter than the tree is large (fuel) -/

mutual
theorem Node.follow_size : (n : Node) → (p : List Nat) → (c : Node) → n.follow p = some c →
    p.length + c.size ≤ n.size
  | n, [], c, h => by simp [Node.follow] at h; subst h; simp
  | n, i :: p, c, h => by
    rw [Node.follow_cons] at h
    have := Subs.followAt_size n.subs i p c h
    have hs : n.subs.size + 1 ≤ n.size ∨ n.subs = .nil := by
      cases n <;> simp [Node.subs, Node.size] <;> omega
    rcases hs with hs | hs
    · simp only [List.length_cons]; omega
    · rw [hs] at h; simp [Subs.followAt, Subs.get?] at h
theorem Subs.followAt_size : (s : Subs) → (i : Nat) → (p : List Nat) → (c : Node) →
    s.followAt i p = some c → p.length + c.size ≤ s.size
  | .nil, i, p, c, h => by simp [Subs.followAt, Subs.get?] at h
  | .cons b n r, 0, p, c, h => by
    simp only [Subs.followAt, Subs.get?, Option.bind_some] at h
    have := Node.follow_size n p c h
    simp only [Subs.size]; omega
  | .cons b n r, i + 1, p, c, h => by
    have := Subs.followAt_size r i p c (by simpa [Subs.followAt, Subs.get?] using h)
    simp only [Subs.size]; omega
end

/-! ### the chain of parents above a node -/

mutual
/-- The `Parent`s the upward walk from the node at `path` passes, bottom first, as the template
arithmetic assigns them: a composite region with indices `ix` registers its `i`-th sub-state with
`Parent{COMPO_ID, i}`, an orthogonal one with `Parent{ORTHO_ID, i}` (`Shape.walk`). -/
def Node.chain (ix : Idx) : Node → List Nat → List Parent
  | _, [] => []
  | .leaf .., _ :: _ => []
  | .compo _ _ _ _ _ _ _ _ _ s, i :: rest => s.chainAt ix.compoSubs i rest ++ [⟨ix.compoId, i⟩]
  | .ortho _ _ _ _ s, i :: rest => s.chainAt (ix.orthoSubs s.len) i rest ++ [⟨ix.orthoId, i⟩]
def Subs.chainAt (ix : Idx) : Subs → Nat → List Nat → List Parent
  | .nil, _, _ => []
  | .cons _ n _, 0, p => n.chain ix p
  | .cons _ n r, i + 1, p => r.chainAt (ix.skip n.shape.info) i p
end


/-- Segment `pre` ends where the arrays of a node with indices `ix` begin. -/
structure Dyn.At (pre : Dyn) (ix : Idx) : Prop where
  act : pre.compoActive.length = ix.compoIndex
  res : pre.compoResumable.length = ix.compoIndex
  req : pre.compoRequested.length = ix.compoIndex
  rem : pre.compoRemains.length = ix.compoIndex
  ort : pre.orthoRequested.length = ix.orthoIndex

theorem Dyn.At.compoSubs {pre : Dyn} {ix : Idx} (h : pre.At ix) (a r q : Option Nat) (m : Bool) :
    (pre ++ (⟨[a], [r], [q], [m], []⟩ : Dyn)).At ix.compoSubs := by
  constructor <;> simp [Idx.compoSubs, h.act, h.res, h.req, h.rem, h.ort]

theorem Dyn.At.orthoSubs {pre : Dyn} {ix : Idx} (h : pre.At ix) (b : List Bool) (w : Nat) :
    (pre ++ (⟨[], [], [], [], [b]⟩ : Dyn)).At (ix.orthoSubs w) := by
  constructor <;> simp [Idx.orthoSubs, h.act, h.res, h.req, h.rem, h.ort]

theorem Dyn.At.skip {pre : Dyn} {ix : Idx} (h : pre.At ix) (n : Node) :
    (pre ++ n.dyn).At (ix.skip n.shape.info) := by
  have hl := Node.dyn_lengths n
  constructor <;> simp [Idx.skip, h.act, h.res, h.req, h.rem, h.ort, hl.1, hl.2.1, hl.2.2.1,
    hl.2.2.2.1, hl.2.2.2.2]

theorem Idx.compoId_pos (ix : Idx) : ix.compoId > 0 := by unfold Idx.compoId; omega
theorem Idx.compoId_index (ix : Idx) : (ix.compoId - 1).toNat = ix.compoIndex := by
  unfold Idx.compoId; omega
theorem Idx.orthoId_neg (ix : Idx) : ix.orthoId < 0 := by unfold Idx.orthoId; omega
theorem Idx.orthoId_index (ix : Idx) : (-ix.orthoId - 1).toNat = ix.orthoIndex := by
  unfold Idx.orthoId; omega

theorem getElem?_mid {α : Type} (pre : List α) (x : α) (t : List α) (i : Nat)
    (h : pre.length = i) : (pre ++ x :: t)[i]? = some x := by
  subst h; simp

theorem setAt?_mid {α : Type} (pre : List α) (x v : α) (t : List α) (i : Nat)
    (h : pre.length = i) : setAt? (pre ++ x :: t) i v = some (pre ++ v :: t) := by
  subst h; simp [setAt?]

/-! ### queries: `nearest` is the answer of the first composite parent of the chain -/

/-- `Node.nearest` for answers of any type. -/
def nearestG {α : Type} (f : Option Nat → Option Nat → Option Nat → Nat → α) :
    Node → List Nat → α → α
  | _, [], acc => acc
  | n, i :: rest, acc =>
    match n.subs.get? i with
    | none => acc
    | some c =>
      match n with
      | .compo _ _ _ _ _ a r q _ _ => nearestG f c rest (f a r q i)
      | _ => nearestG f c rest acc

theorem nearestG_eq (f : Option Nat → Option Nat → Option Nat → Nat → Bool) (n : Node)
    (p : List Nat) (acc : Bool) : nearestG f n p acc = Node.nearest f n p acc := by
  induction p generalizing n acc with
  | nil => simp [nearestG, Node.nearest]
  | cons i rest ih =>
    simp only [nearestG, Node.nearest]
    cases n.subs.get? i with
    | none => rfl
    | some c => cases n <;> simp [ih]

/-- What a query loop computes along a chain of valid parents. -/
def chainQuery {α : Type} (answer : Nat → Nat → Option α) (dflt : Option α) :
    List Parent → Option α
  | [] => dflt
  | p :: t => if p.forkId > 0 then answer (p.forkId - 1).toNat p.prong
              else chainQuery answer dflt t

theorem chainQuery_append_single {α : Type} (answer : Nat → Nat → Option α) (dflt : Option α)
    (l : List Parent) (x : Parent) :
    chainQuery answer dflt (l ++ [x]) =
      chainQuery answer (if x.forkId > 0 then answer (x.forkId - 1).toNat x.prong else dflt) l := by
  induction l with
  | nil => simp [chainQuery]
  | cons y t ih => simp only [List.cons_append, chainQuery, ih]

/-- `answer` reads the arrays `d` like the tree query `f` reads a composite node's fields. -/
def Answers {α : Type} (d : Dyn) (answer : Nat → Nat → Option α)
    (f : Option Nat → Option Nat → Option Nat → Nat → α) : Prop :=
  ∀ ci prong a r q, d.compoActive[ci]? = some a → d.compoResumable[ci]? = some r →
    d.compoRequested[ci]? = some q → answer ci prong = some (f a r q prong)

mutual
theorem Node.nearest_chain {α : Type} (d : Dyn) (answer : Nat → Nat → Option α)
    (f : Option Nat → Option Nat → Option Nat → Nat → α) (ha : Answers d answer f) :
    (n : Node) → (ix : Idx) → (pre post : Dyn) → d = pre ++ n.dyn ++ post → pre.At ix →
    (p : List Nat) → (n.follow p).isSome = true → (acc : α) →
    chainQuery answer (some acc) (n.chain ix p) = some (nearestG f n p acc)
  | n, ix, pre, post, hd, hat, [], _, acc => by
    simp [Node.chain, chainQuery, nearestG]
  | .leaf id inj, ix, pre, post, hd, hat, i :: rest, hv, acc => by
    simp [Node.follow, Node.subs, Subs.get?] at hv
  | .compo id rid inj h st a r q m s, ix, pre, post, hd, hat, i :: rest, hv, acc => by
    rw [Node.follow_cons] at hv
    simp only [Node.subs, Subs.followAt] at hv
    cases hc : s.get? i with
    | none => simp [hc] at hv
    | some c =>
      simp only [hc, Option.bind_some] at hv
      have hd' : d = (pre ++ (⟨[a], [r], [q], [m], []⟩ : Dyn)) ++ s.dyn ++ post := by
        rw [hd, Node.dyn]; simp only [Dyn.append_assoc]
      have ih := Subs.nearest_chain d answer f ha s ix.compoSubs _ post hd' (hat.compoSubs a r q m)
        i c rest hc hv
      have hans : answer ix.compoIndex i = some (f a r q i) := by
        apply ha
        · rw [hd]; simp [Node.dyn, List.append_assoc]; exact getElem?_mid _ _ _ _ hat.act
        · rw [hd]; simp [Node.dyn, List.append_assoc]; exact getElem?_mid _ _ _ _ hat.res
        · rw [hd]; simp [Node.dyn, List.append_assoc]; exact getElem?_mid _ _ _ _ hat.req
      simp only [Node.chain, chainQuery_append_single, Idx.compoId_pos, if_true,
        Idx.compoId_index, hans, ih, nearestG, Node.subs, hc]
  | .ortho id rid inj h s, ix, pre, post, hd, hat, i :: rest, hv, acc => by
    rw [Node.follow_cons] at hv
    simp only [Node.subs, Subs.followAt] at hv
    cases hc : s.get? i with
    | none => simp [hc] at hv
    | some c =>
      simp only [hc, Option.bind_some] at hv
      have hd' : d = (pre ++ (⟨[], [], [], [], [s.bits]⟩ : Dyn)) ++ s.dyn ++ post := by
        rw [hd, Node.dyn]; simp only [Dyn.append_assoc]
      have ih := Subs.nearest_chain d answer f ha s (ix.orthoSubs s.len) _ post hd'
        (hat.orthoSubs s.bits s.len) i c rest hc hv
      have hneg : ¬ ix.orthoId > 0 := by have := Idx.orthoId_neg ix; omega
      simp only [Node.chain, chainQuery_append_single, hneg, if_false, ih, nearestG,
        Node.subs, hc]
theorem Subs.nearest_chain {α : Type} (d : Dyn) (answer : Nat → Nat → Option α)
    (f : Option Nat → Option Nat → Option Nat → Nat → α) (ha : Answers d answer f) :
    (s : Subs) → (ix : Idx) → (pre post : Dyn) → d = pre ++ s.dyn ++ post → pre.At ix →
    (i : Nat) → (c : Node) → (p : List Nat) → s.get? i = some c → (c.follow p).isSome = true →
    (acc : α) →
    chainQuery answer (some acc) (s.chainAt ix i p) = some (nearestG f c p acc)
  | .nil, ix, pre, post, hd, hat, i, c, p, hc, hv, acc => by simp [Subs.get?] at hc
  | .cons b n r, ix, pre, post, hd, hat, 0, c, p, hc, hv, acc => by
    simp only [Subs.get?, Option.some.injEq] at hc
    subst hc
    have hd' : d = pre ++ n.dyn ++ (r.dyn ++ post) := by
      rw [hd, Subs.dyn]; simp only [Dyn.append_assoc]
    simpa [Subs.chainAt] using Node.nearest_chain d answer f ha n ix pre _ hd' hat p hv acc
  | .cons b n r, ix, pre, post, hd, hat, i + 1, c, p, hc, hv, acc => by
    simp only [Subs.get?] at hc
    have hd' : d = (pre ++ n.dyn) ++ r.dyn ++ post := by
      rw [hd, Subs.dyn]; simp only [Dyn.append_assoc]
    simpa [Subs.chainAt] using
      Subs.nearest_chain d answer f ha r (ix.skip n.shape.info) _ post hd' (hat.skip n) i c p hc hv acc
end

/-! ### request marking: `mark` is the phase fold over the chain -/

/-- What the loops of `requestImmediate` compute along a chain of valid parents, bottom first. -/
def runRI : List Parent → Dyn × Phase → Option (Dyn × Phase)
  | [], s => some s
  | x :: t, (d, ph) => (d.stepRI ph x).bind (runRI t)

theorem runRI_append (l₁ l₂ : List Parent) (s : Dyn × Phase) :
    runRI (l₁ ++ l₂) s = (runRI l₁ s).bind (runRI l₂) := by
  induction l₁ generalizing s with
  | nil => simp [runRI]
  | cons x t ih =>
    obtain ⟨d, ph⟩ := s
    simp only [List.cons_append, runRI]
    cases d.stepRI ph x with
    | none => rfl
    | some s' => simp [ih]

/-- Arrays around a composite node with fields `a r q m` whose sub-states occupy `sd`. -/
def frameC (pre post sd : Dyn) (a r q : Option Nat) (m : Bool) : Dyn :=
  { compoActive    := pre.compoActive ++ a :: (sd.compoActive ++ post.compoActive)
    compoResumable := pre.compoResumable ++ r :: (sd.compoResumable ++ post.compoResumable)
    compoRequested := pre.compoRequested ++ q :: (sd.compoRequested ++ post.compoRequested)
    compoRemains   := pre.compoRemains ++ m :: (sd.compoRemains ++ post.compoRemains)
    orthoRequested := pre.orthoRequested ++ (sd.orthoRequested ++ post.orthoRequested) }

theorem frameC_eq (pre post sd : Dyn) (a r q : Option Nat) (m : Bool) :
    pre ++ ((⟨[a], [r], [q], [m], []⟩ : Dyn) ++ sd) ++ post = frameC pre post sd a r q m := by
  apply Dyn.ext' <;> simp [frameC]

theorem frameC_eq' (pre post sd : Dyn) (a r q : Option Nat) (m : Bool) :
    (pre ++ (⟨[a], [r], [q], [m], []⟩ : Dyn)) ++ sd ++ post = frameC pre post sd a r q m := by
  apply Dyn.ext' <;> simp [frameC]

/-- Arrays around an orthogonal region with request bits `b`. -/
def frameO (pre post sd : Dyn) (b : List Bool) : Dyn :=
  { compoActive    := pre.compoActive ++ (sd.compoActive ++ post.compoActive)
    compoResumable := pre.compoResumable ++ (sd.compoResumable ++ post.compoResumable)
    compoRequested := pre.compoRequested ++ (sd.compoRequested ++ post.compoRequested)
    compoRemains   := pre.compoRemains ++ (sd.compoRemains ++ post.compoRemains)
    orthoRequested := pre.orthoRequested ++ b :: (sd.orthoRequested ++ post.orthoRequested) }

theorem frameO_eq (pre post sd : Dyn) (b : List Bool) :
    pre ++ ((⟨[], [], [], [], [b]⟩ : Dyn) ++ sd) ++ post = frameO pre post sd b := by
  apply Dyn.ext' <;> simp [frameO]

theorem frameO_eq' (pre post sd : Dyn) (b : List Bool) :
    (pre ++ (⟨[], [], [], [], [b]⟩ : Dyn)) ++ sd ++ post = frameO pre post sd b := by
  apply Dyn.ext' <;> simp [frameO]

theorem frameC_setRequested {pre : Dyn} {ix : Idx} (h : pre.At ix) (post sd : Dyn)
    (a r q : Option Nat) (m : Bool) (k : Nat) :
    (frameC pre post sd a r q m).setRequested ix.compoIndex k =
      some (frameC pre post sd a r (some k) m) := by
  simp [Dyn.setRequested, frameC, setAt?_mid _ _ _ _ _ h.req]

theorem frameC_setRemain {pre : Dyn} {ix : Idx} (h : pre.At ix) (post sd : Dyn)
    (a r q : Option Nat) (m : Bool) :
    (frameC pre post sd a r q m).setRemain ix.compoIndex = some (frameC pre post sd a r q true) := by
  simp [Dyn.setRemain, frameC, setAt?_mid _ _ _ _ _ h.rem]

theorem frameC_setResumable {pre : Dyn} {ix : Idx} (h : pre.At ix) (post sd : Dyn)
    (a r q : Option Nat) (m : Bool) (k : Nat) :
    (frameC pre post sd a r q m).setResumable ix.compoIndex k =
      some (frameC pre post sd a (some k) q m) := by
  simp [Dyn.setResumable, frameC, setAt?_mid _ _ _ _ _ h.res]

theorem frameC_active {pre : Dyn} {ix : Idx} (h : pre.At ix) (post sd : Dyn)
    (a r q : Option Nat) (m : Bool) :
    (frameC pre post sd a r q m).compoActive[ix.compoIndex]? = some a :=
  getElem?_mid _ _ _ _ h.act

theorem frameC_requested {pre : Dyn} {ix : Idx} (h : pre.At ix) (post sd : Dyn)
    (a r q : Option Nat) (m : Bool) :
    (frameC pre post sd a r q m).compoRequested[ix.compoIndex]? = some q :=
  getElem?_mid _ _ _ _ h.req

theorem frameO_setBit {pre : Dyn} {ix : Idx} (h : pre.At ix) (post sd : Dyn) (b : List Bool)
    (k : Nat) (hk : k < b.length) :
    (frameO pre post sd b).setOrthoBit ix.orthoIndex k = some (frameO pre post sd (b.set k true)) := by
  simp only [Dyn.setOrthoBit, frameO, getElem?_mid _ _ _ _ h.ort, setAt?, hk, if_true,
    Option.bind_eq_bind, Option.bind_some, Option.pure_def]
  rw [← h.ort]
  simp

theorem Subs.bits_length : (s : Subs) → s.bits.length = s.len
  | .nil => rfl
  | .cons _ _ r => by simp [Subs.bits, Subs.len, Subs.bits_length r]

theorem Subs.setBit_bits : (s : Subs) → (i : Nat) → (s.setBit i).bits = s.bits.set i true
  | .nil, i => by simp [Subs.setBit, Subs.bits]
  | .cons _ _ r, 0 => by simp [Subs.setBit, Subs.bits]
  | .cons _ _ r, i + 1 => by simp [Subs.setBit, Subs.bits, Subs.setBit_bits r i]

theorem Subs.setBit_dyn : (s : Subs) → (i : Nat) → (s.setBit i).dyn = s.dyn
  | .nil, i => by simp [Subs.setBit]
  | .cons _ _ r, 0 => by simp [Subs.setBit, Subs.dyn]
  | .cons _ _ r, i + 1 => by simp [Subs.setBit, Subs.dyn, Subs.setBit_dyn r i]

theorem Subs.markAt_bits : (s : Subs) → (i : Nat) → (p : List Nat) → (s.markAt i p).1.bits = s.bits
  | .nil, i, p => by simp [Subs.markAt]
  | .cons _ _ r, 0, p => by simp [Subs.markAt, Subs.bits]
  | .cons _ _ r, i + 1, p => by simp [Subs.markAt, Subs.bits, Subs.markAt_bits r i p]

theorem Subs.get?_lt (s : Subs) (i : Nat) (c : Node) (h : s.get? i = some c) : i < s.len := by
  have := Subs.get?_len s i
  rw [h] at this
  simpa using this

mutual
theorem Node.mark_chain : (n : Node) → (ix : Idx) → (pre post : Dyn) → pre.At ix →
    (p : List Nat) → (n.follow p).isSome = true →
    runRI (n.chain ix p) (pre ++ n.dyn ++ post, .p1) =
      some (pre ++ (n.mark p).1.dyn ++ post, (n.mark p).2)
  | n, ix, pre, post, hat, [], _ => by
    simp [Node.chain, runRI, Node.mark]
  | .leaf id inj, ix, pre, post, hat, i :: rest, hv => by
    simp [Node.follow, Node.subs, Subs.get?] at hv
  | .compo id rid inj h st a r q m s, ix, pre, post, hat, i :: rest, hv => by
    rw [Node.follow_cons] at hv
    simp only [Node.subs, Subs.followAt] at hv
    cases hc : s.get? i with
    | none => simp [hc] at hv
    | some c =>
      simp only [hc, Option.bind_some] at hv
      have ih := Subs.markAt_chain s ix.compoSubs (pre ++ (⟨[a], [r], [q], [m], []⟩ : Dyn)) post
        (hat.compoSubs a r q m) i c rest hc hv
      rw [frameC_eq'] at ih
      simp only [Node.chain, Node.dyn, runRI_append, frameC_eq, ih, Option.bind_some, runRI,
        Dyn.stepRI, Idx.compoId_pos, if_true, Idx.compoId_index, Node.mark]
      cases hm : s.markAt i rest with
      | mk s' ph =>
        rw [frameC_eq']
        cases ph with
        | p1 =>
          simp [frameC_setRequested hat, Node.dyn, frameC_eq]
        | p2 =>
          simp only [frameC_setRemain hat, Option.bind_eq_bind, Option.bind_some, frameC_active hat,
            frameC_requested hat]
          by_cases hcond : (q ≠ some i ∧ q ≠ none) ∨ a ≠ some i
          · simp [hcond, frameC_setRequested hat, Node.dyn, frameC_eq]
          · simp [hcond, Node.dyn, frameC_eq]
        | p3 =>
          simp [frameC_setRemain hat, Node.dyn, frameC_eq]
  | .ortho id rid inj h s, ix, pre, post, hat, i :: rest, hv => by
    rw [Node.follow_cons] at hv
    simp only [Node.subs, Subs.followAt] at hv
    cases hc : s.get? i with
    | none => simp [hc] at hv
    | some c =>
      simp only [hc, Option.bind_some] at hv
      have ih := Subs.markAt_chain s (ix.orthoSubs s.len) (pre ++ (⟨[], [], [], [], [s.bits]⟩ : Dyn))
        post (hat.orthoSubs s.bits s.len) i c rest hc hv
      rw [frameO_eq'] at ih
      have hneg : ¬ ix.orthoId > 0 := by have := Idx.orthoId_neg ix; omega
      have hi : i < s.bits.length := by rw [Subs.bits_length]; exact Subs.get?_lt s i c hc
      simp only [Node.chain, Node.dyn, runRI_append, frameO_eq, ih, Option.bind_some, runRI,
        Dyn.stepRI, hneg, if_false, Idx.orthoId_neg, if_true, Idx.orthoId_index, Node.mark]
      cases hm : s.markAt i rest with
      | mk s' ph =>
        have hb : s'.bits = s.bits := by
          have := Subs.markAt_bits s i rest; rw [hm] at this; exact this
        rw [frameO_eq']
        simp [frameO_setBit hat _ _ _ _ hi, Subs.setBit_bits, Subs.setBit_dyn, hb]
theorem Subs.markAt_chain : (s : Subs) → (ix : Idx) → (pre post : Dyn) → pre.At ix →
    (i : Nat) → (c : Node) → (p : List Nat) → s.get? i = some c → (c.follow p).isSome = true →
    runRI (s.chainAt ix i p) (pre ++ s.dyn ++ post, .p1) =
      some (pre ++ (s.markAt i p).1.dyn ++ post, (s.markAt i p).2)
  | .nil, ix, pre, post, hat, i, c, p, hc, hv => by simp [Subs.get?] at hc
  | .cons b n r, ix, pre, post, hat, 0, c, p, hc, hv => by
    simp only [Subs.get?, Option.some.injEq] at hc
    subst hc
    have ih := Node.mark_chain n ix pre (r.dyn ++ post) hat p hv
    simp only [Subs.chainAt, Subs.dyn, Subs.markAt, Dyn.append_assoc] at ih ⊢
    exact ih
  | .cons b n r, ix, pre, post, hat, i + 1, c, p, hc, hv => by
    simp only [Subs.get?] at hc
    have ih := Subs.markAt_chain r (ix.skip n.shape.info) (pre ++ n.dyn) post (hat.skip n) i c p hc hv
    simp only [Subs.chainAt, Subs.dyn, Subs.markAt, Dyn.append_assoc] at ih ⊢
    exact ih
end

/-! ### scheduling: one write for the first parent -/

/-- What `requestScheduled` does with `stateParents[stateId]` (`none`: no parent on the chain). -/
def schedStep (d : Dyn) : Option Parent → Option Dyn
  | none => some d
  | some x => if x.forkId > 0 then d.setResumable (x.forkId - 1).toNat x.prong else some d

theorem Subs.chainAt_nil : (s : Subs) → (ix : Idx) → (i : Nat) → s.chainAt ix i [] = []
  | .nil, ix, i => rfl
  | .cons _ n r, ix, 0 => by cases n <;> rfl
  | .cons _ n r, ix, i + 1 => by simp [Subs.chainAt, Subs.chainAt_nil r]

theorem Node.chain_ne_nil (n : Node) (ix : Idx) (i : Nat) (p : List Nat)
    (h : (n.follow (i :: p)).isSome = true) : n.chain ix (i :: p) ≠ [] := by
  cases n with
  | leaf => simp [Node.follow, Node.subs, Subs.get?] at h
  | compo => simp [Node.chain]
  | ortho => simp [Node.chain]

theorem Subs.chainAt_ne_nil : (s : Subs) → (ix : Idx) → (i : Nat) → (c : Node) → (j : Nat) →
    (p : List Nat) → s.get? i = some c → (c.follow (j :: p)).isSome = true →
    s.chainAt ix i (j :: p) ≠ []
  | .nil, ix, i, c, j, p, hc, _ => by simp [Subs.get?] at hc
  | .cons _ n r, ix, 0, c, j, p, hc, hv => by
    simp only [Subs.get?, Option.some.injEq] at hc
    subst hc
    exact Node.chain_ne_nil n ix j p hv
  | .cons _ n r, ix, i + 1, c, j, p, hc, hv => by
    simp only [Subs.get?] at hc
    simpa [Subs.chainAt] using Subs.chainAt_ne_nil r _ i c j p hc hv

theorem head?_append_single {α : Type} (l : List α) (x : α) (h : l ≠ []) :
    (l ++ [x]).head? = l.head? := by
  cases l with
  | nil => exact absurd rfl h
  | cons a t => rfl

mutual
theorem Node.schedule_chain : (n : Node) → (ix : Idx) → (pre post : Dyn) → pre.At ix →
    (i : Nat) → (p : List Nat) → (n.follow (i :: p)).isSome = true →
    schedStep (pre ++ n.dyn ++ post) (n.chain ix (i :: p)).head? =
      some (pre ++ (n.schedule (i :: p)).dyn ++ post)
  | .leaf id inj, ix, pre, post, hat, i, p, hv => by
    simp [Node.follow, Node.subs, Subs.get?] at hv
  | .compo id rid inj h st a r q m s, ix, pre, post, hat, i, [], hv => by
    rw [Node.follow_cons] at hv
    simp only [Node.subs, Subs.followAt] at hv
    cases hc : s.get? i with
    | none => simp [hc] at hv
    | some c =>
      have hi : i < s.len := Subs.get?_lt s i c hc
      simp only [Node.chain, Subs.chainAt_nil, List.nil_append, List.head?_cons, schedStep,
        Idx.compoId_pos, if_true, Idx.compoId_index, Node.dyn, frameC_eq,
        frameC_setResumable hat, Node.schedule, hi]
  | .compo id rid inj h st a r q m s, ix, pre, post, hat, i, j :: rest, hv => by
    rw [Node.follow_cons] at hv
    simp only [Node.subs, Subs.followAt] at hv
    cases hc : s.get? i with
    | none => simp [hc] at hv
    | some c =>
      simp only [hc, Option.bind_some] at hv
      have ih := Subs.scheduleAt_chain s ix.compoSubs (pre ++ (⟨[a], [r], [q], [m], []⟩ : Dyn)) post
        (hat.compoSubs a r q m) i c j rest hc hv
      have hne := Subs.chainAt_ne_nil s ix.compoSubs i c j rest hc hv
      rw [frameC_eq', frameC_eq'] at ih
      simp only [Node.chain, head?_append_single _ _ hne, Node.dyn, frameC_eq, ih, Node.schedule]
  | .ortho id rid inj h s, ix, pre, post, hat, i, [], hv => by
    have hneg : ¬ ix.orthoId > 0 := by have := Idx.orthoId_neg ix; omega
    simp [Node.chain, Subs.chainAt_nil, schedStep, hneg, Node.schedule]
  | .ortho id rid inj h s, ix, pre, post, hat, i, j :: rest, hv => by
    rw [Node.follow_cons] at hv
    simp only [Node.subs, Subs.followAt] at hv
    cases hc : s.get? i with
    | none => simp [hc] at hv
    | some c =>
      simp only [hc, Option.bind_some] at hv
      have hb : (s.scheduleAt i (j :: rest)).bits = s.bits :=
        Subs.scheduleAt_bits s i (j :: rest)
      have ih := Subs.scheduleAt_chain s (ix.orthoSubs s.len)
        (pre ++ (⟨[], [], [], [], [s.bits]⟩ : Dyn)) post (hat.orthoSubs s.bits s.len) i c j rest hc hv
      have hne := Subs.chainAt_ne_nil s (ix.orthoSubs s.len) i c j rest hc hv
      rw [frameO_eq', frameO_eq'] at ih
      simp only [Node.chain, head?_append_single _ _ hne, Node.dyn, frameO_eq, ih, Node.schedule, hb]
theorem Subs.scheduleAt_chain : (s : Subs) → (ix : Idx) → (pre post : Dyn) → pre.At ix →
    (i : Nat) → (c : Node) → (j : Nat) → (p : List Nat) → s.get? i = some c →
    (c.follow (j :: p)).isSome = true →
    schedStep (pre ++ s.dyn ++ post) (s.chainAt ix i (j :: p)).head? =
      some (pre ++ (s.scheduleAt i (j :: p)).dyn ++ post)
  | .nil, ix, pre, post, hat, i, c, j, p, hc, hv => by simp [Subs.get?] at hc
  | .cons b n r, ix, pre, post, hat, 0, c, j, p, hc, hv => by
    simp only [Subs.get?, Option.some.injEq] at hc
    subst hc
    have ih := Node.schedule_chain n ix pre (r.dyn ++ post) hat j p hv
    simp only [Subs.chainAt, Subs.dyn, Subs.scheduleAt, Dyn.append_assoc] at ih ⊢
    exact ih
  | .cons b n r, ix, pre, post, hat, i + 1, c, j, p, hc, hv => by
    simp only [Subs.get?] at hc
    have ih := Subs.scheduleAt_chain r (ix.skip n.shape.info) (pre ++ n.dyn) post (hat.skip n)
      i c j p hc hv
    simp only [Subs.chainAt, Subs.dyn, Subs.scheduleAt, Dyn.append_assoc] at ih ⊢
    exact ih
theorem Subs.scheduleAt_bits : (s : Subs) → (i : Nat) → (p : List Nat) →
    (s.scheduleAt i p).bits = s.bits
  | .nil, i, p => by simp [Subs.scheduleAt]
  | .cons _ _ r, 0, p => by simp [Subs.scheduleAt, Subs.bits]
  | .cons _ _ r, i + 1, p => by simp [Subs.scheduleAt, Subs.bits, Subs.scheduleAt_bits r i p]
end

/-! ### the fuel loops along a linked chain -/

/-- Consecutive elements of the chain (bottom first) are valid parents linked by `forkParent`; above
the last one lies `top`. -/
def Statics.Linked (st : Statics) : List Parent → Parent → Prop
  | [], _ => True
  | x :: t, top => x.valid = true ∧ x.forkId ≠ 0 ∧ st.forkParent x.forkId = some (t.headD top) ∧
      st.Linked t top

theorem Statics.query_succ (st : Statics) (answer : Nat → Nat → Option Bool) (dflt : Option Bool)
    (fuel : Nat) (p : Parent) :
    st.query answer dflt (fuel + 1) p =
      if !p.valid then dflt
      else if p.forkId > 0 then answer (p.forkId - 1).toNat p.prong
      else (st.forkParent p.forkId).bind (st.query answer dflt fuel) := rfl

theorem Statics.query_chain (st : Statics) (answer : Nat → Nat → Option Bool) (dflt : Option Bool)
    (top : Parent) (htop : top.valid = false) (fuel : Nat) :
    (chain : List Parent) → st.Linked chain top →
    st.query answer dflt (fuel + chain.length + 1) (chain.headD top) = chainQuery answer dflt chain
  | [], _ => by simp [Statics.query, htop, chainQuery]
  | x :: t, h => by
    obtain ⟨hv, h0, hfp, hl⟩ := h
    have ih := Statics.query_chain st answer dflt top htop fuel t hl
    have e : fuel + (x :: t).length + 1 = (fuel + t.length + 1) + 1 := by
      simp only [List.length_cons]; omega
    rw [List.headD_cons, e, Statics.query_succ]
    simp only [hv, Bool.not_true, Bool.false_eq_true, if_false, chainQuery]
    split
    · rfl
    · rw [hfp, Option.bind_some, ih]

theorem Statics.requestLoop_succ (st : Statics) (fuel : Nat) (ph : Phase) (d : Dyn) (p : Parent) :
    st.requestLoop (fuel + 1) ph d p =
      if !p.valid then some d
      else (do
        let (d', ph') ← d.stepRI ph p
        let p' ← st.forkParent p.forkId
        st.requestLoop fuel ph' d' p') := rfl

theorem Statics.requestLoop_chain (st : Statics) (top : Parent) (htop : top.valid = false)
    (fuel : Nat) : (chain : List Parent) → st.Linked chain top → (ph : Phase) → (d : Dyn) →
    st.requestLoop (fuel + chain.length + 1) ph d (chain.headD top) =
      (runRI chain (d, ph)).map (·.1)
  | [], _, ph, d => by simp [Statics.requestLoop, htop, runRI]
  | x :: t, h, ph, d => by
    obtain ⟨hv, h0, hfp, hl⟩ := h
    have e : fuel + (x :: t).length + 1 = (fuel + t.length + 1) + 1 := by
      simp only [List.length_cons]; omega
    rw [List.headD_cons, e, Statics.requestLoop_succ]
    simp only [hv, Bool.not_true, Bool.false_eq_true, if_false, runRI]
    cases hs : d.stepRI ph x with
    | none => simp
    | some s' =>
      obtain ⟨d', ph'⟩ := s'
      have ih := Statics.requestLoop_chain st top htop fuel t hl ph' d'
      simp only [Option.bind_eq_bind, Option.bind_some, hfp, ih]

/-! ### the records of `Shape.walk` carry the chain -/

theorem headD_append_single {α : Type} (l : List α) (x d : α) : (l ++ [x]).headD d = l.headD x := by
  cases l <;> rfl

/-- Is the node a composite region? -/
def Node.isCompoB : Node → Bool
  | .compo .. => true
  | _ => false

/-- What the record `r` of the node `d` reached by `p` says: its `Parent` is the first element of the
chain, and it is the fork of the next chain element for every sub-state of `d`. -/
def RecOf (r : NodeRec) (d : Node) (chainP : List Parent) (dflt : Parent)
    (chainExt : Nat → List Parent) : Prop :=
  r.idx.stateId = d.id ∧ r.parent = chainP.headD dflt ∧
  (∀ k e, d.subs.get? k = some e →
    r.isRegion = true ∧ k < r.width ∧ chainExt k = ⟨r.forkId, k⟩ :: chainP) ∧
  r.isCompo = d.isCompoB

mutual
theorem Node.walk_chain : (n : Node) → (ix : Idx) → (par : Parent) → (pth : Path) →
    n.IdsFrom ix.stateId → (p : List Nat) → (d : Node) → n.follow p = some d →
    ∃ r ∈ n.shape.walk ix par pth, RecOf r d (n.chain ix p) par (fun k => n.chain ix (p ++ [k]))
  | .leaf id inj, ix, par, pth, hid, [], d, hf => by
    simp only [Node.follow, Option.some.injEq] at hf
    subst hf
    simp only [Node.IdsFrom] at hid
    refine ⟨_, by rw [Node.shape, Shape.walk_leaf]; exact List.mem_cons_self, ?_, rfl, ?_, rfl⟩
    · simp [Node.id, hid]
    · intro k e he; simp [Node.subs, Subs.get?] at he
  | .leaf id inj, ix, par, pth, hid, i :: rest, d, hf => by
    simp [Node.follow, Node.subs, Subs.get?] at hf
  | .compo id rid inj h st a r q m s, ix, par, pth, hid, [], d, hf => by
    simp only [Node.follow, Option.some.injEq] at hf
    subst hf
    simp only [Node.IdsFrom] at hid
    refine ⟨_, by rw [Node.shape, Shape.walk_compo]; exact List.mem_cons_self, ?_, rfl, ?_, rfl⟩
    · simp [Node.id, hid.1]
    · intro k e he
      simp only [Node.subs] at he
      refine ⟨rfl, ?_, ?_⟩
      · simp only [Subs.len_shapes]; exact Subs.get?_lt s k e he
      · simp [Node.chain, Subs.chainAt_nil, NodeRec.forkId]
  | .compo id rid inj h st a r q m s, ix, par, pth, hid, i :: rest, d, hf => by
    rw [Node.follow_cons] at hf
    simp only [Node.subs, Subs.followAt] at hf
    simp only [Node.IdsFrom] at hid
    cases hc : s.get? i with
    | none => simp [hc] at hf
    | some c =>
      simp only [hc, Option.bind_some] at hf
      obtain ⟨r', hr', h1, h2, h3, h4⟩ := Subs.walkO_chain s ix.compoSubs 0 ix.compoId pth
        (by simpa [Idx.compoSubs] using hid.2) i c rest d hc hf
      refine ⟨r', by rw [Node.shape, Shape.walk_compo]; exact List.mem_cons_of_mem _ hr', h1, ?_, ?_, h4⟩
      · simp only [Node.chain, headD_append_single]; simpa using h2
      · intro k e he
        obtain ⟨g1, g2, g3⟩ := h3 k e he
        refine ⟨g1, g2, ?_⟩
        simp only [Node.chain, List.cons_append] at g3 ⊢
        rw [g3]; rfl
  | .ortho id rid inj h s, ix, par, pth, hid, [], d, hf => by
    simp only [Node.follow, Option.some.injEq] at hf
    subst hf
    simp only [Node.IdsFrom] at hid
    refine ⟨_, by rw [Node.shape, Shape.walk_ortho]; exact List.mem_cons_self, ?_, rfl, ?_, rfl⟩
    · simp [Node.id, hid.1]
    · intro k e he
      simp only [Node.subs] at he
      refine ⟨rfl, ?_, ?_⟩
      · simp only [Subs.len_shapes]; exact Subs.get?_lt s k e he
      · simp [Node.chain, Subs.chainAt_nil, NodeRec.forkId]
  | .ortho id rid inj h s, ix, par, pth, hid, i :: rest, d, hf => by
    rw [Node.follow_cons] at hf
    simp only [Node.subs, Subs.followAt] at hf
    simp only [Node.IdsFrom] at hid
    cases hc : s.get? i with
    | none => simp [hc] at hf
    | some c =>
      simp only [hc, Option.bind_some] at hf
      obtain ⟨r', hr', h1, h2, h3, h4⟩ := Subs.walkO_chain s (ix.orthoSubs s.len) 0 ix.orthoId pth
        (by simpa [Idx.orthoSubs] using hid.2) i c rest d hc hf
      refine ⟨r', ?_, h1, ?_, ?_, h4⟩
      · rw [Node.shape, Shape.walk_ortho, Subs.len_shapes]; exact List.mem_cons_of_mem _ hr'
      · simp only [Node.chain, headD_append_single]; simpa using h2
      · intro k e he
        obtain ⟨g1, g2, g3⟩ := h3 k e he
        refine ⟨g1, g2, ?_⟩
        simp only [Node.chain, List.cons_append] at g3 ⊢
        rw [g3]; rfl
theorem Subs.walkO_chain : (s : Subs) → (ix : Idx) → (np : Nat) → (f : Int) → (pth : Path) →
    s.IdsFrom ix.stateId → (i : Nat) → (c : Node) → (p : List Nat) → (d : Node) →
    s.get? i = some c → c.follow p = some d →
    ∃ r ∈ s.shapes.walkO ix np f pth,
      RecOf r d (s.chainAt ix i p) ⟨f, np + i⟩ (fun k => s.chainAt ix i (p ++ [k]))
  | .nil, ix, np, f, pth, hid, i, c, p, d, hc, hf => by simp [Subs.get?] at hc
  | .cons b n rest, ix, np, f, pth, hid, 0, c, p, d, hc, hf => by
    simp only [Subs.get?, Option.some.injEq] at hc
    subst hc
    simp only [Subs.IdsFrom] at hid
    obtain ⟨r, hr, h⟩ := Node.walk_chain n ix ⟨f, np⟩ (pth ++ [np]) hid.1 p d hf
    refine ⟨r, ?_, ?_⟩
    · simp only [Subs.shapes, Shapes.walkO]; exact List.mem_append_left _ hr
    · simpa [Subs.chainAt] using h
  | .cons b n rest, ix, np, f, pth, hid, i + 1, c, p, d, hc, hf => by
    simp only [Subs.get?] at hc
    simp only [Subs.IdsFrom] at hid
    have hid' : rest.IdsFrom (ix.skip n.shape.info).stateId := by
      simp only [Idx.skip, Node.size_eq]; exact hid.2
    obtain ⟨r, hr, h⟩ := Subs.walkO_chain rest (ix.skip n.shape.info) (np + 1) f pth hid' i c p d hc hf
    refine ⟨r, ?_, ?_⟩
    · simp only [Subs.shapes, Shapes.walkO]; exact List.mem_append_right _ hr
    · have e : np + 1 + i = np + (i + 1) := by omega
      simpa [Subs.chainAt, e] using h
end

/-! ### widths below 256 (prong 255 is the invalid marker) -/

mutual
theorem Shape.walk_width_lt : (s : Shape) → s.FitsIds → (ix : Idx) → (par : Parent) →
    (pth : Path) → ∀ r ∈ s.walk ix par pth, r.width < 256
  | .leaf i, _, ix, par, pth => by simp [Shape.walk_leaf]
  | .compo h i st subs, hf, ix, par, pth => by
    simp only [Shape.FitsIds] at hf
    rw [Shape.walk_compo]
    intro r hr
    rcases List.mem_cons.mp hr with rfl | hr
    · have := hf.1.width; simpa [Shape.info, Info.compo] using this
    · exact Shapes.walkO_width_lt subs hf.2 _ _ _ _ r hr
  | .ortho h i subs, hf, ix, par, pth => by
    simp only [Shape.FitsIds] at hf
    rw [Shape.walk_ortho]
    intro r hr
    rcases List.mem_cons.mp hr with rfl | hr
    · have := hf.1.width; simpa [Shape.info, Info.ortho] using this
    · exact Shapes.walkO_width_lt subs hf.2 _ _ _ _ r hr
theorem Shapes.walkO_width_lt : (subs : Shapes) → subs.AllFitIds → (ix : Idx) → (np : Nat) →
    (f : Int) → (pth : Path) → ∀ r ∈ subs.walkO ix np f pth, r.width < 256
  | .nil, _, ix, np, f, pth => by simp [Shapes.walkO]
  | .cons s rest, hf, ix, np, f, pth => by
    simp only [Shapes.AllFitIds] at hf
    intro r hr
    simp only [Shapes.walkO, List.mem_append] at hr
    rcases hr with hr | hr
    · exact Shape.walk_width_lt s hf.1 _ _ _ r hr
    · exact Shapes.walkO_width_lt rest hf.2 _ _ _ _ r hr
end

/-! ### glue: the tables of a well-formed machine link every chain -/

open Hfsm.Props.C17

/-- Hypotheses of the equivalence: the tree instantiates a declaration that C++ accepts (every
region non-empty), within the identifier types, and carries the pre-order ids. -/
structure Node.FlatOK (n : Node) : Prop where
  wf   : n.shape.wf = true
  fits : n.shape.FitsIds
  ids  : n.IdsFrom 0

theorem Node.toFlat_statics (n : Node) (h : n.shape.wf = true) :
    n.toFlat.toStatics =
      { stateParents := n.shape.nodes.map (·.parent)
        compoParents := (n.shape.nodes.filter (·.isCompo)).map (·.parent)
        orthoParents := (n.shape.nodes.filter (·.isOrtho)).map (·.parent) } := by
  simp [Node.toFlat, register_tables n.shape h, Statics.ofRegistry, List.map_map, Function.comp_def]

theorem Node.toFlat_dyn (n : Node) : n.toFlat.toDyn = n.dyn := rfl

theorem nodes_length (s : Shape) : s.nodes.length = s.info.stateCount := by
  have := congrArg List.length (stateIds_preorder s); simpa using this

theorem stateParents_lookup (s : Shape) (r : NodeRec) (hr : r ∈ s.nodes) :
    (s.nodes.map (·.parent))[r.idx.stateId]? = some r.parent := by
  obtain ⟨k, hk⟩ := List.getElem?_of_mem hr
  rw [(stateId_eq_position s k r hk).1]
  simp [List.getElem?_map, hk]

theorem compoParents_lookup (s : Shape) (r : NodeRec) (hr : r ∈ s.nodes) (hc : r.isCompo = true) :
    ((s.nodes.filter (·.isCompo)).map (·.parent))[r.idx.compoIndex]? = some r.parent := by
  have hmem : r ∈ s.nodes.filter (·.isCompo) := List.mem_filter.mpr ⟨hr, hc⟩
  obtain ⟨k, hk⟩ := List.getElem?_of_mem hmem
  have h1 := congrArg (·[k]?) (compoIndex_preorder s)
  simp only [List.getElem?_map, hk, Option.map_some] at h1
  have hlen : k < s.info.compoCount := by
    have := (List.getElem?_eq_some_iff.mp hk).1
    have e := congrArg List.length (compoIndex_preorder s)
    simp at e; omega
  rw [List.getElem?_range hlen] at h1
  rw [Option.some.inj h1]
  simp [List.getElem?_map, hk]

theorem orthoParents_lookup (s : Shape) (r : NodeRec) (hr : r ∈ s.nodes) (hc : r.isOrtho = true) :
    ((s.nodes.filter (·.isOrtho)).map (·.parent))[r.idx.orthoIndex]? = some r.parent ∧
      r.idx.orthoIndex < s.info.orthoCount := by
  have hmem : r ∈ s.nodes.filter (·.isOrtho) := List.mem_filter.mpr ⟨hr, hc⟩
  obtain ⟨k, hk⟩ := List.getElem?_of_mem hmem
  have h1 := congrArg (·[k]?) (orthoIndex_preorder s)
  simp only [List.getElem?_map, hk, Option.map_some] at h1
  have hlen : k < s.info.orthoCount := by
    have := (List.getElem?_eq_some_iff.mp hk).1
    have e := congrArg List.length (orthoIndex_preorder s)
    simp at e; omega
  rw [List.getElem?_range hlen] at h1
  rw [Option.some.inj h1]
  exact ⟨by simp [List.getElem?_map, hk], hlen⟩

theorem Shape.root_fits (s : Shape) (h : s.FitsIds) : s.info.orthoCount < 256 := by
  cases s with
  | leaf => simp [Shape.info, Info.state]
  | compo => simp only [Shape.FitsIds] at h; exact h.1.orthoCount
  | ortho => simp only [Shape.FitsIds] at h; exact h.1.orthoCount

/-- A region's fork id is a valid, non-zero fork id whose `forkParent` is the region's own parent. -/
theorem forkParent_of_region (n : Node) (ok : n.FlatOK) (r : NodeRec) (hr : r ∈ n.shape.nodes)
    (hreg : r.isRegion = true) :
    r.forkId ≠ 0 ∧ r.forkId ≠ invalidForkId ∧
      n.toFlat.toStatics.forkParent r.forkId = some r.parent := by
  rw [Node.toFlat_statics n ok.wf]
  cases hk : r.kind with
  | leaf => simp [Decl.isRegion, hk] at hreg
  | compo st =>
    have hc : r.isCompo = true := by simp [Decl.isCompo, hk]
    have hpos := Idx.compoId_pos r.idx
    have hf : r.forkId = r.idx.compoId := by simp [NodeRec.forkId, hk]
    refine ⟨by rw [hf]; omega, by rw [hf, invalidForkId]; omega, ?_⟩
    simp only [Statics.forkParent, hf, hpos, if_true, Idx.compoId_index]
    exact compoParents_lookup _ r hr hc
  | ortho =>
    have hc : r.isOrtho = true := by simp [Decl.isOrtho, hk]
    have hneg := Idx.orthoId_neg r.idx
    have hf : r.forkId = r.idx.orthoId := by simp [NodeRec.forkId, hk]
    obtain ⟨hl, hlt⟩ := orthoParents_lookup _ r hr hc
    have hb := Shape.root_fits _ ok.fits
    have hnp : ¬ r.idx.orthoId > 0 := by omega
    refine ⟨by rw [hf]; omega, ?_, ?_⟩
    · rw [hf, invalidForkId]; unfold Idx.orthoId; omega
    · simp only [Statics.forkParent, hf, hnp, if_false, hneg, if_true, Idx.orthoId_index]
      exact hl

theorem Node.follow_snoc : (n : Node) → (q : List Nat) → (k : Nat) → (c : Node) →
    n.follow (q ++ [k]) = some c → ∃ d, n.follow q = some d ∧ d.subs.get? k = some c
  | n, [], k, c, h => by
    refine ⟨n, rfl, ?_⟩
    simp only [List.nil_append, Node.follow] at h
    cases hg : n.subs.get? k with
    | none => simp [hg] at h
    | some e => simp only [hg, Option.some.injEq] at h; rw [h]
  | n, i :: q, k, c, h => by
    simp only [List.cons_append, Node.follow] at h ⊢
    cases hg : n.subs.get? i with
    | none => simp [hg] at h
    | some e =>
      simp only [hg] at h ⊢
      exact Node.follow_snoc e q k c h

theorem list_snoc_cases {α : Type} (l : List α) : l = [] ∨ ∃ q k, l = q ++ [k] := by
  induction l with
  | nil => exact Or.inl rfl
  | cons a t ih =>
    right
    rcases ih with rfl | ⟨q, k, rfl⟩
    · exact ⟨[], a, rfl⟩
    · exact ⟨a :: q, k, rfl⟩

/-- The record of the node reached by a path (instance of `Node.walk_chain` at the root). -/
theorem Node.root_record (n : Node) (ok : n.FlatOK) (p : List Nat) (c : Node)
    (h : n.follow p = some c) :
    ∃ r ∈ n.shape.nodes,
      RecOf r c (n.chain Idx.root p) Parent.invalid (fun k => n.chain Idx.root (p ++ [k])) :=
  Node.walk_chain n Idx.root Parent.invalid [] ok.ids p c h

/-- **The parent tables link the chain of every node up to the root's `Parent{}`.** -/
theorem Node.chain_linked (n : Node) (ok : n.FlatOK) :
    (len : Nat) → (p : List Nat) → p.length = len → (c : Node) → n.follow p = some c →
    n.toFlat.toStatics.Linked (n.chain Idx.root p) Parent.invalid
  | 0, p, hl, c, _ => by
    have : p = [] := List.length_eq_zero_iff.mp hl
    subst this
    cases n <;> simp [Node.chain, Statics.Linked]
  | len + 1, p, hl, c, h => by
    rcases list_snoc_cases p with rfl | ⟨q, k, rfl⟩
    · simp at hl
    · have hq : q.length = len := by simp at hl; exact hl
      obtain ⟨d, hd, hg⟩ := Node.follow_snoc n q k c h
      obtain ⟨r, hr, _, hpar, hext, _⟩ := Node.root_record n ok q d hd
      obtain ⟨hreg, hk, hch⟩ := hext k c hg
      obtain ⟨h0, hinv, hfp⟩ := forkParent_of_region n ok r hr hreg
      have hw := Shape.walk_width_lt n.shape ok.fits Idx.root Parent.invalid [] r hr
      simp only at hch
      rw [hch]
      refine ⟨?_, h0, ?_, Node.chain_linked n ok len q hq d hd⟩
      · simp only [Parent.valid, Bool.and_eq_true, bne_iff_ne, ne_eq]
        exact ⟨hinv, by rw [invalidProng]; omega⟩
      · rw [hfp, hpar]

mutual
theorem Node.chain_length : (n : Node) → (ix : Idx) → (p : List Nat) →
    (n.follow p).isSome = true → (n.chain ix p).length = p.length
  | n, ix, [], _ => by cases n <;> simp [Node.chain]
  | .leaf id inj, ix, i :: rest, hv => by simp [Node.follow, Node.subs, Subs.get?] at hv
  | .compo id rid inj h st a r q m s, ix, i :: rest, hv => by
    rw [Node.follow_cons] at hv
    simp only [Node.subs, Subs.followAt] at hv
    cases hc : s.get? i with
    | none => simp [hc] at hv
    | some c =>
      simp only [hc, Option.bind_some] at hv
      simp [Node.chain, Subs.chainAt_length s _ i c rest hc hv]
  | .ortho id rid inj h s, ix, i :: rest, hv => by
    rw [Node.follow_cons] at hv
    simp only [Node.subs, Subs.followAt] at hv
    cases hc : s.get? i with
    | none => simp [hc] at hv
    | some c =>
      simp only [hc, Option.bind_some] at hv
      simp [Node.chain, Subs.chainAt_length s _ i c rest hc hv]
theorem Subs.chainAt_length : (s : Subs) → (ix : Idx) → (i : Nat) → (c : Node) → (p : List Nat) →
    s.get? i = some c → (c.follow p).isSome = true → (s.chainAt ix i p).length = p.length
  | .nil, ix, i, c, p, hc, _ => by simp [Subs.get?] at hc
  | .cons _ n r, ix, 0, c, p, hc, hv => by
    simp only [Subs.get?, Option.some.injEq] at hc
    subst hc
    simpa [Subs.chainAt] using Node.chain_length n ix p hv
  | .cons _ n r, ix, i + 1, c, p, hc, hv => by
    simp only [Subs.get?] at hc
    simpa [Subs.chainAt] using Subs.chainAt_length r _ i c p hc hv
end

/-! ### remaining tree facts -/

mutual
theorem Node.firstCompoActive_eq : (n : Node) →
    n.firstCompoActive = n.dyn.compoActive.head?.map (·.isSome)
  | .leaf .. => rfl
  | .compo _ _ _ _ _ a _ _ _ s => by simp [Node.firstCompoActive, Node.dyn]
  | .ortho _ _ _ _ s => by simp [Node.firstCompoActive, Node.dyn, Subs.firstCompoActive_eq s]
theorem Subs.firstCompoActive_eq : (s : Subs) →
    s.firstCompoActive = s.dyn.compoActive.head?.map (·.isSome)
  | .nil => rfl
  | .cons _ n r => by
    simp only [Subs.firstCompoActive, Subs.dyn, Dyn.append_compoActive, Node.firstCompoActive_eq n,
      Subs.firstCompoActive_eq r]
    cases n.dyn.compoActive <;> simp
end

theorem nearestG_snoc {α : Type} (f : Option Nat → Option Nat → Option Nat → Nat → α) :
    (n : Node) → (q : List Nat) → (k : Nat) → (d e : Node) → (acc : α) →
    n.follow q = some d → d.subs.get? k = some e →
    nearestG f n (q ++ [k]) acc =
      match d with
      | .compo _ _ _ _ _ a r q' _ _ => f a r q' k
      | _ => nearestG f n q acc
  | n, [], k, d, e, acc, hq, hk => by
    simp only [Node.follow, Option.some.injEq] at hq
    subst hq
    simp only [List.nil_append, nearestG, hk]
  | n, i :: q, k, d, e, acc, hq, hk => by
    simp only [Node.follow] at hq
    cases hg : n.subs.get? i with
    | none => simp [hg] at hq
    | some c =>
      simp only [hg] at hq
      simp only [List.cons_append, nearestG, hg]
      cases n with
      | leaf => simp [Node.subs, Subs.get?] at hg
      | compo id rid inj h st a r q' m s =>
        have := nearestG_snoc f c q k d e (f a r q' i) hq hk
        show nearestG f c (q ++ [k]) (f a r q' i) = _
        rw [this]
      | ortho id rid inj h s =>
        have := nearestG_snoc f c q k d e acc hq hk
        show nearestG f c (q ++ [k]) acc = _
        rw [this]

theorem Subs.setBit_shapes : (s : Subs) → (i : Nat) → (s.setBit i).shapes = s.shapes
  | .nil, i => rfl
  | .cons _ _ r, 0 => rfl
  | .cons _ _ r, i + 1 => by simp [Subs.setBit, Subs.shapes, Subs.setBit_shapes r i]

mutual
theorem Node.mark_shape : (n : Node) → (p : List Nat) → (n.mark p).1.shape = n.shape
  | n, [] => by cases n <;> rfl
  | .leaf id inj, _ :: _ => rfl
  | .compo id rid inj h st a r q m s, i :: rest => by
    have ih := Subs.markAt_shapes s i rest
    simp only [Node.mark]
    cases hm : s.markAt i rest with
    | mk s' ph =>
      rw [hm] at ih
      cases ph
      · simp [Node.shape, ih]
      · simp only []
        split <;> simp [Node.shape, ih]
      · simp [Node.shape, ih]
  | .ortho id rid inj h s, i :: rest => by
    have ih := Subs.markAt_shapes s i rest
    simp only [Node.mark]
    cases hm : s.markAt i rest with
    | mk s' ph =>
      rw [hm] at ih
      simp [Node.shape, Subs.setBit_shapes, ih]
theorem Subs.markAt_shapes : (s : Subs) → (i : Nat) → (p : List Nat) →
    (s.markAt i p).1.shapes = s.shapes
  | .nil, i, p => rfl
  | .cons b n r, 0, p => by simp [Subs.markAt, Subs.shapes, Node.mark_shape n p]
  | .cons b n r, i + 1, p => by simp [Subs.markAt, Subs.shapes, Subs.markAt_shapes r i p]
end

mutual
theorem Node.schedule_shape : (n : Node) → (p : List Nat) → (n.schedule p).shape = n.shape
  | n, [] => by cases n <;> rfl
  | .leaf id inj, _ :: _ => rfl
  | .compo id rid inj h st a r q m s, [i] => rfl
  | .compo id rid inj h st a r q m s, i :: j :: rest => by
    simp [Node.schedule, Node.shape, Subs.scheduleAt_shapes s i (j :: rest)]
  | .ortho id rid inj h s, [i] => rfl
  | .ortho id rid inj h s, i :: j :: rest => by
    simp [Node.schedule, Node.shape, Subs.scheduleAt_shapes s i (j :: rest)]
theorem Subs.scheduleAt_shapes : (s : Subs) → (i : Nat) → (p : List Nat) →
    (s.scheduleAt i p).shapes = s.shapes
  | .nil, i, p => rfl
  | .cons b n r, 0, p => by simp [Subs.scheduleAt, Subs.shapes, Node.schedule_shape n p]
  | .cons b n r, i + 1, p => by simp [Subs.scheduleAt, Subs.shapes, Subs.scheduleAt_shapes r i p]
end

/-- Everything the walks from state `id` need, in one place. -/
theorem Node.state_walk (n : Node) (ok : n.FlatOK) (p : List Nat) (c : Node)
    (h : n.follow p = some c) :
    n.toFlat.stateParents[c.id]? = some ((n.chain Idx.root p).headD Parent.invalid) ∧
    n.toFlat.toStatics.Linked (n.chain Idx.root p) Parent.invalid ∧
    ∃ fuel, n.toFlat.toStatics.fuel = fuel + (n.chain Idx.root p).length + 1 := by
  obtain ⟨r, hr, hid, hpar, _⟩ := Node.root_record n ok p c h
  refine ⟨?_, Node.chain_linked n ok p.length p rfl c h, ?_⟩
  · have := stateParents_lookup n.shape r hr
    rw [hid, hpar] at this
    have hs := congrArg Statics.stateParents (Node.toFlat_statics n ok.wf)
    simp only at hs
    rw [show n.toFlat.stateParents = n.toFlat.toStatics.stateParents from rfl, hs]
    exact this
  · have hlen := Node.chain_length n Idx.root p (by rw [h]; rfl)
    have hsz := Node.follow_size n p c h
    have hc1 : 1 ≤ c.size := by cases c <;> simp [Node.size] <;> omega
    have hs := congrArg Statics.stateParents (Node.toFlat_statics n ok.wf)
    simp only at hs
    obtain ⟨k, hk⟩ := Nat.exists_eq_add_of_le (show p.length ≤ n.size by omega)
    refine ⟨k, ?_⟩
    simp only [Statics.fuel, hs, List.length_map, nodes_length, Node.size_eq, hlen]
    omega

theorem Node.id_of_IdsFrom (n : Node) (a : Nat) (h : n.IdsFrom a) : n.id = a := by
  cases n <;> simp only [Node.IdsFrom] at h <;> simp [Node.id, h]

/-- A state id below `STATE_COUNT` names a node: `pathTo` finds it. -/
theorem Node.pathTo_of_lt (n : Node) (ok : n.FlatOK) (id : Nat) (h : id < n.size) :
    ∃ p c, n.pathTo id = some p ∧ n.follow p = some c ∧ c.id = id := by
  obtain ⟨p, hp⟩ := (Node.pathTo_complete n 0 ok.ids id).1 ⟨Nat.zero_le _, by omega⟩
  obtain ⟨c, hc, hid⟩ := Node.pathTo_sound n id p hp
  exact ⟨p, c, hp, hc, hid⟩

theorem Node.stateParents_length (n : Node) (ok : n.FlatOK) :
    n.toFlat.stateParents.length = n.size := by
  have hs := congrArg Statics.stateParents (Node.toFlat_statics n ok.wf)
  simp only at hs
  rw [show n.toFlat.stateParents = n.toFlat.toStatics.stateParents from rfl, hs]
  simp [nodes_length, Node.size_eq]

/-! ### the hypotheses hold for a freshly instantiated tree and are kept by marking -/

mutual
theorem Shape.toNode_shape : (s : Shape) → (id rid : Nat) → (s.toNode id rid).shape = s
  | .leaf inj, id, rid => rfl
  | .compo h inj st subs, id, rid => by
    simp [Shape.toNode, Node.shape, Shapes.toSubs_shapes subs]
  | .ortho h inj subs, id, rid => by
    simp [Shape.toNode, Node.shape, Shapes.toSubs_shapes subs]
theorem Shapes.toSubs_shapes : (ss : Shapes) → (id rid : Nat) → (ss.toSubs id rid).shapes = ss
  | .nil, id, rid => rfl
  | .cons s r, id, rid => by
    simp [Shapes.toSubs, Subs.shapes, Shape.toNode_shape s, Shapes.toSubs_shapes r]
end

mutual
theorem Shape.toNode_size : (s : Shape) → (id rid : Nat) → (s.toNode id rid).size = s.stateCount
  | .leaf inj, id, rid => rfl
  | .compo h inj st subs, id, rid => by
    simp [Shape.toNode, Node.size, Shape.stateCount, Shapes.toSubs_size subs]
  | .ortho h inj subs, id, rid => by
    simp [Shape.toNode, Node.size, Shape.stateCount, Shapes.toSubs_size subs]
theorem Shapes.toSubs_size : (ss : Shapes) → (id rid : Nat) → (ss.toSubs id rid).size = ss.stateCount
  | .nil, id, rid => rfl
  | .cons s r, id, rid => by
    simp [Shapes.toSubs, Subs.size, Shapes.stateCount, Shape.toNode_size s, Shapes.toSubs_size r]
end

mutual
theorem Shape.toNode_ids : (s : Shape) → (id rid : Nat) → (s.toNode id rid).IdsFrom id
  | .leaf inj, id, rid => by simp [Shape.toNode, Node.IdsFrom]
  | .compo h inj st subs, id, rid => by
    simp [Shape.toNode, Node.IdsFrom, Shapes.toSubs_ids subs]
  | .ortho h inj subs, id, rid => by
    simp [Shape.toNode, Node.IdsFrom, Shapes.toSubs_ids subs]
theorem Shapes.toSubs_ids : (ss : Shapes) → (id rid : Nat) → (ss.toSubs id rid).IdsFrom id
  | .nil, id, rid => by simp [Shapes.toSubs, Subs.IdsFrom]
  | .cons s r, id, rid => by
    simp only [Shapes.toSubs, Subs.IdsFrom, Shape.toNode_size]
    exact ⟨Shape.toNode_ids s id rid, Shapes.toSubs_ids r _ _⟩
end

/-- The root of a freshly created machine satisfies the hypotheses. -/
theorem Shape.toNode_flatOK (s : Shape) (hw : s.wf = true) (hf : s.FitsIds) :
    (s.toNode 0 0).FlatOK :=
  ⟨by rw [Shape.toNode_shape]; exact hw, by rw [Shape.toNode_shape]; exact hf, Shape.toNode_ids s 0 0⟩

theorem Subs.setBit_size : (s : Subs) → (i : Nat) → (s.setBit i).size = s.size
  | .nil, i => rfl
  | .cons _ _ r, 0 => rfl
  | .cons _ _ r, i + 1 => by simp [Subs.setBit, Subs.size, Subs.setBit_size r i]

theorem Subs.setBit_ids : (s : Subs) → (i : Nat) → (a : Nat) → s.IdsFrom a → (s.setBit i).IdsFrom a
  | .nil, i, a, h => h
  | .cons _ _ r, 0, a, h => h
  | .cons _ n r, i + 1, a, h => by
    simp only [Subs.setBit, Subs.IdsFrom] at h ⊢
    exact ⟨h.1, Subs.setBit_ids r i _ h.2⟩

mutual
theorem Node.mark_ids : (n : Node) → (p : List Nat) → (a : Nat) → n.IdsFrom a →
    (n.mark p).1.IdsFrom a ∧ (n.mark p).1.size = n.size
  | n, [], a, h => by cases n <;> exact ⟨h, rfl⟩
  | .leaf id inj, _ :: _, a, h => ⟨h, rfl⟩
  | .compo id rid inj hd st ac r q m s, i :: rest, a, h => by
    simp only [Node.IdsFrom] at h
    have ih := Subs.markAt_ids s i rest (a + 1) h.2
    simp only [Node.mark]
    cases hm : s.markAt i rest with
    | mk s' ph =>
      rw [hm] at ih
      cases ph
      · simp [Node.IdsFrom, Node.size, h.1, ih]
      · simp only []
        split <;> simp [Node.IdsFrom, Node.size, h.1, ih]
      · simp [Node.IdsFrom, Node.size, h.1, ih]
  | .ortho id rid inj hd s, i :: rest, a, h => by
    simp only [Node.IdsFrom] at h
    have ih := Subs.markAt_ids s i rest (a + 1) h.2
    simp only [Node.mark]
    cases hm : s.markAt i rest with
    | mk s' ph =>
      rw [hm] at ih
      simp [Node.IdsFrom, Node.size, h.1, Subs.setBit_ids _ _ _ ih.1, Subs.setBit_size, ih.2]
theorem Subs.markAt_ids : (s : Subs) → (i : Nat) → (p : List Nat) → (a : Nat) → s.IdsFrom a →
    (s.markAt i p).1.IdsFrom a ∧ (s.markAt i p).1.size = s.size
  | .nil, i, p, a, h => ⟨h, rfl⟩
  | .cons b n r, 0, p, a, h => by
    simp only [Subs.IdsFrom] at h
    have ih := Node.mark_ids n p a h.1
    simp only [Subs.markAt, Subs.IdsFrom, Subs.size, ih.2]
    exact ⟨⟨ih.1, h.2⟩, trivial⟩
  | .cons b n r, i + 1, p, a, h => by
    simp only [Subs.IdsFrom] at h
    have ih := Subs.markAt_ids r i p (a + n.size) h.2
    simp only [Subs.markAt, Subs.IdsFrom, Subs.size, ih.2]
    exact ⟨⟨h.1, ih.1⟩, trivial⟩
end

/-- Marking keeps the hypotheses. -/
theorem Node.mark_flatOK (n : Node) (ok : n.FlatOK) (p : List Nat) : (n.mark p).1.FlatOK :=
  ⟨by rw [Node.mark_shape]; exact ok.wf, by rw [Node.mark_shape]; exact ok.fits,
   (Node.mark_ids n p 0 ok.ids).1⟩

mutual
theorem Node.schedule_ids : (n : Node) → (p : List Nat) → (a : Nat) → n.IdsFrom a →
    (n.schedule p).IdsFrom a ∧ (n.schedule p).size = n.size
  | n, [], a, h => by cases n <;> exact ⟨h, rfl⟩
  | .leaf id inj, _ :: _, a, h => ⟨h, rfl⟩
  | .compo id rid inj hd st ac r q m s, [i], a, h => ⟨h, rfl⟩
  | .compo id rid inj hd st ac r q m s, i :: j :: rest, a, h => by
    simp only [Node.IdsFrom] at h
    have ih := Subs.scheduleAt_ids s i (j :: rest) (a + 1) h.2
    simp [Node.schedule, Node.IdsFrom, Node.size, h.1, ih]
  | .ortho id rid inj hd s, [i], a, h => ⟨h, rfl⟩
  | .ortho id rid inj hd s, i :: j :: rest, a, h => by
    simp only [Node.IdsFrom] at h
    have ih := Subs.scheduleAt_ids s i (j :: rest) (a + 1) h.2
    simp [Node.schedule, Node.IdsFrom, Node.size, h.1, ih]
theorem Subs.scheduleAt_ids : (s : Subs) → (i : Nat) → (p : List Nat) → (a : Nat) → s.IdsFrom a →
    (s.scheduleAt i p).IdsFrom a ∧ (s.scheduleAt i p).size = s.size
  | .nil, i, p, a, h => ⟨h, rfl⟩
  | .cons b n r, 0, p, a, h => by
    simp only [Subs.IdsFrom] at h
    have ih := Node.schedule_ids n p a h.1
    simp only [Subs.scheduleAt, Subs.IdsFrom, Subs.size, ih.2]
    exact ⟨⟨ih.1, h.2⟩, trivial⟩
  | .cons b n r, i + 1, p, a, h => by
    simp only [Subs.IdsFrom] at h
    have ih := Subs.scheduleAt_ids r i p (a + n.size) h.2
    simp only [Subs.scheduleAt, Subs.IdsFrom, Subs.size, ih.2]
    exact ⟨⟨h.1, ih.1⟩, trivial⟩
end

/-- Scheduling keeps the hypotheses. -/
theorem Node.schedule_flatOK (n : Node) (ok : n.FlatOK) (p : List Nat) : (n.schedule p).FlatOK :=
  ⟨by rw [Node.schedule_shape]; exact ok.wf, by rw [Node.schedule_shape]; exact ok.fits,
   (Node.schedule_ids n p 0 ok.ids).1⟩

end Hfsm
