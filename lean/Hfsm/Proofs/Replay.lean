/-
C09, replay: the tree a lifecycle walk returns does not depend on the world; on machines whose regions
resolve without asking a callback or the generator (`Plain`), neither does the tree a request pass
returns.  Hence `replayTransitions` on a replica with the authority's tree reproduces the authority's
single-round step.
-/
import Hfsm.Proofs.Process

set_option linter.unusedSectionVars false

namespace Hfsm
variable {U : Type} [UtilArith U]

/-! ### lifecycle walks: the returned tree is a function of the tree -/

mutual
theorem Node.enter_tree : (n : Node) → (w1 w2 : World U) → (n.enter w1).1 = (n.enter w2).1
  | .leaf id inj, w1, w2 => by simp only [Node.enter]
  | .compo id rid inj h st a r q m s, w1, w2 => by
    cases q with
    | none => simp only [Node.enter]
    | some qi =>
      simp only [Node.enter]
      rw [Subs.enterAt_tree s qi _ ((w2.pushRegion rid id (1 + s.size)).1.stateMethod id inj h .enter)]
  | .ortho id rid inj h s, w1, w2 => by
    simp only [Node.enter]
    rw [Subs.enterAll_tree s _ ((w2.pushRegion rid id (1 + s.size)).1.stateMethod id inj h .enter)]
theorem Subs.enterAt_tree : (s : Subs) → (i : Nat) → (w1 w2 : World U) → (s.enterAt i w1).1 = (s.enterAt i w2).1
  | .nil, _, w1, w2 => by simp only [Subs.enterAt]
  | .cons b n r, 0, w1, w2 => by simp only [Subs.enterAt]; rw [Node.enter_tree n w1 w2]
  | .cons b n r, i+1, w1, w2 => by simp only [Subs.enterAt]; rw [Subs.enterAt_tree r i w1 w2]
theorem Subs.enterAll_tree : (s : Subs) → (w1 w2 : World U) → (s.enterAll w1).1 = (s.enterAll w2).1
  | .nil, w1, w2 => by simp only [Subs.enterAll]
  | .cons b n r, w1, w2 => by
    simp only [Subs.enterAll]
    rw [Node.enter_tree n w1 w2, Subs.enterAll_tree r _ (n.enter w2).2]
end

mutual
theorem Node.exit_tree : (n : Node) → (w1 w2 : World U) → (n.exit w1).1 = (n.exit w2).1
  | .leaf id inj, w1, w2 => by simp only [Node.exit]
  | .compo id rid inj h st a r q m s, w1, w2 => by
    cases a with
    | none => simp only [Node.exit]
    | some ai => simp only [Node.exit]; rw [Subs.exitAt_tree s ai w1 w2]
  | .ortho id rid inj h s, w1, w2 => by simp only [Node.exit]; rw [Subs.exitAll_tree s w1 w2]
theorem Subs.exitAt_tree : (s : Subs) → (i : Nat) → (w1 w2 : World U) → (s.exitAt i w1).1 = (s.exitAt i w2).1
  | .nil, _, w1, w2 => by simp only [Subs.exitAt]
  | .cons b n r, 0, w1, w2 => by simp only [Subs.exitAt]; rw [Node.exit_tree n w1 w2]
  | .cons b n r, i+1, w1, w2 => by simp only [Subs.exitAt]; rw [Subs.exitAt_tree r i w1 w2]
theorem Subs.exitAll_tree : (s : Subs) → (w1 w2 : World U) → (s.exitAll w1).1 = (s.exitAll w2).1
  | .nil, w1, w2 => by simp only [Subs.exitAll]
  | .cons b n r, w1, w2 => by
    simp only [Subs.exitAll]
    rw [Node.exit_tree n w1 w2, Subs.exitAll_tree r _ (n.exit w2).2]
end

/-- leave sub-state `ai`, enter sub-state `qi` -/
theorem Subs.switch_tree (s : Subs) (ai qi : Nat) (w1 w2 : World U) :
    (Subs.enterAt (Subs.exitAt s ai w1).1 qi (Subs.exitAt s ai w1).2).1 =
    (Subs.enterAt (Subs.exitAt s ai w2).1 qi (Subs.exitAt s ai w2).2).1 := by
  rw [Subs.exitAt_tree s ai w1 w2]
  exact Subs.enterAt_tree _ qi _ _

mutual
theorem Node.reenter_tree : (n : Node) → (w1 w2 : World U) → (n.reenter w1).1 = (n.reenter w2).1
  | .leaf id inj, w1, w2 => by simp only [Node.reenter]
  | .compo id rid inj h st a r q m s, w1, w2 => by
    cases a with
    | none => simp only [Node.reenter]
    | some ai =>
      cases q with
      | none => simp only [Node.reenter]
      | some qi =>
        simp only [Node.reenter]
        split
        · dsimp only
          rw [Subs.reenterAt_tree s ai _ ((w2.pushRegion rid id (1 + s.size)).1.stateMethod id inj h .reenter)]
        · dsimp only
          rw [Subs.switch_tree s ai qi _ ((w2.pushRegion rid id (1 + s.size)).1.stateMethod id inj h .reenter)]
  | .ortho id rid inj h s, w1, w2 => by
    simp only [Node.reenter]
    rw [Subs.reenterAll_tree s _ ((w2.pushRegion rid id (1 + s.size)).1.stateMethod id inj h .reenter)]
theorem Subs.reenterAt_tree : (s : Subs) → (i : Nat) → (w1 w2 : World U) → (s.reenterAt i w1).1 = (s.reenterAt i w2).1
  | .nil, _, w1, w2 => by simp only [Subs.reenterAt]
  | .cons b n r, 0, w1, w2 => by simp only [Subs.reenterAt]; rw [Node.reenter_tree n w1 w2]
  | .cons b n r, i+1, w1, w2 => by simp only [Subs.reenterAt]; rw [Subs.reenterAt_tree r i w1 w2]
theorem Subs.reenterAll_tree : (s : Subs) → (w1 w2 : World U) → (s.reenterAll w1).1 = (s.reenterAll w2).1
  | .nil, w1, w2 => by simp only [Subs.reenterAll]
  | .cons b n r, w1, w2 => by
    simp only [Subs.reenterAll]
    rw [Node.reenter_tree n w1 w2, Subs.reenterAll_tree r _ (n.reenter w2).2]
end

mutual
/-- The tree the commit pass returns does not depend on the world (callbacks cannot touch the registry). -/
theorem Node.commit_tree : (n : Node) → (w1 w2 : World U) → (n.commit w1).1 = (n.commit w2).1
  | .leaf id inj, w1, w2 => by simp only [Node.commit]
  | .compo id rid inj h st a r q m s, w1, w2 => by
    cases a with
    | none => simp only [Node.commit]
    | some ai =>
      cases q with
      | none =>
        simp only [Node.commit]
        rw [Subs.commitAt_tree s ai _ (w2.pushRegion rid id (1 + s.size)).1]
      | some qi =>
        simp only [Node.commit]
        split
        · dsimp only
          rw [Subs.switch_tree s ai qi _ (w2.pushRegion rid id (1 + s.size)).1]
        · split
          · dsimp only
            rw [Subs.switch_tree s ai ai _ (w2.pushRegion rid id (1 + s.size)).1]
          · dsimp only
            rw [Subs.reenterAt_tree s ai _ (w2.pushRegion rid id (1 + s.size)).1]
  | .ortho id rid inj h s, w1, w2 => by simp only [Node.commit]; rw [Subs.commitAll_tree s w1 w2]
theorem Subs.commitAt_tree : (s : Subs) → (i : Nat) → (w1 w2 : World U) → (s.commitAt i w1).1 = (s.commitAt i w2).1
  | .nil, _, w1, w2 => by simp only [Subs.commitAt]
  | .cons b n r, 0, w1, w2 => by simp only [Subs.commitAt]; rw [Node.commit_tree n w1 w2]
  | .cons b n r, i+1, w1, w2 => by simp only [Subs.commitAt]; rw [Subs.commitAt_tree r i w1 w2]
theorem Subs.commitAll_tree : (s : Subs) → (w1 w2 : World U) → (s.commitAll w1).1 = (s.commitAll w2).1
  | .nil, w1, w2 => by simp only [Subs.commitAll]
  | .cons b n r, w1, w2 => by
    simp only [Subs.commitAll]
    rw [Node.commit_tree n w1 w2, Subs.commitAll_tree r _ (n.commit w2).2]
end

/-! ### request passes on machines that resolve without callbacks -/

def Strategy.plainS : Strategy → Bool
  | .composite | .resumable => true
  | _ => false

mutual
/-- every composite region resolves `change` by its own rule (first / resumable sub-state): no `select`,
no utility, no random number -/
def Node.Plain : Node → Bool
  | .leaf .. => true
  | .compo _ _ _ _ st _ _ _ _ s => st.plainS && s.PlainAll
  | .ortho _ _ _ _ s => s.PlainAll
def Subs.PlainAll : Subs → Bool
  | .nil => true
  | .cons _ n r => n.Plain && r.PlainAll
end

/-- request kinds that a plain region resolves without callbacks -/
def Kind.plain : Kind → Bool
  | .change | .restart | .resume | .schedule => true
  | _ => false

theorem effectiveKind_plain {st : Strategy} {k : Kind} (hs : st.plainS = true) (hk : k.plain = true) (hn : k ≠ .schedule) :
    effectiveKind st k = .restart ∨ effectiveKind st k = .resume := by
  cases st <;> cases k <;> simp_all [effectiveKind, Strategy.plainS, Kind.plain]

theorem Subs.PlainAt : (s : Subs) → s.PlainAll = true → (i : Nat) → ∀ n, s.get? i = some n → n.Plain = true
  | .nil, _, _, _, h => by simp [Subs.get?] at h
  | .cons _ n r, hp, 0, n', h => by
    simp only [Subs.PlainAll, Bool.and_eq_true] at hp
    simp only [Subs.get?, Option.some.injEq] at h; rw [← h]; exact hp.1
  | .cons _ n r, hp, i+1, n', h => by
    simp only [Subs.PlainAll, Bool.and_eq_true] at hp
    simp only [Subs.get?] at h
    exact Subs.PlainAt r hp.2 i n' h

mutual
theorem Node.request_tree : (n : Node) → n.Plain = true → (rq : Req) → rq.kind.plain = true → rq.kind ≠ .schedule →
    (w1 w2 : World U) → (n.request rq w1).1 = (n.request rq w2).1
  | .leaf id inj, _, rq, _, _, w1, w2 => by simp only [Node.request]
  | .ortho id rid inj h s, hp, rq, hk, hn, w1, w2 => by
    simp only [Node.Plain] at hp
    simp only [Node.request]
    rw [Subs.requestAll_tree s hp rq hk hn _ (w2.pin id rq.index)]
  | .compo id rid inj h st a r q m s, hp, rq, hk, hn, w1, w2 => by
    simp only [Node.Plain, Bool.and_eq_true] at hp
    simp only [Node.request]
    rcases effectiveKind_plain hp.1 hk hn with he | he
    · simp only [he]
      rw [Subs.requestAt_tree s hp.2 0 rq hk hn _ (w2.pin id rq.index)]
    · simp only [he]
      rw [Subs.requestAt_tree s hp.2 (r.getD 0) rq hk hn _ (w2.pin id rq.index)]
theorem Subs.requestAt_tree : (s : Subs) → s.PlainAll = true → (i : Nat) → (rq : Req) → rq.kind.plain = true →
    rq.kind ≠ .schedule → (w1 w2 : World U) → (s.requestAt i rq w1).1 = (s.requestAt i rq w2).1
  | .nil, _, _, rq, _, _, w1, w2 => by simp only [Subs.requestAt]
  | .cons b n r, hp, 0, rq, hk, hn, w1, w2 => by
    simp only [Subs.PlainAll, Bool.and_eq_true] at hp
    simp only [Subs.requestAt]; rw [Node.request_tree n hp.1 rq hk hn w1 w2]
  | .cons b n r, hp, i+1, rq, hk, hn, w1, w2 => by
    simp only [Subs.PlainAll, Bool.and_eq_true] at hp
    simp only [Subs.requestAt]; rw [Subs.requestAt_tree r hp.2 i rq hk hn w1 w2]
theorem Subs.requestAll_tree : (s : Subs) → s.PlainAll = true → (rq : Req) → rq.kind.plain = true →
    rq.kind ≠ .schedule → (w1 w2 : World U) → (s.requestAll rq w1).1 = (s.requestAll rq w2).1
  | .nil, _, rq, _, _, w1, w2 => by simp only [Subs.requestAll]
  | .cons b n r, hp, rq, hk, hn, w1, w2 => by
    simp only [Subs.PlainAll, Bool.and_eq_true] at hp
    simp only [Subs.requestAll]
    rw [Node.request_tree n hp.1 rq hk hn w1 w2, Subs.requestAll_tree r hp.2 rq hk hn _ (n.request rq w2).2]
end

mutual
theorem Node.fwdRequest_tree : (n : Node) → n.Plain = true → (rq : Req) → rq.kind.plain = true → rq.kind ≠ .schedule →
    (w1 w2 : World U) → (n.fwdRequest rq w1).1 = (n.fwdRequest rq w2).1
  | .leaf id inj, _, rq, _, _, w1, w2 => by simp only [Node.fwdRequest]
  | .compo id rid inj h st a r q m s, hp, rq, hk, hn, w1, w2 => by
    cases q with
    | some qi =>
      simp only [Node.Plain, Bool.and_eq_true] at hp
      simp only [Node.fwdRequest]
      rw [Subs.fwdRequestAt_tree s hp.2 qi rq hk hn _ (w2.pin id rq.index)]
    | none =>
      simp only [Node.fwdRequest]
      exact Node.request_tree _ hp rq hk hn _ _
  | .ortho id rid inj h s, hp, rq, hk, hn, w1, w2 => by
    simp only [Node.fwdRequest]
    split
    · simp only [Node.Plain] at hp
      dsimp only
      rw [Subs.fwdRequestAll_tree s hp rq hk hn _ (w2.pin id rq.index)]
    · exact Node.request_tree _ hp rq hk hn _ _
theorem Subs.fwdRequestAt_tree : (s : Subs) → s.PlainAll = true → (i : Nat) → (rq : Req) → rq.kind.plain = true →
    rq.kind ≠ .schedule → (w1 w2 : World U) → (s.fwdRequestAt i rq w1).1 = (s.fwdRequestAt i rq w2).1
  | .nil, _, _, rq, _, _, w1, w2 => by simp only [Subs.fwdRequestAt]
  | .cons b n r, hp, 0, rq, hk, hn, w1, w2 => by
    simp only [Subs.PlainAll, Bool.and_eq_true] at hp
    simp only [Subs.fwdRequestAt]; rw [Node.fwdRequest_tree n hp.1 rq hk hn w1 w2]
  | .cons b n r, hp, i+1, rq, hk, hn, w1, w2 => by
    simp only [Subs.PlainAll, Bool.and_eq_true] at hp
    simp only [Subs.fwdRequestAt]; rw [Subs.fwdRequestAt_tree r hp.2 i rq hk hn w1 w2]
theorem Subs.fwdRequestAll_tree : (s : Subs) → s.PlainAll = true → (rq : Req) → rq.kind.plain = true →
    rq.kind ≠ .schedule → (w1 w2 : World U) → (s.fwdRequestAll rq w1).1 = (s.fwdRequestAll rq w2).1
  | .nil, _, rq, _, _, w1, w2 => by simp only [Subs.fwdRequestAll]
  | .cons b n r, hp, rq, hk, hn, w1, w2 => by
    simp only [Subs.PlainAll, Bool.and_eq_true] at hp
    simp only [Subs.fwdRequestAll]
    rw [Node.fwdRequest_tree n hp.1 rq hk hn w1 w2, Subs.fwdRequestAll_tree r hp.2 rq hk hn _ (n.fwdRequest rq w2).2]
end

mutual
theorem Node.fwdActive_tree : (n : Node) → n.Plain = true → (rq : Req) → rq.kind.plain = true → rq.kind ≠ .schedule →
    (w1 w2 : World U) → (n.fwdActive rq w1).1 = (n.fwdActive rq w2).1
  | .leaf id inj, _, rq, _, _, w1, w2 => by simp only [Node.fwdActive]
  | .compo id rid inj h st a r q m s, hp, rq, hk, hn, w1, w2 => by
    simp only [Node.Plain, Bool.and_eq_true] at hp
    cases q with
    | none =>
      cases a with
      | none => simp only [Node.fwdActive]
      | some ai => simp only [Node.fwdActive]; rw [Subs.fwdActiveAt_tree s hp.2 ai rq hk hn w1 w2]
    | some qi => simp only [Node.fwdActive]; rw [Subs.fwdRequestAt_tree s hp.2 qi rq hk hn w1 w2]
  | .ortho id rid inj h s, hp, rq, hk, hn, w1, w2 => by
    simp only [Node.Plain] at hp
    simp only [Node.fwdActive]; rw [Subs.fwdActiveBits_tree s hp rq hk hn w1 w2]
theorem Subs.fwdActiveAt_tree : (s : Subs) → s.PlainAll = true → (i : Nat) → (rq : Req) → rq.kind.plain = true →
    rq.kind ≠ .schedule → (w1 w2 : World U) → (s.fwdActiveAt i rq w1).1 = (s.fwdActiveAt i rq w2).1
  | .nil, _, _, rq, _, _, w1, w2 => by simp only [Subs.fwdActiveAt]
  | .cons b n r, hp, 0, rq, hk, hn, w1, w2 => by
    simp only [Subs.PlainAll, Bool.and_eq_true] at hp
    simp only [Subs.fwdActiveAt]; rw [Node.fwdActive_tree n hp.1 rq hk hn w1 w2]
  | .cons b n r, hp, i+1, rq, hk, hn, w1, w2 => by
    simp only [Subs.PlainAll, Bool.and_eq_true] at hp
    simp only [Subs.fwdActiveAt]; rw [Subs.fwdActiveAt_tree r hp.2 i rq hk hn w1 w2]
theorem Subs.fwdActiveBits_tree : (s : Subs) → s.PlainAll = true → (rq : Req) → rq.kind.plain = true →
    rq.kind ≠ .schedule → (w1 w2 : World U) → (s.fwdActiveBits rq w1).1 = (s.fwdActiveBits rq w2).1
  | .nil, _, rq, _, _, w1, w2 => by simp only [Subs.fwdActiveBits]
  | .cons b n r, hp, rq, hk, hn, w1, w2 => by
    simp only [Subs.PlainAll, Bool.and_eq_true] at hp
    simp only [Subs.fwdActiveBits]
    split
    · dsimp only
      rw [Node.fwdActive_tree n hp.1 rq hk hn w1 w2, Subs.fwdActiveBits_tree r hp.2 rq hk hn _ (n.fwdActive rq w2).2]
    · dsimp only
      rw [Subs.fwdActiveBits_tree r hp.2 rq hk hn w1 w2]
end

/-! ### the tree a request pass returns does not depend on the queue index either -/

mutual
theorem Node.request_treeK : (n : Node) → n.Plain = true → (rq1 rq2 : Req) → rq1.kind = rq2.kind →
    rq1.kind.plain = true → rq1.kind ≠ .schedule → (w1 w2 : World U) → (n.request rq1 w1).1 = (n.request rq2 w2).1
  | .leaf id inj, _, rq1, rq2, _, _, _, w1, w2 => by simp only [Node.request]
  | .ortho id rid inj h s, hp, rq1, rq2, he, hk, hn, w1, w2 => by
    simp only [Node.Plain] at hp
    simp only [Node.request]
    rw [Subs.requestAll_treeK s hp rq1 rq2 he hk hn _ (w2.pin id rq2.index)]
  | .compo id rid inj h st a r q m s, hp, rq1, rq2, he, hk, hn, w1, w2 => by
    simp only [Node.Plain, Bool.and_eq_true] at hp
    simp only [Node.request]
    rw [← he]
    rcases effectiveKind_plain hp.1 hk hn with hq | hq
    · simp only [hq]
      rw [Subs.requestAt_treeK s hp.2 0 rq1 rq2 he hk hn _ (w2.pin id rq2.index)]
    · simp only [hq]
      rw [Subs.requestAt_treeK s hp.2 (r.getD 0) rq1 rq2 he hk hn _ (w2.pin id rq2.index)]
theorem Subs.requestAt_treeK : (s : Subs) → s.PlainAll = true → (i : Nat) → (rq1 rq2 : Req) → rq1.kind = rq2.kind →
    rq1.kind.plain = true → rq1.kind ≠ .schedule → (w1 w2 : World U) →
    (s.requestAt i rq1 w1).1 = (s.requestAt i rq2 w2).1
  | .nil, _, _, rq1, rq2, _, _, _, w1, w2 => by simp only [Subs.requestAt]
  | .cons b n r, hp, 0, rq1, rq2, he, hk, hn, w1, w2 => by
    simp only [Subs.PlainAll, Bool.and_eq_true] at hp
    simp only [Subs.requestAt]; rw [Node.request_treeK n hp.1 rq1 rq2 he hk hn w1 w2]
  | .cons b n r, hp, i+1, rq1, rq2, he, hk, hn, w1, w2 => by
    simp only [Subs.PlainAll, Bool.and_eq_true] at hp
    simp only [Subs.requestAt]; rw [Subs.requestAt_treeK r hp.2 i rq1 rq2 he hk hn w1 w2]
theorem Subs.requestAll_treeK : (s : Subs) → s.PlainAll = true → (rq1 rq2 : Req) → rq1.kind = rq2.kind →
    rq1.kind.plain = true → rq1.kind ≠ .schedule → (w1 w2 : World U) →
    (s.requestAll rq1 w1).1 = (s.requestAll rq2 w2).1
  | .nil, _, rq1, rq2, _, _, _, w1, w2 => by simp only [Subs.requestAll]
  | .cons b n r, hp, rq1, rq2, he, hk, hn, w1, w2 => by
    simp only [Subs.PlainAll, Bool.and_eq_true] at hp
    simp only [Subs.requestAll]
    rw [Node.request_treeK n hp.1 rq1 rq2 he hk hn w1 w2,
      Subs.requestAll_treeK r hp.2 rq1 rq2 he hk hn _ (n.request rq2 w2).2]
end

mutual
theorem Node.fwdRequest_treeK : (n : Node) → n.Plain = true → (rq1 rq2 : Req) → rq1.kind = rq2.kind →
    rq1.kind.plain = true → rq1.kind ≠ .schedule → (w1 w2 : World U) →
    (n.fwdRequest rq1 w1).1 = (n.fwdRequest rq2 w2).1
  | .leaf id inj, _, rq1, rq2, _, _, _, w1, w2 => by simp only [Node.fwdRequest]
  | .compo id rid inj h st a r q m s, hp, rq1, rq2, he, hk, hn, w1, w2 => by
    cases q with
    | some qi =>
      simp only [Node.Plain, Bool.and_eq_true] at hp
      simp only [Node.fwdRequest]
      rw [Subs.fwdRequestAt_treeK s hp.2 qi rq1 rq2 he hk hn _ (w2.pin id rq2.index)]
    | none =>
      simp only [Node.fwdRequest]
      exact Node.request_treeK _ hp rq1 rq2 he hk hn _ _
  | .ortho id rid inj h s, hp, rq1, rq2, he, hk, hn, w1, w2 => by
    simp only [Node.fwdRequest]
    split
    · simp only [Node.Plain] at hp
      dsimp only
      rw [Subs.fwdRequestAll_treeK s hp rq1 rq2 he hk hn _ (w2.pin id rq2.index)]
    · exact Node.request_treeK _ hp rq1 rq2 he hk hn _ _
theorem Subs.fwdRequestAt_treeK : (s : Subs) → s.PlainAll = true → (i : Nat) → (rq1 rq2 : Req) →
    rq1.kind = rq2.kind → rq1.kind.plain = true → rq1.kind ≠ .schedule → (w1 w2 : World U) →
    (s.fwdRequestAt i rq1 w1).1 = (s.fwdRequestAt i rq2 w2).1
  | .nil, _, _, rq1, rq2, _, _, _, w1, w2 => by simp only [Subs.fwdRequestAt]
  | .cons b n r, hp, 0, rq1, rq2, he, hk, hn, w1, w2 => by
    simp only [Subs.PlainAll, Bool.and_eq_true] at hp
    simp only [Subs.fwdRequestAt]; rw [Node.fwdRequest_treeK n hp.1 rq1 rq2 he hk hn w1 w2]
  | .cons b n r, hp, i+1, rq1, rq2, he, hk, hn, w1, w2 => by
    simp only [Subs.PlainAll, Bool.and_eq_true] at hp
    simp only [Subs.fwdRequestAt]; rw [Subs.fwdRequestAt_treeK r hp.2 i rq1 rq2 he hk hn w1 w2]
theorem Subs.fwdRequestAll_treeK : (s : Subs) → s.PlainAll = true → (rq1 rq2 : Req) → rq1.kind = rq2.kind →
    rq1.kind.plain = true → rq1.kind ≠ .schedule → (w1 w2 : World U) →
    (s.fwdRequestAll rq1 w1).1 = (s.fwdRequestAll rq2 w2).1
  | .nil, _, rq1, rq2, _, _, _, w1, w2 => by simp only [Subs.fwdRequestAll]
  | .cons b n r, hp, rq1, rq2, he, hk, hn, w1, w2 => by
    simp only [Subs.PlainAll, Bool.and_eq_true] at hp
    simp only [Subs.fwdRequestAll]
    rw [Node.fwdRequest_treeK n hp.1 rq1 rq2 he hk hn w1 w2,
      Subs.fwdRequestAll_treeK r hp.2 rq1 rq2 he hk hn _ (n.fwdRequest rq2 w2).2]
end

mutual
theorem Node.fwdActive_treeK : (n : Node) → n.Plain = true → (rq1 rq2 : Req) → rq1.kind = rq2.kind →
    rq1.kind.plain = true → rq1.kind ≠ .schedule → (w1 w2 : World U) →
    (n.fwdActive rq1 w1).1 = (n.fwdActive rq2 w2).1
  | .leaf id inj, _, rq1, rq2, _, _, _, w1, w2 => by simp only [Node.fwdActive]
  | .compo id rid inj h st a r q m s, hp, rq1, rq2, he, hk, hn, w1, w2 => by
    simp only [Node.Plain, Bool.and_eq_true] at hp
    cases q with
    | none =>
      cases a with
      | none => simp only [Node.fwdActive]
      | some ai => simp only [Node.fwdActive]; rw [Subs.fwdActiveAt_treeK s hp.2 ai rq1 rq2 he hk hn w1 w2]
    | some qi => simp only [Node.fwdActive]; rw [Subs.fwdRequestAt_treeK s hp.2 qi rq1 rq2 he hk hn w1 w2]
  | .ortho id rid inj h s, hp, rq1, rq2, he, hk, hn, w1, w2 => by
    simp only [Node.Plain] at hp
    simp only [Node.fwdActive]; rw [Subs.fwdActiveBits_treeK s hp rq1 rq2 he hk hn w1 w2]
theorem Subs.fwdActiveAt_treeK : (s : Subs) → s.PlainAll = true → (i : Nat) → (rq1 rq2 : Req) →
    rq1.kind = rq2.kind → rq1.kind.plain = true → rq1.kind ≠ .schedule → (w1 w2 : World U) →
    (s.fwdActiveAt i rq1 w1).1 = (s.fwdActiveAt i rq2 w2).1
  | .nil, _, _, rq1, rq2, _, _, _, w1, w2 => by simp only [Subs.fwdActiveAt]
  | .cons b n r, hp, 0, rq1, rq2, he, hk, hn, w1, w2 => by
    simp only [Subs.PlainAll, Bool.and_eq_true] at hp
    simp only [Subs.fwdActiveAt]; rw [Node.fwdActive_treeK n hp.1 rq1 rq2 he hk hn w1 w2]
  | .cons b n r, hp, i+1, rq1, rq2, he, hk, hn, w1, w2 => by
    simp only [Subs.PlainAll, Bool.and_eq_true] at hp
    simp only [Subs.fwdActiveAt]; rw [Subs.fwdActiveAt_treeK r hp.2 i rq1 rq2 he hk hn w1 w2]
theorem Subs.fwdActiveBits_treeK : (s : Subs) → s.PlainAll = true → (rq1 rq2 : Req) → rq1.kind = rq2.kind →
    rq1.kind.plain = true → rq1.kind ≠ .schedule → (w1 w2 : World U) →
    (s.fwdActiveBits rq1 w1).1 = (s.fwdActiveBits rq2 w2).1
  | .nil, _, rq1, rq2, _, _, _, w1, w2 => by simp only [Subs.fwdActiveBits]
  | .cons b n r, hp, rq1, rq2, he, hk, hn, w1, w2 => by
    simp only [Subs.PlainAll, Bool.and_eq_true] at hp
    simp only [Subs.fwdActiveBits]
    split
    · dsimp only
      rw [Node.fwdActive_treeK n hp.1 rq1 rq2 he hk hn w1 w2,
        Subs.fwdActiveBits_treeK r hp.2 rq1 rq2 he hk hn _ (n.fwdActive rq2 w2).2]
    · dsimp only
      rw [Subs.fwdActiveBits_treeK r hp.2 rq1 rq2 he hk hn w1 w2]
end

/-! ### `Plain` is a property of the structure -/

mutual
theorem Node.frozen_Plain : (n : Node) → n.frozen.Plain = n.Plain
  | .leaf .. => rfl
  | .compo id rid inj h st a r q m s => by simp only [Node.frozen, Node.Plain, Subs.frozen_PlainAll s]
  | .ortho id rid inj h s => by simp only [Node.frozen, Node.Plain, Subs.frozen_PlainAll s]
theorem Subs.frozen_PlainAll : (s : Subs) → s.frozen.PlainAll = s.PlainAll
  | .nil => rfl
  | .cons b n r => by simp only [Subs.frozen, Subs.PlainAll, Node.frozen_Plain n, Subs.frozen_PlainAll r]
end

theorem Node.Plain_of_frozen {a b : Node} (h : a.frozen = b.frozen) : a.Plain = b.Plain := by
  rw [← Node.frozen_Plain a, h, Node.frozen_Plain]

namespace Mach

theorem applyRequest_tree (m1 m2 : Mach U) (t : Transition) (i : Nat) (hr : m1.root = m2.root)
    (hp : m1.root.Plain = true) (hk : t.kind.plain = true) :
    (m1.applyRequest t i).root = (m2.applyRequest t i).root := by
  unfold applyRequest
  dsimp only
  rw [hr]
  rw [hr] at hp
  split
  · split <;> rfl
  · next k hns =>
    have hn : t.kind ≠ .schedule := fun h => hns h
    split
    · exact Node.request_tree m2.root hp ⟨t.kind, some i⟩ hk hn _ _
    · split
      · rfl
      · next p _ =>
        have hp' : (m2.root.mark p).1.Plain = true := by
          rw [Node.Plain_of_frozen (Node.frozen_of_clearMarks (Node.mark_clearMarks m2.root p))]; exact hp
        exact Node.fwdActive_tree _ hp' ⟨t.kind, some i⟩ hk hn _ _

/-- On plain machines `applyRequest` computes the same tree whatever the world and the queue index. -/
theorem applyRequest_treeK (m1 m2 : Mach U) (t : Transition) (i j : Nat) (hr : m1.root = m2.root)
    (hp : m1.root.Plain = true) (hk : t.kind.plain = true) :
    (m1.applyRequest t i).root = (m2.applyRequest t j).root := by
  unfold applyRequest
  dsimp only
  rw [hr]
  rw [hr] at hp
  split
  · split <;> rfl
  · next k hns =>
    have hn : t.kind ≠ .schedule := fun h => hns h
    split
    · exact Node.request_treeK m2.root hp ⟨t.kind, some i⟩ ⟨t.kind, some j⟩ rfl hk hn _ _
    · split
      · rfl
      · next p _ =>
        have hp' : (m2.root.mark p).1.Plain = true := by
          rw [Node.Plain_of_frozen (Node.frozen_of_clearMarks (Node.mark_clearMarks m2.root p))]; exact hp
        exact Node.fwdActive_treeK _ hp' ⟨t.kind, some i⟩ ⟨t.kind, some j⟩ rfl hk hn _ _

/-- … and whether the pass pins at all: the entries of an over-long history replayed without an index leave the same
request marks. -/
theorem applyRequestNoPin_treeK (m1 m2 : Mach U) (t : Transition) (j : Nat) (hr : m1.root = m2.root)
    (hp : m1.root.Plain = true) (hk : t.kind.plain = true) :
    (m1.applyRequestNoPin t).root = (m2.applyRequest t j).root := by
  unfold applyRequest applyRequestNoPin
  dsimp only
  rw [hr]
  rw [hr] at hp
  split
  · split <;> rfl
  · next k hns =>
    have hn : t.kind ≠ .schedule := fun h => hns h
    split
    · exact Node.request_treeK m2.root hp ⟨t.kind, none⟩ ⟨t.kind, some j⟩ rfl hk hn _ _
    · split
      · rfl
      · next p _ =>
        have hp' : (m2.root.mark p).1.Plain = true := by
          rw [Node.Plain_of_frozen (Node.frozen_of_clearMarks (Node.mark_clearMarks m2.root p))]; exact hp
        exact Node.fwdActive_treeK _ hp' ⟨t.kind, none⟩ ⟨t.kind, some j⟩ rfl hk hn _ _

/-- the tree (request marks included) does not depend on the index: `applyRequestNoPin` marks what `applyRequest`
marks -/
theorem applyRequestNoPin_root (m : Mach U) (t : Transition) (i : Nat) (hp : m.root.Plain = true)
    (hk : t.kind.plain = true) : (m.applyRequestNoPin t).root = (m.applyRequest t i).root :=
  applyRequestNoPin_treeK m m t i rfl hp hk

theorem applyRequest_Plain (m : Mach U) (t : Transition) (i : Nat) :
    (m.applyRequest t i).root.Plain = m.root.Plain :=
  Node.Plain_of_frozen (applyRequest_frozen m t i)

theorem applyRequest_cfg (m : Mach U) (t : Transition) (i : Nat) : (m.applyRequest t i).w.cfg = m.w.cfg :=
  (applyRequest_rel m t i).cfg

theorem applyRequestNoPin_Plain (m : Mach U) (t : Transition) :
    (m.applyRequestNoPin t).root.Plain = m.root.Plain :=
  Node.Plain_of_frozen (applyRequestNoPin_frozen m t)

theorem applyRequestNoPin_cfg (m : Mach U) (t : Transition) : (m.applyRequestNoPin t).w.cfg = m.w.cfg :=
  (applyRequestNoPin_rel m t 0).cfg

theorem foldl_applyRequest_cfg : (l : List (Transition × Nat)) → (m : Mach U) →
    (l.foldl (fun m (x : Transition × Nat) => m.applyRequest x.1 x.2) m).w.cfg = m.w.cfg
  | [], _ => rfl
  | x :: rest, m => by
    simp only [List.foldl_cons]
    exact (foldl_applyRequest_cfg rest _).trans (applyRequest_cfg m x.1 x.2)

/-- the apply phase of a replay leaves the configuration alone -/
theorem applyRequests_cfg (m : Mach U) (ts : List Transition) : (m.applyRequests ts).1.w.cfg = m.w.cfg :=
  foldl_applyStep_cfg ts.zipIdx ({ m with w := m.w.freshControl } : Mach U)

theorem applyStep_Plain (m : Mach U) (x : Transition × Nat) : (applyStep m x).root.Plain = m.root.Plain := by
  unfold applyStep
  split
  · exact applyRequest_Plain m x.1 x.2
  · exact applyRequestNoPin_Plain m x.1

/-- On plain machines the loop of `applyRequests` (which stops pinning at `historyCap`) computes the tree of the loop
that applies every entry with its index, whatever the two worlds. -/
theorem foldl_applyStep_root : (l : List (Transition × Nat)) → (m1 m2 : Mach U) → m1.root = m2.root →
    m1.root.Plain = true → (∀ x ∈ l, x.1.kind.plain = true) →
    (l.foldl applyStep m1).root = (l.foldl (fun m (x : Transition × Nat) => m.applyRequest x.1 x.2) m2).root
  | [], _, _, hr, _, _ => hr
  | x :: rest, m1, m2, hr, hp, hk => by
    simp only [List.foldl_cons]
    refine foldl_applyStep_root rest _ _ ?_ (by rw [applyStep_Plain]; exact hp)
      (fun y hy => hk y (List.mem_cons_of_mem _ hy))
    unfold applyStep
    split
    · exact applyRequest_treeK m1 m2 x.1 x.2 x.2 hr hp (hk x List.mem_cons_self)
    · exact applyRequestNoPin_treeK m1 m2 x.1 x.2 hr hp (hk x List.mem_cons_self)

/-- On plain machines the tree after the apply phase of a replay is the one the indexed loop computes — the fix
6770c20 (no pin beyond `historyCap`) does not change what an over-long history does to the registry. -/
theorem applyRequests_root_plain (m : Mach U) (ts : List Transition) (hp : m.root.Plain = true)
    (hk : ∀ t ∈ ts, t.kind.plain = true) :
    (m.applyRequests ts).1.root =
      (ts.zipIdx.foldl (fun m (x : Transition × Nat) => m.applyRequest x.1 x.2)
        ({ m with w := m.w.freshControl } : Mach U)).root := by
  rw [applyRequests_eq]
  exact foldl_applyStep_root ts.zipIdx _ _ rfl hp (fun x hx => hk x.1 (List.of_mem_zip (List.zipIdx_eq_zip_range' ▸ hx)).1)

/-- On plain machines the apply phase computes the same tree whatever the world. -/
theorem applyAll_tree : (ts : List Transition) → (m1 m2 : Mach U) → (i : Nat) → m1.root = m2.root →
    m1.w.cfg.stateCount = m2.w.cfg.stateCount → m1.root.Plain = true → (∀ t ∈ ts, t.kind.plain = true) →
    (m1.applyAll ts i).root = (m2.applyAll ts i).root
  | [], m1, m2, i, hr, _, _, _ => by simp only [applyAll]; exact hr
  | t :: rest, m1, m2, i, hr, hc, hp, hk => by
    simp only [applyAll]
    rw [hc]
    split
    · refine applyAll_tree rest _ _ (i+1) (applyRequest_tree m1 m2 t i hr hp (hk t List.mem_cons_self)) ?_ ?_
        (fun t' h' => hk t' (List.mem_cons_of_mem _ h'))
      · rw [applyRequest_cfg, applyRequest_cfg]; exact hc
      · rw [applyRequest_Plain]; exact hp
    · exact applyAll_tree rest m1 m2 (i+1) hr hc hp (fun t' h' => hk t' (List.mem_cons_of_mem _ h'))

/-- `applyRequests` (replay) applies every transition; `applyAll` (authority) skips destinations out of
range — the same thing when all destinations are states of the machine. -/
theorem applyAll_eq_foldl : (ts : List Transition) → (m : Mach U) → (i : Nat) →
    (∀ t ∈ ts, t.dest < m.w.cfg.stateCount) →
    m.applyAll ts i = (ts.zipIdx i).foldl (fun m (x : Transition × Nat) => m.applyRequest x.1 x.2) m
  | [], m, i, _ => by simp only [applyAll, List.zipIdx_nil, List.foldl_nil]
  | t :: rest, m, i, h => by
    simp only [applyAll, List.zipIdx_cons, List.foldl_cons]
    rw [if_pos (h t List.mem_cons_self)]
    exact applyAll_eq_foldl rest _ (i+1) (fun t' h' => by
      rw [applyRequest_cfg]; exact h t' (List.mem_cons_of_mem _ h'))

theorem roundStep_approved_changed (initial : Bool) (m : Mach U) (backup : Node) (current : List Transition)
    (h : (roundStep initial m backup current).2.2.2 = .approved) :
    (m.applyAll m.w.requests 0).root.marksDiffer backup = true := by
  unfold roundStep at h
  dsimp only at h
  by_cases hd : ((m.applyAll m.w.requests 0).root.marksDiffer backup) = true
  · exact hd
  · simp only [hd] at h; cases h

/-- **Replay reproduces a single-round step.** Authority `a` processes its queue `ts` in one approved round;
a replica `r` holding the same tree (same active, resumable sub-states, no marks pending on either side)
replays `ts`: it answers `true`, consults no guard, and ends with exactly the authority's tree — active
configuration and resumable marks — and with `previousTransitions` = the first `historyCap` entries of
`ts` (the copy into the bounded array drops the rest).  Hypotheses: the machine is
`Plain` (no `select`, utility or random resolution is involved, so the apply phase needs no callback
answers), every destination is a state of the machine, request kinds are `change / restart / resume /
schedule`. -/
theorem replay_reproduces_single_round_step (a r : Mach U) (ts : List Transition)
    (hlog : a.stepLog = [(ts, .approved)]) (hroot : r.root = a.root)
    (hcfg : r.w.cfg.stateCount = a.w.cfg.stateCount) (hplain : a.root.Plain = true)
    (hk : ∀ t ∈ ts, t.kind.plain = true) (hd : ∀ t ∈ ts, t.dest < a.w.cfg.stateCount) :
    (r.replayTransitions ts).2 = true ∧ (r.replayTransitions ts).1.root = a.processRequest.root ∧
    (r.replayTransitions ts).1.w.previous = ts.take r.w.cfg.historyCap := by
  obtain ⟨hloop, hts, ho⟩ := single_round_step a ts .approved hlog
  have hreq : a.stepStart.w.requests = a.w.requests := by
    unfold stepStart World.freshControl; exact World.clearTargets_requests _
  have hne : a.w.requests.isEmpty = false := by
    rw [← hreq, ← hts]
    cases ts with
    | nil =>
      -- an approved round with an empty queue does not exist: the loop stops on an empty queue
      exfalso
      unfold stepLog at hlog
      cases hl : a.stepStart.w.cfg.substitutionLimit with
      | zero => rw [hl] at hlog; simp only [roundsLog] at hlog; cases hlog
      | succ k =>
        rw [hl] at hlog; simp only [roundsLog] at hlog
        split at hlog
        · cases hlog
        · next he => rw [← hts] at he; exact he rfl
    | cons t rest => rfl
  have htree := roundStep_tree false a.stepStart a.stepStart.root [] rfl
  dsimp only at htree
  obtain ⟨hap, _, _, _, _⟩ := htree
  obtain ⟨_, hroot1⟩ := hap ho.symm
  have hchanged := roundStep_approved_changed false a.stepStart a.stepStart.root [] ho.symm
  rw [← hts] at hroot1 hchanged
  -- the authority's final tree
  have hA : a.processRequest.root =
      ((a.stepStart.applyAll ts 0).root.commit
        (({ a.stepLoop.1.w.freshControl with current := a.stepLoop.2 }).snapshot a.stepLoop.1.root false false)).1.clearMarks := by
    rw [processRequest_eq a hne]
    dsimp only
    have hcur : a.stepLoop.2.isEmpty = false := by
      rw [hloop]
      dsimp only
      obtain ⟨_, _, _, sp⟩ := roundStep_spec false a.stepStart a.stepStart.root [] (stepStart_sized a)
      rw [sp.current, ← ho, if_pos rfl, ← hts, List.nil_append]
      rw [hts, hreq]; exact hne
    rw [if_neg (by rw [hcur]; exact Bool.false_ne_true)]
    show (Node.commit a.stepLoop.1.root _).1.clearMarks = _
    have : a.stepLoop.1.root = (a.stepStart.applyAll ts 0).root := by rw [hloop]; exact hroot1
    rw [this]
  -- the replica
  have hnil : ts.isEmpty = false := by
    cases ts with
    | nil => rw [← hts] at hreq; rw [← hreq] at hne; cases hne
    | cons _ _ => rfl
  unfold replayTransitions
  rw [if_neg (by rw [hnil]; exact Bool.false_ne_true)]
  dsimp only
  generalize hr0 : ({ r with w := { r.w.clearTargets with previous := [] } } : Mach U) = r0
  have hr0root : r0.root = a.root := by subst hr0; exact hroot
  have hr0cfg : r0.w.cfg.stateCount = a.w.cfg.stateCount := by
    subst hr0; show r.w.clearTargets.cfg.stateCount = _; rw [World.clearTargets_cfg]; exact hcfg
  -- the replica's apply phase yields the authority's applied tree
  have happ : (r0.applyRequests ts).1.root = (a.stepStart.applyAll ts 0).root := by
    have h1 := applyAll_eq_foldl ts ({ r0 with w := r0.w.freshControl } : Mach U) 0
      (fun t ht => by show t.dest < r0.w.cfg.stateCount; rw [hr0cfg]; exact hd t ht)
    rw [applyRequests_root_plain r0 ts (by rw [hr0root]; exact hplain) hk, ← h1]
    refine applyAll_tree ts _ _ 0 hr0root ?_ (by show r0.root.Plain = true; rw [hr0root]; exact hplain) hk
    show r0.w.cfg.stateCount = a.stepStart.w.cfg.stateCount
    rw [stepStart_cfg]; exact hr0cfg
  have hchg : (r0.applyRequests ts).2 = true := by
    have : (r0.applyRequests ts).2 = (r0.applyRequests ts).1.root.marksDiffer r0.root := by
      unfold applyRequests; rfl
    rw [this, happ, hr0root]; exact hchanged
  have hcfg1 : (r0.applyRequests ts).1.w.cfg = r.w.cfg := by
    rw [applyRequests_cfg]; subst hr0; exact World.clearTargets_cfg _
  generalize r0.applyRequests ts = res at happ hchg hcfg1
  obtain ⟨r1, chg⟩ := res
  dsimp only at happ hchg hcfg1 ⊢
  rw [hchg]
  simp only [if_true]
  refine ⟨trivial, ?_, ?_⟩
  · rw [updActivity_root, hA]
    dsimp only
    rw [happ]
    congr 1
    exact Node.commit_tree _ _ _
  · rw [updActivity_w, ← hcfg1]
    exact (Node.commit_steps _ _ _ (Steps.refl _)).frame.previous

end Mach

/-- not a guard callback -/
def NoGuardEv : Event U → Prop
  | .cb _ m _ _ _ _ => m.cls ≠ .guard
  | .log _ => True

namespace Mach

/-- `replayTransitions` consults no guard: its events are forward-pass and lifecycle callbacks only. -/
theorem replay_trace (m : Mach U) (ts : List Transition) :
    ∃ evs, (m.replayTransitions ts).1.w.trace = evs ++ m.w.trace ∧ ∀ e ∈ evs, NoGuardEv e := by
  have h0 : ({ m.w.clearTargets with previous := [] } : World U).trace = m.w.trace := by
    unfold World.clearTargets; dsimp only; split <;> rfl
  unfold replayTransitions
  dsimp only
  split
  · exact ⟨[], by rw [List.nil_append]; exact h0, fun _ h => nomatch h⟩
  · obtain ⟨e1, t1, p1⟩ := (applyRequests_rel ({ m with w := { m.w.clearTargets with previous := [] } } : Mach U) ts).trace
    have t1' : (Mach.applyRequests ({ m with w := { m.w.clearTargets with previous := [] } } : Mach U) ts).1.w.trace =
        e1 ++ m.w.trace := by rw [t1]; show e1 ++ ({ m.w.clearTargets with previous := [] } : World U).trace = _; rw [h0]
    clear t1
    generalize Mach.applyRequests ({ m with w := { m.w.clearTargets with previous := [] } } : Mach U) ts = res at t1'
    obtain ⟨m1, chg⟩ := res
    dsimp only at t1' ⊢
    have hfw : ∀ e ∈ e1, NoGuardEv e := by
      intro e he
      cases e with
      | log r => trivial
      | cb sid meth slot obs p c =>
        have hc : meth.cls = .const := (p1 _ he).1
        show meth.cls ≠ .guard
        rw [hc]; decide
    split
    · dsimp only
      rw [updActivity_w]
      obtain ⟨e2, t2, p2⟩ := (Node.commit_steps _ _ _ (Steps.refl _)).frame.trace
      refine ⟨e2 ++ e1, by rw [t2]; exact (congrArg (e2 ++ ·) t1').trans (List.append_assoc _ _ _).symm, ?_⟩
      intro e he
      rcases List.mem_append.mp he with h | h
      · cases e with
        | log r => trivial
        | cb sid meth slot obs p c =>
          have hc : meth.cls = .plan := (p2 _ h).1
          show meth.cls ≠ .guard
          rw [hc]; decide
      · exact hfw e h
    · exact ⟨e1, t1', hfw⟩

/-! ### what a replay leaves in `previousTransitions`

The list handed to `replayTransitions` / `replayEnter` is copied with the bounded `DynamicArrayT::emplace`:
only its first `historyCap = COMPO_COUNT × SUBSTITUTION_LIMIT` entries are kept. -/

theorem applyRequests_previous (m : Mach U) (ts : List Transition) :
    (m.applyRequests ts).1.w.previous = m.w.previous :=
  (applyRequests_rel m ts).previous

theorem replayTransitions_cfg (m : Mach U) (ts : List Transition) : (m.replayTransitions ts).1.w.cfg = m.w.cfg := by
  have h0 : ({ m with w := { m.w.clearTargets with previous := [] } } : Mach U).w.cfg = m.w.cfg :=
    World.clearTargets_cfg _
  unfold replayTransitions
  dsimp only
  split
  · exact h0
  · have hc := applyRequests_cfg ({ m with w := { m.w.clearTargets with previous := [] } } : Mach U) ts
    generalize Mach.applyRequests ({ m with w := { m.w.clearTargets with previous := [] } } : Mach U) ts = res at hc
    obtain ⟨m1, chg⟩ := res
    dsimp only at hc ⊢
    split
    · dsimp only
      rw [updActivity_w]
      exact (Node.commit_steps _ _ _ (Steps.refl _)).frame.cfg.trans (hc.trans h0)
    · exact hc.trans h0

/-- `replayTransitions ts`: answering `true` it leaves the first `historyCap` entries of `ts` in
`previousTransitions`, answering `false` it leaves them empty. -/
theorem replayTransitions_previous (m : Mach U) (ts : List Transition) :
    (m.replayTransitions ts).1.w.previous =
      if (m.replayTransitions ts).2 then ts.take m.w.cfg.historyCap else [] := by
  have h0 : ({ m with w := { m.w.clearTargets with previous := [] } } : Mach U).w.cfg = m.w.cfg :=
    World.clearTargets_cfg _
  unfold replayTransitions
  dsimp only
  split
  · rfl
  · have hc := applyRequests_cfg ({ m with w := { m.w.clearTargets with previous := [] } } : Mach U) ts
    have hp := applyRequests_previous ({ m with w := { m.w.clearTargets with previous := [] } } : Mach U) ts
    generalize Mach.applyRequests ({ m with w := { m.w.clearTargets with previous := [] } } : Mach U) ts = res at hc hp
    obtain ⟨m1, chg⟩ := res
    dsimp only at hc hp ⊢
    split
    · dsimp only
      rw [updActivity_w, if_pos rfl, ← h0, ← hc]
      exact (Node.commit_steps _ _ _ (Steps.refl _)).frame.previous
    · exact hp

theorem replayEnter_cfg (m : Mach U) (ts : List Transition) : (m.replayEnter ts).1.w.cfg = m.w.cfg := by
  unfold replayEnter
  dsimp only
  split
  · exact World.clearTargets_cfg _
  · have c0 : (m.root.request ⟨.change, none⟩ ((m.w.clearTargets.freshControl).snapshot m.root true false)).2.cfg = m.w.cfg :=
      (Node.request_steps m.root ⟨.change, none⟩ _ _ (Steps.refl _)).frame.cfg.trans (World.clearTargets_cfg _)
    generalize m.root.request ⟨.change, none⟩ ((m.w.clearTargets.freshControl).snapshot m.root true false) = r0 at c0
    obtain ⟨root1, w1⟩ := r0
    dsimp only at c0 ⊢
    have hc := applyRequests_cfg ({ m with root := root1, w := w1 } : Mach U) ts
    generalize Mach.applyRequests ({ m with root := root1, w := w1 } : Mach U) ts = res at hc
    obtain ⟨m1, chg⟩ := res
    dsimp only at hc ⊢
    split
    · dsimp only
      rw [updActivity_w]
      exact (Node.enter_steps _ _ _ (Steps.refl _)).frame.cfg.trans (hc.trans c0)
    · exact hc.trans c0

/-- `replayEnter ts`: answering `true` it leaves the first `historyCap` entries of `ts` in
`previousTransitions`, answering `false` it leaves `previousTransitions` as they were. -/
theorem replayEnter_previous (m : Mach U) (ts : List Transition) :
    (m.replayEnter ts).1.w.previous =
      if (m.replayEnter ts).2 then ts.take m.w.cfg.historyCap else m.w.previous := by
  have hct : m.w.clearTargets.previous = m.w.previous := by
    unfold World.clearTargets; split <;> rfl
  unfold replayEnter
  dsimp only
  split
  · exact hct
  · have s0 := (Node.request_steps m.root ⟨.change, none⟩
      ((m.w.clearTargets.freshControl).snapshot m.root true false) _ (Steps.refl _)).frame
    have c0 : (m.root.request ⟨.change, none⟩ ((m.w.clearTargets.freshControl).snapshot m.root true false)).2.cfg = m.w.cfg :=
      s0.cfg.trans (World.clearTargets_cfg _)
    have p0 : (m.root.request ⟨.change, none⟩ ((m.w.clearTargets.freshControl).snapshot m.root true false)).2.previous =
        m.w.previous := s0.previous.trans hct
    clear s0
    generalize m.root.request ⟨.change, none⟩ ((m.w.clearTargets.freshControl).snapshot m.root true false) = r0 at c0 p0
    obtain ⟨root1, w1⟩ := r0
    dsimp only at c0 p0 ⊢
    have hc := applyRequests_cfg ({ m with root := root1, w := w1 } : Mach U) ts
    have hp := applyRequests_previous ({ m with root := root1, w := w1 } : Mach U) ts
    generalize Mach.applyRequests ({ m with root := root1, w := w1 } : Mach U) ts = res at hc hp
    obtain ⟨m1, chg⟩ := res
    dsimp only at hc hp ⊢
    split
    · dsimp only
      rw [updActivity_w, if_pos rfl, ← c0, ← hc]
      exact (Node.enter_steps _ _ _ (Steps.refl _)).frame.previous
    · exact hp.trans p0

/-! ### what a replay leaves in `transitionTargets`

Both replays clear `transitionTargets` first; their apply phase pins entry `i` of the list only while
`i < historyCap` (`applyStep`, /repo fix 6770c20) and the lifecycle pass that follows pins nothing: every pin a replay
leaves addresses one of the entries it records in `previousTransitions`. -/

theorem replayTransitions_targets (m : Mach U) (ts : List Transition) (s : Nat) :
    (m.replayTransitions ts).1.w.targets.getD s none = m.w.clearTargets.targets.getD s none ∨
    ∃ i, i < m.w.cfg.historyCap ∧ i < ts.length ∧ (m.replayTransitions ts).1.w.targets.getD s none = some i := by
  have h0 : ({ m with w := { m.w.clearTargets with previous := [] } } : Mach U).w.cfg = m.w.cfg :=
    World.clearTargets_cfg _
  unfold replayTransitions
  dsimp only
  split
  · exact .inl rfl
  · have hr := applyRequests_rel ({ m with w := { m.w.clearTargets with previous := [] } } : Mach U) ts
    rw [h0] at hr
    have ht := hr.targets s
    clear hr
    generalize Mach.applyRequests ({ m with w := { m.w.clearTargets with previous := [] } } : Mach U) ts = res at ht
    obtain ⟨m1, chg⟩ := res
    dsimp only at ht ⊢
    have key : m1.w.targets.getD s none = m.w.clearTargets.targets.getD s none ∨
        ∃ i, i < m.w.cfg.historyCap ∧ i < ts.length ∧ m1.w.targets.getD s none = some i := by
      rcases ht with h | ⟨i, _, hi, h⟩
      · exact .inl h
      · exact .inr ⟨i, by omega, by omega, h⟩
    split
    · dsimp only
      rw [updActivity_w, (Node.commit_steps _ _ _ (Steps.refl _)).targets_of_no_pin (fun _ h => h)]
      exact key
    · exact key

theorem replayEnter_targets (m : Mach U) (ts : List Transition) (s : Nat) :
    (m.replayEnter ts).1.w.targets.getD s none = m.w.clearTargets.targets.getD s none ∨
    ∃ i, i < m.w.cfg.historyCap ∧ i < ts.length ∧ (m.replayEnter ts).1.w.targets.getD s none = some i := by
  unfold replayEnter
  dsimp only
  split
  · exact .inl rfl
  · have s0 := Node.request_steps m.root ⟨.change, none⟩
      ((m.w.clearTargets.freshControl).snapshot m.root true false) _ (Steps.refl _)
    have c0 : (m.root.request ⟨.change, none⟩ ((m.w.clearTargets.freshControl).snapshot m.root true false)).2.cfg = m.w.cfg :=
      s0.frame.cfg.trans (World.clearTargets_cfg _)
    have t0 : (m.root.request ⟨.change, none⟩ ((m.w.clearTargets.freshControl).snapshot m.root true false)).2.targets.getD s none =
        m.w.clearTargets.targets.getD s none := by
      rcases (s0.frame.applyRelNone (fwd_requests s0) 0).targets s with h | ⟨i, h1, h2, _⟩
      · exact h
      · omega
    clear s0
    generalize m.root.request ⟨.change, none⟩ ((m.w.clearTargets.freshControl).snapshot m.root true false) = r0 at c0 t0
    obtain ⟨root1, w1⟩ := r0
    dsimp only at c0 t0 ⊢
    have hr := applyRequests_rel ({ m with root := root1, w := w1 } : Mach U) ts
    have ht := hr.targets s
    clear hr
    generalize Mach.applyRequests ({ m with root := root1, w := w1 } : Mach U) ts = res at ht
    obtain ⟨m1, chg⟩ := res
    dsimp only at ht ⊢
    have key : m1.w.targets.getD s none = m.w.clearTargets.targets.getD s none ∨
        ∃ i, i < m.w.cfg.historyCap ∧ i < ts.length ∧ m1.w.targets.getD s none = some i := by
      rcases ht with h | ⟨i, _, hi, h⟩
      · exact .inl (h.trans t0)
      · rw [c0] at hi
        exact .inr ⟨i, by omega, by omega, h⟩
    split
    · dsimp only
      rw [updActivity_w, (Node.enter_steps _ _ _ (Steps.refl _)).targets_of_no_pin (fun _ h => h)]
      exact key
    · exact key

omit [UtilArith U] in
theorem clearTargets_getD (w : World U) (hh : w.cfg.history = true) (s : Nat) : w.clearTargets.targets.getD s none = none := by
  unfold World.clearTargets
  rw [if_pos hh]
  dsimp only
  rw [List.getD_eq_getElem?_getD, List.getElem?_replicate]
  split <;> rfl

end Mach
end Hfsm
