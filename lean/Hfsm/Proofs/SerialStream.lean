/-
Bridge between the list-of-bits image of `Model/Serial.lean` and the byte buffer of
`BitWriteStreamT` (Model/Stream.lean, theorems of Props/C18.lean): writing the `(width, value)` items
that `deepSaveActive` hands to `stream.write<width>(value)` with `Stream.writeAll` lays down exactly
the bits `Node.saveActive`, least significant bit of each item first, and leaves the rest zero.
-/
import Hfsm.Proofs.SerialTree
import Hfsm.Props.C18

namespace Hfsm
open Hfsm.Model.Bits Hfsm.Model.Stream Hfsm.Props.C18

/-- the `stream.write<1>(…) [write<WIDTH_BITS>(resumable)]` calls of a composite region -/
def resumableItems (wb : Nat) : Option Nat → List (Nat × Nat)
  | some ri => [(1, 1), (wb, ri)]
  | none => [(1, 0)]

mutual
/-- the `(NBitWidth, item)` arguments of the `write` calls of `deepSaveActive`, in order -/
def Node.saveItems : Node → List (Nat × Nat)
  | .leaf .. => []
  | .compo _ _ _ _ _ a r _ _ s =>
    (bitContain s.len, a.getD 255) :: (resumableItems (bitContain s.len) r ++ s.saveItemsAt a 0)
  | .ortho _ _ _ _ s => s.saveItemsAll
def Node.resItems : Node → List (Nat × Nat)
  | .leaf .. => []
  | .compo _ _ _ _ _ _ r _ _ s => resumableItems (bitContain s.len) r ++ s.resItemsAll
  | .ortho _ _ _ _ s => s.resItemsAll
def Subs.saveItemsAt : Subs → Option Nat → Nat → List (Nat × Nat)
  | .nil, _, _ => []
  | .cons _ n r, a, i => (if a = some i then n.saveItems else n.resItems) ++ r.saveItemsAt a (i+1)
def Subs.saveItemsAll : Subs → List (Nat × Nat)
  | .nil => []
  | .cons _ n r => n.saveItems ++ r.saveItemsAll
def Subs.resItemsAll : Subs → List (Nat × Nat)
  | .nil => []
  | .cons _ n r => n.resItems ++ r.resItemsAll
end

/-- the bits a sequence of `write` calls lays down, in stream order -/
def flatBits : List (Nat × Nat) → List Bool
  | [] => []
  | (w, v) :: xs => bitsOf w v ++ flatBits xs

theorem flatBits_append : (a b : List (Nat × Nat)) → flatBits (a ++ b) = flatBits a ++ flatBits b
  | [], _ => rfl
  | (w, v) :: a, b => by simp [flatBits, flatBits_append a b]

theorem flatBits_resumableItems (wb : Nat) (r : Option Nat) :
    flatBits (resumableItems wb r) = resumableBits wb r := by
  cases r <;> simp [resumableItems, flatBits, resumableBits, bitsOf]

mutual
theorem Node.saveActive_eq_items : (n : Node) → n.saveActive = flatBits n.saveItems
  | .leaf .. => rfl
  | .compo _ _ _ _ _ a r _ _ s => by
    simp only [Node.saveActive, Node.saveItems, flatBits, flatBits_append, flatBits_resumableItems, prongBits,
      List.append_assoc]
    rw [Subs.saveActiveAt_eq_items s a 0]
  | .ortho _ _ _ _ s => by
    simp only [Node.saveActive, Node.saveItems]; exact Subs.saveActiveAll_eq_items s
theorem Node.saveResumable_eq_items : (n : Node) → n.saveResumable = flatBits n.resItems
  | .leaf .. => rfl
  | .compo _ _ _ _ _ _ r _ _ s => by
    simp only [Node.saveResumable, Node.resItems, flatBits_append, flatBits_resumableItems]
    rw [Subs.saveResumableAll_eq_items s]
  | .ortho _ _ _ _ s => by
    simp only [Node.saveResumable, Node.resItems]; exact Subs.saveResumableAll_eq_items s
theorem Subs.saveActiveAt_eq_items : (s : Subs) → (a : Option Nat) → (i : Nat) →
    s.saveActiveAt a i = flatBits (s.saveItemsAt a i)
  | .nil, _, _ => rfl
  | .cons _ n r, a, i => by
    simp only [Subs.saveActiveAt, Subs.saveItemsAt, flatBits_append]
    rw [Subs.saveActiveAt_eq_items r a (i+1)]
    by_cases e : a = some i
    · simp only [e, if_true]; rw [Node.saveActive_eq_items n]
    · simp only [e, if_false]; rw [Node.saveResumable_eq_items n]
theorem Subs.saveActiveAll_eq_items : (s : Subs) → s.saveActiveAll = flatBits s.saveItemsAll
  | .nil => rfl
  | .cons _ n r => by
    simp only [Subs.saveActiveAll, Subs.saveItemsAll, flatBits_append]
    rw [Node.saveActive_eq_items n, Subs.saveActiveAll_eq_items r]
theorem Subs.saveResumableAll_eq_items : (s : Subs) → s.saveResumableAll = flatBits s.resItemsAll
  | .nil => rfl
  | .cons _ n r => by
    simp only [Subs.saveResumableAll, Subs.resItemsAll, flatBits_append]
    rw [Node.saveResumable_eq_items n, Subs.saveResumableAll_eq_items r]
end

/-- every `write` call is in contract: `width ≤ 32` and the value fits its width -/
def ItemsOK (xs : List (Nat × Nat)) : Prop := ∀ x ∈ xs, x.1 ≤ 32 ∧ x.2 < 2 ^ x.1

theorem ItemsOK.append {a b : List (Nat × Nat)} (ha : ItemsOK a) (hb : ItemsOK b) : ItemsOK (a ++ b) := by
  intro x hx
  rcases List.mem_append.mp hx with h | h
  · exact ha x h
  · exact hb x h

theorem ItemsOK.nil : ItemsOK [] := by intro x hx; cases hx

theorem itemsOK_resumable (w : Nat) (r : Option Nat) (hw : w ≤ 256) (hr : ∀ ri, r = some ri → ri < w) :
    ItemsOK (resumableItems (bitContain w) r) := by
  have h8 := bitContain_le_8 w
  cases r with
  | none => intro x hx; simp [resumableItems] at hx; subst hx; simp
  | some ri =>
    intro x hx
    simp only [resumableItems, List.mem_cons, List.not_mem_nil, or_false] at hx
    rcases hx with h | h
    · subst h; simp
    · subst h; exact ⟨by simp only; omega, lt_two_pow_bitContain w ri hw (hr ri rfl)⟩

mutual
theorem Node.resItems_ok : (n : Node) → n.ResumableOK → n.WidthOK → ItemsOK n.resItems
  | .leaf .., _, _ => ItemsOK.nil
  | .compo _ _ _ _ _ _ r _ _ s, hr, hw => by
    simp only [Node.ResumableOK] at hr
    simp only [Node.WidthOK] at hw
    simp only [Node.resItems]
    exact (itemsOK_resumable s.len r hw.1 (fun ri e => by subst e; exact hr.1)).append
      (Subs.resItemsAll_ok s hr.2 hw.2)
  | .ortho _ _ _ _ s, hr, hw => by
    simp only [Node.ResumableOK] at hr
    simp only [Node.WidthOK] at hw
    simp only [Node.resItems]
    exact Subs.resItemsAll_ok s hr hw
theorem Subs.resItemsAll_ok : (s : Subs) → s.ResumableOKAll → s.WidthOKAll → ItemsOK s.resItemsAll
  | .nil, _, _ => ItemsOK.nil
  | .cons _ n r, hr, hw => by
    simp only [Subs.ResumableOKAll] at hr
    simp only [Subs.WidthOKAll] at hw
    simp only [Subs.resItemsAll]
    exact (Node.resItems_ok n hr.1 hw.1).append (Subs.resItemsAll_ok r hr.2 hw.2)
end

theorem Subs.saveItemsAt_passed_ok : (s : Subs) → (q i : Nat) → q < i → s.ResumableOKAll → s.WidthOKAll →
    ItemsOK (s.saveItemsAt (some q) i)
  | .nil, _, _, _, _, _ => ItemsOK.nil
  | .cons _ n r, q, i, hq, hr, hw => by
    simp only [Subs.ResumableOKAll] at hr
    simp only [Subs.WidthOKAll] at hw
    have hne : ¬ (some q = some i) := by simp; omega
    simp only [Subs.saveItemsAt, hne, if_false]
    exact (Node.resItems_ok n hr.1 hw.1).append (Subs.saveItemsAt_passed_ok r q (i+1) (by omega) hr.2 hw.2)

mutual
theorem Node.saveItems_ok : (n : Node) → n.Act → n.ResumableOK → n.WidthOK → ItemsOK n.saveItems
  | .leaf .., _, _, _ => ItemsOK.nil
  | .compo _ _ _ _ _ a r _ _ s, ha, hr, hw => by
    simp only [Node.ResumableOK] at hr
    simp only [Node.WidthOK] at hw
    cases a with
    | none => simp [Node.Act] at ha
    | some ai =>
      simp only [Node.Act] at ha
      have hai := Subs.ActAt_lt s ai ha
      have h8 := bitContain_le_8 s.len
      have hsub := Subs.saveItemsAt_ok s ai 0 ha hr.2 hw.2
      rw [Nat.zero_add] at hsub
      simp only [Node.saveItems, Option.getD_some]
      have h1 : ItemsOK [(bitContain s.len, ai)] := by
        intro x hx
        simp only [List.mem_cons, List.not_mem_nil, or_false] at hx
        subst hx
        exact ⟨by simp only; omega, lt_two_pow_bitContain s.len ai hw.1 hai⟩
      exact h1.append ((itemsOK_resumable s.len r hw.1 (fun ri e => by subst e; exact hr.1)).append hsub)
  | .ortho _ _ _ _ s, ha, hr, hw => by
    simp only [Node.ResumableOK] at hr
    simp only [Node.WidthOK] at hw
    simp only [Node.Act] at ha
    simp only [Node.saveItems]
    exact Subs.saveItemsAll_ok s ha hr hw
theorem Subs.saveItemsAt_ok : (s : Subs) → (k i : Nat) → s.ActAt k → s.ResumableOKAll → s.WidthOKAll →
    ItemsOK (s.saveItemsAt (some (i + k)) i)
  | .nil, _, _, ha, _, _ => by simp [Subs.ActAt] at ha
  | .cons _ n r, 0, i, ha, hr, hw => by
    simp only [Subs.ResumableOKAll] at hr
    simp only [Subs.WidthOKAll] at hw
    simp only [Subs.ActAt] at ha
    simp only [Subs.saveItemsAt, Nat.add_zero, if_true]
    exact (Node.saveItems_ok n ha.1 hr.1 hw.1).append
      (Subs.saveItemsAt_passed_ok r i (i+1) (by omega) hr.2 hw.2)
  | .cons _ n r, k+1, i, ha, hr, hw => by
    simp only [Subs.ResumableOKAll] at hr
    simp only [Subs.WidthOKAll] at hw
    simp only [Subs.ActAt] at ha
    have hne : ¬ (some (i + (k + 1)) = some i) := by simp
    simp only [Subs.saveItemsAt, hne, if_false]
    have ih := Subs.saveItemsAt_ok r k (i+1) ha.2 hr.2 hw.2
    have e : i + 1 + k = i + (k + 1) := by omega
    rw [e] at ih
    exact (Node.resItems_ok n hr.1 hw.1).append ih
theorem Subs.saveItemsAll_ok : (s : Subs) → s.ActAll → s.ResumableOKAll → s.WidthOKAll → ItemsOK s.saveItemsAll
  | .nil, _, _, _ => ItemsOK.nil
  | .cons _ n r, ha, hr, hw => by
    simp only [Subs.ResumableOKAll] at hr
    simp only [Subs.WidthOKAll] at hw
    simp only [Subs.ActAll] at ha
    simp only [Subs.saveItemsAll]
    exact (Node.saveItems_ok n ha.1 hr.1 hw.1).append (Subs.saveItemsAll_ok r ha.2 hr.2 hw.2)
end

/-- **Bridge.**  On a buffer whose bits from the cursor on are zero, `writeAll` of in-contract items that
fit lays down `flatBits` from the cursor on, keeps what is before the cursor, leaves the rest zero and
advances the cursor by the number of bits. -/
theorem writeAll_flatBits : ∀ (xs : List (Nat × Nat)) (buf : Storage) (c : Nat),
    ItemsOK xs → c + (flatBits xs).length ≤ 8 * buf.length → (∀ i, c ≤ i → bitAt buf i = false) →
    (writeAll xs buf c).2 = c + (flatBits xs).length ∧
    (writeAll xs buf c).1.length = buf.length ∧
    (∀ j, j < (flatBits xs).length → (flatBits xs)[j]? = some (bitAt (writeAll xs buf c).1 (c + j))) ∧
    (∀ i, i < c → bitAt (writeAll xs buf c).1 i = bitAt buf i) ∧
    (∀ i, c + (flatBits xs).length ≤ i → bitAt (writeAll xs buf c).1 i = false)
  | [], buf, c, _, _, hz => by
    refine ⟨by simp [writeAll, flatBits], rfl, ?_, fun _ _ => rfl, ?_⟩
    · intro j h; simp [flatBits] at h
    · intro i hi; exact hz i (by simp [flatBits] at hi; omega)
  | (w, v) :: xs, buf, c, hok, hfit, hz => by
    have hx := hok (w, v) (by simp)
    have hok' : ItemsOK xs := fun x hx => hok x (by simp [hx])
    have hlen : (flatBits ((w, v) :: xs)).length = w + (flatBits xs).length := by
      simp [flatBits, bitsOf_length]
    rw [hlen] at hfit
    obtain ⟨hb1, hb2, hb3⟩ := write_bit_order w v buf c hx.1 hx.2 (by omega) hz
    have ih := writeAll_flatBits xs (write w v buf c).buf (write w v buf c).cursor hok'
      (by rw [write_cursor, write_length]; omega)
      (by intro i hi; rw [write_cursor] at hi; exact hb3 i hi)
    rw [write_cursor, write_length] at ih
    obtain ⟨i1, i2, i3, i4, i5⟩ := ih
    have hwa : writeAll ((w, v) :: xs) buf c = writeAll xs (write w v buf c).buf (c + w) := by
      simp only [writeAll]; rw [write_cursor]
    rw [hwa, hlen]
    refine ⟨by omega, i2, ?_, ?_, ?_⟩
    · intro j h
      simp only [flatBits]
      by_cases hj : j < w
      · rw [List.getElem?_append_left (by rw [bitsOf_length]; exact hj),
          List.getElem?_eq_getElem (by rw [bitsOf_length]; exact hj), bitsOf_getElem]
        rw [i4 (c + j) (by omega), hb1 j hj]
      · rw [List.getElem?_append_right (by rw [bitsOf_length]; omega), bitsOf_length]
        have := i3 (j - w) (by omega)
        have e : c + w + (j - w) = c + j := by omega
        rw [e] at this
        exact this
    · intro i hi
      rw [i4 i (by omega)]
      exact hb2 i hi
    · intro i hi
      exact i5 i (by omega)

end Hfsm
