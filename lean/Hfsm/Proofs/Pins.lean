/-
C09, `lastTransitionTo` after a single request: on a `Plain` machine the forward pass of one request pins
its queue index on every state below the fork it re-targets — a superset of the states the commit pass
then enters.  (Not so for sub-states chosen by utility / rank: `deepReport*` never pins; see Props/C09.)
-/
import Hfsm.Proofs.Replay
import Hfsm.Proofs.CoverageMach
import Hfsm.Proofs.Wf

set_option linter.unusedSectionVars false

namespace Hfsm
variable {U : Type} [UtilArith U]

/-! ### static sets -/

mutual
/-- all states (headed or not) along the `requested` prongs below `n` -/
def Node.reqAll : Node → List Nat
  | .leaf id _ => [id]
  | .compo id _ _ _ _ _ _ q _ s => match q with
    | none => []
    | some qi => id :: s.reqAllAt qi
  | .ortho id _ _ _ s => id :: s.reqAllAll
def Subs.reqAllAt : Subs → Nat → List Nat
  | .nil, _ => []
  | .cons _ n _, 0 => n.reqAll
  | .cons _ _ r, i+1 => r.reqAllAt i
def Subs.reqAllAll : Subs → List Nat
  | .nil => []
  | .cons _ n r => n.reqAll ++ r.reqAllAll
end

mutual
/-- the states below the requested prong of the first marked fork on every active path: everything the
commit pass enters or re-enters is among them -/
def Node.touched : Node → List Nat
  | .leaf .. => []
  | .compo _ _ _ _ _ a _ q _ s => match a with
    | none => []
    | some ai => match q with
      | none => s.touchedAt ai
      | some qi => s.reqAllAt qi
  | .ortho _ _ _ _ s => s.touchedAll
def Subs.touchedAt : Subs → Nat → List Nat
  | .nil, _ => []
  | .cons _ n _, 0 => n.touched
  | .cons _ _ r, i+1 => r.touchedAt i
def Subs.touchedAll : Subs → List Nat
  | .nil => []
  | .cons _ n r => n.touched ++ r.touchedAll
end

mutual
theorem Node.reqIds_sub_reqAll : (n : Node) → ∀ i ∈ n.reqIds, i ∈ n.reqAll
  | .leaf id inj => by simp only [Node.reqIds, Node.reqAll]; exact fun _ h => h
  | .compo id rid inj h st a r q m s => by
    cases q with
    | none => simp only [Node.reqIds]; exact fun _ h => nomatch h
    | some qi =>
      simp only [Node.reqIds, Node.reqAll]
      intro i hi
      rcases List.mem_append.mp hi with h1 | h1
      · split at h1
        · rw [List.mem_singleton.mp h1]; exact List.mem_cons_self
        · cases h1
      · exact List.mem_cons_of_mem _ (Subs.reqIdsAt_sub_reqAllAt s qi i h1)
  | .ortho id rid inj h s => by
    simp only [Node.reqIds, Node.reqAll]
    intro i hi
    rcases List.mem_append.mp hi with h1 | h1
    · split at h1
      · rw [List.mem_singleton.mp h1]; exact List.mem_cons_self
      · cases h1
    · exact List.mem_cons_of_mem _ (Subs.reqIdsAll_sub_reqAllAll s i h1)
theorem Subs.reqIdsAt_sub_reqAllAt : (s : Subs) → (k : Nat) → ∀ i ∈ s.reqIdsAt k, i ∈ s.reqAllAt k
  | .nil, _ => by simp only [Subs.reqIdsAt]; exact fun _ h => nomatch h
  | .cons _ n _, 0 => by simp only [Subs.reqIdsAt, Subs.reqAllAt]; exact Node.reqIds_sub_reqAll n
  | .cons _ _ r, k+1 => by simp only [Subs.reqIdsAt, Subs.reqAllAt]; exact Subs.reqIdsAt_sub_reqAllAt r k
theorem Subs.reqIdsAll_sub_reqAllAll : (s : Subs) → ∀ i ∈ s.reqIdsAll, i ∈ s.reqAllAll
  | .nil => by simp only [Subs.reqIdsAll]; exact fun _ h => nomatch h
  | .cons _ n r => by
    simp only [Subs.reqIdsAll, Subs.reqAllAll]
    intro i hi
    rcases List.mem_append.mp hi with h | h
    · exact List.mem_append_left _ (Node.reqIds_sub_reqAll n i h)
    · exact List.mem_append_right _ (Subs.reqIdsAll_sub_reqAllAll r i h)
end

mutual
/-- the states the commit pass enters or re-enters are `touched` -/
theorem Node.commit_enters_touched : (n : Node) →
    ∀ p ∈ n.commitActs, (p.2 = .enter ∨ p.2 = .reenter) → p.1 ∈ n.touched
  | .leaf id inj => by simp only [Node.commitActs]; exact fun _ h => nomatch h
  | .compo id rid inj h st a r q m s => by
    cases a with
    | none => simp only [Node.commitActs]; exact fun _ h => nomatch h
    | some ai =>
      cases q with
      | none => simp only [Node.commitActs, Node.touched]; exact Subs.commitAt_enters_touched s ai
      | some qi =>
        simp only [Node.commitActs, Node.touched]
        have hen : ∀ (k : Nat), ∀ p ∈ exits (s.actIdsAt ai) ++ enters (s.reqIdsAt k),
            (p.2 = .enter ∨ p.2 = .reenter) → p.1 ∈ s.reqAllAt k := by
          intro k p hp hm
          rcases List.mem_append.mp hp with h1 | h1
          · obtain ⟨i, _, rfl⟩ := List.mem_map.mp h1; rcases hm with e | e <;> cases e
          · obtain ⟨i, hi, rfl⟩ := List.mem_map.mp h1; exact Subs.reqIdsAt_sub_reqAllAt s k i hi
        split
        · exact hen qi
        · next hne =>
          have heq : qi = ai := by simpa using hne
          subst heq
          split
          · exact hen qi
          · intro p hp hm
            exact Subs.reqIdsAt_sub_reqAllAt s qi _ ((Subs.reenterActsAt_covered s qi p hp).2.1 hm)
  | .ortho id rid inj h s => by
    simp only [Node.commitActs, Node.touched]; exact Subs.commitAll_enters_touched s
theorem Subs.commitAt_enters_touched : (s : Subs) → (k : Nat) →
    ∀ p ∈ s.commitActsAt k, (p.2 = .enter ∨ p.2 = .reenter) → p.1 ∈ s.touchedAt k
  | .nil, _ => by simp only [Subs.commitActsAt]; exact fun _ h => nomatch h
  | .cons _ n _, 0 => by simp only [Subs.commitActsAt, Subs.touchedAt]; exact Node.commit_enters_touched n
  | .cons _ _ r, k+1 => by simp only [Subs.commitActsAt, Subs.touchedAt]; exact Subs.commitAt_enters_touched r k
theorem Subs.commitAll_enters_touched : (s : Subs) →
    ∀ p ∈ s.commitActsAll, (p.2 = .enter ∨ p.2 = .reenter) → p.1 ∈ s.touchedAll
  | .nil => by simp only [Subs.commitActsAll]; exact fun _ h => nomatch h
  | .cons _ n r => by
    simp only [Subs.commitActsAll, Subs.touchedAll]
    intro p hp hm
    rcases List.mem_append.mp hp with h | h
    · exact List.mem_append_left _ (Node.commit_enters_touched n p h hm)
    · exact List.mem_append_right _ (Subs.commitAll_enters_touched r p h hm)
end

/-! ### pinning -/

/-- state `id` carries queue index `i` in `transitionTargets`, or was active when the pass started (`pin`
leaves active states alone) -/
def Pinned (i : Nat) (w : World U) (id : Nat) : Prop :=
  w.isActiveSnap id = true ∨ w.targets.getD id none = some i

/-- the history feature is on and `transitionTargets` has a slot for every state id below `N` -/
def Ready (N : Nat) (w : World U) : Prop := w.cfg.history = true ∧ N ≤ w.targets.length

theorem Ready.steps {N : Nat} {allow : Perm} {w w' : World U} (h : Steps allow w w') (r : Ready N w) : Ready N w' := by
  have f := h.frame
  exact ⟨by rw [f.cfg]; exact r.1, by rw [f.targetsLen]; exact r.2⟩

theorem Pinned.steps {i : Nat} {w w' : World U} (h : Steps (allowFwd (some i)) w w') {id : Nat} (p : Pinned i w id) :
    Pinned i w' id := by
  have f := h.frame
  rcases p with p | p
  · left; unfold World.isActiveSnap at p ⊢; rw [f.activeSnap]; exact p
  · rcases f.targets id with h1 | ⟨j, hj, h1⟩
    · right; rw [h1]; exact p
    · right
      have : some j = some i := hj
      rw [h1, this]

theorem World.pin_pinned {N : Nat} (w : World U) (r : Ready N w) (id i : Nat) (hid : id < N) :
    Pinned i (w.pin id (some i)) id := by
  unfold World.pin
  dsimp only
  by_cases ha : w.isActiveSnap id = true
  · left
    simp only [ha, Bool.not_true, Bool.and_false, Bool.false_eq_true, if_false]
  · right
    have ha' : w.isActiveSnap id = false := by simpa using ha
    simp only [r.1, ha', Bool.not_false, Bool.and_true, if_true]
    rw [List.getD_eq_getElem?_getD, List.getElem?_set_self (by have := r.2; omega)]
    rfl

mutual
/-- every state id below `n` is smaller than `N` -/
def Node.IdsBelow (N : Nat) : Node → Prop
  | .leaf id _ => id < N
  | .compo id _ _ _ _ _ _ _ _ s => id < N ∧ s.IdsBelowAll N
  | .ortho id _ _ _ s => id < N ∧ s.IdsBelowAll N
def Subs.IdsBelowAll (N : Nat) : Subs → Prop
  | .nil => True
  | .cons _ n r => n.IdsBelow N ∧ r.IdsBelowAll N
end

variable (i N : Nat)

mutual
theorem Node.request_pins : (n : Node) → n.Plain = true → n.IdsBelow N → (rq : Req) → rq.index = some i →
    rq.kind.plain = true → rq.kind ≠ .schedule → (w : World U) → Ready N w →
    ∀ id ∈ (n.request rq w).1.reqAll, Pinned i (n.request rq w).2 id
  | .leaf id inj, _, hb, rq, hi, _, _, w, r => by
    simp only [Node.request, Node.reqAll, hi]
    intro id' h
    rw [List.mem_singleton.mp h]
    exact World.pin_pinned w r id i hb
  | .ortho id rid inj h s, hp, hb, rq, hi, hk, hn, w, r => by
    simp only [Node.Plain] at hp
    simp only [Node.request, Node.reqAll]
    have r1 : Ready N (w.pin id rq.index) := Ready.steps ((Steps.refl w).pin (allow := allowFwd rq.index) id _ rfl) r
    intro id' h'
    rcases List.mem_cons.mp h' with h1 | h1
    · rw [h1]
      refine Pinned.steps (hi ▸ Subs.requestAll_steps s rq _ _ (Steps.refl _)) ?_
      rw [hi]; exact World.pin_pinned w r id i hb.1
    · exact Subs.requestAll_pins s hp hb.2 rq hi hk hn _ r1 id' h1
  | .compo id rid inj h st a rr q m s, hp, hb, rq, hi, hk, hn, w, r => by
    simp only [Node.Plain, Bool.and_eq_true] at hp
    simp only [Node.request]
    have r1 : Ready N (w.pin id rq.index) := Ready.steps ((Steps.refl w).pin (allow := allowFwd rq.index) id _ rfl) r
    have key : ∀ k, ∀ id' ∈ (Node.compo id rid inj h st a rr (some k) m (s.requestAt k rq (w.pin id rq.index)).1).reqAll,
        Pinned i (s.requestAt k rq (w.pin id rq.index)).2 id' := by
      intro k id' h'
      simp only [Node.reqAll] at h'
      rcases List.mem_cons.mp h' with h1 | h1
      · rw [h1]
        refine Pinned.steps (hi ▸ Subs.requestAt_steps s k rq _ _ (Steps.refl _)) ?_
        rw [hi]; exact World.pin_pinned w r id i hb.1
      · exact Subs.requestAt_pins s hp.2 hb.2 k rq hi hk hn _ r1 id' h1
    rcases effectiveKind_plain hp.1 hk hn with he | he
    · simp only [he]; exact key 0
    · simp only [he]; exact key (rr.getD 0)
theorem Subs.requestAt_pins : (s : Subs) → s.PlainAll = true → s.IdsBelowAll N → (k : Nat) → (rq : Req) →
    rq.index = some i → rq.kind.plain = true → rq.kind ≠ .schedule → (w : World U) → Ready N w →
    ∀ id ∈ (s.requestAt k rq w).1.reqAllAt k, Pinned i (s.requestAt k rq w).2 id
  | .nil, _, _, _, rq, _, _, _, w, _ => by simp only [Subs.requestAt, Subs.reqAllAt]; exact fun _ h => nomatch h
  | .cons b n r, hp, hb, 0, rq, hi, hk, hn, w, rd => by
    simp only [Subs.PlainAll, Bool.and_eq_true] at hp
    simp only [Subs.requestAt, Subs.reqAllAt]
    exact Node.request_pins n hp.1 hb.1 rq hi hk hn w rd
  | .cons b n r, hp, hb, k+1, rq, hi, hk, hn, w, rd => by
    simp only [Subs.PlainAll, Bool.and_eq_true] at hp
    simp only [Subs.requestAt, Subs.reqAllAt]
    exact Subs.requestAt_pins r hp.2 hb.2 k rq hi hk hn w rd
theorem Subs.requestAll_pins : (s : Subs) → s.PlainAll = true → s.IdsBelowAll N → (rq : Req) →
    rq.index = some i → rq.kind.plain = true → rq.kind ≠ .schedule → (w : World U) → Ready N w →
    ∀ id ∈ (s.requestAll rq w).1.reqAllAll, Pinned i (s.requestAll rq w).2 id
  | .nil, _, _, rq, _, _, _, w, _ => by simp only [Subs.requestAll, Subs.reqAllAll]; exact fun _ h => nomatch h
  | .cons b n r, hp, hb, rq, hi, hk, hn, w, rd => by
    simp only [Subs.PlainAll, Bool.and_eq_true] at hp
    simp only [Subs.requestAll, Subs.reqAllAll]
    have s1 := Node.request_steps n rq w w (Steps.refl _)
    intro id' h'
    rcases List.mem_append.mp h' with h1 | h1
    · exact Pinned.steps (hi ▸ Subs.requestAll_steps r rq _ _ (Steps.refl _)) (Node.request_pins n hp.1 hb.1 rq hi hk hn w rd id' h1)
    · exact Subs.requestAll_pins r hp.2 hb.2 rq hi hk hn _ (Ready.steps s1 rd) id' h1
end

mutual
theorem Node.fwdRequest_pins : (n : Node) → n.Plain = true → n.IdsBelow N → (rq : Req) → rq.index = some i →
    rq.kind.plain = true → rq.kind ≠ .schedule → (w : World U) → Ready N w →
    ∀ id ∈ (n.fwdRequest rq w).1.reqAll, Pinned i (n.fwdRequest rq w).2 id
  | .leaf id inj, _, hb, rq, hi, _, _, w, r => by
    simp only [Node.fwdRequest, Node.reqAll, hi]
    intro id' h
    rw [List.mem_singleton.mp h]
    exact World.pin_pinned w r id i hb
  | .compo id rid inj h st a rr q m s, hp, hb, rq, hi, hk, hn, w, r => by
    have r1 : Ready N (w.pin id rq.index) := Ready.steps ((Steps.refl w).pin (allow := allowFwd rq.index) id _ rfl) r
    cases q with
    | some qi =>
      simp only [Node.Plain, Bool.and_eq_true] at hp
      simp only [Node.fwdRequest, Node.reqAll]
      intro id' h'
      rcases List.mem_cons.mp h' with h1 | h1
      · rw [h1]
        refine Pinned.steps (hi ▸ Subs.fwdRequestAt_steps s qi rq _ _ (Steps.refl _)) ?_
        rw [hi]; exact World.pin_pinned w r id i hb.1
      · exact Subs.fwdRequestAt_pins s hp.2 hb.2 qi rq hi hk hn _ r1 id' h1
    | none =>
      simp only [Node.fwdRequest]
      exact Node.request_pins i N _ hp hb rq hi hk hn _ r1
  | .ortho id rid inj h s, hp, hb, rq, hi, hk, hn, w, r => by
    have r1 : Ready N (w.pin id rq.index) := Ready.steps ((Steps.refl w).pin (allow := allowFwd rq.index) id _ rfl) r
    simp only [Node.fwdRequest]
    split
    · simp only [Node.Plain] at hp
      simp only [Node.reqAll]
      intro id' h'
      rcases List.mem_cons.mp h' with h1 | h1
      · rw [h1]
        refine Pinned.steps (hi ▸ Subs.fwdRequestAll_steps s rq _ _ (Steps.refl _)) ?_
        rw [hi]; exact World.pin_pinned w r id i hb.1
      · exact Subs.fwdRequestAll_pins s hp hb.2 rq hi hk hn _ r1 id' h1
    · exact Node.request_pins i N _ hp hb rq hi hk hn _ r1
theorem Subs.fwdRequestAt_pins : (s : Subs) → s.PlainAll = true → s.IdsBelowAll N → (k : Nat) → (rq : Req) →
    rq.index = some i → rq.kind.plain = true → rq.kind ≠ .schedule → (w : World U) → Ready N w →
    ∀ id ∈ (s.fwdRequestAt k rq w).1.reqAllAt k, Pinned i (s.fwdRequestAt k rq w).2 id
  | .nil, _, _, _, rq, _, _, _, w, _ => by simp only [Subs.fwdRequestAt, Subs.reqAllAt]; exact fun _ h => nomatch h
  | .cons b n r, hp, hb, 0, rq, hi, hk, hn, w, rd => by
    simp only [Subs.PlainAll, Bool.and_eq_true] at hp
    simp only [Subs.fwdRequestAt, Subs.reqAllAt]
    exact Node.fwdRequest_pins n hp.1 hb.1 rq hi hk hn w rd
  | .cons b n r, hp, hb, k+1, rq, hi, hk, hn, w, rd => by
    simp only [Subs.PlainAll, Bool.and_eq_true] at hp
    simp only [Subs.fwdRequestAt, Subs.reqAllAt]
    exact Subs.fwdRequestAt_pins r hp.2 hb.2 k rq hi hk hn w rd
theorem Subs.fwdRequestAll_pins : (s : Subs) → s.PlainAll = true → s.IdsBelowAll N → (rq : Req) →
    rq.index = some i → rq.kind.plain = true → rq.kind ≠ .schedule → (w : World U) → Ready N w →
    ∀ id ∈ (s.fwdRequestAll rq w).1.reqAllAll, Pinned i (s.fwdRequestAll rq w).2 id
  | .nil, _, _, rq, _, _, _, w, _ => by simp only [Subs.fwdRequestAll, Subs.reqAllAll]; exact fun _ h => nomatch h
  | .cons b n r, hp, hb, rq, hi, hk, hn, w, rd => by
    simp only [Subs.PlainAll, Bool.and_eq_true] at hp
    simp only [Subs.fwdRequestAll, Subs.reqAllAll]
    have s1 := Node.fwdRequest_steps n rq w w (Steps.refl _)
    intro id' h'
    rcases List.mem_append.mp h' with h1 | h1
    · exact Pinned.steps (hi ▸ Subs.fwdRequestAll_steps r rq _ _ (Steps.refl _)) (Node.fwdRequest_pins n hp.1 hb.1 rq hi hk hn w rd id' h1)
    · exact Subs.fwdRequestAll_pins r hp.2 hb.2 rq hi hk hn _ (Ready.steps s1 rd) id' h1
end

/-! ### the forward walk from the root -/

mutual
/-- in every orthogonal region the sub-states without a request bit carry no marks -/
def Node.Tidy : Node → Prop
  | .leaf .. => True
  | .compo _ _ _ _ _ _ _ _ _ s => s.TidyAll
  | .ortho _ _ _ _ s => s.TidyBits
def Subs.TidyAll : Subs → Prop
  | .nil => True
  | .cons _ n r => n.Tidy ∧ r.TidyAll
def Subs.TidyBits : Subs → Prop
  | .nil => True
  | .cons b n r => (if b then n.Tidy else n.NoMarks) ∧ r.TidyBits
end

mutual
theorem Node.NoMarks_touched : (n : Node) → n.NoMarks → n.touched = []
  | .leaf .., _ => rfl
  | .compo id rid inj h st a r q m s, hn => by
    simp only [Node.NoMarks] at hn
    obtain ⟨hq, _, hs⟩ := hn
    subst hq
    cases a with
    | none => rfl
    | some ai => simp only [Node.touched]; exact Subs.NoMarks_touchedAt s hs ai
  | .ortho id rid inj h s, hn => by
    simp only [Node.NoMarks] at hn
    simp only [Node.touched]; exact Subs.NoMarks_touchedAll s hn
theorem Subs.NoMarks_touchedAt : (s : Subs) → s.NoMarksAll → (k : Nat) → s.touchedAt k = []
  | .nil, _, _ => rfl
  | .cons b n r, hn, 0 => by simp only [Subs.NoMarksAll] at hn; simp only [Subs.touchedAt]; exact Node.NoMarks_touched n hn.2.1
  | .cons b n r, hn, k+1 => by simp only [Subs.NoMarksAll] at hn; simp only [Subs.touchedAt]; exact Subs.NoMarks_touchedAt r hn.2.2 k
theorem Subs.NoMarks_touchedAll : (s : Subs) → s.NoMarksAll → s.touchedAll = []
  | .nil, _ => rfl
  | .cons b n r, hn => by
    simp only [Subs.NoMarksAll] at hn
    simp only [Subs.touchedAll, Node.NoMarks_touched n hn.2.1, Subs.NoMarks_touchedAll r hn.2.2, List.append_nil]
end

mutual
theorem Node.NoMarks_Tidy : (n : Node) → n.NoMarks → n.Tidy
  | .leaf .., _ => trivial
  | .compo id rid inj h st a r q m s, hn => by
    simp only [Node.NoMarks] at hn; simp only [Node.Tidy]; exact Subs.NoMarks_TidyAll s hn.2.2
  | .ortho id rid inj h s, hn => by
    simp only [Node.NoMarks] at hn; simp only [Node.Tidy]; exact Subs.NoMarks_TidyBits s hn
theorem Subs.NoMarks_TidyAll : (s : Subs) → s.NoMarksAll → s.TidyAll
  | .nil, _ => trivial
  | .cons b n r, hn => by
    simp only [Subs.NoMarksAll] at hn
    exact ⟨Node.NoMarks_Tidy n hn.2.1, Subs.NoMarks_TidyAll r hn.2.2⟩
theorem Subs.NoMarks_TidyBits : (s : Subs) → s.NoMarksAll → s.TidyBits
  | .nil, _ => trivial
  | .cons b n r, hn => by
    simp only [Subs.NoMarksAll] at hn
    simp only [Subs.TidyBits, hn.1, Bool.false_eq_true, if_false]
    exact ⟨hn.2.1, Subs.NoMarks_TidyBits r hn.2.2⟩
end

mutual
/-- `requestImmediate` from an unmarked tree yields a tidy one -/
theorem Node.mark_Tidy : (n : Node) → n.NoMarks → (p : List Nat) → (n.mark p).1.Tidy
  | .leaf id inj, _, [] => by simp only [Node.mark]; trivial
  | .leaf id inj, _, _ :: _ => by simp only [Node.mark]; trivial
  | .compo id rid inj h st a r q m s, hn, [] => by simp only [Node.mark]; exact Node.NoMarks_Tidy _ hn
  | .ortho id rid inj h s, hn, [] => by simp only [Node.mark]; exact Node.NoMarks_Tidy _ hn
  | .compo id rid inj h st a r q m s, hn, k :: rest => by
    simp only [Node.NoMarks] at hn
    simp only [Node.mark]
    have ih := Subs.markAt_TidyAll s hn.2.2 k rest
    split <;> (try split) <;> simp only [Node.Tidy] <;> exact ih
  | .ortho id rid inj h s, hn, k :: rest => by
    simp only [Node.NoMarks] at hn
    simp only [Node.mark, Node.Tidy]
    exact Subs.markAt_TidyBits s hn k rest
theorem Subs.markAt_TidyAll : (s : Subs) → s.NoMarksAll → (k : Nat) → (p : List Nat) → (s.markAt k p).1.TidyAll
  | .nil, _, _, _ => by simp only [Subs.markAt]; trivial
  | .cons b n r, hn, 0, p => by
    simp only [Subs.NoMarksAll] at hn
    simp only [Subs.markAt, Subs.TidyAll]
    exact ⟨Node.mark_Tidy n hn.2.1 p, Subs.NoMarks_TidyAll r hn.2.2⟩
  | .cons b n r, hn, k+1, p => by
    simp only [Subs.NoMarksAll] at hn
    simp only [Subs.markAt, Subs.TidyAll]
    exact ⟨Node.NoMarks_Tidy n hn.2.1, Subs.markAt_TidyAll r hn.2.2 k p⟩
theorem Subs.markAt_TidyBits : (s : Subs) → s.NoMarksAll → (k : Nat) → (p : List Nat) →
    ((s.markAt k p).1.setBit k).TidyBits
  | .nil, _, _, _ => by simp only [Subs.markAt, Subs.setBit]; trivial
  | .cons b n r, hn, 0, p => by
    simp only [Subs.NoMarksAll] at hn
    simp only [Subs.markAt, Subs.setBit, Subs.TidyBits, if_true]
    exact ⟨Node.mark_Tidy n hn.2.1 p, Subs.NoMarks_TidyBits r hn.2.2⟩
  | .cons b n r, hn, k+1, p => by
    simp only [Subs.NoMarksAll] at hn
    simp only [Subs.markAt, Subs.setBit, Subs.TidyBits, hn.1, Bool.false_eq_true, if_false]
    exact ⟨hn.2.1, Subs.markAt_TidyBits r hn.2.2 k p⟩
end

mutual
theorem Node.fwdActive_pins : (n : Node) → n.Plain = true → n.IdsBelow N → n.Tidy → (rq : Req) → rq.index = some i →
    rq.kind.plain = true → rq.kind ≠ .schedule → (w : World U) → Ready N w →
    ∀ id ∈ (n.fwdActive rq w).1.touched, Pinned i (n.fwdActive rq w).2 id
  | .leaf id inj, _, _, _, rq, _, _, _, w, _ => by simp only [Node.fwdActive, Node.touched]; exact fun _ h => nomatch h
  | .compo id rid inj h st a rr q m s, hp, hb, ht, rq, hi, hk, hn, w, r => by
    simp only [Node.Plain, Bool.and_eq_true] at hp
    simp only [Node.Tidy] at ht
    cases q with
    | none =>
      cases a with
      | none => simp only [Node.fwdActive, Node.touched]; exact fun _ h => nomatch h
      | some ai =>
        simp only [Node.fwdActive, Node.touched]
        exact Subs.fwdActiveAt_pins s hp.2 hb.2 ht ai rq hi hk hn w r
    | some qi =>
      cases a with
      | none => simp only [Node.fwdActive, Node.touched]; exact fun _ h => nomatch h
      | some ai =>
        simp only [Node.fwdActive, Node.touched]
        exact Subs.fwdRequestAt_pins i N s hp.2 hb.2 qi rq hi hk hn w r
  | .ortho id rid inj h s, hp, hb, ht, rq, hi, hk, hn, w, r => by
    simp only [Node.Plain] at hp
    simp only [Node.Tidy] at ht
    simp only [Node.fwdActive, Node.touched]
    exact Subs.fwdActiveBits_pins s hp hb.2 ht rq hi hk hn w r
theorem Subs.fwdActiveAt_pins : (s : Subs) → s.PlainAll = true → s.IdsBelowAll N → s.TidyAll → (k : Nat) → (rq : Req) →
    rq.index = some i → rq.kind.plain = true → rq.kind ≠ .schedule → (w : World U) → Ready N w →
    ∀ id ∈ (s.fwdActiveAt k rq w).1.touchedAt k, Pinned i (s.fwdActiveAt k rq w).2 id
  | .nil, _, _, _, _, rq, _, _, _, w, _ => by simp only [Subs.fwdActiveAt, Subs.touchedAt]; exact fun _ h => nomatch h
  | .cons b n r, hp, hb, ht, 0, rq, hi, hk, hn, w, rd => by
    simp only [Subs.PlainAll, Bool.and_eq_true] at hp
    simp only [Subs.fwdActiveAt, Subs.touchedAt]
    exact Node.fwdActive_pins n hp.1 hb.1 ht.1 rq hi hk hn w rd
  | .cons b n r, hp, hb, ht, k+1, rq, hi, hk, hn, w, rd => by
    simp only [Subs.PlainAll, Bool.and_eq_true] at hp
    simp only [Subs.fwdActiveAt, Subs.touchedAt]
    exact Subs.fwdActiveAt_pins r hp.2 hb.2 ht.2 k rq hi hk hn w rd
theorem Subs.fwdActiveBits_pins : (s : Subs) → s.PlainAll = true → s.IdsBelowAll N → s.TidyBits → (rq : Req) →
    rq.index = some i → rq.kind.plain = true → rq.kind ≠ .schedule → (w : World U) → Ready N w →
    ∀ id ∈ (s.fwdActiveBits rq w).1.touchedAll, Pinned i (s.fwdActiveBits rq w).2 id
  | .nil, _, _, _, rq, _, _, _, w, _ => by simp only [Subs.fwdActiveBits, Subs.touchedAll]; exact fun _ h => nomatch h
  | .cons b n r, hp, hb, ht, rq, hi, hk, hn, w, rd => by
    simp only [Subs.PlainAll, Bool.and_eq_true] at hp
    simp only [Subs.TidyBits] at ht
    simp only [Subs.fwdActiveBits]
    cases b with
    | true =>
      simp only [if_true] at ht ⊢
      simp only [Subs.touchedAll]
      have s1 := Node.fwdActive_steps n rq w w (Steps.refl _)
      intro id' h'
      rcases List.mem_append.mp h' with h1 | h1
      · exact Pinned.steps (hi ▸ Subs.fwdActiveBits_steps r rq _ _ (Steps.refl _))
          (Node.fwdActive_pins n hp.1 hb.1 ht.1 rq hi hk hn w rd id' h1)
      · exact Subs.fwdActiveBits_pins r hp.2 hb.2 ht.2 rq hi hk hn _ (Ready.steps s1 rd) id' h1
    | false =>
      simp only [Bool.false_eq_true, if_false] at ht ⊢
      simp only [Subs.touchedAll, Node.NoMarks_touched n ht.1, List.nil_append]
      exact Subs.fwdActiveBits_pins r hp.2 hb.2 ht.2 rq hi hk hn w rd
end

/-! ### the snapshot mask -/

theorem foldl_mask_testBit (f : Nat → Bool) : (l : List Nat) → (acc : Nat) → (id : Nat) →
    (l.foldl (fun m i => if f i then m ||| (1 <<< i) else m) acc).testBit id = (acc.testBit id || (decide (id ∈ l) && f id))
  | [], acc, id => by simp
  | k :: rest, acc, id => by
    simp only [List.foldl_cons]
    rw [foldl_mask_testBit f rest]
    by_cases hk : f k = true
    · simp only [hk, if_true, Nat.testBit_or, Nat.one_shiftLeft, Nat.testBit_two_pow]
      by_cases he : k = id
      · subst he; simp [hk]
      · have : ¬ id = k := fun h => he h.symm
        simp [he, this]
    · have hk' : f k = false := by simpa using hk
      simp only [hk', Bool.false_eq_true, if_false]
      by_cases he : id = k
      · subst he; simp [hk']
      · simp [he]

/-- bit `id` of the snapshot mask is `isActive id` -/
theorem bit_maskOf (n : Nat) (f : Nat → Bool) (id : Nat) (h : id < n) : World.bit (maskOf n f) id = f id := by
  unfold World.bit maskOf
  rw [foldl_mask_testBit]
  simp [h]

mutual
theorem Node.frozen_IdsBelow (N : Nat) : (n : Node) → (n.frozen.IdsBelow N ↔ n.IdsBelow N)
  | .leaf .. => Iff.rfl
  | .compo id rid inj h st a r q m s => by simp only [Node.frozen, Node.IdsBelow, Subs.frozen_IdsBelowAll N s]
  | .ortho id rid inj h s => by simp only [Node.frozen, Node.IdsBelow, Subs.frozen_IdsBelowAll N s]
theorem Subs.frozen_IdsBelowAll (N : Nat) : (s : Subs) → (s.frozen.IdsBelowAll N ↔ s.IdsBelowAll N)
  | .nil => Iff.rfl
  | .cons b n r => by
    simp only [Subs.frozen, Subs.IdsBelowAll, Node.frozen_IdsBelow N n, Subs.frozen_IdsBelowAll N r]
end

theorem Node.IdsBelow_of_frozen {N : Nat} {a b : Node} (h : a.frozen = b.frozen) (hb : b.IdsBelow N) : a.IdsBelow N := by
  rw [← Node.frozen_IdsBelow, h, Node.frozen_IdsBelow]; exact hb

namespace Mach

/-- **`lastTransitionTo` after a single approved request (partial).** The step consists of one round with
the one request `t`, approved; the machine is `Plain` (no sub-state is chosen by `select`, utility or
rank), the request is `change / restart / resume` to a state other than the root, the history feature is
on.  Then `previousTransitions = [t]` and `lastTransitionTo(s) = t` for every state `s` below the fork the
request re-targets (`touched`: a superset of the states the commit pass enters or re-enters,
`Node.commit_enters_touched`) that was not active before the step. -/
theorem single_request_lastTransition (m : Mach U) (t : Transition) (N : Nat)
    (hlog : m.stepLog = [([t], .approved)]) (hh : m.w.cfg.history = true)
    (hplain : m.root.Plain = true) (hids : m.root.IdsBelow N) (hN : N ≤ m.w.cfg.stateCount)
    (hnm : m.root.NoMarks) (hk : t.kind.plain = true) (hns : t.kind ≠ .schedule) (hd0 : t.dest ≠ 0) :
    m.processRequest.w.previous = [t] ∧
    ∀ id ∈ (m.stepStart.applyAll [t] 0).root.touched, id < m.w.cfg.stateCount → m.root.isActive id = false →
      m.processRequest.lastTransitionTo id = some t := by
  obtain ⟨hloop, hts, ho⟩ := single_round_step m [t] .approved hlog
  have hreq : m.stepStart.w.requests = m.w.requests := by
    unfold stepStart World.freshControl; exact World.clearTargets_requests _
  have hne : m.w.requests.isEmpty = false := by rw [← hreq, ← hts]; rfl
  have hprev : m.processRequest.w.previous = [t] := by
    rw [processRequest_previous m hh, hne, hlog]
    simp [approvedOf]
  refine ⟨hprev, ?_⟩
  have htg : m.processRequest.w.targets = (m.stepStart.applyAll [t] 0).w.targets := by
    rw [processRequest_targets m hne, hloop]
    dsimp only
    rw [roundStep_approved_targets _ _ _ ho.symm, ← hts]
  intro id hid hlt hact
  have hpin : (m.stepStart.applyAll [t] 0).w.targets.getD id none = some 0 := by
    simp only [applyAll] at hid ⊢
    split at hid
    · -- the request is applied
      rename_i hdl
      rw [if_pos hdl]
      unfold applyRequest at hid ⊢
      dsimp only at hid ⊢
      split at hid
      · next hs => exact absurd hs hns
      · next k hks =>
        rw [if_neg hd0] at hid ⊢
        split at hid
        · -- unknown destination: nothing is marked
          next hp =>
          have : m.stepStart.root.touched = [] := Node.NoMarks_touched _ hnm
          dsimp only at hid
          rw [this] at hid; cases hid
        · next p hp =>
          dsimp only at hid ⊢
          have hroot : m.stepStart.root = m.root := rfl
          have hfz : (m.stepStart.root.mark p).1.frozen = m.root.frozen :=
            Node.frozen_of_clearMarks (Node.mark_clearMarks _ p)
          have r0 : Ready N (m.stepStart.w.snapshot m.stepStart.root true false) := by
            refine ⟨?_, ?_⟩
            · show m.stepStart.w.cfg.history = true
              rw [stepStart_cfg]; exact hh
            · show N ≤ m.stepStart.w.targets.length
              unfold stepStart World.freshControl World.clearTargets
              dsimp only
              rw [if_pos hh]
              dsimp only
              rw [List.length_replicate]; exact hN
          have hp := Node.fwdActive_pins 0 N (m.stepStart.root.mark p).1
            (by rw [Node.Plain_of_frozen hfz]; exact hplain) (Node.IdsBelow_of_frozen hfz hids)
            (Node.mark_Tidy _ hnm p) ⟨t.kind, some 0⟩ rfl hk hns _ r0 id hid
          rcases hp with hp | hp
          · exfalso
            have f := (Node.fwdActive_steps (m.stepStart.root.mark p).1 ⟨t.kind, some 0⟩ _ _
              (Steps.refl (m.stepStart.w.snapshot m.stepStart.root true false))).frame
            unfold World.isActiveSnap at hp
            rw [f.activeSnap] at hp
            have : World.bit (maskOf m.stepStart.w.cfg.stateCount m.stepStart.root.isActive) id = true := hp
            rw [bit_maskOf _ _ _ (by rw [stepStart_cfg]; exact hlt)] at this
            rw [show m.stepStart.root = m.root from rfl, hact] at this
            cases this
          · exact hp
    · -- destination out of range: not applied
      have : m.stepStart.root.touched = [] := Node.NoMarks_touched _ hnm
      rw [this] at hid; cases hid
  unfold lastTransitionTo
  rw [htg, hpin, hprev]
  rfl

end Mach
end Hfsm
