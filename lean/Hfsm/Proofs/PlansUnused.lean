/-
Plans enabled but unused (C15): while no plan exists (`planExists = 0`, i.e. nobody ever appended a
task) `deepUpdatePlans` has no effect on anything but the control registers: no callback, no request,
no logger record, no status change.  Together with `clearStatuses` after it, a build with
HFSM2_ENABLE_PLANS whose program never touches plans goes through `update`/`react` like a build
without.
-/
import Hfsm.Model.Machine

set_option linter.unusedVariables false
set_option linter.unusedSectionVars false
set_option linter.unusedSimpArgs false

namespace Hfsm
variable {U : Type}

/-- `w'` differs from `w` at most in the control registers (`_regionId`, `_regionStateId`, `_regionSize`,
`_taskStatus`) and the model's contract-violation flag. -/
def World.coreEq (w w' : World U) : Prop :=
  w'.cfg = w.cfg ∧ w'.requests = w.requests ∧ w'.plans = w.plans ∧ w'.planExists = w.planExists ∧
  w'.succ = w.succ ∧ w'.fail = w.fail ∧ w'.headStatus = w.headStatus ∧ w'.subStatus = w.subStatus ∧
  w'.targets = w.targets ∧ w'.previous = w.previous ∧ w'.origin = w.origin ∧ w'.cancelled = w.cancelled ∧
  w'.consumed = w.consumed ∧ w'.pending = w.pending ∧ w'.current = w.current ∧ w'.obs = w.obs ∧
  w'.activeSnap = w.activeSnap ∧ w'.ds = w.ds ∧ w'.rng = w.rng ∧ w'.trace = w.trace

theorem World.coreEq.refl (w : World U) : w.coreEq w :=
  ⟨rfl, rfl, rfl, rfl, rfl, rfl, rfl, rfl, rfl, rfl, rfl, rfl, rfl, rfl, rfl, rfl, rfl, rfl, rfl, rfl⟩

theorem World.coreEq.trans {a b c : World U} (h1 : a.coreEq b) (h2 : b.coreEq c) : a.coreEq c := by
  unfold World.coreEq at *
  obtain ⟨a1,a2,a3,a4,a5,a6,a7,a8,a9,a10,a11,a12,a13,a14,a15,a16,a17,a18,a19,a20⟩ := h1
  obtain ⟨b1,b2,b3,b4,b5,b6,b7,b8,b9,b10,b11,b12,b13,b14,b15,b16,b17,b18,b19,b20⟩ := h2
  exact ⟨b1.trans a1, b2.trans a2, b3.trans a3, b4.trans a4, b5.trans a5, b6.trans a6, b7.trans a7, b8.trans a8,
    b9.trans a9, b10.trans a10, b11.trans a11, b12.trans a12, b13.trans a13, b14.trans a14, b15.trans a15,
    b16.trans a16, b17.trans a17, b18.trans a18, b19.trans a19, b20.trans a20⟩

theorem World.coreEq_fail' (w : World U) (msg : String) : w.coreEq (w.fail' msg) := by
  unfold World.fail'; split <;> exact World.coreEq.refl w |>.trans
    ⟨rfl, rfl, rfl, rfl, rfl, rfl, rfl, rfl, rfl, rfl, rfl, rfl, rfl, rfl, rfl, rfl, rfl, rfl, rfl, rfl⟩

theorem World.coreEq_push (w : World U) (rid hid size : Nat) : w.coreEq (w.pushRegion rid hid size).1 :=
  ⟨rfl, rfl, rfl, rfl, rfl, rfl, rfl, rfl, rfl, rfl, rfl, rfl, rfl, rfl, rfl, rfl, rfl, rfl, rfl, rfl⟩

theorem World.coreEq_pop (w : World U) (sv : Nat × Nat × Nat) : w.coreEq (w.popRegion sv) :=
  ⟨rfl, rfl, rfl, rfl, rfl, rfl, rfl, rfl, rfl, rfl, rfl, rfl, rfl, rfl, rfl, rfl, rfl, rfl, rfl, rfl⟩

theorem bit_zero_rp (i : Nat) : World.bit 0 i = false := by simp [World.bit]

variable [UtilArith U]

mutual
theorem Node.updatePlans_noPlans : (n : Node) → (w : World U) → w.planExists = 0 →
    w.coreEq (n.updatePlans w).1
  | .leaf .., w, _ => by simp only [Node.updatePlans]; exact World.coreEq.refl w
  | .compo id rid inj h st a r q m s, w, hp => by
      cases a with
      | none => simp only [Node.updatePlans]; exact World.coreEq_fail' w _
      | some ai =>
        simp only [Node.updatePlans]
        have ih := Subs.updatePlansAt_noPlans s ai w hp
        generalize s.updatePlansAt ai w = res at ih
        obtain ⟨w1, sub⟩ := res
        have hp1 : w1.planExists = 0 := ih.2.2.2.1.trans hp
        simp only []
        split
        · exact ih
        · split
          · exact ih
          · have hb : World.bit (w1.pushRegion rid id (1 + s.size)).1.planExists rid = false := by
              show World.bit w1.planExists rid = false
              rw [hp1]; exact bit_zero_rp _
            simp only [hb, Bool.and_false, Bool.false_eq_true, ↓reduceIte]
            exact ih.trans ((World.coreEq_push w1 rid id (1 + s.size)).trans (World.coreEq_pop _ _))
  | .ortho id rid inj h s, w, hp => by
      simp only [Node.updatePlans]
      have ih := Subs.updatePlansAll_noPlans s w hp
      generalize s.updatePlansAll w = res at ih
      obtain ⟨w1, sub⟩ := res
      have hp1 : w1.planExists = 0 := ih.2.2.2.1.trans hp
      simp only []
      split
      · exact ih
      · split
        · exact ih
        · have hb : World.bit (w1.pushRegion rid id (1 + s.size)).1.planExists rid = false := by
            show World.bit w1.planExists rid = false
            rw [hp1]; exact bit_zero_rp _
          simp only [hb, Bool.and_false, Bool.false_eq_true, ↓reduceIte]
          exact ih.trans ((World.coreEq_push w1 rid id (1 + s.size)).trans (World.coreEq_pop _ _))
theorem Subs.updatePlansAt_noPlans : (s : Subs) → (i : Nat) → (w : World U) → w.planExists = 0 →
    w.coreEq (s.updatePlansAt i w).1
  | .nil, _, w, _ => by simp only [Subs.updatePlansAt]; exact World.coreEq_fail' w _
  | .cons _ n _, 0, w, hp => by simp only [Subs.updatePlansAt]; exact Node.updatePlans_noPlans n w hp
  | .cons _ _ r, i+1, w, hp => by simp only [Subs.updatePlansAt]; exact Subs.updatePlansAt_noPlans r i w hp
theorem Subs.updatePlansAll_noPlans : (s : Subs) → (w : World U) → w.planExists = 0 →
    w.coreEq (s.updatePlansAll w).1
  | .nil, w, _ => by simp only [Subs.updatePlansAll]; exact World.coreEq.refl w
  | .cons _ n r, w, hp => by
      simp only [Subs.updatePlansAll]
      have h1 := Node.updatePlans_noPlans n w hp
      have h2 := Subs.updatePlansAll_noPlans r (n.updatePlans w).1 (h1.2.2.2.1.trans hp)
      exact h1.trans h2
end

/-- `TASK_CAPACITY` is read by `append` only, and only matters at the full edge. -/
theorem World.planAppend_taskCap (w : World U) (r : Nat) (t : Task) (c : Nat)
    (h1 : w.taskCount < w.cfg.taskCap) (h2 : w.taskCount < c) :
    ({ w with cfg := { w.cfg with taskCap := c } } : World U).planAppend r t =
      { w.planAppend r t with cfg := { w.cfg with taskCap := c } } := by
  have e : ({ w with cfg := { w.cfg with taskCap := c } } : World U).taskCount = w.taskCount := rfl
  unfold World.planAppend
  simp only [e, h1, h2, ↓reduceIte]
  rfl

end Hfsm
