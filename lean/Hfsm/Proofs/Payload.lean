/-
C14 — provenance of transitions.  `Closed S w`: every transition the world holds (request queue,
pending / current / previous lists) satisfies `S`, and so does every transition that the inputs still to
come (decision stream, plan tasks) can ever issue.  Every primitive of `Steps` preserves it, hence
every walk does.
-/
import Hfsm.Proofs.StepsFacts

namespace Hfsm
variable {U : Type}

/-- A callback decision only issues transitions in `S` (whatever the origin), and only appends plan tasks
whose eventual `change` request is in `S`. -/
def Decision.Within (S : Transition → Prop) (d : Decision U) : Prop :=
  (∀ k dst p, Action.request k dst p ∈ d → ∀ o, S ⟨o, dst, k, p⟩) ∧
  (∀ o dst k p, Action.planAppend o dst k p ∈ d → ∀ h, S ⟨some h, dst, .change, p⟩)

/-- The plan executor will issue `⟨head, task.dest, change, task.payload⟩` (root/control_3.inl; always
`change`: known finding F12). -/
def Task.Within (S : Transition → Prop) (t : Task) : Prop := ∀ h, S ⟨some h, t.dest, .change, t.payload⟩

structure Closed (S : Transition → Prop) (w : World U) : Prop where
  requests : ∀ t ∈ w.requests, S t
  pending : ∀ t ∈ w.pending, S t
  current : ∀ t ∈ w.current, S t
  previous : ∀ t ∈ w.previous, S t
  ds : ∀ d ∈ w.ds, Decision.Within S d
  plans : ∀ pl ∈ w.plans, ∀ tk ∈ pl, Task.Within S tk

theorem ActsRel.closed {S : Transition → Prop} {d : Decision U} {w w' : World U} (h : ActsRel d w w')
    (hd1 : ∀ k dst p, Action.request k dst p ∈ d → S ⟨w.origin, dst, k, p⟩)
    (hd2 : ∀ o dst k p, Action.planAppend o dst k p ∈ d → ∀ h, S ⟨some h, dst, .change, p⟩)
    (c : Closed S w) : Closed S w' := by
  refine ⟨?_, by rw [h.pending]; exact c.pending, by rw [h.current]; exact c.current,
    by rw [h.previous]; exact c.previous, by rw [h.ds]; exact c.ds, ?_⟩
  · obtain ⟨add, e, hadd⟩ := h.requests
    rw [e]
    intro t ht
    rcases List.mem_append.mp ht with ht | ht
    · exact c.requests t ht
    · obtain ⟨k, dst, p, hm, rfl⟩ := hadd t ht
      exact hd1 k dst p hm
  · intro pl' hpl' tk htk
    rcases h.plans pl' hpl' tk htk with ⟨pl, hpl, ht⟩ | ⟨o, dst, k, p, hm, rfl⟩
    · exact c.plans pl hpl tk ht
    · exact fun hh => hd2 o dst k p hm hh

theorem LogOnly.closed {S : Transition → Prop} {w w' : World U} (h : LogOnly w w') (c : Closed S w) : Closed S w' :=
  ⟨by rw [h.requests]; exact c.requests, by rw [h.pending]; exact c.pending, by rw [h.current]; exact c.current,
   by rw [h.previous]; exact c.previous, by rw [h.ds]; exact c.ds, by rw [h.plans]; exact c.plans⟩

theorem Scratch.closed {S : Transition → Prop} {w w' : World U} (h : Scratch w w') (c : Closed S w) : Closed S w' :=
  ⟨by rw [h.requests]; exact c.requests, by rw [h.pending]; exact c.pending, by rw [h.current]; exact c.current,
   by rw [h.previous]; exact c.previous, by rw [h.ds]; exact c.ds, by rw [h.plans]; exact c.plans⟩

theorem World.pin_closed {S : Transition → Prop} (w : World U) (sid : Nat) (idx : Option Nat) (c : Closed S w) :
    Closed S (w.pin sid idx) := by
  unfold World.pin
  split
  · exact c
  · split
    · exact ⟨c.requests, c.pending, c.current, c.previous, c.ds, c.plans⟩
    · exact c

theorem Prim.closed {S : Transition → Prop} {allow : Perm} {w w' : World U} (p : Prim allow w w') (c : Closed S w) :
    Closed S w' := by
  cases p with
  | invoke sid m slot h =>
    cases World.invoke_rel w sid m slot with
    | exhausted _ hw => exact hw.closed c
    | ran d rest x hds hx hw =>
      have hd : Decision.Within S d := c.ds d (by rw [hds]; exact List.mem_cons_self)
      have c1 : Closed S { w with ds := rest } :=
        ⟨c.requests, c.pending, c.current, c.previous,
         fun d' h' => c.ds d' (by rw [hds]; exact List.mem_cons_of_mem _ h'), c.plans⟩
      have c2 := hx.closed (fun k dst p hm => hd.1 k dst p hm _) hd.2 c1
      rw [hw]
      exact ⟨c2.requests, c2.pending, c2.current, c2.previous, c2.ds, c2.plans⟩
  | logRec r => exact (World.logRec_logOnly w r).closed c
  | fail msg => exact (World.fail'_logOnly w msg).closed c
  | pin sid idx h => exact World.pin_closed w sid idx c
  | scratch _ h => exact h.closed c
  | planReq hd t ha ht =>
    obtain ⟨pl, hpl, htk⟩ := ht
    have c1 : Closed S { w with origin := some hd } := ⟨c.requests, c.pending, c.current, c.previous, c.ds, c.plans⟩
    refine (World.ctlRequest_actsRel (d := [.request .change t.dest t.payload]) _ _ _ _ List.mem_cons_self).closed ?_ ?_ c1
    · intro k dst p hm
      cases List.mem_singleton.mp hm
      exact c.plans pl hpl t htk hd
    · intro o dst k p hm; cases List.mem_singleton.mp hm
  | planShrink _ ha h hs =>
    have c1 : Closed S { w with plans := w'.plans } :=
      ⟨c.requests, c.pending, c.current, c.previous, c.ds,
       fun pl' hpl' tk htk => by obtain ⟨pl, hpl, ht⟩ := hs pl' hpl' tk htk; exact c.plans pl hpl tk ht⟩
    exact h.closed c1

theorem Steps.closed {S : Transition → Prop} {allow : Perm} {w w' : World U} (h : Steps allow w w') (c : Closed S w) :
    Closed S w' :=
  Steps.preserve (Closed S) (fun _ _ p c => p.closed c) h c

end Hfsm
