/-
C02 — "each region remembers the sub-state it last left as resumable".

`Remembers n n'`: `n` and `n'` have the same shape, and every composite region that has active
sub-state `x` in `n` and does not have it in `n'` (it switched, or it was left) has
`resumable = x` in `n'`.  Proved for the commit pass on *every* marking of a well-formed active tree
(so for every batch and every request kind), using the `deepReenter` repair F8.
-/
import Hfsm.Proofs.C02Pure

namespace Hfsm

mutual
def Node.Remembers : Node → Node → Prop
  | .leaf .., .leaf .. => True
  | .compo _ _ _ _ _ a _ _ _ s, .compo _ _ _ _ _ a' r' _ _ s' =>
    (∀ x, a = some x → a' ≠ some x → r' = some x) ∧ s.RemembersAll s'
  | .ortho _ _ _ _ s, .ortho _ _ _ _ s' => s.RemembersAll s'
  | _, _ => False
def Subs.RemembersAll : Subs → Subs → Prop
  | .nil, .nil => True
  | .cons _ n r, .cons _ n' r' => n.Remembers n' ∧ r.RemembersAll r'
  | _, _ => False
end

mutual
theorem Node.Remembers.refl : (n : Node) → n.Remembers n
  | .leaf .. => by simp only [Node.Remembers]
  | .compo id rid inj h st a r q m s => by
    simp only [Node.Remembers]
    exact ⟨fun x hx hx' => absurd hx hx', Subs.RemembersAll.refl s⟩
  | .ortho id rid inj h s => by
    simp only [Node.Remembers]
    exact Subs.RemembersAll.refl s
theorem Subs.RemembersAll.refl : (s : Subs) → s.RemembersAll s
  | .nil => by simp only [Subs.RemembersAll]
  | .cons b n r => by
    simp only [Subs.RemembersAll]
    exact ⟨Node.Remembers.refl n, Subs.RemembersAll.refl r⟩
end

-- leaving a sub-tree
mutual
theorem C02.Node.remembers_exited : (n : Node) → n.Remembers n.exited
  | .leaf .. => by simp only [Node.exited, Node.Remembers]
  | .compo id rid inj h st a r q m s => by
    cases a with
    | none => exact Node.Remembers.refl _
    | some ai =>
      simp only [Node.exited, Node.Remembers]
      exact ⟨fun x hx _ => by cases hx; rfl, C02.Subs.remembers_exitedAt s ai⟩
  | .ortho id rid inj h s => by
    simp only [Node.exited, Node.Remembers]
    exact C02.Subs.remembers_exitedAll s
theorem C02.Subs.remembers_exitedAt : (s : Subs) → (i : Nat) → s.RemembersAll (s.exitedAt i)
  | .nil, _ => by simp only [Subs.exitedAt, Subs.RemembersAll]
  | .cons b n r, 0 => by
    simp only [Subs.exitedAt, Subs.RemembersAll]
    exact ⟨C02.Node.remembers_exited n, Subs.RemembersAll.refl r⟩
  | .cons b n r, i+1 => by
    simp only [Subs.exitedAt, Subs.RemembersAll]
    exact ⟨Node.Remembers.refl n, C02.Subs.remembers_exitedAt r i⟩
theorem C02.Subs.remembers_exitedAll : (s : Subs) → s.RemembersAll s.exitedAll
  | .nil => by simp only [Subs.exitedAll, Subs.RemembersAll]
  | .cons b n r => by
    simp only [Subs.exitedAll, Subs.RemembersAll]
    exact ⟨C02.Node.remembers_exited n, C02.Subs.remembers_exitedAll r⟩
end

-- entering an inactive sub-tree
mutual
theorem C02.Node.remembers_enterR : (n : Node) → n.Clean → n.Remembers n.enterR
  | .leaf .., _ => by simp only [Node.enterR, Node.Remembers]
  | .compo id rid inj h st a r q m s, hc => by
    simp only [Node.Clean] at hc
    obtain ⟨ha, hs⟩ := hc
    subst ha
    cases q with
    | none => simp only [Node.enterR]; exact Node.Remembers.refl _
    | some qi =>
      simp only [Node.enterR, Node.Remembers]
      exact ⟨(fun x hx => by cases hx), C02.Subs.remembers_enterAtR s qi hs⟩
  | .ortho id rid inj h s, hc => by
    simp only [Node.Clean] at hc
    simp only [Node.enterR, Node.Remembers]
    exact C02.Subs.remembers_enterAllR s hc
theorem C02.Subs.remembers_enterAtR : (s : Subs) → (i : Nat) → s.CleanAll → s.RemembersAll (s.enterAtR i)
  | .nil, _, _ => by simp only [Subs.enterAtR, Subs.RemembersAll]
  | .cons b n r, 0, hc => by
    simp only [Subs.CleanAll] at hc
    simp only [Subs.enterAtR, Subs.RemembersAll]
    exact ⟨C02.Node.remembers_enterR n hc.1, Subs.RemembersAll.refl r⟩
  | .cons b n r, i+1, hc => by
    simp only [Subs.CleanAll] at hc
    simp only [Subs.enterAtR, Subs.RemembersAll]
    exact ⟨Node.Remembers.refl n, C02.Subs.remembers_enterAtR r i hc.2⟩
theorem C02.Subs.remembers_enterAllR : (s : Subs) → s.CleanAll → s.RemembersAll s.enterAllR
  | .nil, _ => by simp only [Subs.enterAllR, Subs.RemembersAll]
  | .cons b n r, hc => by
    simp only [Subs.CleanAll] at hc
    simp only [Subs.enterAllR, Subs.RemembersAll]
    exact ⟨C02.Node.remembers_enterR n hc.1, C02.Subs.remembers_enterAllR r hc.2⟩
end

mutual
theorem C02.Node.exited_clean_eq : (n : Node) → n.Clean → n.exited = n
  | .leaf .., _ => by simp only [Node.exited]
  | .compo id rid inj h st a r q m s, hc => by
    simp only [Node.Clean] at hc
    obtain ⟨ha, -⟩ := hc
    subst ha
    simp only [Node.exited]
  | .ortho id rid inj h s, hc => by
    simp only [Node.Clean] at hc
    simp only [Node.exited, C02.Subs.exitedAll_clean_eq s hc]
theorem C02.Subs.exitedAll_clean_eq : (s : Subs) → s.CleanAll → s.exitedAll = s
  | .nil, _ => by simp only [Subs.exitedAll]
  | .cons b n r, hc => by
    simp only [Subs.CleanAll] at hc
    simp only [Subs.exitedAll, C02.Node.exited_clean_eq n hc.1, C02.Subs.exitedAll_clean_eq r hc.2]
end

-- switching inside a region: leave `ai`, enter `qi ≠ ai`
theorem C02.Subs.remembers_switch : (s : Subs) → (ai qi : Nat) → ai ≠ qi → s.ActAt ai →
    s.RemembersAll ((s.exitedAt ai).enterAtR qi)
  | .nil, _, _, _, _ => by simp only [Subs.exitedAt, Subs.enterAtR, Subs.RemembersAll]
  | .cons b n r, 0, 0, h, _ => absurd rfl h
  | .cons b n r, 0, qi+1, _, ha => by
    simp only [Subs.ActAt] at ha
    simp only [Subs.exitedAt, Subs.enterAtR, Subs.RemembersAll]
    exact ⟨C02.Node.remembers_exited n, C02.Subs.remembers_enterAtR r qi ha.2⟩
  | .cons b n r, ai+1, 0, _, ha => by
    simp only [Subs.ActAt] at ha
    simp only [Subs.exitedAt, Subs.enterAtR, Subs.RemembersAll]
    exact ⟨C02.Node.remembers_enterR n ha.1, C02.Subs.remembers_exitedAt r ai⟩
  | .cons b n r, ai+1, qi+1, h, ha => by
    simp only [Subs.ActAt] at ha
    simp only [Subs.exitedAt, Subs.enterAtR, Subs.RemembersAll]
    exact ⟨Node.Remembers.refl n, C02.Subs.remembers_switch r ai qi (by omega) ha.2⟩

-- restart in place: leave the active sub-tree, enter it again by its marks
mutual
theorem C02.Node.remembers_restart : (n : Node) → n.Act → n.Remembers n.exited.enterR
  | .leaf .., _ => by simp only [Node.exited, Node.enterR, Node.Remembers]
  | .compo id rid inj h st a r q m s, ha => by
    cases a with
    | none => simp only [Node.Act] at ha
    | some ai =>
      simp only [Node.Act] at ha
      cases q with
      | none =>
        simp only [Node.exited, Node.enterR, Node.Remembers]
        exact ⟨fun x hx _ => by cases hx; rfl, C02.Subs.remembers_exitedAt s ai⟩
      | some qi =>
        simp only [Node.exited, Node.enterR, Node.Remembers]
        refine ⟨?_, ?_⟩
        · intro x hx hne
          cases hx
          have : ¬ (some qi : Option Nat) = some ai := hne
          simp only [this, ↓reduceIte]
        · by_cases hq : ai = qi
          · subst hq
            exact C02.Subs.remembers_restartAt s ai ha
          · exact C02.Subs.remembers_switch s ai qi hq ha
  | .ortho id rid inj h s, ha => by
    simp only [Node.Act] at ha
    simp only [Node.exited, Node.enterR, Node.Remembers]
    exact C02.Subs.remembers_restartAll s ha
theorem C02.Subs.remembers_restartAt : (s : Subs) → (i : Nat) → s.ActAt i →
    s.RemembersAll ((s.exitedAt i).enterAtR i)
  | .nil, _, _ => by simp only [Subs.exitedAt, Subs.enterAtR, Subs.RemembersAll]
  | .cons b n r, 0, ha => by
    simp only [Subs.ActAt] at ha
    simp only [Subs.exitedAt, Subs.enterAtR, Subs.RemembersAll]
    exact ⟨C02.Node.remembers_restart n ha.1, Subs.RemembersAll.refl r⟩
  | .cons b n r, i+1, ha => by
    simp only [Subs.ActAt] at ha
    simp only [Subs.exitedAt, Subs.enterAtR, Subs.RemembersAll]
    exact ⟨Node.Remembers.refl n, C02.Subs.remembers_restartAt r i ha.2⟩
theorem C02.Subs.remembers_restartAll : (s : Subs) → s.ActAll → s.RemembersAll s.exitedAll.enterAllR
  | .nil, _ => by simp only [Subs.exitedAll, Subs.enterAllR, Subs.RemembersAll]
  | .cons b n r, ha => by
    simp only [Subs.ActAll] at ha
    simp only [Subs.exitedAll, Subs.enterAllR, Subs.RemembersAll]
    exact ⟨C02.Node.remembers_restart n ha.1, C02.Subs.remembers_restartAll r ha.2⟩
end

-- `deepReenter` (with repair F8: the switch branch records the sub-state it leaves)
mutual
theorem C02.Node.remembers_reenterR : (n : Node) → n.Act → n.Remembers n.reenterR
  | .leaf .., _ => by simp only [Node.reenterR, Node.Remembers]
  | .compo id rid inj h st a r q m s, ha => by
    cases a with
    | none => simp only [Node.Act] at ha
    | some ai =>
      simp only [Node.Act] at ha
      cases q with
      | none =>
        have hR : (Node.compo id rid inj h st (some ai) r none m s).reenterR
            = .compo id rid inj h st (some ai) r none m s := by simp only [Node.reenterR]
        rw [hR]; exact Node.Remembers.refl _
      | some qi =>
        by_cases hq : ai = qi
        · subst hq
          have hR : (Node.compo id rid inj h st (some ai) r (some ai) m s).reenterR
              = .compo id rid inj h st (some ai) r none m (s.reenterAtR ai) := by
            simp only [Node.reenterR, ↓reduceIte]
          rw [hR]
          simp only [Node.Remembers]
          exact ⟨fun x hx hx' => absurd hx hx', C02.Subs.remembers_reenterAtR s ai ha⟩
        · have hR : (Node.compo id rid inj h st (some ai) r (some qi) m s).reenterR
              = .compo id rid inj h st (some qi) (some ai) none m ((s.exitedAt ai).enterAtR qi) := by
            simp only [Node.reenterR, hq, ↓reduceIte]
          rw [hR]
          simp only [Node.Remembers]
          exact ⟨fun x hx _ => by cases hx; rfl, C02.Subs.remembers_switch s ai qi hq ha⟩
  | .ortho id rid inj h s, ha => by
    simp only [Node.Act] at ha
    simp only [Node.reenterR, Node.Remembers]
    exact C02.Subs.remembers_reenterAllR s ha
theorem C02.Subs.remembers_reenterAtR : (s : Subs) → (i : Nat) → s.ActAt i → s.RemembersAll (s.reenterAtR i)
  | .nil, _, _ => by simp only [Subs.reenterAtR, Subs.RemembersAll]
  | .cons b n r, 0, ha => by
    simp only [Subs.ActAt] at ha
    simp only [Subs.reenterAtR, Subs.RemembersAll]
    exact ⟨C02.Node.remembers_reenterR n ha.1, Subs.RemembersAll.refl r⟩
  | .cons b n r, i+1, ha => by
    simp only [Subs.ActAt] at ha
    simp only [Subs.reenterAtR, Subs.RemembersAll]
    exact ⟨Node.Remembers.refl n, C02.Subs.remembers_reenterAtR r i ha.2⟩
theorem C02.Subs.remembers_reenterAllR : (s : Subs) → s.ActAll → s.RemembersAll s.reenterAllR
  | .nil, _ => by simp only [Subs.reenterAllR, Subs.RemembersAll]
  | .cons b n r, ha => by
    simp only [Subs.ActAll] at ha
    simp only [Subs.reenterAllR, Subs.RemembersAll]
    exact ⟨C02.Node.remembers_reenterR n ha.1, C02.Subs.remembers_reenterAllR r ha.2⟩
end

-- `deepChangeToRequested`, whatever the marks
mutual
theorem C02.Node.remembers_commitR : (n : Node) → n.Act → n.Remembers n.commitR
  | .leaf .., _ => by simp only [Node.commitR, Node.Remembers]
  | .compo id rid inj h st a r q m s, ha => by
    cases a with
    | none => simp only [Node.Act] at ha
    | some ai =>
      simp only [Node.Act] at ha
      cases q with
      | none =>
        have hR : (Node.compo id rid inj h st (some ai) r none m s).commitR
            = .compo id rid inj h st (some ai) r none m (s.commitAtR ai) := by simp only [Node.commitR]
        rw [hR]
        simp only [Node.Remembers]
        exact ⟨fun x hx hx' => absurd hx hx', C02.Subs.remembers_commitAtR s ai ha⟩
      | some qi =>
        by_cases hq : qi = ai
        · subst hq
          cases m with
          | true =>
            have hR : (Node.compo id rid inj h st (some qi) r (some qi) true s).commitR
                = .compo id rid inj h st (some qi) r none true ((s.exitedAt qi).enterAtR qi) := by
              simp only [Node.commitR, ne_eq, not_true_eq_false, ↓reduceIte]
            rw [hR]
            simp only [Node.Remembers]
            exact ⟨fun x hx hx' => absurd hx hx', C02.Subs.remembers_restartAt s qi ha⟩
          | false =>
            have hR : (Node.compo id rid inj h st (some qi) r (some qi) false s).commitR
                = .compo id rid inj h st (some qi) r none false (s.reenterAtR qi) := by
              simp only [Node.commitR, ne_eq, not_true_eq_false, ↓reduceIte, Bool.false_eq_true]
            rw [hR]
            simp only [Node.Remembers]
            exact ⟨fun x hx hx' => absurd hx hx', C02.Subs.remembers_reenterAtR s qi ha⟩
        · have hR : (Node.compo id rid inj h st (some ai) r (some qi) m s).commitR
              = .compo id rid inj h st (some qi) (some ai) none m ((s.exitedAt ai).enterAtR qi) := by
            simp only [Node.commitR, ne_eq, hq, not_false_eq_true, ↓reduceIte]
          rw [hR]
          simp only [Node.Remembers]
          exact ⟨fun x hx _ => by cases hx; rfl,
            C02.Subs.remembers_switch s ai qi (fun e => hq e.symm) ha⟩
  | .ortho id rid inj h s, ha => by
    simp only [Node.Act] at ha
    simp only [Node.commitR, Node.Remembers]
    exact C02.Subs.remembers_commitAllR s ha
theorem C02.Subs.remembers_commitAtR : (s : Subs) → (i : Nat) → s.ActAt i → s.RemembersAll (s.commitAtR i)
  | .nil, _, _ => by simp only [Subs.commitAtR, Subs.RemembersAll]
  | .cons b n r, 0, ha => by
    simp only [Subs.ActAt] at ha
    simp only [Subs.commitAtR, Subs.RemembersAll]
    exact ⟨C02.Node.remembers_commitR n ha.1, Subs.RemembersAll.refl r⟩
  | .cons b n r, i+1, ha => by
    simp only [Subs.ActAt] at ha
    simp only [Subs.commitAtR, Subs.RemembersAll]
    exact ⟨Node.Remembers.refl n, C02.Subs.remembers_commitAtR r i ha.2⟩
theorem C02.Subs.remembers_commitAllR : (s : Subs) → s.ActAll → s.RemembersAll s.commitAllR
  | .nil, _ => by simp only [Subs.commitAllR, Subs.RemembersAll]
  | .cons b n r, ha => by
    simp only [Subs.ActAll] at ha
    simp only [Subs.commitAllR, Subs.RemembersAll]
    exact ⟨C02.Node.remembers_commitR n ha.1, C02.Subs.remembers_commitAllR r ha.2⟩
end


/-! ### marks are not part of the configuration -/

mutual
theorem Node.Remembers.clearMarks : (n n' : Node) → n.Remembers n' → n.clearMarks.Remembers n'.clearMarks
  | .leaf .., .leaf .., _ => by simp only [Node.clearMarks, Node.Remembers]
  | .compo id rid inj h st a r q m s, .compo id' rid' inj' h' st' a' r' q' m' s', hr => by
    simp only [Node.Remembers] at hr
    simp only [Node.clearMarks, Node.Remembers]
    exact ⟨hr.1, Subs.RemembersAll.clearMarks s s' hr.2⟩
  | .ortho id rid inj h s, .ortho id' rid' inj' h' s', hr => by
    simp only [Node.Remembers] at hr
    simp only [Node.clearMarks, Node.Remembers]
    exact Subs.RemembersAll.clearMarks s s' hr
  | .leaf .., .compo .., hr => by simp only [Node.Remembers] at hr
  | .leaf .., .ortho .., hr => by simp only [Node.Remembers] at hr
  | .compo .., .leaf .., hr => by simp only [Node.Remembers] at hr
  | .compo .., .ortho .., hr => by simp only [Node.Remembers] at hr
  | .ortho .., .leaf .., hr => by simp only [Node.Remembers] at hr
  | .ortho .., .compo .., hr => by simp only [Node.Remembers] at hr
theorem Subs.RemembersAll.clearMarks : (s s' : Subs) → s.RemembersAll s' →
    s.clearMarks.RemembersAll s'.clearMarks
  | .nil, .nil, _ => by simp only [Subs.clearMarks, Subs.RemembersAll]
  | .cons b n r, .cons b' n' r', hr => by
    simp only [Subs.RemembersAll] at hr
    simp only [Subs.clearMarks, Subs.RemembersAll]
    exact ⟨Node.Remembers.clearMarks n n' hr.1, Subs.RemembersAll.clearMarks r r' hr.2⟩
  | .nil, .cons .., hr => by simp only [Subs.RemembersAll] at hr
  | .cons .., .nil, hr => by simp only [Subs.RemembersAll] at hr
end

mutual
theorem C02.Node.act_of_clearMarks : (n : Node) → n.clearMarks.Act → n.Act
  | .leaf .., _ => by simp only [Node.Act]
  | .compo id rid inj h st a r q m s, ha => by
    cases a with
    | none => simp only [Node.clearMarks, Node.Act] at ha
    | some ai =>
      simp only [Node.clearMarks, Node.Act] at ha
      simp only [Node.Act]
      exact C02.Subs.actAt_of_clearMarks s ai ha
  | .ortho id rid inj h s, ha => by
    simp only [Node.clearMarks, Node.Act] at ha
    simp only [Node.Act]
    exact C02.Subs.actAll_of_clearMarks s ha
theorem C02.Node.clean_of_clearMarks : (n : Node) → n.clearMarks.Clean → n.Clean
  | .leaf .., _ => by simp only [Node.Clean]
  | .compo id rid inj h st a r q m s, ha => by
    simp only [Node.clearMarks, Node.Clean] at ha
    simp only [Node.Clean]
    exact ⟨ha.1, C02.Subs.cleanAll_of_clearMarks s ha.2⟩
  | .ortho id rid inj h s, ha => by
    simp only [Node.clearMarks, Node.Clean] at ha
    simp only [Node.Clean]
    exact C02.Subs.cleanAll_of_clearMarks s ha
theorem C02.Subs.actAt_of_clearMarks : (s : Subs) → (i : Nat) → s.clearMarks.ActAt i → s.ActAt i
  | .nil, _, ha => by simp only [Subs.clearMarks, Subs.ActAt] at ha
  | .cons b n r, 0, ha => by
    simp only [Subs.clearMarks, Subs.ActAt] at ha
    simp only [Subs.ActAt]
    exact ⟨C02.Node.act_of_clearMarks n ha.1, C02.Subs.cleanAll_of_clearMarks r ha.2⟩
  | .cons b n r, i+1, ha => by
    simp only [Subs.clearMarks, Subs.ActAt] at ha
    simp only [Subs.ActAt]
    exact ⟨C02.Node.clean_of_clearMarks n ha.1, C02.Subs.actAt_of_clearMarks r i ha.2⟩
theorem C02.Subs.actAll_of_clearMarks : (s : Subs) → s.clearMarks.ActAll → s.ActAll
  | .nil, _ => by simp only [Subs.ActAll]
  | .cons b n r, ha => by
    simp only [Subs.clearMarks, Subs.ActAll] at ha
    simp only [Subs.ActAll]
    exact ⟨C02.Node.act_of_clearMarks n ha.1, C02.Subs.actAll_of_clearMarks r ha.2⟩
theorem C02.Subs.cleanAll_of_clearMarks : (s : Subs) → s.clearMarks.CleanAll → s.CleanAll
  | .nil, _ => by simp only [Subs.CleanAll]
  | .cons b n r, ha => by
    simp only [Subs.clearMarks, Subs.CleanAll] at ha
    simp only [Subs.CleanAll]
    exact ⟨C02.Node.clean_of_clearMarks n ha.1, C02.Subs.cleanAll_of_clearMarks r ha.2⟩
end

theorem C02.Subs.clearMarks_setBit : (s : Subs) → (i : Nat) → (s.setBit i).clearMarks = s.clearMarks
  | .nil, _ => by simp only [Subs.setBit]
  | .cons b n r, 0 => by simp only [Subs.setBit, Subs.clearMarks]
  | .cons b n r, i+1 => by simp only [Subs.setBit, Subs.clearMarks, C02.Subs.clearMarks_setBit r i]

-- the request passes only write marks
mutual
theorem C02.Node.clearMarks_mark : (n : Node) → (p : List Nat) → (n.mark p).1.clearMarks = n.clearMarks
  | .leaf .., [] => by simp only [Node.mark]
  | .compo .., [] => by simp only [Node.mark]
  | .ortho .., [] => by simp only [Node.mark]
  | .leaf .., _ :: _ => by simp only [Node.mark]
  | .compo id rid inj h st a r q m s, i :: rest => by
    have ih := C02.Subs.clearMarks_markAt s i rest
    simp only [Node.mark]
    generalize s.markAt i rest = res at ih
    obtain ⟨s', ph⟩ := res
    simp only at ih
    cases ph
    · simp only [Node.clearMarks, ih]
    · dsimp only
      split <;> simp only [Node.clearMarks, ih]
    · simp only [Node.clearMarks, ih]
  | .ortho id rid inj h s, i :: rest => by
    have ih := C02.Subs.clearMarks_markAt s i rest
    simp only [Node.mark]
    generalize s.markAt i rest = res at ih
    obtain ⟨s', ph⟩ := res
    simp only at ih
    simp only [Node.clearMarks, C02.Subs.clearMarks_setBit, ih]
theorem C02.Subs.clearMarks_markAt : (s : Subs) → (i : Nat) → (p : List Nat) →
    (s.markAt i p).1.clearMarks = s.clearMarks
  | .nil, _, _ => by simp only [Subs.markAt]
  | .cons b n r, 0, p => by
    have ih := C02.Node.clearMarks_mark n p
    simp only [Subs.markAt]
    generalize n.mark p = res at ih
    obtain ⟨n', ph⟩ := res
    simp only at ih
    simp only [Subs.clearMarks, ih]
  | .cons b n r, i+1, p => by
    have ih := C02.Subs.clearMarks_markAt r i p
    simp only [Subs.markAt]
    generalize r.markAt i p = res at ih
    obtain ⟨r', ph⟩ := res
    simp only at ih
    simp only [Subs.clearMarks, ih]
end

section
variable (ans : Nat → Nat) (k : Kind)

mutual
theorem C02.Node.clearMarks_requestR : (n : Node) → (n.requestR ans k).clearMarks = n.clearMarks
  | .leaf .. => by simp only [Node.requestR]
  | .compo id rid inj h st a r q m s => by
    simp only [Node.requestR, Node.clearMarks, C02.Subs.clearMarks_requestAtR s]
  | .ortho id rid inj h s => by
    simp only [Node.requestR, Node.clearMarks, C02.Subs.clearMarks_requestAllR s]
theorem C02.Subs.clearMarks_requestAtR : (s : Subs) → (i : Nat) →
    (s.requestAtR ans k i).clearMarks = s.clearMarks
  | .nil, _ => by simp only [Subs.requestAtR]
  | .cons b n r, 0 => by simp only [Subs.requestAtR, Subs.clearMarks, C02.Node.clearMarks_requestR n]
  | .cons b n r, i+1 => by simp only [Subs.requestAtR, Subs.clearMarks, C02.Subs.clearMarks_requestAtR r i]
theorem C02.Subs.clearMarks_requestAllR : (s : Subs) → (s.requestAllR ans k).clearMarks = s.clearMarks
  | .nil => by simp only [Subs.requestAllR]
  | .cons b n r => by
    simp only [Subs.requestAllR, Subs.clearMarks, C02.Node.clearMarks_requestR n,
      C02.Subs.clearMarks_requestAllR r]
end

mutual
theorem C02.Node.clearMarks_fwdRequestR : (n : Node) → (n.fwdRequestR ans k).clearMarks = n.clearMarks
  | .leaf .. => by simp only [Node.fwdRequestR]
  | .compo id rid inj h st a r q m s => by
    cases q with
    | none => simp only [Node.fwdRequestR, C02.Node.clearMarks_requestR]
    | some qi => simp only [Node.fwdRequestR, Node.clearMarks, C02.Subs.clearMarks_fwdRequestAtR s qi]
  | .ortho id rid inj h s => by
    simp only [Node.fwdRequestR]
    split
    · simp only [Node.clearMarks, C02.Subs.clearMarks_fwdRequestAllR s]
    · simp only [C02.Node.clearMarks_requestR]
theorem C02.Subs.clearMarks_fwdRequestAtR : (s : Subs) → (i : Nat) →
    (s.fwdRequestAtR ans k i).clearMarks = s.clearMarks
  | .nil, _ => by simp only [Subs.fwdRequestAtR]
  | .cons b n r, 0 => by simp only [Subs.fwdRequestAtR, Subs.clearMarks, C02.Node.clearMarks_fwdRequestR n]
  | .cons b n r, i+1 => by
    simp only [Subs.fwdRequestAtR, Subs.clearMarks, C02.Subs.clearMarks_fwdRequestAtR r i]
theorem C02.Subs.clearMarks_fwdRequestAllR : (s : Subs) → (s.fwdRequestAllR ans k).clearMarks = s.clearMarks
  | .nil => by simp only [Subs.fwdRequestAllR]
  | .cons b n r => by
    simp only [Subs.fwdRequestAllR, Subs.clearMarks, C02.Node.clearMarks_fwdRequestR n,
      C02.Subs.clearMarks_fwdRequestAllR r]
end

mutual
theorem C02.Node.clearMarks_fwdActiveR : (n : Node) → (n.fwdActiveR ans k).clearMarks = n.clearMarks
  | .leaf .. => by simp only [Node.fwdActiveR]
  | .compo id rid inj h st a r q m s => by
    cases q with
    | none =>
      cases a with
      | none => simp only [Node.fwdActiveR]
      | some ai => simp only [Node.fwdActiveR, Node.clearMarks, C02.Subs.clearMarks_fwdActiveAtR s ai]
    | some qi =>
      simp only [Node.fwdActiveR, Node.clearMarks, C02.Subs.clearMarks_fwdRequestAtR ans k s qi]
  | .ortho id rid inj h s => by
    simp only [Node.fwdActiveR, Node.clearMarks, C02.Subs.clearMarks_fwdActiveBitsR s]
theorem C02.Subs.clearMarks_fwdActiveAtR : (s : Subs) → (i : Nat) →
    (s.fwdActiveAtR ans k i).clearMarks = s.clearMarks
  | .nil, _ => by simp only [Subs.fwdActiveAtR]
  | .cons b n r, 0 => by simp only [Subs.fwdActiveAtR, Subs.clearMarks, C02.Node.clearMarks_fwdActiveR n]
  | .cons b n r, i+1 => by
    simp only [Subs.fwdActiveAtR, Subs.clearMarks, C02.Subs.clearMarks_fwdActiveAtR r i]
theorem C02.Subs.clearMarks_fwdActiveBitsR : (s : Subs) → (s.fwdActiveBitsR ans k).clearMarks = s.clearMarks
  | .nil => by simp only [Subs.fwdActiveBitsR]
  | .cons b n r => by
    simp only [Subs.fwdActiveBitsR]
    split
    · simp only [Subs.clearMarks, C02.Node.clearMarks_fwdActiveR n, C02.Subs.clearMarks_fwdActiveBitsR r]
    · simp only [Subs.clearMarks, C02.Subs.clearMarks_fwdActiveBitsR r]
end

end

/-- The commit pass on any marking `x` of a well-formed active tree `n` (same configuration, any
marks) makes every region remember the sub-state it leaves. -/
theorem C02.Node.remembers_commit_of_marking (n x : Node) (hn : n.Act)
    (hx : x.clearMarks = n) : n.Remembers x.commitR.clearMarks := by
  have hax : x.Act := C02.Node.act_of_clearMarks x (by rw [hx]; exact hn)
  have := Node.Remembers.clearMarks x x.commitR (C02.Node.remembers_commitR x hax)
  rwa [hx] at this

end Hfsm
