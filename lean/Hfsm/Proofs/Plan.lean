/-
Specification vocabulary and helper lemmas for plan storage (`Hfsm.Model.Plan`).

Ghost state `PG`: the pool's reference state `G` plus, per region, the list of slots of that
region's plan in iteration order.  `PlanRep` is the representation invariant (`PlanInv`).
-/
import Hfsm.Model.Plan
import Hfsm.Proofs.PoolSim

namespace Hfsm.Model

/-! ### Array of links -/

theorem getElem?_set (a : Array TaskLink) (i j : Nat) (v : TaskLink) :
    (a.setIfInBounds i v)[j]? = if i = j ∧ i < a.size then some v else a[j]? := by
  rw [Array.getElem?_setIfInBounds]
  split <;> simp_all

theorem getElem?_set_ne (a : Array TaskLink) {i j : Nat} (v : TaskLink) (h : i ≠ j) :
    (a.setIfInBounds i v)[j]? = a[j]? := by
  rw [getElem?_set]; simp [h]

theorem getElem?_set_same (a : Array TaskLink) {i : Nat} (v : TaskLink) (h : i < a.size) :
    (a.setIfInBounds i v)[i]? = some v := by
  rw [getElem?_set]; simp [h]

theorem lt_of_getElem?_some {α : Type} {a : Array α} {i : Nat} {x : α} (h : a[i]? = some x) :
    i < a.size := (Array.getElem?_eq_some_iff.mp h).1

/-! ### Doubly linked region lists -/

/-- `DL links p l`: the slots `l` form a doubly linked list in `links` whose first element has
`prev = p` and whose last element has `next = INVALID`. -/
def DL (links : Array TaskLink) : Nat → List Nat → Prop
  | _, [] => True
  | p, a :: t => links[a]? = some ⟨p, t.head?.getD INVALID⟩ ∧ DL links a t

/-- Frame: `DL` only looks at the links of the list's own slots. -/
theorem DL.frame {links links' : Array TaskLink} :
    ∀ {l : List Nat} {p : Nat}, (∀ j ∈ l, links'[j]? = links[j]?) → DL links p l → DL links' p l
  | [], _, _, _ => trivial
  | a :: t, _, hf, ⟨h1, h2⟩ =>
    ⟨by rw [hf a List.mem_cons_self]; exact h1,
     DL.frame (fun j hj => hf j (List.mem_cons_of_mem _ hj)) h2⟩

/-- Every element's link, by position. -/
theorem DL.get {links : Array TaskLink} :
    ∀ {l : List Nat} {p : Nat}, DL links p l → ∀ (k : Nat) (hk : k < l.length),
      links[l[k]]? = some ⟨if k = 0 then p else l[k - 1]?.getD INVALID, l[k + 1]?.getD INVALID⟩
  | a :: t, p, ⟨h1, h2⟩, 0, _ => by
    simp only [List.getElem_cons_zero, if_true, Nat.zero_add, List.getElem?_cons_succ]
    rw [h1]; cases t <;> simp
  | a :: t, p, ⟨h1, h2⟩, k + 1, hk => by
    have := DL.get h2 k (by simpa using hk)
    simp only [List.getElem_cons_succ, Nat.add_one_ne_zero, if_false, Nat.add_sub_cancel,
      List.getElem?_cons_succ]
    rw [this]
    cases k with
    | zero => simp
    | succ k => simp

/-- Appending slot `idx` (dead: both links `INVALID`) behind the last element `z`:
`links[z].next := idx; links[idx].prev := z`. -/
theorem DL.append {links : Array TaskLink} {idx : Nat} (hidx : idx < links.size) :
    ∀ {l : List Nat} {p : Nat} (hne : l ≠ []), DL links p l → l.Nodup → idx ∉ l →
      ∀ (lz : TaskLink), links[l.getLast hne]? = some lz →
      DL ((links.setIfInBounds (l.getLast hne) { lz with next := idx }).setIfInBounds idx
            ⟨l.getLast hne, INVALID⟩) p (l ++ [idx])
  | [a], p, _, ⟨h1, _⟩, _, hni, lz, hlz => by
    have hai : a ≠ idx := fun e => hni (by simp [e])
    simp only [List.getLast_singleton] at hlz ⊢
    rw [h1] at hlz; cases hlz
    have ha : a < links.size := lt_of_getElem?_some h1
    refine ⟨?_, ?_, trivial⟩
    · rw [getElem?_set_ne _ _ (Ne.symm hai), getElem?_set_same _ _ ha]; simp
    · rw [getElem?_set_same _ _ (by simpa using hidx)]; simp
  | a :: b :: t, p, _, ⟨h1, h2⟩, hnd, hni, lz, hlz => by
    have hnd' := List.nodup_cons.mp hnd
    have hai : a ≠ idx := fun e => hni (by simp [e])
    have hlast : (a :: b :: t).getLast (by simp) = (b :: t).getLast (by simp) := by simp
    have haz : (b :: t).getLast (by simp) ≠ a := fun e =>
      hnd'.1 (e ▸ List.getLast_mem _)
    simp only [hlast] at hlz ⊢
    have ih := DL.append hidx (l := b :: t) (p := a) (by simp) h2 hnd'.2
      (fun hm => hni (List.mem_cons_of_mem _ hm)) lz hlz
    refine ⟨?_, ih⟩
    rw [getElem?_set_ne _ _ (Ne.symm hai), getElem?_set_ne _ _ haz]
    simpa using h1

/-- The three link writes of `PlanT::remove(i)`, as a function of the removed slot's own link
`⟨pi, ni⟩`: `links[pi].next := ni` (if `pi` is a slot), `links[ni].prev := pi` (if `ni` is a slot),
`links[i] := {INVALID, INVALID}`. -/
def unlink (links : Array TaskLink) (cap pi ni i : Nat) : Array TaskLink :=
  let l1 := if pi < cap then
      links.setIfInBounds pi { (links[pi]?.getD TaskLink.dflt) with next := ni } else links
  let l2 := if ni < cap then
      l1.setIfInBounds ni { (l1[ni]?.getD TaskLink.dflt) with prev := pi } else l1
  l2.setIfInBounds i TaskLink.dflt

theorem unlink_size (links : Array TaskLink) (cap pi ni i : Nat) :
    (unlink links cap pi ni i).size = links.size := by
  unfold unlink; simp only; split <;> split <;> simp

/-- Pointwise description of `unlink` when `pi`, `ni`, `i` are pairwise distinct. -/
theorem unlink_get (links : Array TaskLink) {cap pi ni i : Nat} (hsz : links.size = cap)
    (hi : i < cap) (h1 : pi ≠ i) (h2 : ni ≠ i) (h3 : pi < cap → pi ≠ ni) (j : Nat) :
    (unlink links cap pi ni i)[j]? =
      if j = i then some TaskLink.dflt
      else if j = pi ∧ pi < cap then some { (links[pi]?.getD TaskLink.dflt) with next := ni }
      else if j = ni ∧ ni < cap then some { (links[ni]?.getD TaskLink.dflt) with prev := pi }
      else links[j]? := by
  unfold unlink
  simp only
  by_cases hji : j = i
  · subst hji
    rw [getElem?_set_same]
    · simp
    · split <;> split <;> simp [hsz, hi]
  · rw [getElem?_set_ne _ _ (Ne.symm hji)]
    simp only [hji, if_false]
    by_cases hp : pi < cap
    · simp only [hp, if_true, and_true]
      have hpn := h3 hp
      by_cases hn : ni < cap
      · simp only [hn, if_true, and_true]
        rw [getElem?_set, getElem?_set_ne _ _ hpn]
        by_cases hjn : j = ni
        · subst hjn
          have : ¬ j = pi := fun e => hpn e.symm
          simp [this, hsz, hn]
        · by_cases hjp : j = pi
          · subst hjp
            simp [Ne.symm hjn, hsz, hp]
          · simp [hjn, Ne.symm hjn, hjp, Ne.symm hjp]
      · simp only [hn, if_false, and_false]
        rw [getElem?_set]
        by_cases hjp : j = pi
        · subst hjp; simp [hsz, hp]
        · simp [hjp, Ne.symm hjp]
    · simp only [hp, if_false, and_false]
      by_cases hn : ni < cap
      · simp only [hn, if_true, and_true]
        rw [getElem?_set]
        by_cases hjn : j = ni
        · subst hjn; simp [hsz, hn]
        · simp [hjn, Ne.symm hjn]
      · simp [hn]

/-- Removing slot `i` from the middle of a doubly linked list. -/
theorem DL.remove {links : Array TaskLink} {cap i : Nat} {post : List Nat}
    (hsz : links.size = cap) (hcapI : cap ≤ INVALID) :
    ∀ {pre : List Nat} {p : Nat}, DL links p (pre ++ i :: post) → (pre ++ i :: post).Nodup →
      p ∉ (pre ++ i :: post) → (∀ j ∈ pre ++ i :: post, j < cap) →
      DL (unlink links cap (pre.getLast?.getD p) (post.head?.getD INVALID) i) p (pre ++ post)
  | [], p, ⟨h1, h2⟩, hnd, hp, hlt => by
    simp only [List.nil_append, List.getLast?_nil, Option.getD_none] at *
    have hnd' := List.nodup_cons.mp hnd
    have hi : i < cap := hlt i List.mem_cons_self
    have hpi : p ≠ i := fun e => hp (by simp [e])
    cases post with
    | nil => trivial
    | cons n post' =>
      obtain ⟨h3, h4⟩ := h2
      have hn : n < cap := hlt n (by simp)
      have hni : n ≠ i := fun e => hnd'.1 (by simp [e])
      have hpn : p ≠ n := fun e => hp (by simp [e])
      have hnd'' := List.nodup_cons.mp hnd'.2
      simp only [List.head?_cons, Option.getD_some]
      have hg := unlink_get links hsz hi hpi hni (fun _ => hpn)
      refine ⟨?_, DL.frame (fun j hj => ?_) h4⟩
      · rw [hg n]
        simp [hni, Ne.symm hpn, hn, h3]
      · have hji : j ≠ i := fun e => hnd'.1 (by simp [← e, hj])
        have hjn : j ≠ n := fun e => hnd''.1 (e ▸ hj)
        have hjp : j ≠ p := fun e => hp (by simp [← e, hj])
        rw [hg j]; simp [hji, hjn, hjp]
  | a :: pre', p, ⟨h1, h2⟩, hnd, hp, hlt => by
    have hnd' := List.nodup_cons.mp hnd
    simp only [List.cons_append] at hnd' hlt hp ⊢
    have ha : a < cap := hlt a List.mem_cons_self
    have hi : i < cap := hlt i (by simp)
    have hai : a ≠ i := fun e => hnd'.1 (by simp [e])
    have hlast : (a :: pre').getLast?.getD p = pre'.getLast?.getD a := by
      cases pre' with
      | nil => simp
      | cons b t =>
        rw [List.getLast?_cons_cons, List.getLast?_eq_some_getLast (by simp)]; simp
    rw [hlast]
    have ih := DL.remove hsz hcapI (pre := pre') (p := a) h2 hnd'.2 hnd'.1
      (fun j hj => hlt j (List.mem_cons_of_mem _ hj))
    refine ⟨?_, ih⟩
    -- the link of `a`
    have hpiI : pre'.getLast?.getD a ≠ i := by
      cases hq : pre'.getLast? with
      | none => simpa using hai
      | some z =>
        have hz : z ∈ pre' := List.mem_of_getLast? hq
        simp only [Option.getD_some]
        intro e
        have := (List.nodup_append.mp hnd'.2).2.2 z hz i List.mem_cons_self
        exact this e
    have hniI : post.head?.getD INVALID ≠ i := by
      cases hq : post.head? with
      | none => simp; omega
      | some n =>
        have hn : n ∈ post := List.mem_of_head? hq
        simp only [Option.getD_some]
        intro e
        have h5 := (List.nodup_append.mp hnd'.2).2.1
        exact (List.nodup_cons.mp h5).1 (e ▸ hn)
    have hpn : pre'.getLast?.getD a < cap → pre'.getLast?.getD a ≠ post.head?.getD INVALID := by
      intro _
      cases hq : post.head? with
      | none => simp; omega
      | some n =>
        have hn : n ∈ post := List.mem_of_head? hq
        simp only [Option.getD_some]
        cases hq' : pre'.getLast? with
        | none =>
          simp only [Option.getD_none]
          intro e; exact hnd'.1 (by simp [e, hn])
        | some z =>
          have hz : z ∈ pre' := List.mem_of_getLast? hq'
          simp only [Option.getD_some]
          exact (List.nodup_append.mp hnd'.2).2.2 z hz n (List.mem_cons_of_mem _ hn)
    rw [unlink_get links hsz hi hpiI hniI hpn a]
    simp only [hai, if_false]
    have han : a ≠ post.head?.getD INVALID := by
      cases hq : post.head? with
      | none => simp; omega
      | some n =>
        have hn : n ∈ post := List.mem_of_head? hq
        simp only [Option.getD_some]
        intro e; exact hnd'.1 (by simp [e, hn])
    cases pre' with
    | nil =>
      have h1' : links[a]? = some ⟨p, i⟩ := h1
      simp [ha, h1']
    | cons b t =>
      have h1' : links[a]? = some ⟨p, b⟩ := h1
      have hab : a ≠ (b :: t).getLast?.getD a := by
        rw [List.getLast?_eq_some_getLast (by simp)]
        simp only [Option.getD_some]
        intro e
        exact hnd'.1 (List.mem_append_left _ (by rw [e]; exact List.getLast_mem _))
      simp only [hab, false_and, if_false, han]
      simpa using h1'

/-! ### Sum of the regions' lengths -/

/-- Point update of the per-region ghost lists. -/
def updL (L : Nat → List Nat) (r : Nat) (l : List Nat) : Nat → List Nat :=
  fun r' => if r' = r then l else L r'

@[simp] theorem updL_same (L : Nat → List Nat) (r : Nat) (l : List Nat) : updL L r l r = l := by
  simp [updL]

theorem updL_ne (L : Nat → List Nat) {r r' : Nat} (l : List Nat) (h : r' ≠ r) :
    updL L r l r' = L r' := by simp [updL, h]

/-- Total number of tasks in the plans of regions `< n`. -/
def sumLen : Nat → (Nat → List Nat) → Nat
  | 0, _ => 0
  | n + 1, L => sumLen n L + (L n).length

theorem sumLen_updL_ge (n : Nat) (L : Nat → List Nat) {r : Nat} (l : List Nat) (h : n ≤ r) :
    sumLen n (updL L r l) = sumLen n L := by
  induction n with
  | zero => rfl
  | succ m ih => simp only [sumLen]; rw [ih (by omega), updL_ne L l (by omega : m ≠ r)]

theorem sumLen_updL (n : Nat) (L : Nat → List Nat) {r : Nat} (l : List Nat) (h : r < n) :
    sumLen n (updL L r l) + (L r).length = sumLen n L + l.length := by
  induction n with
  | zero => omega
  | succ m ih =>
    simp only [sumLen]
    by_cases hm : r = m
    · subst hm
      rw [sumLen_updL_ge r L l (Nat.le_refl _), updL_same]; omega
    · have := ih (by omega)
      rw [updL_ne L l (Ne.symm hm)]; omega

theorem sumLen_nil (n : Nat) : sumLen n (fun _ => []) = 0 := by
  induction n with
  | zero => rfl
  | succ m ih => simp [sumLen, ih]

/-! ### Ghost state and representation invariant -/

/-- Ghost state of plan storage. -/
structure PG where
  g : G
  L : Nat → List Nat

/-- `PlanInv`: representation invariant of plan storage with task capacity `cap` and `nreg`
regions. -/
structure PlanRep (cap nreg : Nat) (pd : PlanData) (pg : PG) : Prop where
  /-- the task pool satisfies its own invariant -/
  pool    : Rep cap pd.tasks pg.g
  lsize   : pd.links.size = cap
  bsize   : pd.bounds.size = nreg
  esize   : pd.planExists.size = nreg
  /-- every region's list is duplicate free … -/
  nodup   : ∀ r, (pg.L r).Nodup
  outside : ∀ r, nreg ≤ r → pg.L r = []
  /-- … consists of live pool slots … -/
  live    : ∀ r i, i ∈ pg.L r → ∃ x, pg.g.live i = some x
  /-- … the lists are pairwise disjoint … -/
  disj    : ∀ r₁ r₂ i, r₁ ≠ r₂ → i ∈ pg.L r₁ → i ∉ pg.L r₂
  /-- … and together cover all live slots -/
  cover   : ∀ i x, pg.g.live i = some x → ∃ r, i ∈ pg.L r
  /-- lengths add up to the number of stored tasks -/
  total   : sumLen nreg pg.L = pd.tasks.count
  /-- `taskBounds[r] = {first, last}` of the list (`INVALID` when empty) -/
  bnd     : ∀ r, r < nreg →
              pd.bounds[r]? = some ⟨(pg.L r).head?.getD INVALID, (pg.L r).getLast?.getD INVALID⟩
  /-- `taskLinks` links each list both ways, `INVALID`-terminated at both ends -/
  dl      : ∀ r, DL pd.links INVALID (pg.L r)
  /-- slots that hold no task have both links `INVALID` -/
  dead    : ∀ i, i < cap → pg.g.live i = none → pd.links[i]? = some TaskLink.dflt
  /-- `planExists[r]` is set whenever region `r`'s list is non-empty (it is set by every accepted
  `append` and reset only by `PlanDataT::clear()`, never by `remove`/`clear` of a plan) -/
  pexists : ∀ r, r < nreg → pg.L r ≠ [] → pd.planExists[r]? = some true

namespace PlanRep
variable {cap nreg : Nat} {pd : PlanData} {pg : PG}

theorem mem_lt (h : PlanRep cap nreg pd pg) {r i : Nat} (hi : i ∈ pg.L r) : i < cap := by
  obtain ⟨x, hx⟩ := h.live r i hi
  exact (h.pool.bound i x hx).1

theorem cap_eq (h : PlanRep cap nreg pd pg) : pd.cap = cap := h.pool.size

end PlanRep

/-- The tasks of region `r` according to the ghost state. -/
def absG (pg : PG) (r : Nat) : List Item := (pg.L r).filterMap pg.g.live

/-! ### Walking a list -/

theorem walk_DL {pd : PlanData} {cap : Nat} (hcap : pd.cap = cap) (hcapI : cap ≤ INVALID) :
    ∀ {l : List Nat} {p : Nat} (fuel : Nat), DL pd.links p l → (∀ j ∈ l, j < cap) →
      l.length < fuel → pd.walk fuel (l.head?.getD INVALID) = l
  | [], _, fuel, _, _, _ => by
    cases fuel with
    | zero => rfl
    | succ f => simp [PlanData.walk, hcap]; omega
  | a :: t, _, fuel + 1, ⟨h1, h2⟩, hlt, hf => by
    have ha : a < cap := hlt a List.mem_cons_self
    simp only [List.head?_cons, Option.getD_some, PlanData.walk, hcap, ha, if_true, h1]
    rw [walk_DL hcap hcapI fuel h2 (fun j hj => hlt j (List.mem_cons_of_mem _ hj))
      (by simp at hf; omega)]

end Hfsm.Model
