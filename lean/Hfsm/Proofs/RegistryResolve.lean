/-
Resolution establishes `Res`: after `request` / `fwdRequest` / the `report*` passes every composite
region of the sub-tree carries a valid `requested` prong, recursively — PROVIDED the model met no
contract violation (`err = none`), i.e. `select()` answered a prong in range on a headed region, the
generator stream was not exhausted, the weighted draw selected something (positive top-rank sum),
`rank()/utility()` returned values.
-/
import Hfsm.Proofs.RegistryForward
import Hfsm.Proofs.RegistryLife
import Hfsm.Proofs.WorldExtDispatch

set_option linter.unusedSimpArgs false
set_option linter.unusedVariables false

namespace Hfsm

/-- from `h : X.err = none` conclude `Y.err = none` for a world `Y` that `X` was computed from -/
macro "err_back " h:term : tactic => `(tactic| (refine World.Ext.err (w' := _) ?_ $h; ext_tac))

theorem Subs.resAt_of_resAll : (s : Subs) → (i : Nat) → s.ResAll → i < s.len → s.ResAt i
  | .nil, _, _, h => by simp [Subs.len] at h
  | .cons _ _ _, 0, h, _ => by simp only [Subs.ResAll] at h; exact h.1
  | .cons _ _ r, i+1, h, hi => by
      simp only [Subs.ResAll] at h
      simp only [Subs.len] at hi
      exact Subs.resAt_of_resAll r i h.2 (by omega)

variable {U : Type} [UtilArith U]

theorem treeFold_mem {α : Type} (f : α → α → α) (hf : ∀ a b, f a b = a ∨ f a b = b) (d : α) :
    (n : Nat) → (l : List α) → l ≠ [] → treeFold f d n l ∈ l := by
  intro n l
  fun_induction treeFold f d n l with
  | case1 => intro h; exact absurd rfl h
  | case2 => intro _; simp
  | case3 => intro _; simp
  | case4 fuel l h1 h2 k ih1 ih2 =>
    intro _
    have hl : 2 ≤ l.length := by
      match l, h1, h2 with
      | [], h1, _ => exact (h1 rfl).elim
      | [a], _, h2 => exact (h2 a rfl).elim
      | _ :: _ :: _, _, _ => simp
    have hk : 0 < k ∧ k < l.length := by
      show 0 < l.length / 2 ∧ l.length / 2 < l.length
      omega
    have m1 := ih1 (by
      intro e
      have h3 : (List.take k l).length = 0 := by rw [e]; rfl
      rw [List.length_take] at h3; omega)
    have m2 := ih2 (by
      intro e
      have h3 : (List.drop k l).length = 0 := by rw [e]; rfl
      rw [List.length_drop] at h3; omega)
    rcases hf (treeFold f d fuel (List.take k l)) (treeFold f d fuel (List.drop k l)) with e | e
    · rw [e]; exact List.mem_of_mem_take m1
    · rw [e]; exact List.mem_of_mem_drop m2


theorem argMax_lt (us : List U) (i : Nat) (u : U) (h : argMax us = some (i, u)) : i < us.length := by
  unfold argMax at h
  cases us with
  | nil => simp at h
  | cons u0 rest =>
    simp only [Option.some.injEq] at h
    have hm := treeFold_mem (fun (l r : Nat × U) => if UtilArith.le r.2 l.2 then l else r)
      (by intro a b; by_cases c : UtilArith.le b.2 a.2 = true <;> simp [c]) (0, u0)
      ((List.map (fun x => (x.2, x.1)) (u0 :: rest).zipIdx).length)
      (List.map (fun x => (x.2, x.1)) (u0 :: rest).zipIdx) (by simp)
    rw [h] at hm
    simp only [List.mem_map] at hm
    obtain ⟨⟨v, j⟩, hmem, he⟩ := hm
    simp only [Prod.mk.injEq] at he
    have := List.mem_zipIdx hmem
    omega

namespace World

theorem resolveRandom_go_spec (top : Int) : (us : List U) → (rks : List Int) → (i : Nat) → (c : U) →
    (last : Option Nat) → (j : Nat) → resolveRandom.go top us rks i c last = some j →
    last = some j ∨ (i ≤ j ∧ j - i < us.length ∧ rks[j - i]? = some top)
  | [], _, _, _, _, _, h => by simp [resolveRandom.go] at h; exact .inl h
  | _ :: _, [], _, _, _, _, h => by simp [resolveRandom.go] at h; exact .inl h
  | u :: us, rk :: rks, i, c, last, j, h => by
      simp only [resolveRandom.go] at h
      split at h
      · next hrk =>
        split at h
        · rcases resolveRandom_go_spec top us rks (i+1) _ _ j h with e | ⟨h1, h2, h3⟩
          · split at e
            · simp only [Option.some.injEq] at e
              subst e
              exact .inr ⟨Nat.le_refl _, by simp, by simp [hrk]⟩
            · exact .inl e
          · refine .inr ⟨by omega, by simp only [List.length_cons]; omega, ?_⟩
            have : j - i = (j - (i+1)) + 1 := by omega
            rw [this, List.getElem?_cons_succ]; exact h3
        · simp only [Option.some.injEq] at h
          subst h
          exact .inr ⟨Nat.le_refl _, by simp, by simp [hrk]⟩
      · rcases resolveRandom_go_spec top us rks (i+1) _ _ j h with e | ⟨h1, h2, h3⟩
        · exact .inl e
        · refine .inr ⟨by omega, by simp only [List.length_cons]; omega, ?_⟩
          have : j - i = (j - (i+1)) + 1 := by omega
          rw [this, List.getElem?_cons_succ]; exact h3

/-- The prong chosen by the weighted draw is a sub-state of top rank. -/
theorem resolveRandom_some (w : World U) (hid : Nat) (us : List U) (sum : U) (rks : List Int) (top : Int) (j : Nat)
    (h : (w.resolveRandom hid us sum rks top).2 = some j) : j < us.length ∧ rks[j]? = some top := by
  unfold resolveRandom at h
  split at h
  · simp at h
  · dsimp only at h
    split at h
    · next i hgo =>
      simp only [Option.some.injEq] at h
      subst h
      rcases resolveRandom_go_spec top us rks 0 _ none i hgo with e | ⟨_, h2, h3⟩
      · simp at e
      · exact ⟨by simpa using h2, by simpa using h3⟩
    · simp at h

/-- Without a recorded violation the draw selected something. -/
theorem resolveRandom_isSome (w : World U) (hid : Nat) (us : List U) (sum : U) (rks : List Int) (top : Int) :
    (w.resolveRandom hid us sum rks top).1.err = none → ∃ j, (w.resolveRandom hid us sum rks top).2 = some j := by
  unfold resolveRandom
  split
  · intro h; exact absurd h (fail'_errX _ _)
  · dsimp only
    split
    · intro _; exact ⟨_, rfl⟩
    · intro h; exact absurd h (fail'_errX _ _)

end World

theorem Subs.reportRankAll_length : (s : Subs) → (w : World U) → (s.reportRankAll w).2.length = s.len
  | .nil, _ => rfl
  | .cons _ n r, w => by
      simp only [Subs.reportRankAll, List.length_cons, Subs.len, Subs.reportRankAll_length r]

/-! ### the report passes resolve everything they visit -/

theorem Subs.len_congr {s s' : Subs} {a r m : Bool} (h : s'.viewAll a r m = s.viewAll a r m) : s'.len = s.len := by
  rw [← Subs.viewAll_len a r m s', ← Subs.viewAll_len a r m s, h]

theorem Subs.reportChangeAll_len (s : Subs) (w : World U) : (s.reportChangeAll w).1.len = s.len :=
  Subs.len_congr (Subs.reportChangeAll_view true true s w)
theorem Subs.reportChangeTop_len (s : Subs) (rks : List Int) (top : Int) (w : World U) :
    (s.reportChangeTop rks top w).1.len = s.len :=
  Subs.len_congr (Subs.reportChangeTop_view true true s rks top w)

mutual
theorem Node.reportChange_res : (n : Node) → (w : World U) → (n.reportChange w).2.1.err = none → (n.reportChange w).1.Res
  | .leaf id inj, w => by intro _; simp [Node.reportChange, Node.Res]
  | .compo id rid inj hd st a r q m s, w => by
      have ih1 := Subs.reportChangeAt_res s
      have ih2 := Subs.reportChangeAll_res s
      have ih3 := Subs.reportChangeTop_res s
      cases st
      · simp only [Node.reportChange, Node.Res]; exact ih1 _ _
      · simp only [Node.reportChange, Node.Res]; exact ih1 _ _
      · simp only [Node.reportChange, Node.Res]; exact ih1 _ _
      · simp only [Node.reportChange]
        split
        · next i u heq =>
          intro h
          simp only [Node.Res]
          have h2 : (s.reportChangeAll (w.headUtility id inj hd).1).2.1.err = none := by err_back h
          obtain ⟨hall, hlen⟩ := ih2 _ h2
          refine Subs.resAt_of_resAll _ i hall ?_
          have := argMax_lt _ _ _ heq
          rw [hlen] at this
          rw [Subs.reportChangeAll_len]; exact this
        · intro h; exact absurd h (World.fail'_errX _ _)
      · simp only [Node.reportChange]
        intro h
        simp only [Node.Res]
        obtain ⟨j, hj⟩ := World.resolveRandom_isSome _ _ _ _ _ _ h
        have hs := World.resolveRandom_some _ _ _ _ _ _ _ hj
        rw [hj]
        simp only
        have h2 : (s.reportChangeTop (s.reportRankAll (w.headUtility id inj hd).1).2
            (topRank (s.reportRankAll (w.headUtility id inj hd).1).2) (s.reportRankAll (w.headUtility id inj hd).1).1).2.1.err = none := by
          err_back h
        obtain ⟨htop, hlen⟩ := ih3 _ _ _ h2
        exact htop j hs.2 (by rw [← hlen]; exact hs.1)
  | .ortho id rid inj hd s, w => by
      have ih2 := Subs.reportChangeAll_res s
      simp only [Node.reportChange, Node.Res]
      intro h
      have h2 : (s.reportChangeAll (w.headUtility id inj hd).1).2.1.err = none := by err_back h
      exact (ih2 _ h2).1
theorem Subs.reportChangeAt_res : (s : Subs) → (i : Nat) → (w : World U) →
    (s.reportChangeAt i w).2.1.err = none → (s.reportChangeAt i w).1.ResAt i
  | .nil, _, w => by simp only [Subs.reportChangeAt]; intro h; exact absurd h (World.fail'_errX _ _)
  | .cons b n r, 0, w => by simp only [Subs.reportChangeAt, Subs.ResAt]; exact Node.reportChange_res n w
  | .cons b n r, i+1, w => by simp only [Subs.reportChangeAt, Subs.ResAt]; exact Subs.reportChangeAt_res r i w
theorem Subs.reportChangeAll_res : (s : Subs) → (w : World U) →
    (s.reportChangeAll w).2.1.err = none → (s.reportChangeAll w).1.ResAll ∧ (s.reportChangeAll w).2.2.length = s.len
  | .nil, w => by intro _; simp [Subs.reportChangeAll, Subs.ResAll, Subs.len]
  | .cons b n r, w => by
      simp only [Subs.reportChangeAll, Subs.ResAll, List.length_cons, Subs.len]
      intro h
      have h1 : (n.reportChange w).2.1.err = none := by err_back h
      have := Subs.reportChangeAll_res r _ h
      exact ⟨⟨Node.reportChange_res n w h1, this.1⟩, by rw [this.2]⟩
theorem Subs.reportChangeTop_res : (s : Subs) → (rks : List Int) → (top : Int) → (w : World U) →
    (s.reportChangeTop rks top w).2.1.err = none →
    (∀ j, rks[j]? = some top → j < s.len → (s.reportChangeTop rks top w).1.ResAt j) ∧
      (s.reportChangeTop rks top w).2.2.length = s.len
  | .nil, _, _, w => by intro _; simp [Subs.reportChangeTop, Subs.len]
  | .cons b n r, rks, top, w => by
      simp only [Subs.reportChangeTop]
      split
      · next hhd =>
        simp only [List.length_cons, Subs.len]
        intro h
        have h1 : (n.reportChange w).2.1.err = none := by err_back h
        have ih := Subs.reportChangeTop_res r rks.tail top _ h
        refine ⟨?_, by rw [ih.2]⟩
        intro j hj hlt
        cases j with
        | zero => simp only [Subs.ResAt]; exact Node.reportChange_res n w h1
        | succ j =>
          simp only [Subs.ResAt]
          refine ih.1 j ?_ (by omega)
          cases rks with
          | nil => simp at hj
          | cons _ _ => simpa using hj
      · next hhd =>
        simp only [List.length_cons, Subs.len]
        intro h
        have ih := Subs.reportChangeTop_res r rks.tail top _ h
        refine ⟨?_, by rw [ih.2]⟩
        intro j hj hlt
        cases j with
        | zero =>
          exfalso; apply hhd
          cases rks with
          | nil => simp at hj
          | cons x _ => simpa using hj
        | succ j =>
          simp only [Subs.ResAt]
          refine ih.1 j ?_ (by omega)
          cases rks with
          | nil => simp at hj
          | cons _ _ => simpa using hj
end

theorem Subs.reportUtilizeAll_len (s : Subs) (w : World U) : (s.reportUtilizeAll w).1.len = s.len :=
  Subs.len_congr (Subs.reportUtilizeAll_view true true s w)

mutual
theorem Node.reportUtilize_res : (n : Node) → (w : World U) → (n.reportUtilize w).2.1.err = none → (n.reportUtilize w).1.Res
  | .leaf id inj, w => by intro _; simp [Node.reportUtilize, Node.Res]
  | .compo id rid inj hd st a r q m s, w => by
      have ih2 := Subs.reportUtilizeAll_res s
      simp only [Node.reportUtilize]
      split
      · next i u heq =>
        intro h
        simp only [Node.Res]
        have h2 : (s.reportUtilizeAll (w.headUtility id inj hd).1).2.1.err = none := by err_back h
        obtain ⟨hall, hlen⟩ := ih2 _ h2
        refine Subs.resAt_of_resAll _ i hall ?_
        have := argMax_lt _ _ _ heq
        rw [hlen] at this
        rw [Subs.reportUtilizeAll_len]; exact this
      · intro h; exact absurd h (World.fail'_errX _ _)
  | .ortho id rid inj hd s, w => by
      have ih2 := Subs.reportUtilizeAll_res s
      simp only [Node.reportUtilize, Node.Res]
      intro h
      have h2 : (s.reportUtilizeAll (w.headUtility id inj hd).1).2.1.err = none := by err_back h
      exact (ih2 _ h2).1
theorem Subs.reportUtilizeAll_res : (s : Subs) → (w : World U) →
    (s.reportUtilizeAll w).2.1.err = none → (s.reportUtilizeAll w).1.ResAll ∧ (s.reportUtilizeAll w).2.2.length = s.len
  | .nil, w => by intro _; simp [Subs.reportUtilizeAll, Subs.ResAll, Subs.len]
  | .cons b n r, w => by
      simp only [Subs.reportUtilizeAll, Subs.ResAll, List.length_cons, Subs.len]
      intro h
      have h1 : (n.reportUtilize w).2.1.err = none := by err_back h
      have := Subs.reportUtilizeAll_res r _ h
      exact ⟨⟨Node.reportUtilize_res n w h1, this.1⟩, by rw [this.2]⟩
end

theorem Subs.reportRandomizeTop_len (s : Subs) (rks : List Int) (top : Int) (w : World U) :
    (s.reportRandomizeTop rks top w).1.len = s.len :=
  Subs.len_congr (Subs.reportRandomizeTop_view true true s rks top w)

mutual
theorem Node.reportRandomize_res : (n : Node) → (w : World U) → (n.reportRandomize w).2.1.err = none → (n.reportRandomize w).1.Res
  | .leaf id inj, w => by intro _; simp [Node.reportRandomize, Node.Res]
  | .compo id rid inj hd st a r q m s, w => by
      have ih3 := Subs.reportRandomizeTop_res s
      simp only [Node.reportRandomize]
      intro h
      simp only [Node.Res]
      obtain ⟨j, hj⟩ := World.resolveRandom_isSome _ _ _ _ _ _ h
      have hs := World.resolveRandom_some _ _ _ _ _ _ _ hj
      rw [hj]
      simp only
      have h2 : (s.reportRandomizeTop (s.reportRankAll (w.headUtilityWrap id inj hd).1).2
          (topRank (s.reportRankAll (w.headUtilityWrap id inj hd).1).2) (s.reportRankAll (w.headUtilityWrap id inj hd).1).1).2.1.err = none := by
        err_back h
      obtain ⟨htop, hlen⟩ := ih3 _ _ _ h2
      exact htop j hs.2 (by rw [← hlen]; exact hs.1)
  | .ortho id rid inj hd s, w => by
      have ih2 := Subs.reportRandomizeAll_res s
      simp only [Node.reportRandomize, Node.Res]
      intro h
      have h2 : (s.reportRandomizeAll (w.headUtilityWrap id inj hd).1).2.1.err = none := by err_back h
      exact ih2 _ h2
theorem Subs.reportRandomizeAll_res : (s : Subs) → (w : World U) →
    (s.reportRandomizeAll w).2.1.err = none → (s.reportRandomizeAll w).1.ResAll
  | .nil, w => by intro _; simp [Subs.reportRandomizeAll, Subs.ResAll]
  | .cons b n r, w => by
      simp only [Subs.reportRandomizeAll, Subs.ResAll]
      intro h
      have h1 : (n.reportRandomize w).2.1.err = none := by err_back h
      exact ⟨Node.reportRandomize_res n w h1, Subs.reportRandomizeAll_res r _ h⟩
theorem Subs.reportRandomizeTop_res : (s : Subs) → (rks : List Int) → (top : Int) → (w : World U) →
    (s.reportRandomizeTop rks top w).2.1.err = none →
    (∀ j, rks[j]? = some top → j < s.len → (s.reportRandomizeTop rks top w).1.ResAt j) ∧
      (s.reportRandomizeTop rks top w).2.2.length = s.len
  | .nil, _, _, w => by intro _; simp [Subs.reportRandomizeTop, Subs.len]
  | .cons b n r, rks, top, w => by
      simp only [Subs.reportRandomizeTop]
      split
      · next hhd =>
        simp only [List.length_cons, Subs.len]
        intro h
        have h1 : (n.reportRandomize w).2.1.err = none := by err_back h
        have ih := Subs.reportRandomizeTop_res r rks.tail top _ h
        refine ⟨?_, by rw [ih.2]⟩
        intro j hj hlt
        cases j with
        | zero => simp only [Subs.ResAt]; exact Node.reportRandomize_res n w h1
        | succ j =>
          simp only [Subs.ResAt]
          refine ih.1 j ?_ (by omega)
          cases rks with
          | nil => simp at hj
          | cons _ _ => simpa using hj
      · next hhd =>
        simp only [List.length_cons, Subs.len]
        intro h
        have ih := Subs.reportRandomizeTop_res r rks.tail top _ h
        refine ⟨?_, by rw [ih.2]⟩
        intro j hj hlt
        cases j with
        | zero =>
          exfalso; apply hhd
          cases rks with
          | nil => simp at hj
          | cons x _ => simpa using hj
        | succ j =>
          simp only [Subs.ResAt]
          refine ih.1 j ?_ (by omega)
          cases rks with
          | nil => simp at hj
          | cons _ _ => simpa using hj
end

/-! ### `request` and `fwdRequest` establish `Res` -/

mutual
theorem Node.request_res : (n : Node) → (rq : Req) → (w : World U) →
    (n.request rq w).2.err = none → (n.request rq w).1.Res
  | .leaf id inj, rq, w => by intro _; simp [Node.request, Node.Res]
  | .ortho id rid inj hd s, rq, w => by
      simp only [Node.request, Node.Res]; exact Subs.requestAll_res s rq _
  | .compo id rid inj hd st a r q m s, rq, w => by
      have ih1 := Subs.requestAt_res s
      simp only [Node.request]
      split
      · simp only [Node.Res]; exact ih1 _ _ _
      · simp only [Node.Res]; exact ih1 _ _ _
      · -- select
        split
        · next i hsel =>
          split
          · simp only [Node.Res]; exact ih1 _ _ _
          · intro h; exact absurd h (World.fail'_errX _ _)
        · intro h; exact absurd h (World.fail'_errX _ _)
      · -- utilize
        by_cases c : rq.kind = .change
        · simp only [c, if_true]
          split
          · next i u heq =>
            intro h
            simp only [Node.Res]
            have h2 : (s.reportChangeAll (w.pin id rq.index)).2.1.err = none := by err_back h
            obtain ⟨hall, hlen⟩ := Subs.reportChangeAll_res s _ h2
            refine Subs.resAt_of_resAll _ i hall ?_
            have := argMax_lt _ _ _ heq
            rw [hlen] at this
            rw [Subs.reportChangeAll_len]; exact this
          · intro h; exact absurd h (World.fail'_errX _ _)
        · simp only [c, if_false]
          split
          · next i u heq =>
            intro h
            simp only [Node.Res]
            have h2 : (s.reportUtilizeAll (w.pin id rq.index)).2.1.err = none := by err_back h
            obtain ⟨hall, hlen⟩ := Subs.reportUtilizeAll_res s _ h2
            refine Subs.resAt_of_resAll _ i hall ?_
            have := argMax_lt _ _ _ heq
            rw [hlen] at this
            rw [Subs.reportUtilizeAll_len]; exact this
          · intro h; exact absurd h (World.fail'_errX _ _)
      · -- randomize
        by_cases c : rq.kind = .change
        · simp only [c, if_true]
          intro h
          simp only [Node.Res]
          obtain ⟨j, hj⟩ := World.resolveRandom_isSome _ _ _ _ _ _ h
          have hs := World.resolveRandom_some _ _ _ _ _ _ _ hj
          rw [hj]
          simp only
          have h2 : (s.reportChangeTop (s.reportRankAll (w.pin id rq.index)).2
              (topRank (s.reportRankAll (w.pin id rq.index)).2) (s.reportRankAll (w.pin id rq.index)).1).2.1.err = none := by
            err_back h
          obtain ⟨htop, hlen⟩ := Subs.reportChangeTop_res s _ _ _ h2
          exact htop j hs.2 (by rw [← hlen]; exact hs.1)
        · simp only [c, if_false]
          intro h
          simp only [Node.Res]
          obtain ⟨j, hj⟩ := World.resolveRandom_isSome _ _ _ _ _ _ h
          have hs := World.resolveRandom_some _ _ _ _ _ _ _ hj
          rw [hj]
          simp only
          have h2 : (s.reportRandomizeTop (s.reportRankAll (w.pin id rq.index)).2
              (topRank (s.reportRankAll (w.pin id rq.index)).2) (s.reportRankAll (w.pin id rq.index)).1).2.1.err = none := by
            err_back h
          obtain ⟨htop, hlen⟩ := Subs.reportRandomizeTop_res s _ _ _ h2
          exact htop j hs.2 (by rw [← hlen]; exact hs.1)
      · intro h; exact absurd h (World.fail'_errX _ _)
      · intro h; exact absurd h (World.fail'_errX _ _)
theorem Subs.requestAt_res : (s : Subs) → (i : Nat) → (rq : Req) → (w : World U) →
    (s.requestAt i rq w).2.err = none → (s.requestAt i rq w).1.ResAt i
  | .nil, _, _, w => by simp only [Subs.requestAt]; intro h; exact absurd h (World.fail'_errX _ _)
  | .cons b n r, 0, rq, w => by simp only [Subs.requestAt, Subs.ResAt]; exact Node.request_res n rq w
  | .cons b n r, i+1, rq, w => by simp only [Subs.requestAt, Subs.ResAt]; exact Subs.requestAt_res r i rq w
theorem Subs.requestAll_res : (s : Subs) → (rq : Req) → (w : World U) →
    (s.requestAll rq w).2.err = none → (s.requestAll rq w).1.ResAll
  | .nil, _, w => by intro _; simp [Subs.requestAll, Subs.ResAll]
  | .cons b n r, rq, w => by
      simp only [Subs.requestAll, Subs.ResAll]
      intro h
      have h1 : (n.request rq w).2.err = none := by err_back h
      exact ⟨Node.request_res n rq w h1, Subs.requestAll_res r rq _ h⟩
end

mutual
theorem Node.fwdRequest_res : (n : Node) → (rq : Req) → (w : World U) →
    (n.fwdRequest rq w).2.err = none → (n.fwdRequest rq w).1.Res
  | .leaf id inj, rq, w => by intro _; simp [Node.fwdRequest, Node.Res]
  | .compo id rid inj hd st a r q m s, rq, w => by
      simp only [Node.fwdRequest]
      split
      · simp only [Node.Res]; exact Subs.fwdRequestAt_res s _ rq _
      · exact Node.request_res _ rq _
  | .ortho id rid inj hd s, rq, w => by
      simp only [Node.fwdRequest]
      split
      · simp only [Node.Res]; exact Subs.fwdRequestAll_res s rq _
      · exact Node.request_res _ rq _
theorem Subs.fwdRequestAt_res : (s : Subs) → (i : Nat) → (rq : Req) → (w : World U) →
    (s.fwdRequestAt i rq w).2.err = none → (s.fwdRequestAt i rq w).1.ResAt i
  | .nil, _, _, w => by simp only [Subs.fwdRequestAt]; intro h; exact absurd h (World.fail'_errX _ _)
  | .cons b n r, 0, rq, w => by simp only [Subs.fwdRequestAt, Subs.ResAt]; exact Node.fwdRequest_res n rq w
  | .cons b n r, i+1, rq, w => by simp only [Subs.fwdRequestAt, Subs.ResAt]; exact Subs.fwdRequestAt_res r i rq w
theorem Subs.fwdRequestAll_res : (s : Subs) → (rq : Req) → (w : World U) →
    (s.fwdRequestAll rq w).2.err = none → (s.fwdRequestAll rq w).1.ResAll
  | .nil, _, w => by intro _; simp [Subs.fwdRequestAll, Subs.ResAll]
  | .cons b n r, rq, w => by
      simp only [Subs.fwdRequestAll, Subs.ResAll]
      intro h
      have h1 : (n.fwdRequest rq w).2.err = none := by err_back h
      exact ⟨Node.fwdRequest_res n rq w h1, Subs.fwdRequestAll_res r rq _ h⟩
end

end Hfsm
