/-
World-level lifecycle theorems: the tracker invariant `LifeOK` through the lifecycle traversals, the
periodic passes and the exit guards; `finalExit` closes everything.  Used by Props/C03.lean.
-/
import Hfsm.Proofs.Lifecycle

namespace Hfsm
variable {U : Type}

theorem slotOrder_le (inj : Nat) (m : Method) (s : Nat) (h : s ∈ slotOrder inj m) : s ≤ inj := by
  cases m <;> simp [slotOrder, List.mem_range] at h <;> omega

theorem hasKey_of_mem_stateItems (m : Method) (s : St) (it : CbItem) (h : it ∈ stateItems m s) :
    hasKey [s] it.key = true := by
  obtain ⟨id, inj, hd⟩ := s
  unfold stateItems at h
  split at h
  · rename_i hh
    simp only at hh
    simp only [List.mem_map] at h
    obtain ⟨sl, hsl, rfl⟩ := h
    have := slotOrder_le inj m sl hsl
    simp [hasKey, CbItem.key, hh, this]
  · simp at h

theorem hasKey_of_mem_expand (m : Method) (l : List St) (it : CbItem) (h : it ∈ expand m l) :
    hasKey l it.key = true := by
  simp only [expand, List.mem_flatMap] at h
  obtain ⟨s, hs, hit⟩ := h
  have := hasKey_of_mem_stateItems m s it hit
  simp only [hasKey, List.any_cons, List.any_nil, Bool.or_false] at this
  simp only [hasKey, List.any_eq_true]
  exact ⟨s, hs, this⟩

theorem stateItems_method (m : Method) (s : St) (it : CbItem) (h : it ∈ stateItems m s) : it.2.1 = m := by
  unfold stateItems at h
  split at h
  · simp only [List.mem_map] at h
    obtain ⟨_, _, rfl⟩ := h
    rfl
  · simp at h

theorem expand_method (m : Method) (l : List St) (it : CbItem) (h : it ∈ expand m l) : it.2.1 = m := by
  simp only [expand, List.mem_flatMap] at h
  obtain ⟨s, _, hit⟩ := h
  exact stateItems_method m s it hit

/-- a script delivered on a decision stream that is long enough -/
theorem World.cbSeq_of_run {w w' : World U} {sc : Script} (h : w'.key = DKey.run sc w.key)
    (hds : (scriptItems sc).length ≤ w.ds.length) : w'.cbSeq = w.cbSeq ++ scriptItems sc := by
  have := congrArg DKey.seq h
  rw [(DKey.run_seq sc w.key).1] at this
  simpa [List.take_of_length_le hds] using this

theorem World.cbSeq_of_all {w w' : World U} {m : Method} {l : List St} (h : w'.key = DKey.all m l w.key)
    (hds : (expand m l).length ≤ w.ds.length) : w'.cbSeq = w.cbSeq ++ expand m l := by
  rw [← DKey.run_map] at h
  have := World.cbSeq_of_run h (by rw [scriptItems_map]; exact hds)
  rwa [scriptItems_map] at this

/-! ### lifecycle traversals -/

theorem Node.enter_life (n : Node) (k : Nat) (w : World U) (opn : Key → Bool) (hR : n.Res) (hI : n.IdsFrom k)
    (hOK : LifeOK opn w.cbSeq) (hcl : ∀ x, hasKey n.reqPre x = true → opn x = false)
    (hds : (expand .enter n.reqPre).length ≤ w.ds.length) :
    LifeOK (fun x => opn x || hasKey (n.enter w).1.activePre x) (n.enter w).2.cbSeq := by
  have h := Node.enter_key n w hR
  rw [World.cbSeq_of_all h.1 hds, h.2]
  exact hOK.enter n.reqPre (Node.reqPre_nodup n k hI) hcl

theorem Node.exit_life (n : Node) (k : Nat) (w : World U) (opn : Key → Bool) (hA : n.Act) (hI : n.IdsFrom k)
    (hOK : LifeOK opn w.cbSeq) (hop : ∀ x, hasKey n.activePre x = true → opn x = true)
    (hds : (expand .exit n.activePost).length ≤ w.ds.length) :
    LifeOK (fun x => opn x && !hasKey n.activePre x) (n.exit w).2.cbSeq := by
  rw [World.cbSeq_of_all (Node.exit_key n w hA) hds]
  have := hOK.exit n.activePost (Node.activePost_nodup n k hI)
    (fun x hx => hop x (by rwa [Node.hasKey_activePost] at hx))
  simpa only [Node.hasKey_activePost] using this

theorem Node.reenter_life (n : Node) (k : Nat) (w : World U) (hA : n.Act) (hR : n.Res) (hI : n.IdsFrom k)
    (hOK : LifeOK (hasKey n.activePre) w.cbSeq)
    (hds : (scriptItems n.reenterScript).length ≤ w.ds.length) :
    LifeOK (hasKey (n.reenter w).1.activePre) (n.reenter w).2.cbSeq := by
  have h := Node.reenter_key n w hA hR
  rw [World.cbSeq_of_run h.1 hds, h.2]
  intro x
  rw [track_append, hOK x]
  exact Node.reenter_track n k hA hR hI x

theorem Node.commit_life (n : Node) (k : Nat) (w : World U) (hA : n.Act) (hC : n.COK) (hI : n.IdsFrom k)
    (hOK : LifeOK (hasKey n.activePre) w.cbSeq)
    (hds : (scriptItems n.commitScript).length ≤ w.ds.length) :
    LifeOK (hasKey (n.commit w).1.activePre) (n.commit w).2.cbSeq := by
  have h := Node.commit_key n w hA hC
  rw [World.cbSeq_of_run h.1 hds, h.2]
  intro x
  rw [track_append, hOK x]
  exact Node.commit_track n k hA hC hI x

/-! ### callbacks that need an entered state -/

/-- callbacks delivered to states of `l` only, with a method that needs (and keeps) the state entered -/
theorem LifeOK.stay_of_grows {l : List St} {m : Method} {w w' : World U} (hm : lifeStep m true = some true)
    (hOK : LifeOK (hasKey l) w.cbSeq) (hg : World.GrowsBy (fun it => it ∈ expand m l) w w') :
    LifeOK (hasKey l) w'.cbSeq := by
  obtain ⟨added, e, p⟩ := hg
  rw [e]
  apply hOK.stay
  intro it hit
  have h1 := hasKey_of_mem_expand m l it (p it hit)
  have h2 := expand_method m l it (p it hit)
  rw [h1, h2, hm]

theorem Node.tick_life (ph : Method) (hm : lifeStep ph true = some true) (n : Node) (w : World U) (hA : n.Act)
    (hOK : LifeOK (hasKey n.activePre) w.cbSeq) : LifeOK (hasKey n.activePre) (n.tick ph w).1.cbSeq := by
  have h := Node.tick_key ph n w hA
  rw [DKey.all_eq] at h
  have e : (n.tick ph w).1.cbSeq = _ := congrArg DKey.seq h
  have hk : hasKey (n.activeList (ph != .postUpdate)) = hasKey n.activePre := by
    funext x
    cases hb : (ph != .postUpdate)
    · rw [Node.activeList_false, Node.hasKey_activePost]
    · rw [Node.activeList_true]
  rw [← hk] at hOK ⊢
  exact hOK.stay_of_grows hm ⟨_, e, fun it hit => List.mem_of_mem_take hit⟩

theorem Node.react_life (ph : Method) (hm : lifeStep ph true = some true) (hf post : Bool) (n : Node) (w : World U)
    (hA : n.Act) (hc : w.consumed = false)
    (hOK : LifeOK (hasKey n.activePre) w.cbSeq) : LifeOK (hasKey n.activePre) (n.react ph hf post w).1.cbSeq := by
  have h := Node.react_key ph hf post n w hA hc
  rw [DKey.untilConsumed_eq _ _ _ hc] at h
  have e : (n.react ph hf post w).1.cbSeq = _ := congrArg DKey.seq h
  have hk : hasKey (n.activeList hf) = hasKey n.activePre := by
    funext x
    cases hf
    · rw [Node.activeList_false, Node.hasKey_activePost]
    · rw [Node.activeList_true]
  rw [← hk] at hOK ⊢
  exact hOK.stay_of_grows hm ⟨_, e, fun it hit => (reactSpec_prefix ph _ w.ds).subset hit⟩

theorem Node.query_life (hf : Bool) (n : Node) (w : World U) (hA : n.Act) (hc : w.consumed = false)
    (hOK : LifeOK (hasKey n.activePre) w.cbSeq) : LifeOK (hasKey n.activePre) (n.query hf w).cbSeq := by
  have h := Node.query_key hf n w hA hc
  rw [DKey.untilConsumed_eq _ _ _ hc] at h
  have e : (n.query hf w).cbSeq = _ := congrArg DKey.seq h
  have hk : hasKey (n.activeList hf) = hasKey n.activePre := by
    funext x
    cases hf
    · rw [Node.activeList_false, Node.hasKey_activePost]
    · rw [Node.activeList_true]
  rw [← hk] at hOK ⊢
  exact hOK.stay_of_grows (m := .query) rfl ⟨_, e, fun it hit => (reactSpec_prefix .query _ w.ds).subset hit⟩

/-! ### exit guards walk the active tree -/

theorem World.g_stateMethod_items {P : CbItem → Prop} {w w1 : World U} (sid inj : Nat) (hd : Bool) (m : Method)
    (hP : ∀ it ∈ stateItems m (sid, inj, hd), P it) (h : World.GrowsBy P w w1) :
    World.GrowsBy P w (w1.stateMethod sid inj hd m) := by
  refine h.trans ?_
  have e := World.key_stateMethod w1 sid inj hd m
  rw [DKey.state_eq] at e
  exact ⟨_, congrArg DKey.seq e, fun it hit => hP it (List.mem_of_mem_take hit)⟩

theorem World.g_guardState_items {P : CbItem → Prop} {w w1 : World U} (sid inj : Nat) (hd : Bool) (m : Method)
    (hP : ∀ it ∈ stateItems m (sid, inj, hd), P it) (h : World.GrowsBy P w w1) :
    World.GrowsBy P w (w1.guardState sid inj hd m).1 := World.g_stateMethod_items sid inj hd m hP h

theorem mem_expand_cons_head (m : Method) (s : St) (l : List St) (it : CbItem) (h : it ∈ stateItems m s) :
    it ∈ expand m (s :: l) := by rw [expand_cons]; exact List.mem_append_left _ h
theorem mem_expand_cons_tail (m : Method) (s : St) (l : List St) (it : CbItem) (h : it ∈ expand m l) :
    it ∈ expand m (s :: l) := by rw [expand_cons]; exact List.mem_append_right _ h

mutual
theorem Node.exitGuard_grows : (n : Node) → (w : World U) → n.Act →
    World.GrowsBy (fun it => it ∈ expand .exitGuard n.activePre) w (n.exitGuard w).1
  | .leaf id inj, w, _ => by
    simp only [Node.exitGuard, Node.activePre]
    exact World.g_guardState_items id inj true .exitGuard
      (fun it hit => mem_expand_cons_head _ _ _ it hit) (World.GrowsBy.refl _)
  | .compo id rid inj h st a r q m s, w, hA => by
    cases a with
    | none => simp [Node.Act] at hA
    | some ai =>
      simp only [Node.Act] at hA
      simp only [Node.exitGuard, Node.activePre]
      apply World.g_popRegion
      have h1 : World.GrowsBy (fun it => it ∈ expand .exitGuard ((id, inj, h) :: s.activePreAt ai)) w
          (s.exitGuardAt ai (w.pushRegion rid id (1 + s.size)).1).1 :=
        (World.GrowsBy.of_seq (w1 := w) rfl (World.GrowsBy.refl w)).trans
          ((Subs.exitGuardAt_grows s ai _ hA).mono (fun it hit => mem_expand_cons_tail _ _ _ it hit))
      split
      · exact World.g_guardState_items id inj h .exitGuard
          (fun it hit => mem_expand_cons_head _ _ _ it hit) h1
      · exact h1
  | .ortho id rid inj h s, w, hA => by
    simp only [Node.Act] at hA
    simp only [Node.exitGuard, Node.activePre]
    apply World.g_popRegion
    have h1 : World.GrowsBy (fun it => it ∈ expand .exitGuard ((id, inj, h) :: s.activePreAll)) w
        (s.exitGuardAll (w.pushRegion rid id (1 + s.size)).1).1 :=
      (World.GrowsBy.of_seq (w1 := w) rfl (World.GrowsBy.refl w)).trans
        ((Subs.exitGuardAll_grows s _ hA).mono (fun it hit => mem_expand_cons_tail _ _ _ it hit))
    split
    · exact World.g_guardState_items id inj h .exitGuard
        (fun it hit => mem_expand_cons_head _ _ _ it hit) h1
    · exact h1
theorem Subs.exitGuardAt_grows : (s : Subs) → (i : Nat) → (w : World U) → s.ActAt i →
    World.GrowsBy (fun it => it ∈ expand .exitGuard (s.activePreAt i)) w (s.exitGuardAt i w).1
  | .nil, _, _, hA => by simp [Subs.ActAt] at hA
  | .cons _ n _, 0, w, hA => by
    simp only [Subs.ActAt] at hA
    simp only [Subs.exitGuardAt, Subs.activePreAt]
    exact Node.exitGuard_grows n w hA.1
  | .cons _ _ r, i+1, w, hA => by
    simp only [Subs.ActAt] at hA
    simp only [Subs.exitGuardAt, Subs.activePreAt]
    exact Subs.exitGuardAt_grows r i w hA.2
theorem Subs.exitGuardAll_grows : (s : Subs) → (w : World U) → s.ActAll →
    World.GrowsBy (fun it => it ∈ expand .exitGuard s.activePreAll) w (s.exitGuardAll w).1
  | .nil, w, _ => by simp only [Subs.exitGuardAll]; exact World.GrowsBy.refl _
  | .cons _ n r, w, hA => by
    simp only [Subs.ActAll] at hA
    simp only [Subs.exitGuardAll, Subs.activePreAll]
    exact ((Node.exitGuard_grows n w hA.1).mono
        (fun it hit => by rw [expand_append]; exact List.mem_append_left _ hit)).trans
      ((Subs.exitGuardAll_grows r _ hA.2).mono
        (fun it hit => by rw [expand_append]; exact List.mem_append_right _ hit))
end

mutual
theorem Node.fwdExitGuard_grows : (n : Node) → (w : World U) → n.Act →
    World.GrowsBy (fun it => it ∈ expand .exitGuard n.activePre) w (n.fwdExitGuard w).1
  | .leaf id inj, w, _ => by
    simp only [Node.fwdExitGuard]
    exact World.GrowsBy.refl _
  | .compo id rid inj h st a r q m s, w, hA => by
    cases a with
    | none => simp [Node.Act] at hA
    | some ai =>
      simp only [Node.Act] at hA
      simp only [Node.fwdExitGuard, Node.activePre]
      apply World.g_popRegion
      refine (World.GrowsBy.of_seq (w1 := w) rfl (World.GrowsBy.refl w)).trans ?_
      split
      · exact (Subs.fwdExitGuardAt_grows s ai _ hA).mono (fun it hit => mem_expand_cons_tail _ _ _ it hit)
      · exact (Subs.exitGuardAt_grows s ai _ hA).mono (fun it hit => mem_expand_cons_tail _ _ _ it hit)
  | .ortho id rid inj h s, w, hA => by
    simp only [Node.Act] at hA
    simp only [Node.fwdExitGuard, Node.activePre]
    apply World.g_popRegion
    refine (World.GrowsBy.of_seq (w1 := w) rfl (World.GrowsBy.refl w)).trans ?_
    split
    · exact (Subs.fwdExitGuardBits_grows s _ hA).mono (fun it hit => mem_expand_cons_tail _ _ _ it hit)
    · exact (Subs.fwdExitGuardAll_grows s _ hA).mono (fun it hit => mem_expand_cons_tail _ _ _ it hit)
theorem Subs.fwdExitGuardAt_grows : (s : Subs) → (i : Nat) → (w : World U) → s.ActAt i →
    World.GrowsBy (fun it => it ∈ expand .exitGuard (s.activePreAt i)) w (s.fwdExitGuardAt i w).1
  | .nil, _, _, hA => by simp [Subs.ActAt] at hA
  | .cons _ n _, 0, w, hA => by
    simp only [Subs.ActAt] at hA
    simp only [Subs.fwdExitGuardAt, Subs.activePreAt]
    exact Node.fwdExitGuard_grows n w hA.1
  | .cons _ _ r, i+1, w, hA => by
    simp only [Subs.ActAt] at hA
    simp only [Subs.fwdExitGuardAt, Subs.activePreAt]
    exact Subs.fwdExitGuardAt_grows r i w hA.2
theorem Subs.fwdExitGuardBits_grows : (s : Subs) → (w : World U) → s.ActAll →
    World.GrowsBy (fun it => it ∈ expand .exitGuard s.activePreAll) w (s.fwdExitGuardBits w).1
  | .nil, w, _ => by simp only [Subs.fwdExitGuardBits]; exact World.GrowsBy.refl _
  | .cons b n r, w, hA => by
    simp only [Subs.ActAll] at hA
    simp only [Subs.fwdExitGuardBits, Subs.activePreAll]
    have h1 : World.GrowsBy (fun it => it ∈ expand .exitGuard (n.activePre ++ r.activePreAll)) w
        (if b = true then n.fwdExitGuard w else (w, true)).1 := by
      split
      · exact (Node.fwdExitGuard_grows n w hA.1).mono
          (fun it hit => by rw [expand_append]; exact List.mem_append_left _ hit)
      · exact World.GrowsBy.refl _
    exact h1.trans ((Subs.fwdExitGuardBits_grows r _ hA.2).mono
      (fun it hit => by rw [expand_append]; exact List.mem_append_right _ hit))
theorem Subs.fwdExitGuardAll_grows : (s : Subs) → (w : World U) → s.ActAll →
    World.GrowsBy (fun it => it ∈ expand .exitGuard s.activePreAll) w (s.fwdExitGuardAll w).1
  | .nil, w, _ => by simp only [Subs.fwdExitGuardAll]; exact World.GrowsBy.refl _
  | .cons _ n r, w, hA => by
    simp only [Subs.ActAll] at hA
    simp only [Subs.fwdExitGuardAll, Subs.activePreAll]
    exact ((Node.fwdExitGuard_grows n w hA.1).mono
        (fun it hit => by rw [expand_append]; exact List.mem_append_left _ hit)).trans
      ((Subs.fwdExitGuardAll_grows r _ hA.2).mono
        (fun it hit => by rw [expand_append]; exact List.mem_append_right _ hit))
end

/-! ### the instance -/

/-- `finalExit` (= `exit()` of a manual instance, destruction of an automatic one) leaves nothing entered -/
theorem Mach.finalExit_closed [UtilArith U] (m : Mach U) (k : Nat) (hA : m.root.Act) (hI : m.root.IdsFrom k)
    (hOK : LifeOK (hasKey m.root.activePre) m.w.cbSeq)
    (hds : (expand .exit m.root.activePost).length ≤ m.w.ds.length) :
    LifeOK (fun _ => false) m.finalExit.w.cbSeq := by
  have h := Node.exit_life m.root k ((m.w.freshControl).snapshot m.root false false) (hasKey m.root.activePre)
    hA hI hOK (fun _ hx => hx) hds
  have e : m.finalExit.w.cbSeq = (m.root.exit ((m.w.freshControl).snapshot m.root false false)).2.cbSeq := by
    unfold Mach.finalExit
    dsimp only
    unfold Mach.updateActivity
    dsimp only
    unfold World.clearTargets
    split <;> rfl
  rw [e]
  intro x
  have := h x
  simpa using this

end Hfsm
