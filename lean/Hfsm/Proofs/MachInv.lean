/-
The machine-level invariant and its preservation by every operation of Model/Machine.lean.

Tree part (Proofs/Wf.lean vocabulary):
  Live n     := Act n ∧ COK n ∧ ResumableOK n       an activated instance between / inside passes
  Dormant n  := Clean n ∧ ResumableOK n             an instance that is not activated
  DRes n     := Clean n ∧ Res n ∧ ResumableOK n     … while its first activation is being resolved
`Live` tolerates request marks in INACTIVE sub-trees (`COK` only constrains the active part); they are
harmless for the well-formedness of the active configuration and do occur (a `replayEnter` that
changes nothing leaves the marks of its initial resolution).  `Settled`/`Idle` of Wf.lean are the
special cases with no marks at all; `Mach.*_settled` below records where they are re-established.

World part: `World.Good base w` — every callback event in the trace that carries an observation
carries `root.observe …` of a tree `root` with the structure of `base` that is `Act` or `Clean`
(so: well formed), and so does the snapshot of the pass in progress.

Each lemma has the hypothesis `(op m).w.err = none`: the model met no contract violation.
-/
import Hfsm.Proofs.RegistrySerial
import Hfsm.Proofs.ApplyStep

set_option linter.unusedSimpArgs false
set_option linter.unusedVariables false
set_option linter.unusedSectionVars false

namespace Hfsm
variable {U : Type} [UtilArith U]

/-! ### tree states -/

structure Node.Live (n : Node) : Prop where
  act : n.Act
  cok : n.COK
  rok : n.ResumableOK

structure Node.Dormant (n : Node) : Prop where
  clean : n.Clean
  rok : n.ResumableOK

structure Node.DRes (n : Node) : Prop where
  clean : n.Clean
  res : n.Res
  rok : n.ResumableOK

/-- same static structure (kinds, ids, widths, strategies) -/
def Node.SameShape (a b : Node) : Prop := a.view false false false = b.view false false false

theorem Node.SameShape.refl (a : Node) : a.SameShape a := rfl
theorem Node.SameShape.trans {a b c : Node} (h1 : a.SameShape b) (h2 : b.SameShape c) : a.SameShape c :=
  Eq.trans h1 h2
theorem Node.SameShape.symm {a b : Node} (h : a.SameShape b) : b.SameShape a := Eq.symm h

theorem Node.SameShape.of_view {a b : Node} {x y z : Bool} (h : a.view x y z = b.view x y z) : a.SameShape b := by
  have := Node.view_mono h false false false
  simp only [Bool.and_false] at this
  exact this

theorem Node.SameShape.ok {a b : Node} (h : a.SameShape b) : a.OK ↔ b.OK := Node.ok_congr h

theorem Node.Settled.live {n : Node} (h : n.Settled) : n.Live :=
  ⟨h.2.1, Node.NoMarks_imp_COK n h.2.2.1, h.2.2.2⟩
theorem Node.Idle.dormant {n : Node} (h : n.Idle) : n.Dormant := ⟨h.2.1, h.2.2.2⟩

/-- views agreeing on activity and resumable marks transport `Act`, `ResumableOK` -/
theorem Node.Live.of_view {n n' : Node} (h : n'.view true true false = n.view true true false)
    (hl : n.Live) (hc : n'.COK) : n'.Live :=
  ⟨(Node.act_congr h).mpr hl.act, hc, (Node.resumableOK_congr h).mpr hl.rok⟩

theorem Node.DRes.of_view {n n' : Node} (h : n'.view true true false = n.view true true false)
    (hl : n.DRes) (hc : n'.Res) : n'.DRes :=
  ⟨(Node.clean_congr h).mpr hl.clean, hc, (Node.resumableOK_congr h).mpr hl.rok⟩

mutual
theorem Node.schedule_resumableOK : (n : Node) → (p : List Nat) → n.ResumableOK → (n.schedule p).ResumableOK
  | .leaf .., p, _ => by cases p <;> trivial
  | .compo .., [], h => by simpa [Node.schedule] using h
  | .compo id rid inj hd st a r q m s, [i], h => by
      simp only [Node.ResumableOK] at h
      simp only [Node.schedule, Node.ResumableOK]
      refine ⟨?_, h.2⟩
      by_cases c : i < s.len
      · simp [c]
      · simpa [c] using h.1
  | .compo id rid inj hd st a r q m s, i :: j :: rest, h => by
      simp only [Node.ResumableOK] at h
      have ih := Subs.scheduleAt_resumableOK s i (j :: rest) h.2
      simp only [Node.schedule, Node.ResumableOK, ih.2]
      exact ⟨h.1, ih.1⟩
  | .ortho .., [], h => by simpa [Node.schedule] using h
  | .ortho id rid inj hd s, [_], h => by simpa [Node.schedule] using h
  | .ortho id rid inj hd s, i :: j :: rest, h => by
      simp only [Node.ResumableOK] at h
      simp only [Node.schedule, Node.ResumableOK]
      exact (Subs.scheduleAt_resumableOK s i (j :: rest) h).1
theorem Subs.scheduleAt_resumableOK : (s : Subs) → (i : Nat) → (p : List Nat) → s.ResumableOKAll →
    (s.scheduleAt i p).ResumableOKAll ∧ (s.scheduleAt i p).len = s.len
  | .nil, _, _, _ => ⟨trivial, rfl⟩
  | .cons b n r, 0, p, h => by
      simp only [Subs.ResumableOKAll] at h
      simp only [Subs.scheduleAt, Subs.ResumableOKAll, Subs.len]
      exact ⟨⟨Node.schedule_resumableOK n p h.1, h.2⟩, trivial⟩
  | .cons b n r, i+1, p, h => by
      simp only [Subs.ResumableOKAll] at h
      have ih := Subs.scheduleAt_resumableOK r i p h.2
      simp only [Subs.scheduleAt, Subs.ResumableOKAll, Subs.len, ih.2]
      exact ⟨⟨h.1, ih.1⟩, trivial⟩
end

/-! ### world: error monotonicity and observation hygiene -/

namespace World

/-- the first contract violation is kept -/
def ErrLe (w w' : World U) : Prop := w'.err = none → w.err = none

theorem ErrLe.refl (w : World U) : ErrLe w w := id
theorem ErrLe.trans {a b c : World U} (h1 : ErrLe a b) (h2 : ErrLe b c) : ErrLe a c := fun h => h1 (h2 h)
theorem Ext.errLe {w w' : World U} (h : Ext w w') : ErrLe w w' := h.err

@[simp] theorem freshControl_err (w : World U) : w.freshControl.err = w.err := rfl
@[simp] theorem freshControl_obs (w : World U) : w.freshControl.obs = w.obs := rfl
@[simp] theorem freshControl_trace (w : World U) : w.freshControl.trace = w.trace := rfl
@[simp] theorem freshControl_cfg (w : World U) : w.freshControl.cfg = w.cfg := rfl
@[simp] theorem snapshot_err (w : World U) (r : Node) (a b : Bool) : (w.snapshot r a b).err = w.err := rfl
@[simp] theorem snapshot_trace (w : World U) (r : Node) (a b : Bool) : (w.snapshot r a b).trace = w.trace := rfl
@[simp] theorem snapshot_cfg (w : World U) (r : Node) (a b : Bool) : (w.snapshot r a b).cfg = w.cfg := rfl
@[simp] theorem clearTargets_err (w : World U) : w.clearTargets.err = w.err := by unfold clearTargets; split <;> rfl
@[simp] theorem clearTargets_obs (w : World U) : w.clearTargets.obs = w.obs := by unfold clearTargets; split <;> rfl
@[simp] theorem clearTargets_trace (w : World U) : w.clearTargets.trace = w.trace := by unfold clearTargets; split <;> rfl
@[simp] theorem clearTargets_cfg (w : World U) : w.clearTargets.cfg = w.cfg := by unfold clearTargets; split <;> rfl
@[simp] theorem clearStatuses_err (w : World U) : w.clearStatuses.err = w.err := rfl
@[simp] theorem clearStatuses_obs (w : World U) : w.clearStatuses.obs = w.obs := rfl
@[simp] theorem clearStatuses_trace (w : World U) : w.clearStatuses.trace = w.trace := rfl
@[simp] theorem clearStatuses_cfg (w : World U) : w.clearStatuses.cfg = w.cfg := rfl
@[simp] theorem clearPlanData_err (w : World U) : w.clearPlanData.err = w.err := rfl
@[simp] theorem clearPlanData_obs (w : World U) : w.clearPlanData.obs = w.obs := rfl
@[simp] theorem clearPlanData_trace (w : World U) : w.clearPlanData.trace = w.trace := rfl
@[simp] theorem clearPlanData_cfg (w : World U) : w.clearPlanData.cfg = w.cfg := rfl

/-- An observation is good: it was computed by `Node.observe` from a well-formed tree of the
machine's structure. -/
def GoodObs (base : Node) (sc : Nat) (o : Obs) : Prop :=
  ∃ (root : Node) (g : Bool), o = root.observe sc g ∧ root.SameShape base ∧ (root.Act ∨ root.Clean)

/-- Every observation in the trace and the snapshot of the current pass are good. -/
structure Good (base : Node) (w : World U) : Prop where
  obs : ∀ o, w.obs = some o → GoodObs base w.cfg.stateCount o
  trace : ∀ sid m slot o p c, Event.cb sid m slot (some o) p c ∈ w.trace → GoodObs base w.cfg.stateCount o

theorem Good.ext {base : Node} {w w' : World U} (hg : Good base w) (h : Ext w w') : Good base w' := by
  refine ⟨fun o ho => ?_, fun sid m slot o p c he => ?_⟩
  · rw [h.cfg]; exact hg.obs o (h.obs ▸ ho)
  · rw [h.cfg]
    rcases h.trace _ he with hin | ⟨r, hr⟩ | ⟨sid', m', slot', p', c', he'⟩
    · exact hg.trace _ _ _ _ _ _ hin
    · cases hr
    · simp only [Event.cb.injEq] at he'
      exact hg.obs o he'.2.2.2.1.symm

/-- a record update that leaves `obs`, `trace`, `cfg` alone -/
theorem Good.of_eq {base : Node} {w w' : World U} (hg : Good base w) (h1 : w'.obs = w.obs)
    (h2 : w'.trace = w.trace) (h3 : w'.cfg = w.cfg) : Good base w' :=
  ⟨fun o ho => by rw [h3]; exact hg.obs o (h1 ▸ ho), fun sid m slot o p c he => by
    rw [h3]; exact hg.trace _ _ _ _ _ _ (h2 ▸ he)⟩

theorem Good.fail' {base : Node} {w : World U} (hg : Good base w) (msg : String) : Good base (w.fail' msg) :=
  hg.ext (fail'_ext w msg)

/-- taking the snapshot of a well-formed tree -/
theorem Good.snapshot {base : Node} {w : World U} (hg : Good base w) (root : Node) (a b : Bool)
    (hs : root.SameShape base) (hr : root.Act ∨ root.Clean) : Good base (w.snapshot root a b) := by
  refine ⟨fun o ho => ?_, fun sid m slot o p c he => hg.trace _ _ _ _ _ _ he⟩
  simp only [World.snapshot] at ho
  split at ho
  · simp only [Option.some.injEq] at ho
    exact ⟨root, b, ho.symm, hs, hr⟩
  · simp at ho

end World

theorem Node.view_tff_of_ttf {n n' : Node} (h : n'.view true true false = n.view true true false) :
    n'.view true false false = n.view true false false := by
  have := Node.view_mono h true false false
  simpa using this

theorem Node.view_tff_of_tft {n n' : Node} (h : n'.view true false true = n.view true false true) :
    n'.view true false false = n.view true false false := by
  have := Node.view_mono h true false false
  simpa using this

/-! ### machine level -/

namespace Mach

structure LiveInv (base : Node) (m : Mach U) : Prop where
  shape : m.root.SameShape base
  live : m.root.Live
  good : m.w.Good base

structure DResInv (base : Node) (m : Mach U) : Prop where
  shape : m.root.SameShape base
  dres : m.root.DRes
  good : m.w.Good base

structure DormInv (base : Node) (m : Mach U) : Prop where
  shape : m.root.SameShape base
  dorm : m.root.Dormant
  good : m.w.Good base

/-- The four things `applyRequest` can do. -/
theorem applyRequest_cases (m : Mach U) (t : Transition) (i : Nat) :
    (∃ p, m.applyRequest t i = { m with root := m.root.schedule p, w := m.w.snapshot m.root true false }) ∨
    (∃ msg, m.applyRequest t i = { m with w := (m.w.snapshot m.root true false).fail' msg }) ∨
    (∃ rq, m.applyRequest t i =
      { m with root := (m.root.request rq (m.w.snapshot m.root true false)).1,
               w := (m.root.request rq (m.w.snapshot m.root true false)).2 }) ∨
    (∃ rq p, m.applyRequest t i =
      { m with root := ((m.root.mark p).1.fwdActive rq (m.w.snapshot m.root true false)).1,
               w := ((m.root.mark p).1.fwdActive rq (m.w.snapshot m.root true false)).2 }) := by
  unfold applyRequest
  dsimp only
  split
  · split
    · exact .inl ⟨_, rfl⟩
    · exact .inr (.inl ⟨_, rfl⟩)
  · split
    · exact .inr (.inr (.inl ⟨_, rfl⟩))
    · split
      · exact .inr (.inl ⟨_, rfl⟩)
      · exact .inr (.inr (.inr ⟨_, _, rfl⟩))


/-- … and `applyRequestNoPin` (the same four, with a request that carries no index). -/
theorem applyRequestNoPin_cases (m : Mach U) (t : Transition) :
    (∃ p, m.applyRequestNoPin t = { m with root := m.root.schedule p, w := m.w.snapshot m.root true false }) ∨
    (∃ msg, m.applyRequestNoPin t = { m with w := (m.w.snapshot m.root true false).fail' msg }) ∨
    (∃ rq, m.applyRequestNoPin t =
      { m with root := (m.root.request rq (m.w.snapshot m.root true false)).1,
               w := (m.root.request rq (m.w.snapshot m.root true false)).2 }) ∨
    (∃ rq p, m.applyRequestNoPin t =
      { m with root := ((m.root.mark p).1.fwdActive rq (m.w.snapshot m.root true false)).1,
               w := ((m.root.mark p).1.fwdActive rq (m.w.snapshot m.root true false)).2 }) := by
  unfold applyRequestNoPin
  dsimp only
  split
  · split
    · exact .inl ⟨_, rfl⟩
    · exact .inr (.inl ⟨_, rfl⟩)
  · split
    · exact .inr (.inr (.inl ⟨_, rfl⟩))
    · split
      · exact .inr (.inl ⟨_, rfl⟩)
      · exact .inr (.inr (.inr ⟨_, _, rfl⟩))


/-- `mark` then `fwdActive` on a live tree -/
theorem markFwd_live {n : Node} (p : List Nat) (rq : Req) (w : World U) (hl : n.Live)
    (he : ((n.mark p).1.fwdActive rq w).2.err = none) :
    ((n.mark p).1.fwdActive rq w).1.Live ∧
    ((n.mark p).1.fwdActive rq w).1.view true true false = n.view true true false := by
  have hv : ((n.mark p).1.fwdActive rq w).1.view true true false = n.view true true false := by
    rw [Node.fwdActive_view, Node.mark_view]
  have hact : (n.mark p).1.Act := (Node.act_congr (Node.mark_view true true n p)).mpr hl.act
  have hP := Node.mark_P n p hl.act hl.cok
  exact ⟨Node.Live.of_view hv hl (Node.fwdActive_cok _ rq w hact hP he), hv⟩

/-- `mark` then `fwdActive` on an inactive, resolved tree -/
theorem markFwd_dres {n : Node} (p : List Nat) (rq : Req) (w : World U) (hl : n.DRes)
    (he : ((n.mark p).1.fwdActive rq w).2.err = none) :
    ((n.mark p).1.fwdActive rq w).1.DRes ∧
    ((n.mark p).1.fwdActive rq w).1.view true true false = n.view true true false := by
  have hv : ((n.mark p).1.fwdActive rq w).1.view true true false = n.view true true false := by
    rw [Node.fwdActive_view, Node.mark_view]
  have hP := Node.mark_PR n p hl.clean hl.res
  exact ⟨Node.DRes.of_view hv hl (Node.fwdActive_res _ rq w hP he), hv⟩

theorem applyRequest_errLe (m : Mach U) (t : Transition) (i : Nat) : World.ErrLe m.w (m.applyRequest t i).w := by
  rcases applyRequest_cases m t i with ⟨p, e⟩ | ⟨msg, e⟩ | ⟨rq, e⟩ | ⟨rq, p, e⟩ <;> rw [e] <;> intro h
  · exact h
  · exact absurd h (World.fail'_errX _ _)
  · exact (Node.request_ext m.root rq (m.w.snapshot m.root true false)).err h
  · exact (Node.fwdActive_ext _ rq (m.w.snapshot m.root true false)).err h

theorem applyRequest_live {base : Node} {m : Mach U} (t : Transition) (i : Nat) (hi : LiveInv base m)
    (he : (m.applyRequest t i).w.err = none) :
    LiveInv base (m.applyRequest t i) ∧
      (m.applyRequest t i).root.view true false false = m.root.view true false false := by
  have hg0 : (m.w.snapshot m.root true false).Good base := hi.good.snapshot _ _ _ hi.shape (.inl hi.live.act)
  rcases applyRequest_cases m t i with ⟨p, e⟩ | ⟨msg, e⟩ | ⟨rq, e⟩ | ⟨rq, p, e⟩ <;> rw [e] at he ⊢
  · have hv := Node.schedule_view true m.root p
    refine ⟨⟨(Node.SameShape.of_view hv).trans hi.shape, ⟨(Node.act_congr hv).mpr hi.live.act,
      (Node.cok_congr hv).mpr hi.live.cok, Node.schedule_resumableOK _ p hi.live.rok⟩, hg0⟩,
      Node.view_tff_of_tft hv⟩
  · exact absurd he (World.fail'_errX _ _)
  · have hv := Node.request_view true true m.root rq (m.w.snapshot m.root true false)
    refine ⟨⟨(Node.SameShape.of_view hv).trans hi.shape,
      Node.Live.of_view hv hi.live (Node.Res_imp_COK _ (Node.request_res _ rq _ he)),
      hg0.ext (Node.request_ext _ rq _)⟩, Node.view_tff_of_ttf hv⟩
  · obtain ⟨hl, hv⟩ := markFwd_live p rq (m.w.snapshot m.root true false) hi.live he
    exact ⟨⟨(Node.SameShape.of_view hv).trans hi.shape, hl, hg0.ext (Node.fwdActive_ext _ rq _)⟩,
      Node.view_tff_of_ttf hv⟩

theorem applyRequest_dres {base : Node} {m : Mach U} (t : Transition) (i : Nat) (hi : DResInv base m)
    (he : (m.applyRequest t i).w.err = none) :
    DResInv base (m.applyRequest t i) ∧
      (m.applyRequest t i).root.view true false false = m.root.view true false false := by
  have hg0 : (m.w.snapshot m.root true false).Good base := hi.good.snapshot _ _ _ hi.shape (.inr hi.dres.clean)
  rcases applyRequest_cases m t i with ⟨p, e⟩ | ⟨msg, e⟩ | ⟨rq, e⟩ | ⟨rq, p, e⟩ <;> rw [e] at he ⊢
  · have hv := Node.schedule_view true m.root p
    refine ⟨⟨(Node.SameShape.of_view hv).trans hi.shape, ⟨(Node.clean_congr hv).mpr hi.dres.clean,
      (Node.res_congr hv).mpr hi.dres.res, Node.schedule_resumableOK _ p hi.dres.rok⟩, hg0⟩,
      Node.view_tff_of_tft hv⟩
  · exact absurd he (World.fail'_errX _ _)
  · have hv := Node.request_view true true m.root rq (m.w.snapshot m.root true false)
    refine ⟨⟨(Node.SameShape.of_view hv).trans hi.shape,
      Node.DRes.of_view hv hi.dres (Node.request_res _ rq _ he),
      hg0.ext (Node.request_ext _ rq _)⟩, Node.view_tff_of_ttf hv⟩
  · obtain ⟨hl, hv⟩ := markFwd_dres p rq (m.w.snapshot m.root true false) hi.dres he
    exact ⟨⟨(Node.SameShape.of_view hv).trans hi.shape, hl, hg0.ext (Node.fwdActive_ext _ rq _)⟩,
      Node.view_tff_of_ttf hv⟩

/-! `applyRequestNoPin`: the same, by the same proofs (`applyRequestNoPin_cases`) -/

theorem applyRequestNoPin_errLe (m : Mach U) (t : Transition) : World.ErrLe m.w (m.applyRequestNoPin t).w := by
  rcases applyRequestNoPin_cases m t with ⟨p, e⟩ | ⟨msg, e⟩ | ⟨rq, e⟩ | ⟨rq, p, e⟩ <;> rw [e] <;> intro h
  · exact h
  · exact absurd h (World.fail'_errX _ _)
  · exact (Node.request_ext m.root rq (m.w.snapshot m.root true false)).err h
  · exact (Node.fwdActive_ext _ rq (m.w.snapshot m.root true false)).err h

theorem applyRequestNoPin_live {base : Node} {m : Mach U} (t : Transition) (hi : LiveInv base m)
    (he : (m.applyRequestNoPin t).w.err = none) :
    LiveInv base (m.applyRequestNoPin t) ∧
      (m.applyRequestNoPin t).root.view true false false = m.root.view true false false := by
  have hg0 : (m.w.snapshot m.root true false).Good base := hi.good.snapshot _ _ _ hi.shape (.inl hi.live.act)
  rcases applyRequestNoPin_cases m t with ⟨p, e⟩ | ⟨msg, e⟩ | ⟨rq, e⟩ | ⟨rq, p, e⟩ <;> rw [e] at he ⊢
  · have hv := Node.schedule_view true m.root p
    refine ⟨⟨(Node.SameShape.of_view hv).trans hi.shape, ⟨(Node.act_congr hv).mpr hi.live.act,
      (Node.cok_congr hv).mpr hi.live.cok, Node.schedule_resumableOK _ p hi.live.rok⟩, hg0⟩,
      Node.view_tff_of_tft hv⟩
  · exact absurd he (World.fail'_errX _ _)
  · have hv := Node.request_view true true m.root rq (m.w.snapshot m.root true false)
    refine ⟨⟨(Node.SameShape.of_view hv).trans hi.shape,
      Node.Live.of_view hv hi.live (Node.Res_imp_COK _ (Node.request_res _ rq _ he)),
      hg0.ext (Node.request_ext _ rq _)⟩, Node.view_tff_of_ttf hv⟩
  · obtain ⟨hl, hv⟩ := markFwd_live p rq (m.w.snapshot m.root true false) hi.live he
    exact ⟨⟨(Node.SameShape.of_view hv).trans hi.shape, hl, hg0.ext (Node.fwdActive_ext _ rq _)⟩,
      Node.view_tff_of_ttf hv⟩

theorem applyRequestNoPin_dres {base : Node} {m : Mach U} (t : Transition) (hi : DResInv base m)
    (he : (m.applyRequestNoPin t).w.err = none) :
    DResInv base (m.applyRequestNoPin t) ∧
      (m.applyRequestNoPin t).root.view true false false = m.root.view true false false := by
  have hg0 : (m.w.snapshot m.root true false).Good base := hi.good.snapshot _ _ _ hi.shape (.inr hi.dres.clean)
  rcases applyRequestNoPin_cases m t with ⟨p, e⟩ | ⟨msg, e⟩ | ⟨rq, e⟩ | ⟨rq, p, e⟩ <;> rw [e] at he ⊢
  · have hv := Node.schedule_view true m.root p
    refine ⟨⟨(Node.SameShape.of_view hv).trans hi.shape, ⟨(Node.clean_congr hv).mpr hi.dres.clean,
      (Node.res_congr hv).mpr hi.dres.res, Node.schedule_resumableOK _ p hi.dres.rok⟩, hg0⟩,
      Node.view_tff_of_tft hv⟩
  · exact absurd he (World.fail'_errX _ _)
  · have hv := Node.request_view true true m.root rq (m.w.snapshot m.root true false)
    refine ⟨⟨(Node.SameShape.of_view hv).trans hi.shape,
      Node.DRes.of_view hv hi.dres (Node.request_res _ rq _ he),
      hg0.ext (Node.request_ext _ rq _)⟩, Node.view_tff_of_ttf hv⟩
  · obtain ⟨hl, hv⟩ := markFwd_dres p rq (m.w.snapshot m.root true false) hi.dres he
    exact ⟨⟨(Node.SameShape.of_view hv).trans hi.shape, hl, hg0.ext (Node.fwdActive_ext _ rq _)⟩,
      Node.view_tff_of_ttf hv⟩

/-! one iteration of the loop of `applyRequests` -/

theorem applyStep_errLe (m : Mach U) (x : Transition × Nat) : World.ErrLe m.w (applyStep m x).w := by
  unfold applyStep; split
  · exact applyRequest_errLe m x.1 x.2
  · exact applyRequestNoPin_errLe m x.1

theorem applyStep_live {base : Node} {m : Mach U} (x : Transition × Nat) (hi : LiveInv base m)
    (he : (applyStep m x).w.err = none) :
    LiveInv base (applyStep m x) ∧ (applyStep m x).root.view true false false = m.root.view true false false := by
  unfold applyStep at he ⊢; split at he
  · next h => rw [if_pos h]; exact applyRequest_live x.1 x.2 hi he
  · next h => rw [if_neg h]; exact applyRequestNoPin_live x.1 hi he

theorem applyStep_dres {base : Node} {m : Mach U} (x : Transition × Nat) (hi : DResInv base m)
    (he : (applyStep m x).w.err = none) :
    DResInv base (applyStep m x) ∧ (applyStep m x).root.view true false false = m.root.view true false false := by
  unfold applyStep at he ⊢; split at he
  · next h => rw [if_pos h]; exact applyRequest_dres x.1 x.2 hi he
  · next h => rw [if_neg h]; exact applyRequestNoPin_dres x.1 hi he

/-! #### a batch -/

theorem applyAll_errLe : (ts : List Transition) → (m : Mach U) → (i : Nat) → World.ErrLe m.w (m.applyAll ts i).w
  | [], m, i => World.ErrLe.refl _
  | t :: rest, m, i => by
      unfold applyAll
      dsimp only
      split
      · exact World.ErrLe.trans (applyRequest_errLe m t i) (applyAll_errLe rest _ _)
      · exact applyAll_errLe rest _ _

theorem applyAll_live {base : Node} : (ts : List Transition) → (m : Mach U) → (i : Nat) → LiveInv base m →
    (m.applyAll ts i).w.err = none →
    LiveInv base (m.applyAll ts i) ∧ (m.applyAll ts i).root.view true false false = m.root.view true false false
  | [], m, i, hi, _ => ⟨hi, rfl⟩
  | t :: rest, m, i, hi, he => by
      unfold applyAll at he ⊢
      dsimp only at he ⊢
      split at he
      · next hd =>
        rw [if_pos hd]
        have h1 := applyRequest_live t i hi (applyAll_errLe rest _ _ he)
        have h2 := applyAll_live rest _ (i+1) h1.1 he
        exact ⟨h2.1, h2.2.trans h1.2⟩
      · next hd =>
        rw [if_neg hd]
        exact applyAll_live rest m (i+1) hi he

theorem applyAll_dres {base : Node} : (ts : List Transition) → (m : Mach U) → (i : Nat) → DResInv base m →
    (m.applyAll ts i).w.err = none →
    DResInv base (m.applyAll ts i) ∧ (m.applyAll ts i).root.view true false false = m.root.view true false false
  | [], m, i, hi, _ => ⟨hi, rfl⟩
  | t :: rest, m, i, hi, he => by
      unfold applyAll at he ⊢
      dsimp only at he ⊢
      split at he
      · next hd =>
        rw [if_pos hd]
        have h1 := applyRequest_dres t i hi (applyAll_errLe rest _ _ he)
        have h2 := applyAll_dres rest _ (i+1) h1.1 he
        exact ⟨h2.1, h2.2.trans h1.2⟩
      · next hd =>
        rw [if_neg hd]
        exact applyAll_dres rest m (i+1) hi he

/-! #### guards: the registry is not touched -/

@[simp] theorem approvedByGuards_rootI (m : Mach U) (c p : List Transition) : (m.approvedByGuards c p).1.root = m.root := by
  unfold approvedByGuards; rfl
@[simp] theorem approvedByEntryGuards_rootI (m : Mach U) (c p : List Transition) :
    (m.approvedByEntryGuards c p).1.root = m.root := by
  unfold approvedByEntryGuards; rfl

theorem approvedByGuards_ext (m : Mach U) (c p : List Transition) :
    World.Ext (({ m.w.freshControl with pending := p, current := c } : World U).snapshot m.root true true)
      (m.approvedByGuards c p).1.w := by
  unfold approvedByGuards
  dsimp only
  unroll
  all_goals ext_tac

theorem approvedByEntryGuards_ext (m : Mach U) (c p : List Transition) :
    World.Ext (({ m.w.freshControl with pending := p, current := c } : World U).snapshot m.root true true)
      (m.approvedByEntryGuards c p).1.w := by
  unfold approvedByEntryGuards
  dsimp only
  unroll
  all_goals ext_tac

theorem approvedByGuards_errLe (m : Mach U) (c p : List Transition) : World.ErrLe m.w (m.approvedByGuards c p).1.w :=
  fun h => (approvedByGuards_ext m c p).err h

theorem approvedByEntryGuards_errLe (m : Mach U) (c p : List Transition) :
    World.ErrLe m.w (m.approvedByEntryGuards c p).1.w :=
  fun h => (approvedByEntryGuards_ext m c p).err h

theorem approvedByGuards_good {base : Node} (m : Mach U) (c p : List Transition) (hg : m.w.Good base)
    (hs : m.root.SameShape base) (hr : m.root.Act ∨ m.root.Clean) : (m.approvedByGuards c p).1.w.Good base :=
  World.Good.ext (World.Good.snapshot
    (hg.of_eq (w' := ({ m.w.freshControl with pending := p, current := c } : World U)) rfl rfl rfl) _ _ _ hs hr)
    (approvedByGuards_ext m c p)

theorem approvedByEntryGuards_good {base : Node} (m : Mach U) (c p : List Transition) (hg : m.w.Good base)
    (hs : m.root.SameShape base) (hr : m.root.Act ∨ m.root.Clean) : (m.approvedByEntryGuards c p).1.w.Good base :=
  World.Good.ext (World.Good.snapshot
    (hg.of_eq (w' := ({ m.w.freshControl with pending := p, current := c } : World U)) rfl rfl rfl) _ _ _ hs hr)
    (approvedByEntryGuards_ext m c p)

/-! #### the substitution loop -/

theorem rounds_errLe (initial : Bool) : (fuel : Nat) → (m : Mach U) → (backup : Node) → (cur : List Transition) →
    World.ErrLe m.w (rounds initial fuel m backup cur).1.w
  | 0, m, _, _ => World.ErrLe.refl _
  | fuel+1, m, backup, cur => by
      unfold rounds
      split
      · exact World.ErrLe.refl _
      · dsimp only
        have h1 := applyAll_errLe m.w.requests m 0
        generalize m.applyAll m.w.requests 0 = m1 at h1 ⊢
        split
        · cases initial
          · simp only [Bool.false_eq_true, if_false]
            have h2 := approvedByGuards_errLe ({ m1 with w := { m1.w with requests := [] } }) cur m.w.requests
            generalize ({ m1 with w := { m1.w with requests := [] } } : Mach U).approvedByGuards cur m.w.requests = res at h2 ⊢
            obtain ⟨m3, ok⟩ := res
            dsimp only at h2 ⊢
            split
            · exact h1.trans (World.ErrLe.trans h2 (rounds_errLe false fuel _ _ _))
            · refine h1.trans (World.ErrLe.trans h2 (World.ErrLe.trans ?_ (rounds_errLe false fuel _ _ _)))
              intro h; simpa using h
          · simp only [if_true]
            have h2 := approvedByEntryGuards_errLe ({ m1 with w := { m1.w with requests := [] } }) cur m.w.requests
            generalize ({ m1 with w := { m1.w with requests := [] } } : Mach U).approvedByEntryGuards cur m.w.requests = res at h2 ⊢
            obtain ⟨m3, ok⟩ := res
            dsimp only at h2 ⊢
            split
            · exact h1.trans (World.ErrLe.trans h2 (rounds_errLe true fuel _ _ _))
            · exact h1.trans (World.ErrLe.trans h2 (rounds_errLe true fuel _ _ _))
        · exact h1.trans (World.ErrLe.trans (fun h => h) (rounds_errLe initial fuel _ _ _))


/-- marks restored from a backup with the same activity: what the predicates see -/
theorem restore_live {cur bak : Node} (hl : cur.Live) (hb : bak.COK)
    (hv : bak.view true false false = cur.view true false false) : (cur.restoreMarks bak).Live := by
  have h1 := Node.restoreMarks_view true true cur bak
  have h2 := Node.restoreMarks_marks true cur bak hv.symm
  exact Node.Live.of_view h1 hl ((Node.cok_congr h2).mpr hb)

theorem restore_dres {cur bak : Node} (hl : cur.DRes) (hb : bak.Res)
    (hv : bak.view true false false = cur.view true false false) : (cur.restoreMarks bak).DRes := by
  have h1 := Node.restoreMarks_view true true cur bak
  have h2 := Node.restoreMarks_marks true cur bak hv.symm
  exact Node.DRes.of_view h1 hl ((Node.res_congr h2).mpr hb)

theorem rounds_live {base : Node} : (fuel : Nat) → (m : Mach U) → (backup : Node) → (cur : List Transition) →
    LiveInv base m → backup.COK → backup.view true false false = m.root.view true false false →
    (rounds false fuel m backup cur).1.w.err = none → LiveInv base (rounds false fuel m backup cur).1
  | 0, m, _, _, hi, _, _, _ => hi
  | fuel+1, m, backup, cur, hi, hb, hv, he => by
      revert he
      unfold rounds
      split
      · intro _; exact hi
      · dsimp only
        have h1 := applyAll_live m.w.requests m 0 hi
        have e1 := applyAll_errLe m.w.requests m 0
        generalize m.applyAll m.w.requests 0 = m1 at h1 e1 ⊢
        split
        · simp only [Bool.false_eq_true, if_false]
          have h2 := approvedByGuards_errLe ({ m1 with w := { m1.w with requests := [] } }) cur m.w.requests
          have g2 := approvedByGuards_good (base := base) ({ m1 with w := { m1.w with requests := [] } }) cur m.w.requests
          have r2 := approvedByGuards_rootI ({ m1 with w := { m1.w with requests := [] } }) cur m.w.requests
          generalize ({ m1 with w := { m1.w with requests := [] } } : Mach U).approvedByGuards cur m.w.requests = res at h2 g2 r2 ⊢
          obtain ⟨m3, ok⟩ := res
          dsimp only at h2 g2 r2 ⊢
          split
          · intro he
            have he3 : m3.w.err = none := rounds_errLe false fuel _ _ _ he
            obtain ⟨hi1, hv1⟩ := h1 (h2 he3)
            have hi3 : LiveInv base m3 :=
              ⟨r2 ▸ hi1.shape, r2 ▸ hi1.live, g2 (hi1.good.of_eq rfl rfl rfl) hi1.shape (.inl hi1.live.act)⟩
            exact rounds_live fuel m3 m3.root _ hi3 hi3.live.cok rfl he
          · intro he
            have he3 : m3.w.err = none := by
              have := rounds_errLe false fuel _ _ _ he
              simpa using this
            obtain ⟨hi1, hv1⟩ := h1 (h2 he3)
            have hl3 : m3.root.Live := r2 ▸ hi1.live
            have hv3 : backup.view true false false = m3.root.view true false false := by
              rw [r2]; exact hv.trans hv1.symm
            have hrl := restore_live hl3 hb hv3
            have hshape : (m3.root.restoreMarks backup).SameShape base :=
              (Node.SameShape.of_view (Node.restoreMarks_view true true m3.root backup)).trans (r2 ▸ hi1.shape)
            refine rounds_live fuel _ backup cur ⟨hshape, hrl, ?_⟩ hb ?_ he
            · exact (g2 (hi1.good.of_eq rfl rfl rfl) hi1.shape (.inl hi1.live.act)).of_eq
                (World.clearTargets_obs _) (World.clearTargets_trace _) (World.clearTargets_cfg _)
            · exact (Node.view_tff_of_ttf (Node.restoreMarks_view true true m3.root backup)).symm ▸ hv3
        · intro he
          have he1 : m1.w.err = none := by
            have := rounds_errLe false fuel _ _ _ he
            simpa using this
          obtain ⟨hi1, hv1⟩ := h1 he1
          exact rounds_live fuel _ backup cur ⟨hi1.shape, hi1.live, hi1.good.of_eq rfl rfl rfl⟩ hb
            (hv.trans hv1.symm) he

theorem rounds_dres {base : Node} : (fuel : Nat) → (m : Mach U) → (backup : Node) → (cur : List Transition) →
    DResInv base m → backup.Res → backup.view true false false = m.root.view true false false →
    (rounds true fuel m backup cur).1.w.err = none → DResInv base (rounds true fuel m backup cur).1
  | 0, m, _, _, hi, _, _, _ => hi
  | fuel+1, m, backup, cur, hi, hb, hv, he => by
      revert he
      unfold rounds
      split
      · intro _; exact hi
      · dsimp only
        have h1 := applyAll_dres m.w.requests m 0 hi
        have e1 := applyAll_errLe m.w.requests m 0
        generalize m.applyAll m.w.requests 0 = m1 at h1 e1 ⊢
        split
        · simp only [if_true]
          have h2 := approvedByEntryGuards_errLe ({ m1 with w := { m1.w with requests := [] } }) cur m.w.requests
          have g2 := approvedByEntryGuards_good (base := base) ({ m1 with w := { m1.w with requests := [] } }) cur m.w.requests
          have r2 := approvedByEntryGuards_rootI ({ m1 with w := { m1.w with requests := [] } }) cur m.w.requests
          generalize ({ m1 with w := { m1.w with requests := [] } } : Mach U).approvedByEntryGuards cur m.w.requests = res at h2 g2 r2 ⊢
          obtain ⟨m3, ok⟩ := res
          dsimp only at h2 g2 r2 ⊢
          split
          · intro he
            have he3 : m3.w.err = none := rounds_errLe true fuel _ _ _ he
            obtain ⟨hi1, hv1⟩ := h1 (h2 he3)
            have hi3 : DResInv base m3 :=
              ⟨r2 ▸ hi1.shape, r2 ▸ hi1.dres, g2 (hi1.good.of_eq rfl rfl rfl) hi1.shape (.inr hi1.dres.clean)⟩
            exact rounds_dres fuel m3 m3.root _ hi3 hi3.dres.res rfl he
          · intro he
            have he3 : m3.w.err = none := by
              have := rounds_errLe true fuel _ _ _ he
              simpa using this
            obtain ⟨hi1, hv1⟩ := h1 (h2 he3)
            have hl3 : m3.root.DRes := r2 ▸ hi1.dres
            have hv3 : backup.view true false false = m3.root.view true false false := by
              rw [r2]; exact hv.trans hv1.symm
            have hrl := restore_dres hl3 hb hv3
            have hshape : (m3.root.restoreMarks backup).SameShape base :=
              (Node.SameShape.of_view (Node.restoreMarks_view true true m3.root backup)).trans (r2 ▸ hi1.shape)
            refine rounds_dres fuel _ backup cur ⟨hshape, hrl, ?_⟩ hb ?_ he
            · exact g2 (hi1.good.of_eq rfl rfl rfl) hi1.shape (.inr hi1.dres.clean)
            · exact (Node.view_tff_of_ttf (Node.restoreMarks_view true true m3.root backup)).symm ▸ hv3
        · intro he
          have he1 : m1.w.err = none := by
            have := rounds_errLe true fuel _ _ _ he
            simpa using this
          obtain ⟨hi1, hv1⟩ := h1 he1
          exact rounds_dres fuel _ backup cur ⟨hi1.shape, hi1.dres, hi1.good.of_eq rfl rfl rfl⟩ hb
            (hv.trans hv1.symm) he

end Mach

/-! #### commit, enter, clearMarks on the invariants -/

theorem Node.commit_live {n : Node} (w : World U) (hl : n.Live) :
    (n.commit w).1.Live ∧ (n.commit w).1.SameShape n := by
  rw [Node.commit_fst]
  have h := Node.commitT_act n hl.act hl.cok
  exact ⟨⟨h.1, h.2, Node.commitT_resumableOK n hl.act hl.rok⟩, Node.commitT_view n⟩

theorem Node.enter_live {n : Node} (w : World U) (hl : n.DRes) :
    (n.enter w).1.Live ∧ (n.enter w).1.SameShape n := by
  rw [Node.enter_fst]
  have h := Node.enterT_act n hl.clean hl.res
  exact ⟨⟨h.1, h.2, Node.enterT_resumableOK n hl.rok⟩, Node.enterT_view n⟩

theorem Node.clearMarks_live {n : Node} (hl : n.Live) : n.clearMarks.Live ∧ n.clearMarks.NoMarks ∧ n.clearMarks.SameShape n := by
  have hv := Node.clearMarks_view true true n
  have hn := Node.clearMarks_noMarks n
  exact ⟨Node.Live.of_view hv hl (Node.NoMarks_imp_COK _ hn), hn, Node.SameShape.of_view hv⟩

namespace Mach

/-! #### `processRequest` -/

@[simp] theorem root_updateActivity (m : Mach U) : m.updateActivity.root = m.root := rfl
@[simp] theorem w_updateActivity (m : Mach U) : m.updateActivity.w = m.w := rfl

theorem processRequest_errLe (m : Mach U) : World.ErrLe m.w m.processRequest.w := by
  unfold processRequest
  dsimp only
  split
  · intro h; simpa using h
  · have h1 := rounds_errLe false m.w.clearTargets.freshControl.cfg.substitutionLimit
      ({ m with w := m.w.clearTargets.freshControl } : Mach U) m.root []
    generalize rounds false _ ({ m with w := m.w.clearTargets.freshControl } : Mach U) m.root [] = res at h1 ⊢
    obtain ⟨m2, cur⟩ := res
    dsimp only at h1 ⊢
    split
    · intro h
      have := h1 (by simpa using h)
      simpa using this
    · intro h
      simp only [w_updateActivity] at h
      have h' : (m2.root.commit (({ m2.w.freshControl with current := cur } : World U).snapshot m2.root false false)).2.err = none := h
      have := (Node.commit_ext m2.root _).err h'
      have := h1 (by simpa using this)
      simpa using this


theorem processRequest_live {base : Node} {m : Mach U} (hi : LiveInv base m) (he : m.processRequest.w.err = none) :
    LiveInv base m.processRequest ∧
    (m.w.requests.isEmpty = true → m.processRequest.root = m.root) ∧
    (m.w.requests.isEmpty = false → m.processRequest.root.NoMarks) := by
  revert he
  unfold processRequest
  dsimp only
  split
  · next hemp =>
    intro _
    refine ⟨⟨hi.shape, hi.live, (hi.good.of_eq (World.clearTargets_obs _) (World.clearTargets_trace _)
      (World.clearTargets_cfg _)).of_eq rfl rfl rfl⟩, fun _ => rfl, fun h => ?_⟩
    have : m.w.clearTargets.requests = m.w.requests := by unfold World.clearTargets; split <;> rfl
    rw [this] at hemp; rw [hemp] at h; cases h
  · next hemp =>
    have hi0 : LiveInv base ({ m with w := m.w.clearTargets.freshControl } : Mach U) :=
      ⟨hi.shape, hi.live, (hi.good.of_eq (World.clearTargets_obs _) (World.clearTargets_trace _)
        (World.clearTargets_cfg _)).of_eq rfl rfl rfl⟩
    have h1 := rounds_live m.w.clearTargets.freshControl.cfg.substitutionLimit
      ({ m with w := m.w.clearTargets.freshControl } : Mach U) m.root [] hi0 hi.live.cok rfl
    generalize rounds false _ ({ m with w := m.w.clearTargets.freshControl } : Mach U) m.root [] = res at h1 ⊢
    obtain ⟨m2, cur⟩ := res
    dsimp only at h1 ⊢
    have hne : m.w.requests.isEmpty = true → False := by
      intro h
      have : m.w.clearTargets.requests = m.w.requests := by unfold World.clearTargets; split <;> rfl
      apply hemp; rw [this]; exact h
    split
    · intro he
      have hi2 := h1 (by simpa using he)
      obtain ⟨hl, hn, hs⟩ := Node.clearMarks_live hi2.live
      exact ⟨⟨hs.trans hi2.shape, hl, hi2.good.of_eq rfl rfl rfl⟩, fun h => (hne h).elim, fun _ => hn⟩
    · intro he
      simp only [w_updateActivity] at he
      have he' : (m2.root.commit (({ m2.w.freshControl with current := cur } : World U).snapshot m2.root false false)).2.err = none := he
      have hi2 := h1 (by simpa using (Node.commit_ext m2.root _).err he')
      obtain ⟨hlc, hsc⟩ := Node.commit_live (({ m2.w.freshControl with current := cur } : World U).snapshot m2.root false false) hi2.live
      obtain ⟨hl, hn, hs⟩ := Node.clearMarks_live hlc
      refine ⟨⟨hs.trans (hsc.trans hi2.shape), hl, ?_⟩, fun h => (hne h).elim, fun _ => hn⟩
      have hg : (({ m2.w.freshControl with current := cur } : World U).snapshot m2.root false false).Good base :=
        World.Good.snapshot (hi2.good.of_eq (w' := ({ m2.w.freshControl with current := cur } : World U)) rfl rfl rfl)
          _ _ _ hi2.shape (.inl hi2.live.act)
      exact (hg.ext (Node.commit_ext m2.root _)).of_eq rfl rfl rfl


end Mach

end Hfsm
