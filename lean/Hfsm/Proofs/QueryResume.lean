/-
C13 (a): a lone `resume r`, applied and committed, activates the sub-state that `isResumable` named.

  §1  `skelA`: the forward pass (`mark`, `fwdActive`, `fwdRequest`, `request` of kind `resume`) changes
      only request marks; activity predicates factor through `skelA`.
  §2  sub-state lists after `markAt / setBit / fwdRequestAt / fwdRequestAll / fwdActiveAt / fwdActiveBits`.
  §3  `TQ` (every fork on the path is marked towards the region, the region towards sub-state `i`) and
      `FT` (forwarding forks first) make the commit pass leave sub-state `i` active.
  §4  `mark` followed by the forward pass establishes `FT` (three-phase walk, by induction on the path).
-/
import Hfsm.Proofs.QueryOutcome

namespace Hfsm
variable {U : Type} [UtilArith U]

/-! ### §1 marks do not touch activity -/

mutual
/-- forget the request marks (`requested`, `remain`, orthogonal bits) -/
def Node.skelA : Node → Node
  | .leaf id inj => .leaf id inj
  | .compo id rid inj h st a r _ _ s => .compo id rid inj h st a r none false s.skelA
  | .ortho id rid inj h s => .ortho id rid inj h s.skelA
def Subs.skelA : Subs → Subs
  | .nil => .nil
  | .cons _ n r => .cons false n.skelA r.skelA
end

theorem Subs.get?_skelA : ∀ (s : Subs) (k : Nat), s.skelA.get? k = (s.get? k).map Node.skelA
  | .nil, _ => rfl
  | .cons _ n r, 0 => rfl
  | .cons _ n r, k+1 => by simp only [Subs.skelA, Subs.get?]; exact Subs.get?_skelA r k

mutual
theorem Node.act_skelA : (n : Node) → (n.skelA.Act ↔ n.Act)
  | .leaf .. => by simp [Node.skelA, Node.Act]
  | .compo id rid inj h st a r q m s => by
    cases a with
    | none => simp [Node.skelA, Node.Act]
    | some ai => simp only [Node.skelA, Node.Act]; exact Subs.actAt_skelA s ai
  | .ortho id rid inj h s => by simp only [Node.skelA, Node.Act]; exact Subs.actAll_skelA s
theorem Node.clean_skelA : (n : Node) → (n.skelA.Clean ↔ n.Clean)
  | .leaf .. => by simp [Node.skelA, Node.Clean]
  | .compo id rid inj h st a r q m s => by
    simp only [Node.skelA, Node.Clean]; rw [Subs.cleanAll_skelA s]
  | .ortho id rid inj h s => by simp only [Node.skelA, Node.Clean]; exact Subs.cleanAll_skelA s
theorem Subs.actAt_skelA : (s : Subs) → (i : Nat) → (s.skelA.ActAt i ↔ s.ActAt i)
  | .nil, _ => by simp [Subs.skelA, Subs.ActAt]
  | .cons b n r, 0 => by simp only [Subs.skelA, Subs.ActAt]; rw [Node.act_skelA n, Subs.cleanAll_skelA r]
  | .cons b n r, i+1 => by simp only [Subs.skelA, Subs.ActAt]; rw [Node.clean_skelA n, Subs.actAt_skelA r i]
theorem Subs.actAll_skelA : (s : Subs) → (s.skelA.ActAll ↔ s.ActAll)
  | .nil => by simp [Subs.skelA, Subs.ActAll]
  | .cons b n r => by simp only [Subs.skelA, Subs.ActAll]; rw [Node.act_skelA n, Subs.actAll_skelA r]
theorem Subs.cleanAll_skelA : (s : Subs) → (s.skelA.CleanAll ↔ s.CleanAll)
  | .nil => by simp [Subs.skelA, Subs.CleanAll]
  | .cons b n r => by simp only [Subs.skelA, Subs.CleanAll]; rw [Node.clean_skelA n, Subs.cleanAll_skelA r]
end

theorem Node.valid_skelA : ∀ (p : List Nat) (n : Node), n.skelA.Valid p ↔ n.Valid p
  | [], _ => by simp [Node.Valid, Node.follow]
  | k :: rest, n => by
    rw [Node.valid_cons, Node.valid_cons]
    have : n.skelA.subs.get? k = (n.subs.get? k).map Node.skelA := by
      cases n <;> simp [Node.skelA, Node.subs, Subs.get?_skelA, Subs.get?]
    rw [this]
    cases n.subs.get? k with
    | none => simp
    | some c => simp [Node.valid_skelA rest c]

theorem Node.actP_skelA : ∀ (p : List Nat) (n : Node) (acc : Bool), n.skelA.actP p acc = n.actP p acc
  | [], _, _ => rfl
  | k :: rest, n, acc => by
    cases n with
    | leaf id inj => rfl
    | compo id rid inj h st a r q m s =>
      simp only [Node.skelA, Node.actP, Node.nearest, Node.subs, Subs.get?_skelA]
      cases s.get? k with
      | none => rfl
      | some c => exact Node.actP_skelA rest c _
    | ortho id rid inj h s =>
      simp only [Node.skelA, Node.actP, Node.nearest, Node.subs, Subs.get?_skelA]
      cases s.get? k with
      | none => rfl
      | some c => exact Node.actP_skelA rest c _

theorem Subs.skelA_setBit : ∀ (s : Subs) (i : Nat), (s.setBit i).skelA = s.skelA
  | .nil, _ => rfl
  | .cons b n r, 0 => rfl
  | .cons b n r, i+1 => by simp only [Subs.setBit, Subs.skelA]; rw [Subs.skelA_setBit r i]

mutual
theorem Node.skelA_mark : (n : Node) → (p : List Nat) → (n.mark p).1.skelA = n.skelA
  | n, [] => by cases n <;> rfl
  | .leaf id inj, _ :: _ => rfl
  | .compo id rid inj h st a r q m s, i :: rest => by
    simp only [Node.mark]
    have ih := Subs.skelA_markAt s i rest
    generalize s.markAt i rest = res at ih ⊢
    obtain ⟨s', ph⟩ := res
    cases ph
    · simp only [Node.skelA]; rw [ih]
    · simp only; split <;> (simp only [Node.skelA]; rw [ih])
    · simp only [Node.skelA]; rw [ih]
  | .ortho id rid inj h s, i :: rest => by
    simp only [Node.mark]
    have ih := Subs.skelA_markAt s i rest
    generalize s.markAt i rest = res at ih ⊢
    obtain ⟨s', ph⟩ := res
    simp only [Node.skelA, Subs.skelA_setBit]; rw [ih]
theorem Subs.skelA_markAt : (s : Subs) → (i : Nat) → (p : List Nat) → (s.markAt i p).1.skelA = s.skelA
  | .nil, _, _ => rfl
  | .cons b n r, 0, p => by
    simp only [Subs.markAt]
    have ih := Node.skelA_mark n p
    generalize n.mark p = res at ih ⊢
    obtain ⟨n', ph⟩ := res
    simp only [Subs.skelA]; rw [ih]
  | .cons b n r, i+1, p => by
    simp only [Subs.markAt]
    have ih := Subs.skelA_markAt r i p
    generalize r.markAt i p = res at ih ⊢
    obtain ⟨r', ph⟩ := res
    simp only [Subs.skelA]; rw [ih]
end

/-- `deepRequest` of kind `resume` on a composite region: `requested := resumable or 0`, then the same
below that sub-state. -/
theorem Node.request_resume_compo (id rid inj : Nat) (h : Bool) (st : Strategy) (a r q : Option Nat) (m : Bool)
    (s : Subs) (rq : Req) (w : World U) (hk : rq.kind = .resume) :
    ∃ w' : World U, (Node.request (.compo id rid inj h st a r q m s) rq w).1 =
      .compo id rid inj h st a r (some (r.getD 0)) m (s.requestAt (r.getD 0) rq w').1 := by
  simp only [Node.request, hk, effectiveKind]
  exact ⟨_, rfl⟩

mutual
theorem Node.skelA_request : (n : Node) → (rq : Req) → (w : World U) → rq.kind = .resume →
    (n.request rq w).1.skelA = n.skelA
  | .leaf id inj, rq, w, _ => by simp [Node.request]
  | .ortho id rid inj h s, rq, w, hk => by
    simp only [Node.request, Node.skelA]
    rw [Subs.skelA_requestAll s rq _ hk]
  | .compo id rid inj h st a r q m s, rq, w, hk => by
    obtain ⟨w', he⟩ := Node.request_resume_compo id rid inj h st a r q m s rq w hk
    rw [he]
    simp only [Node.skelA]
    rw [Subs.skelA_requestAt s _ rq w' hk]
theorem Subs.skelA_requestAt : (s : Subs) → (i : Nat) → (rq : Req) → (w : World U) → rq.kind = .resume →
    (s.requestAt i rq w).1.skelA = s.skelA
  | .nil, _, _, _, _ => by simp [Subs.requestAt]
  | .cons b n r, 0, rq, w, hk => by
    simp only [Subs.requestAt, Subs.skelA]; rw [Node.skelA_request n rq w hk]
  | .cons b n r, i+1, rq, w, hk => by
    simp only [Subs.requestAt, Subs.skelA]; rw [Subs.skelA_requestAt r i rq w hk]
theorem Subs.skelA_requestAll : (s : Subs) → (rq : Req) → (w : World U) → rq.kind = .resume →
    (s.requestAll rq w).1.skelA = s.skelA
  | .nil, _, _, _ => by simp [Subs.requestAll]
  | .cons b n r, rq, w, hk => by
    simp only [Subs.requestAll, Subs.skelA]
    rw [Node.skelA_request n rq w hk, Subs.skelA_requestAll r rq _ hk]
end

mutual
theorem Node.skelA_fwdRequest : (n : Node) → (rq : Req) → (w : World U) → rq.kind = .resume →
    (n.fwdRequest rq w).1.skelA = n.skelA
  | .leaf id inj, rq, w, _ => by simp [Node.fwdRequest]
  | .compo id rid inj h st a r q m s, rq, w, hk => by
    cases q with
    | none => simp only [Node.fwdRequest]; exact Node.skelA_request _ rq _ hk
    | some qi =>
      simp only [Node.fwdRequest, Node.skelA]
      rw [Subs.skelA_fwdRequestAt s qi rq _ hk]
  | .ortho id rid inj h s, rq, w, hk => by
    simp only [Node.fwdRequest]
    split
    · simp only [Node.skelA]; rw [Subs.skelA_fwdRequestAll s rq _ hk]
    · exact Node.skelA_request _ rq _ hk
theorem Subs.skelA_fwdRequestAt : (s : Subs) → (i : Nat) → (rq : Req) → (w : World U) → rq.kind = .resume →
    (s.fwdRequestAt i rq w).1.skelA = s.skelA
  | .nil, _, _, _, _ => by simp [Subs.fwdRequestAt]
  | .cons b n r, 0, rq, w, hk => by
    simp only [Subs.fwdRequestAt, Subs.skelA]; rw [Node.skelA_fwdRequest n rq w hk]
  | .cons b n r, i+1, rq, w, hk => by
    simp only [Subs.fwdRequestAt, Subs.skelA]; rw [Subs.skelA_fwdRequestAt r i rq w hk]
theorem Subs.skelA_fwdRequestAll : (s : Subs) → (rq : Req) → (w : World U) → rq.kind = .resume →
    (s.fwdRequestAll rq w).1.skelA = s.skelA
  | .nil, _, _, _ => by simp [Subs.fwdRequestAll]
  | .cons b n r, rq, w, hk => by
    simp only [Subs.fwdRequestAll, Subs.skelA]
    rw [Node.skelA_fwdRequest n rq w hk, Subs.skelA_fwdRequestAll r rq _ hk]
end

mutual
theorem Node.skelA_fwdActive : (n : Node) → (rq : Req) → (w : World U) → rq.kind = .resume →
    (n.fwdActive rq w).1.skelA = n.skelA
  | .leaf id inj, rq, w, _ => by simp [Node.fwdActive]
  | .compo id rid inj h st a r q m s, rq, w, hk => by
    cases q with
    | none =>
      cases a with
      | none => simp [Node.fwdActive]
      | some ai => simp only [Node.fwdActive, Node.skelA]; rw [Subs.skelA_fwdActiveAt s ai rq w hk]
    | some qi =>
      simp only [Node.fwdActive, Node.skelA]
      rw [Subs.skelA_fwdRequestAt s qi rq w hk]
  | .ortho id rid inj h s, rq, w, hk => by
    simp only [Node.fwdActive, Node.skelA]; rw [Subs.skelA_fwdActiveBits s rq w hk]
theorem Subs.skelA_fwdActiveAt : (s : Subs) → (i : Nat) → (rq : Req) → (w : World U) → rq.kind = .resume →
    (s.fwdActiveAt i rq w).1.skelA = s.skelA
  | .nil, _, _, _, _ => by simp [Subs.fwdActiveAt]
  | .cons b n r, 0, rq, w, hk => by
    simp only [Subs.fwdActiveAt, Subs.skelA]; rw [Node.skelA_fwdActive n rq w hk]
  | .cons b n r, i+1, rq, w, hk => by
    simp only [Subs.fwdActiveAt, Subs.skelA]; rw [Subs.skelA_fwdActiveAt r i rq w hk]
theorem Subs.skelA_fwdActiveBits : (s : Subs) → (rq : Req) → (w : World U) → rq.kind = .resume →
    (s.fwdActiveBits rq w).1.skelA = s.skelA
  | .nil, _, _, _ => by simp [Subs.fwdActiveBits]
  | .cons b n r, rq, w, hk => by
    simp only [Subs.fwdActiveBits]
    split
    · simp only [Subs.skelA]
      rw [Node.skelA_fwdActive n rq w hk, Subs.skelA_fwdActiveBits r rq _ hk]
    · simp only [Subs.skelA]
      rw [Subs.skelA_fwdActiveBits r rq _ hk]
end

/-! ### §2 sub-state lists along the forward pass -/

/-- the orthogonal request bit of sub-state `k` -/
def Subs.bit? : Subs → Nat → Option Bool
  | .nil, _ => none
  | .cons b _ _, 0 => some b
  | .cons _ _ r, k+1 => r.bit? k

theorem Subs.markAt_get : ∀ (s : Subs) (k : Nat) (rest : List Nat) (c : Node), s.get? k = some c →
    (s.markAt k rest).1.get? k = some (c.mark rest).1 ∧ (s.markAt k rest).2 = (c.mark rest).2
  | .nil, _, _, _, h => by simp [Subs.get?] at h
  | .cons b n r, 0, rest, c, h => by
    simp only [Subs.get?, Option.some.injEq] at h; subst h
    simp [Subs.markAt, Subs.get?]
  | .cons b n r, k+1, rest, c, h => by
    simp only [Subs.get?] at h
    simp only [Subs.markAt, Subs.get?]
    exact Subs.markAt_get r k rest c h

theorem Subs.get?_setBit : ∀ (s : Subs) (i k : Nat), (s.setBit i).get? k = s.get? k
  | .nil, _, _ => rfl
  | .cons b n r, 0, 0 => rfl
  | .cons b n r, 0, k+1 => rfl
  | .cons b n r, i+1, 0 => rfl
  | .cons b n r, i+1, k+1 => by simp only [Subs.setBit, Subs.get?]; exact Subs.get?_setBit r i k

theorem Subs.bit?_setBit : ∀ (s : Subs) (k : Nat) (c : Node), s.get? k = some c →
    (s.setBit k).bit? k = some true ∧ (s.setBit k).anyBit = true
  | .nil, _, _, h => by simp [Subs.get?] at h
  | .cons b n r, 0, c, _ => by simp [Subs.setBit, Subs.bit?, Subs.anyBit]
  | .cons b n r, k+1, c, h => by
    simp only [Subs.get?] at h
    have := Subs.bit?_setBit r k c h
    simp [Subs.setBit, Subs.bit?, Subs.anyBit, this]

theorem Subs.get?_fwdRequestAt : ∀ (s : Subs) (k : Nat) (rq : Req) (w : World U),
    (s.fwdRequestAt k rq w).1.get? k = (s.get? k).map (fun c => (c.fwdRequest rq w).1)
  | .nil, _, _, _ => by simp [Subs.fwdRequestAt, Subs.get?]
  | .cons b n r, 0, rq, w => by simp [Subs.fwdRequestAt, Subs.get?]
  | .cons b n r, k+1, rq, w => by
    simp only [Subs.fwdRequestAt, Subs.get?]; exact Subs.get?_fwdRequestAt r k rq w

theorem Subs.get?_fwdRequestAll : ∀ (s : Subs) (k : Nat) (rq : Req) (w : World U),
    ∃ w' : World U, (s.fwdRequestAll rq w).1.get? k = (s.get? k).map (fun c => (c.fwdRequest rq w').1)
  | .nil, _, _, w => ⟨w, by simp [Subs.fwdRequestAll, Subs.get?]⟩
  | .cons b n r, 0, rq, w => ⟨w, by simp [Subs.fwdRequestAll, Subs.get?]⟩
  | .cons b n r, k+1, rq, w => by
    simp only [Subs.fwdRequestAll, Subs.get?]; exact Subs.get?_fwdRequestAll r k rq _

theorem Subs.get?_fwdActiveAt : ∀ (s : Subs) (k : Nat) (rq : Req) (w : World U),
    (s.fwdActiveAt k rq w).1.get? k = (s.get? k).map (fun c => (c.fwdActive rq w).1)
  | .nil, _, _, _ => by simp [Subs.fwdActiveAt, Subs.get?]
  | .cons b n r, 0, rq, w => by simp [Subs.fwdActiveAt, Subs.get?]
  | .cons b n r, k+1, rq, w => by
    simp only [Subs.fwdActiveAt, Subs.get?]; exact Subs.get?_fwdActiveAt r k rq w

theorem Subs.get?_fwdActiveBits : ∀ (s : Subs) (k : Nat) (rq : Req) (w : World U), s.bit? k = some true →
    ∃ w' : World U, (s.fwdActiveBits rq w).1.get? k = (s.get? k).map (fun c => (c.fwdActive rq w').1)
  | .nil, _, _, w, h => by simp [Subs.bit?] at h
  | .cons b n r, 0, rq, w, h => by
    simp only [Subs.bit?, Option.some.injEq] at h; subst h
    exact ⟨w, by simp [Subs.fwdActiveBits, Subs.get?]⟩
  | .cons b n r, k+1, rq, w, h => by
    simp only [Subs.bit?] at h
    simp only [Subs.fwdActiveBits]
    split
    · simp only [Subs.get?]; exact Subs.get?_fwdActiveBits r k rq _ h
    · simp only [Subs.get?]; exact Subs.get?_fwdActiveBits r k rq _ h

/-! ### §3 marked paths and what the commit pass makes of them -/

/-- Every composite fork on path `p` is marked towards it and the composite region at its end is marked
towards its (existing) sub-state `i`. -/
def Node.TQ : Node → List Nat → Nat → Prop
  | n, [], i =>
    match n with
    | .compo _ _ _ _ _ _ _ q _ s => q = some i ∧ (s.get? i).isSome = true
    | _ => False
  | n, k :: rest, i =>
    match n.subs.get? k with
    | none => False
    | some c =>
      match n with
      | .compo _ _ _ _ _ _ _ q _ _ => q = some k ∧ Node.TQ c rest i
      | .ortho .. => Node.TQ c rest i
      | .leaf .. => False

/-- Forwarding forks (`requested = none`, `active` on the path) first, then a `TQ` tail. -/
def Node.FT : Node → List Nat → Nat → Prop
  | _, [], _ => False
  | n, k :: rest, i =>
    match n.subs.get? k with
    | none => False
    | some c =>
      match n with
      | .compo _ _ _ _ _ a _ q _ _ => (q = none ∧ a = some k ∧ Node.FT c rest i) ∨ (q = some k ∧ Node.TQ c rest i)
      | .ortho .. => Node.FT c rest i
      | .leaf .. => False

/-- "ends up active": active before and not exited, or entered. -/
def Node.good (μ : Mode) (n : Node) (path : List Nat) : Bool :=
  (n.actP path true && !exited (n.arrive μ path)) || entered (n.arrive μ path)

theorem Node.TQ_enter : ∀ (p : List Nat) (n : Node) (i : Nat), n.TQ p i →
    entered (n.arrive .enter (p ++ [i])) = true ∧ entered (n.arrive .restart (p ++ [i])) = true
  | [], n, i, h => by
    cases n with
    | leaf id inj => simp [Node.TQ] at h
    | ortho id rid inj hh s => simp [Node.TQ] at h
    | compo id rid inj hh st a r q m s =>
      simp only [Node.TQ] at h
      obtain ⟨hq, hs⟩ := h
      subst hq
      cases hc : s.get? i with
      | none => simp [hc] at hs
      | some c =>
        simp only [List.nil_append, Node.arrive, Node.subs, hc, stepMode, if_true]
        by_cases ha : a = some i <;> simp [ha, entered]
  | k :: rest, n, i, h => by
    simp only [Node.TQ] at h
    simp only [List.cons_append, Node.arrive]
    cases hc : n.subs.get? k with
    | none => simp [hc] at h
    | some c =>
      simp only [hc] at h
      cases n with
      | leaf id inj => exact absurd h (by simp)
      | ortho id rid inj hh s => exact Node.TQ_enter rest c i h
      | compo id rid inj hh st a r q m s =>
        obtain ⟨hq, hc'⟩ := h
        subst hq
        have ih := Node.TQ_enter rest c i hc'
        simp only [stepMode, if_true]
        by_cases ha : a = some k
        · simp only [ha, if_true]; exact ⟨ih.1, ih.2⟩
        · simp only [ha, if_false]; exact ⟨ih.1, ih.1⟩

theorem Node.TQ_act : ∀ (p : List Nat) (n : Node) (i : Nat), n.Act → n.TQ p i →
    n.good .reenter (p ++ [i]) = true ∧ n.good .commit (p ++ [i]) = true
  | [], n, i, hact, h => by
    cases n with
    | leaf id inj => simp [Node.TQ] at h
    | ortho id rid inj hh s => simp [Node.TQ] at h
    | compo id rid inj hh st a r q m s =>
      simp only [Node.TQ] at h
      obtain ⟨hq, hs⟩ := h
      subst hq
      cases a with
      | none => simp [Node.Act] at hact
      | some ai =>
        cases hc : s.get? i with
        | none => simp [hc] at hs
        | some c =>
          simp only [List.nil_append, Node.good, Node.actP_compo _ _ _ _ _ _ _ _ _ _ _ _ _ c hc, Node.actP_nil,
            Node.arrive, Node.subs, hc, stepMode]
          by_cases hai : ai = i
          · subst hai
            cases m <;> simp [entered, exited]
          · have h1 : ¬ i = ai := fun h => hai h.symm
            cases m <;> simp [hai, h1, entered, exited]
  | k :: rest, n, i, hact, h => by
    simp only [Node.TQ] at h
    cases hc : n.subs.get? k with
    | none => simp [hc] at h
    | some c =>
      simp only [hc] at h
      cases n with
      | leaf id inj => exact absurd h (by simp)
      | ortho id rid inj hh s =>
        simp only [Node.subs] at hc
        simp only [Node.Act] at hact
        have ih := Node.TQ_act rest c i (Subs.actAll_get_q hact hc) h
        simp only [List.cons_append, Node.good, Node.actP_ortho _ _ _ _ _ _ _ _ c hc, Node.arrive, Node.subs, hc]
        exact ih
      | compo id rid inj hh st a r q m s =>
        simp only [Node.subs] at hc
        obtain ⟨hq, hc'⟩ := h
        subst hq
        cases a with
        | none => simp [Node.Act] at hact
        | some ai =>
          simp only [Node.Act] at hact
          have hen := Node.TQ_enter rest c i hc'
          simp only [List.cons_append, Node.good, Node.actP_compo _ _ _ _ _ _ _ _ _ _ _ _ _ c hc,
            Node.arrive, Node.subs, hc, stepMode]
          by_cases hai : ai = k
          · subst hai
            have ih := Node.TQ_act rest c i ((Subs.actAt_get_q hact hc).1 rfl) hc'
            simp only [Node.good] at ih
            cases m
            · simp only [if_true, BEq.rfl, ne_eq, not_true_eq_false, if_false, Bool.false_eq_true]
              exact ⟨ih.1, ih.1⟩
            · simp only [if_true, BEq.rfl, ne_eq, not_true_eq_false, if_false]
              exact ⟨ih.1, by simp [hen.2]⟩
          · have h1 : ¬ k = ai := fun h => hai h.symm
            simp [hai, h1, hen.1]

theorem Node.FT_act : ∀ (p : List Nat) (n : Node) (i : Nat), n.Act → n.FT p i → n.good .commit (p ++ [i]) = true
  | [], _, _, _, h => by simp [Node.FT] at h
  | k :: rest, n, i, hact, h => by
    simp only [Node.FT] at h
    cases hc : n.subs.get? k with
    | none => simp [hc] at h
    | some c =>
      simp only [hc] at h
      cases n with
      | leaf id inj => exact absurd h (by simp)
      | ortho id rid inj hh s =>
        simp only [Node.subs] at hc
        simp only [Node.Act] at hact
        have ih := Node.FT_act rest c i (Subs.actAll_get_q hact hc) h
        simp only [List.cons_append, Node.good, Node.actP_ortho _ _ _ _ _ _ _ _ c hc, Node.arrive, Node.subs, hc]
        exact ih
      | compo id rid inj hh st a r q m s =>
        simp only [Node.subs] at hc
        cases a with
        | none => simp [Node.Act] at hact
        | some ai =>
          simp only [Node.Act] at hact
          rcases h with ⟨hq, ha, hf⟩ | ⟨hq, ht⟩
          · subst hq
            simp only [Option.some.injEq] at ha
            subst ha
            have ih := Node.FT_act rest c i ((Subs.actAt_get_q hact hc).1 rfl) hf
            simp only [Node.good] at ih
            simp only [List.cons_append, Node.good, Node.actP_compo _ _ _ _ _ _ _ _ _ _ _ _ _ c hc,
              Node.arrive, Node.subs, hc, stepMode, if_true, BEq.rfl]
            exact ih
          · subst hq
            have hen := Node.TQ_enter rest c i ht
            simp only [List.cons_append, Node.good, Node.actP_compo _ _ _ _ _ _ _ _ _ _ _ _ _ c hc,
              Node.arrive, Node.subs, hc, stepMode]
            by_cases hai : ai = k
            · subst hai
              have ih := Node.TQ_act rest c i ((Subs.actAt_get_q hact hc).1 rfl) ht
              simp only [Node.good] at ih
              cases m
              · simp only [if_true, BEq.rfl, ne_eq, not_true_eq_false, if_false, Bool.false_eq_true]
                exact ih.1
              · simp [hen.2]
            · have h1 : ¬ k = ai := fun h => hai h.symm
              simp [h1, hen.1]

/-! ### §4 `mark`, then the forward pass -/

theorem Subs.noMarksAll_get : ∀ {s : Subs} {k : Nat} {c : Node}, s.NoMarksAll → s.get? k = some c →
    c.NoMarks ∧ s.bit? k = some false
  | .nil, _, _, _, h => by simp [Subs.get?] at h
  | .cons b n r, 0, c, hn, h => by
    simp only [Subs.get?, Option.some.injEq] at h; subst h
    simp only [Subs.NoMarksAll] at hn
    exact ⟨hn.2.1, by simp [Subs.bit?, hn.1]⟩
  | .cons b n r, k+1, c, hn, h => by
    simp only [Subs.get?] at h
    simp only [Subs.NoMarksAll] at hn
    simpa [Subs.bit?] using Subs.noMarksAll_get hn.2.2 h

/-- The sub-state a `resume` of the composite region at path `p` picks: its resumable one, else 0. -/
def Node.endRes (n : Node) (p : List Nat) : Option Nat :=
  match n.follow p with
  | some (.compo _ _ _ _ _ _ r _ _ s) => if (s.get? (r.getD 0)).isSome then some (r.getD 0) else none
  | _ => none

theorem Node.endRes_cons {n : Node} {k : Nat} {rest : List Nat} {c : Node} (hc : n.subs.get? k = some c) :
    n.endRes (k :: rest) = c.endRes rest := by
  simp [Node.endRes, Node.follow, hc]

theorem Node.endRes_valid {n : Node} {p : List Nat} {i : Nat} (h : n.endRes p = some i) : n.Valid p := by
  unfold Node.endRes at h
  unfold Node.Valid
  cases hf : n.follow p with
  | none => simp [hf] at h
  | some x => rfl

/-- Well-formed: an entered sub-tree or an inactive one. -/
def Node.WF (n : Node) : Prop := n.Act ∨ n.Clean

theorem Node.WF_child_compo {id rid inj : Nat} {h : Bool} {st : Strategy} {a r q : Option Nat} {m : Bool} {s : Subs}
    {k : Nat} {c : Node} (hw : (Node.compo id rid inj h st a r q m s).WF) (hc : s.get? k = some c) :
    c.WF ∧ (c.Clean ∨ (a = some k ∧ (Node.compo id rid inj h st a r q m s).Act)) := by
  rcases hw with ha | hcl
  · cases a with
    | none => simp [Node.Act] at ha
    | some ai =>
      have ha' := ha
      simp only [Node.Act] at ha
      have := Subs.actAt_get_q ha hc
      by_cases hk : k = ai
      · subst hk; exact ⟨Or.inl (this.1 rfl), Or.inr ⟨rfl, ha'⟩⟩
      · exact ⟨Or.inr (this.2 hk), Or.inl (this.2 hk)⟩
  · simp only [Node.Clean] at hcl
    have := Subs.cleanAll_get_q hcl.2 hc
    exact ⟨Or.inr this, Or.inl this⟩

theorem Node.WF_child_ortho {id rid inj : Nat} {h : Bool} {s : Subs} {k : Nat} {c : Node}
    (hw : (Node.ortho id rid inj h s).WF) (hc : s.get? k = some c) : c.WF := by
  rcases hw with ha | hcl
  · simp only [Node.Act] at ha; exact Or.inl (Subs.actAll_get_q ha hc)
  · simp only [Node.Clean] at hcl; exact Or.inr (Subs.cleanAll_get_q hcl hc)

theorem Subs.isSome_get?_of_skelA {s s' : Subs} (h : s'.skelA = s.skelA) (i : Nat) :
    (s'.get? i).isSome = (s.get? i).isSome := by
  have := congrArg (fun t => (Subs.get? t i).isSome) h
  simpa [Subs.get?_skelA] using this

/-- **Three-phase `requestImmediate` followed by the forward pass** (kind `resume`), by induction on the
path, indexed by the phase in which the upward walk arrives at the node. -/
theorem Node.mark_forward (rq : Req) (hk : rq.kind = .resume) :
    ∀ (p : List Nat) (n : Node) (i : Nat), n.NoMarks → n.WF → n.endRes p = some i →
      (n.Clean → (n.mark p).2 ≠ .p3) ∧
      ((n.mark p).2 = .p1 → ∀ w : World U, ((n.mark p).1.fwdRequest rq w).1.TQ p i) ∧
      ((n.mark p).2 = .p2 → (∀ w : World U, ((n.mark p).1.fwdRequest rq w).1.TQ p i) ∧
                             (∀ w : World U, ((n.mark p).1.fwdActive rq w).1.FT p i)) ∧
      ((n.mark p).2 = .p3 → n.Act ∧ ∀ w : World U, ((n.mark p).1.fwdActive rq w).1.FT p i)
  | [], n, i, hnm, _, hend => by
    have hmk : n.mark [] = (n, .p1) := by cases n <;> rfl
    rw [hmk]
    refine ⟨fun _ => by simp, fun _ w => ?_, fun h => by simp at h, fun h => by simp at h⟩
    cases n with
    | leaf id inj => simp [Node.endRes, Node.follow] at hend
    | ortho id rid inj h s => simp [Node.endRes, Node.follow] at hend
    | compo id rid inj h st a r q m s =>
      simp only [Node.NoMarks] at hnm
      obtain ⟨hq, _, _⟩ := hnm
      subst hq
      simp only [Node.endRes, Node.follow] at hend
      split at hend
      · next hs =>
        simp only [Option.some.injEq] at hend
        simp only [Node.fwdRequest]
        obtain ⟨w', he⟩ := Node.request_resume_compo id rid inj h st a r none m s rq (w.pin id rq.index) hk
        rw [he]
        simp only [Node.TQ]
        subst hend
        exact ⟨rfl, by rw [Subs.isSome_get?_of_skelA (Subs.skelA_requestAt s _ rq w' hk)]; exact hs⟩
      · simp at hend
  | k :: rest, n, i, hnm, hwf, hend => by
    have hv := Node.endRes_valid hend
    obtain ⟨c, hc, _⟩ := Node.valid_cons.mp hv
    rw [Node.endRes_cons hc] at hend
    cases n with
    | leaf id inj => simp [Node.subs, Subs.get?] at hc
    | ortho id rid inj h s =>
      simp only [Node.subs] at hc
      simp only [Node.NoMarks] at hnm
      have hcn := (Subs.noMarksAll_get hnm hc).1
      have ih := Node.mark_forward rq hk rest c i hcn (Node.WF_child_ortho hwf hc) hend
      obtain ⟨hg, hph⟩ := Subs.markAt_get s k rest c hc
      have hmk : (Node.ortho id rid inj h s).mark (k :: rest) =
          (.ortho id rid inj h ((s.markAt k rest).1.setBit k), (s.markAt k rest).2) := by
        simp only [Node.mark]
      rw [hmk, hph]
      have hget : ((s.markAt k rest).1.setBit k).get? k = some (c.mark rest).1 := by
        rw [Subs.get?_setBit]; exact hg
      obtain ⟨hbit, hany⟩ := Subs.bit?_setBit (s.markAt k rest).1 k _ hg
      obtain ⟨ih0, ih1, ih2, ih3⟩ := ih
      have tq : ∀ w : World U, (∀ w' : World U, ((c.mark rest).1.fwdRequest rq w').1.TQ rest i) →
          ((Node.ortho id rid inj h ((s.markAt k rest).1.setBit k)).fwdRequest rq w).1.TQ (k :: rest) i := by
        intro w hall
        simp only [Node.fwdRequest, hany, if_true]
        obtain ⟨w', hw'⟩ := Subs.get?_fwdRequestAll ((s.markAt k rest).1.setBit k) k rq (w.pin id rq.index)
        rw [hget] at hw'
        simp only [Node.TQ, Node.subs, hw', Option.map_some]
        exact hall w'
      have ft : ∀ w : World U, (∀ w' : World U, ((c.mark rest).1.fwdActive rq w').1.FT rest i) →
          ((Node.ortho id rid inj h ((s.markAt k rest).1.setBit k)).fwdActive rq w).1.FT (k :: rest) i := by
        intro w hall
        simp only [Node.fwdActive]
        obtain ⟨w', hw'⟩ := Subs.get?_fwdActiveBits ((s.markAt k rest).1.setBit k) k rq w hbit
        rw [hget] at hw'
        simp only [Node.FT, Node.subs, hw', Option.map_some]
        exact hall w'
      refine ⟨fun hcl => ih0 ?_, fun h1 w => tq w (ih1 h1), fun h2 => ⟨fun w => tq w (ih2 h2).1, fun w => ft w (ih2 h2).2⟩,
        fun h3 => ⟨?_, fun w => ft w (ih3 h3).2⟩⟩
      · simp only [Node.Clean] at hcl; exact Subs.cleanAll_get_q hcl hc
      · rcases hwf with ha | hcl
        · exact ha
        · simp only [Node.Clean] at hcl
          exact absurd h3 (ih0 (Subs.cleanAll_get_q hcl hc))
    | compo id rid inj h st a r q m s =>
      simp only [Node.subs] at hc
      simp only [Node.NoMarks] at hnm
      obtain ⟨hq, hm, hnms⟩ := hnm
      subst hq; subst hm
      have hcn := (Subs.noMarksAll_get hnms hc).1
      obtain ⟨hcw, hcases⟩ := Node.WF_child_compo hwf hc
      have ih := Node.mark_forward rq hk rest c i hcn hcw hend
      obtain ⟨hg, hph⟩ := Subs.markAt_get s k rest c hc
      obtain ⟨ih0, ih1, ih2, ih3⟩ := ih
      -- the node after `mark`, by the phase of the child
      have tqReq : ∀ (m' : Bool) (w : World U), (∀ w' : World U, ((c.mark rest).1.fwdRequest rq w').1.TQ rest i) →
          ((Node.compo id rid inj h st a r (some k) m' (s.markAt k rest).1).fwdRequest rq w).1.TQ (k :: rest) i := by
        intro m' w hall
        simp only [Node.fwdRequest]
        have hw' := Subs.get?_fwdRequestAt (s.markAt k rest).1 k rq (w.pin id rq.index)
        rw [hg] at hw'
        simp only [Node.TQ, Node.subs, hw', Option.map_some]
        exact ⟨trivial, hall _⟩
      have ftReq : ∀ (m' : Bool) (w : World U), (∀ w' : World U, ((c.mark rest).1.fwdRequest rq w').1.TQ rest i) →
          ((Node.compo id rid inj h st a r (some k) m' (s.markAt k rest).1).fwdActive rq w).1.FT (k :: rest) i := by
        intro m' w hall
        simp only [Node.fwdActive]
        have hw' := Subs.get?_fwdRequestAt (s.markAt k rest).1 k rq w
        rw [hg] at hw'
        simp only [Node.FT, Node.subs, hw', Option.map_some]
        exact Or.inr ⟨trivial, hall _⟩
      have ftFwd : ∀ (w : World U), a = some k → (∀ w' : World U, ((c.mark rest).1.fwdActive rq w').1.FT rest i) →
          ((Node.compo id rid inj h st a r none true (s.markAt k rest).1).fwdActive rq w).1.FT (k :: rest) i := by
        intro w ha hall
        subst ha
        simp only [Node.fwdActive]
        have hw' := Subs.get?_fwdActiveAt (s.markAt k rest).1 k rq w
        rw [hg] at hw'
        simp only [Node.FT, Node.subs, hw', Option.map_some]
        exact Or.inl ⟨trivial, trivial, hall _⟩
      cases hphc : (c.mark rest).2 with
      | p1 =>
        have hmk : (Node.compo id rid inj h st a r none false s).mark (k :: rest) =
            (.compo id rid inj h st a r (some k) false (s.markAt k rest).1, .p2) := by
          simp only [Node.mark]
          generalize hres : s.markAt k rest = res at hph
          obtain ⟨s', ph⟩ := res
          simp only at hph; subst hph; simp [hphc]
        rw [hmk]
        exact ⟨fun _ => by simp, fun h1 => by simp at h1,
          fun _ => ⟨fun w => tqReq false w (ih1 hphc), fun w => ftReq false w (ih1 hphc)⟩, fun h3 => by simp at h3⟩
      | p2 =>
        by_cases hak : a = some k
        · have hmk : (Node.compo id rid inj h st a r none false s).mark (k :: rest) =
              (.compo id rid inj h st a r none true (s.markAt k rest).1, .p3) := by
            simp only [Node.mark]
            generalize hres : s.markAt k rest = res at hph
            obtain ⟨s', ph⟩ := res
            simp only at hph; subst hph; simp [hphc, hak]
          rw [hmk]
          have hact : (Node.compo id rid inj h st a r none false s).Act := by
            rcases hwf with ha | hcl
            · exact ha
            · simp only [Node.Clean] at hcl; rw [hcl.1] at hak; simp at hak
          refine ⟨fun hcl => ?_, fun h1 => by simp at h1, fun h2 => by simp at h2,
            fun _ => ⟨hact, fun w => ftFwd w hak (ih2 hphc).2⟩⟩
          simp only [Node.Clean] at hcl; rw [hcl.1] at hak; simp at hak
        · have hmk : (Node.compo id rid inj h st a r none false s).mark (k :: rest) =
              (.compo id rid inj h st a r (some k) true (s.markAt k rest).1, .p2) := by
            simp only [Node.mark]
            generalize hres : s.markAt k rest = res at hph
            obtain ⟨s', ph⟩ := res
            simp only at hph; subst hph; simp [hphc, hak]
          rw [hmk]
          exact ⟨fun _ => by simp, fun h1 => by simp at h1,
            fun _ => ⟨fun w => tqReq true w (ih2 hphc).1, fun w => ftReq true w (ih2 hphc).1⟩, fun h3 => by simp at h3⟩
      | p3 =>
        have hmk : (Node.compo id rid inj h st a r none false s).mark (k :: rest) =
            (.compo id rid inj h st a r none true (s.markAt k rest).1, .p3) := by
          simp only [Node.mark]
          generalize hres : s.markAt k rest = res at hph
          obtain ⟨s', ph⟩ := res
          simp only at hph; subst hph; simp [hphc]
        rw [hmk]
        -- the child is not clean (a clean sub-tree never answers phase 3): it is the active sub-state
        have hak : a = some k ∧ (Node.compo id rid inj h st a r none false s).Act := by
          rcases hcases with hcl | hh
          · exact absurd hphc (ih0 hcl)
          · exact hh
        refine ⟨fun hcl => ?_, fun h1 => by simp at h1, fun h2 => by simp at h2,
          fun _ => ⟨hak.2, fun w => ftFwd w hak.1 (ih3 hphc).2⟩⟩
        simp only [Node.Clean] at hcl; rw [hcl.1] at hak; simp at hak

/-- The upward walk of `requestImmediate` stays in phase 1 only while it meets no composite fork. -/
theorem Node.mark_phase_p1 : ∀ (p : List Nat) (n : Node) (acc : Option ((Option Nat × Option Nat × Option Nat × Bool) × Nat)),
    n.Valid p → (n.mark p).2 = .p1 → Node.lastCompo n p acc = acc
  | [], _, _, _, _ => rfl
  | k :: rest, n, acc, hv, hph => by
    obtain ⟨c, hc, hvc⟩ := Node.valid_cons.mp hv
    cases n with
    | leaf id inj => simp [Node.subs, Subs.get?] at hc
    | compo id rid inj h st a r q m s =>
      exfalso
      simp only [Node.mark] at hph
      generalize s.markAt k rest = res at hph
      obtain ⟨s', ph⟩ := res
      cases ph <;> simp at hph
      split at hph <;> simp at hph
    | ortho id rid inj h s =>
      simp only [Node.subs] at hc
      obtain ⟨_, hph'⟩ := Subs.markAt_get s k rest c hc
      have : (s.markAt k rest).2 = .p1 := by
        simp only [Node.mark] at hph
        exact hph
      rw [hph'] at this
      simp only [Node.lastCompo, Node.subs, hc]
      exact Node.mark_phase_p1 rest c acc hvc this

theorem Node.valid_append_sub : ∀ (p : List Nat) (n : Node) (i : Nat), n.endRes p = some i → n.Valid (p ++ [i])
  | [], n, i, h => by
    cases n with
    | leaf id inj => simp [Node.endRes, Node.follow] at h
    | ortho id rid inj hh s => simp [Node.endRes, Node.follow] at h
    | compo id rid inj hh st a r q m s =>
      simp only [Node.endRes, Node.follow] at h
      split at h
      · next hs =>
        simp only [Option.some.injEq] at h; subst h
        cases hc : s.get? (r.getD 0) with
        | none => simp [hc] at hs
        | some c => simp [Node.Valid, Node.follow, Node.subs, hc]
      · simp at h
  | k :: rest, n, i, h => by
    have hv := Node.endRes_valid h
    obtain ⟨c, hc, _⟩ := Node.valid_cons.mp hv
    rw [Node.endRes_cons hc] at h
    rw [List.cons_append, Node.valid_cons]
    exact ⟨c, hc, Node.valid_append_sub rest c i h⟩

/-- **A lone `resume` of a region with a composite ancestor.**  `root` a well-formed active tree without
marks, `p` the path of a composite region whose resumable-or-first sub-state is `i`, and some composite
region above it: after `requestImmediate` + `deepForwardActive` (kind `resume`) and the commit pass,
`isActive` of that sub-state is true — for all worlds. -/
theorem Node.resume_commit (root : Node) (p : List Nat) (i : Nat) (rq : Req) (hk : rq.kind = .resume)
    (w w' : World U) (hnm : root.NoMarks) (hact : root.Act) (hend : root.endRes p = some i)
    (hfork : (root.lastCompo p none).isSome = true) :
    (((root.mark p).1.fwdActive rq w).1.commit w').1.actP (p ++ [i]) true = true := by
  have hmf := Node.mark_forward (U := U) rq hk p root i hnm (Or.inl hact) hend
  obtain ⟨_, _, h2, h3⟩ := hmf
  have hft : ((root.mark p).1.fwdActive rq w).1.FT p i := by
    cases hph : (root.mark p).2 with
    | p1 =>
      have := Node.mark_phase_p1 p root none (Node.endRes_valid hend) hph
      rw [this] at hfork; simp at hfork
    | p2 => exact (h2 hph).2 w
    | p3 => exact (h3 hph).2 w
  have hsk : ((root.mark p).1.fwdActive rq w).1.skelA = root.skelA := by
    rw [Node.skelA_fwdActive _ rq w hk, Node.skelA_mark]
  have hact' : ((root.mark p).1.fwdActive rq w).1.Act := by
    rw [← Node.act_skelA, hsk, Node.act_skelA]; exact hact
  have hval : ((root.mark p).1.fwdActive rq w).1.Valid (p ++ [i]) := by
    rw [← Node.valid_skelA, hsk, Node.valid_skelA]; exact Node.valid_append_sub p root i hend
  rw [Node.commit_outcome (p ++ [i]) _ w' hact' hval]
  exact Node.FT_act p _ i hact' hft

/-- The same for the root region itself (`applyRequest` with destination 0 runs `deepRequest` on it). -/
theorem Node.resume_commit_root (root : Node) (i : Nat) (rq : Req) (hk : rq.kind = .resume)
    (w w' : World U) (hnm : root.NoMarks) (hact : root.Act) (hend : root.endRes [] = some i) :
    ((root.request rq w).1.commit w').1.actP [i] true = true := by
  cases root with
  | leaf id inj => simp [Node.endRes, Node.follow] at hend
  | ortho id rid inj h s => simp [Node.endRes, Node.follow] at hend
  | compo id rid inj h st a r q m s =>
    obtain ⟨w1, he⟩ := Node.request_resume_compo id rid inj h st a r q m s rq w hk
    have hsk : (Node.request (.compo id rid inj h st a r q m s) rq w).1.skelA =
        (Node.compo id rid inj h st a r q m s).skelA := Node.skelA_request _ rq w hk
    have hact' : (Node.request (.compo id rid inj h st a r q m s) rq w).1.Act := by
      rw [← Node.act_skelA, hsk, Node.act_skelA]; exact hact
    have hval : (Node.request (.compo id rid inj h st a r q m s) rq w).1.Valid ([] ++ [i]) := by
      rw [← Node.valid_skelA, hsk, Node.valid_skelA]; exact Node.valid_append_sub [] _ i hend
    have htq : (Node.request (.compo id rid inj h st a r q m s) rq w).1.TQ [] i := by
      rw [he]
      simp only [Node.endRes, Node.follow] at hend
      split at hend
      · next hs =>
        simp only [Option.some.injEq] at hend; subst hend
        simp only [Node.TQ]
        exact ⟨trivial, by rw [Subs.isSome_get?_of_skelA (Subs.skelA_requestAt s _ rq w1 hk)]; exact hs⟩
      · simp at hend
    have := Node.commit_outcome ([] ++ [i]) _ w' hact' hval
    simp only [List.nil_append] at this
    rw [this]
    exact (Node.TQ_act [] _ i hact' htq).2

end Hfsm
