/-
C17 replayer: identifiers and structural metadata.

Transcript (written by the translation units that /verif/gen/emit_c17.py generates, one block per
machine structure; every value is read from the real hfsm2 types):

    shape <s-expression>
    stateId <k> => <FSM::stateId<S_k>()>      k-th node in pre-order, named states only
    regionId <k> => <FSM::regionId<S_k>()>    headed regions only
    count <NAME> => <value>                   RF_ / Info / ArgsT members
    mat C|CS|CS1|S|O|OS ...                   I_<> tuples of the materialised types
    reg <table> <i> => ...                    RegistryT tables after the real deepRegister
    peer stateId|regionId|count ...           same queries on a separately named peer
    end

On a `shape` line the model computes the complete block it expects (`expectedBlock`); every
following line must equal the next expected line.
-/
import Hfsm.Drive.Common
import Hfsm.Model.ShapeInfo

namespace Hfsm.Drive.C17
open Hfsm Hfsm.Drive

/-! ### s-expression parser -/

/-- Tokens: `(`, `)` and maximal runs of other non-blank characters. -/
def tokenize (s : String) : List String :=
  let step (acc : List String × String) (c : Char) : List String × String :=
    let (out, cur) := acc
    let flush := if cur.isEmpty then out else cur :: out
    if c = '(' then ("(" :: flush, "")
    else if c = ')' then (")" :: flush, "")
    else if c = ' ' || c = '\t' || c = '\r' || c = '\n' then (flush, "")
    else (out, cur.push c)
  let (out, cur) := s.toList.foldl step ([], "")
  (if cur.isEmpty then out else cur :: out).reverse

def flag? (pre : Char) (t : String) : Option Nat :=
  match t.toList with
  | c :: rest => if c = pre ∧ !rest.isEmpty ∧ rest.all Char.isDigit then (String.ofList rest).toNat? else none
  | [] => none

def strategy? : String → Option Strategy
  | "composite" => some .composite
  | "resumable" => some .resumable
  | "selectable" => some .selectable
  | "utilitarian" => some .utilitarian
  | "random" => some .random
  | _ => none

mutual
/-- `(L i<n>)`, `(C h<0|1> i<n> <strategy> sub…)`, `(O h<0|1> i<n> sub…)`. -/
def parseShape : Nat → List String → Option (Shape × List String)
  | 0, _ => none
  | _ + 1, "(" :: "L" :: i :: ")" :: rest => do
    let inj ← flag? 'i' i
    pure (.leaf inj, rest)
  | fuel + 1, "(" :: "C" :: h :: i :: st :: rest => do
    let hd ← flag? 'h' h
    let inj ← flag? 'i' i
    let strat ← strategy? st
    let (subs, rest') ← parseSubs fuel rest
    pure (.compo (hd != 0) inj strat subs, rest')
  | fuel + 1, "(" :: "O" :: h :: i :: rest => do
    let hd ← flag? 'h' h
    let inj ← flag? 'i' i
    let (subs, rest') ← parseSubs fuel rest
    pure (.ortho (hd != 0) inj subs, rest')
  | _ + 1, _ => none
/-- Sub-states up to and including the closing parenthesis of the region. -/
def parseSubs : Nat → List String → Option (Shapes × List String)
  | 0, _ => none
  | _ + 1, ")" :: rest => some (.nil, rest)
  | fuel + 1, toks => do
    let (s, rest) ← parseShape fuel toks
    let (r, rest') ← parseSubs fuel rest
    pure (.cons s r, rest')
end

def parse (text : String) : Option Shape :=
  let toks := tokenize text
  match parseShape (toks.length + 1) toks with
  | some (s, []) => some s
  | _ => none

/-! ### expected block -/

def idxStr (ix : Idx) : String :=
  s!"{ix.stateId} {ix.compoIndex} {ix.orthoIndex} {ix.orthoUnit}"

/-- `enum Strategy { Composite, Resumable, Selectable, Utilitarian, RandomUtil }` (features/transition.hpp). -/
def strategyOrd : Strategy → Nat
  | .composite => 0 | .resumable => 1 | .selectable => 2 | .utilitarian => 3 | .random => 4

def b01 (b : Bool) : Nat := if b then 1 else 0

/-- The `mat S|C|O` line of one node. -/
def nodeLine (r : NodeRec) : String :=
  match r.kind with
  | .leaf => s!"mat S {idxStr r.idx} stateId {r.idx.stateId}"
  | .compo st =>
    s!"mat C {idxStr r.idx} head {r.idx.stateId} headed {b01 r.headed} region {r.idx.regionId} forkId {r.forkId} width {r.width} size {r.size} strategy {strategyOrd st}"
  | .ortho =>
    s!"mat O {idxStr r.idx} head {r.idx.stateId} headed {b01 r.headed} region {r.idx.regionId} forkId {r.forkId} width {r.width} size {r.size}"

def csLine : CsNode → String
  | .split ix p n l r => s!"mat CS {idxStr ix} prong {p} n {n} lprong {l} rprong {r}"
  | .single ix p => s!"mat CS1 {idxStr ix} prong {p}"

mutual
/-- The lines the harness' `DumpNode / DumpCSplit / DumpCSubs / DumpOSubs` print, in their order,
computed from the model's `Shape.walk`-components (`csAssign`, `csTrace`, `Idx.*`, `Shape.info`). -/
def matLines (ix : Idx) (parent : Parent) (path : Path) : Shape → List String
  | .leaf i => ((Shape.leaf i).walk ix parent path).take 1 |>.map nodeLine
  | .compo h i st subs =>
    (((Shape.compo h i st subs).walk ix parent path).take 1 |>.map nodeLine) ++
    ((csTrace ix.compoSubs 0 subs.infos).map csLine) ++
    matLinesC (csAssign ix.compoSubs 0 subs.infos) ix.compoId path 0 subs
  | .ortho h i subs =>
    (((Shape.ortho h i subs).walk ix parent path).take 1 |>.map nodeLine) ++
    matLinesO (ix.orthoSubs subs.length) 0 ix.orthoId path subs
def matLinesC (assign : List (Idx × Nat)) (forkId : Int) (path : Path) (k : Nat) :
    Shapes → List String
  | .nil => []
  | .cons s r =>
    match assign with
    | [] => ["model-error: csAssign too short"]
    | (ix, np) :: rest => matLines ix ⟨forkId, np⟩ (path ++ [k]) s ++ matLinesC rest forkId path (k + 1) r
def matLinesO (ix : Idx) (np : Nat) (forkId : Int) (path : Path) : Shapes → List String
  | .nil => []
  | .cons s r =>
    s!"mat OS {idxStr ix} prong {np}" ::
      (matLines ix ⟨forkId, np⟩ (path ++ [np]) s ++ matLinesO (ix.skip s.info) (np + 1) forkId path r)
end

def isNodeLine (l : String) : Bool :=
  l.startsWith "mat S " || l.startsWith "mat C " || l.startsWith "mat O "

def countLines (pre : String) (i : Info) : List String :=
  [ s!"{pre}count STATE_COUNT => {i.stateCount}",
    s!"{pre}count REGION_COUNT => {i.regionCount}",
    s!"{pre}count COMPO_COUNT => {i.compoCount}",
    s!"{pre}count ORTHO_COUNT => {i.orthoCount}",
    s!"{pre}count ORTHO_UNITS => {i.orthoUnits}",
    s!"{pre}count COMPO_PRONGS => {i.compoProngs}",
    s!"{pre}count REVERSE_DEPTH => {i.reverseDepth}",
    s!"{pre}count WIDTH => {i.width}",
    s!"{pre}count ACTIVE_BITS => {i.activeBits}",
    s!"{pre}count RESUMABLE_BITS => {i.resumableBits}",
    s!"{pre}count SERIAL_BITS => {i.serialBits}",
    s!"{pre}count TASK_CAPACITY => {i.taskCapacity}",
    s!"{pre}count INFO_STATE_COUNT => {i.stateCount}",
    s!"{pre}count INFO_REGION_COUNT => {i.regionCount}",
    s!"{pre}count ARGS_STATE_COUNT => {i.stateCount}",
    s!"{pre}count ARGS_REGION_COUNT => {i.regionCount}",
    s!"{pre}count ARGS_COMPO_COUNT => {i.compoCount}",
    s!"{pre}count ARGS_ORTHO_COUNT => {i.orthoCount}",
    s!"{pre}count ARGS_ORTHO_UNITS => {i.orthoUnits}",
    s!"{pre}count ARGS_SERIAL_BITS => {i.argsSerialBits}",
    s!"{pre}count ARGS_TASK_CAPACITY => {i.taskCapacity}",
    s!"{pre}count INSTANCE_TASK_CAPACITY => {i.taskCapacity}" ]

def optNat : Option Nat → String
  | some n => toString n
  | none => "none"

/-- `stateId` / `regionId` lines through the model of the *public* queries
(`index<StateList, S>()`, `index<RegionList, S>()`), `k` = position in visiting order. -/
def idLines (pre : String) (s : Shape) : List String :=
  let recs := s.nodes.zipIdx
  (recs.filter (fun (r, _) => r.headed)).map (fun (r, k) =>
    s!"{pre}stateId {k} => {optNat (s.stateId? r.path)}") ++
  (recs.filter (fun (r, _) => r.headed && r.isRegion)).map (fun (r, k) =>
    s!"{pre}regionId {k} => {optNat (s.regionId? r.path)}")

def parentStr : Option Parent → String
  | some p => s!"{p.forkId} {p.prong}"
  | none => "unwritten"

def tableLines {α : Type} (name : String) (f : Option α → String) (t : List (Option α)) : List String :=
  t.zipIdx.map (fun (v, i) => s!"reg {name} {i} => {f v}")

def regLines (s : Shape) : List String :=
  match s.register with
  | none => ["model: a deepRegister write is out of bounds"]
  | some reg =>
    tableLines "stateParents" parentStr reg.stateParents ++
    tableLines "compoParents" parentStr reg.compoParents ++
    tableLines "orthoParents" parentStr reg.orthoParents ++
    -- the harness prints the first ORTHO_COUNT entries of the ORTHO_UNITS-sized table
    tableLines "orthoUnits" (fun | some (u, w) => s!"{u} {w}" | none => "unwritten")
      (reg.orthoUnits.take s.info.orthoCount) ++
    tableLines "regionHeads" optNat reg.regionHeads ++
    tableLines "regionSizes" optNat reg.regionSizes

def expectedBlock (s : Shape) : List String :=
  let mat := matLines Idx.root Parent.invalid [] s
  let flat := s.nodes.map nodeLine
  let consistency :=
    if mat.filter isNodeLine = flat then [] else ["model-error: matLines and Shape.walk disagree"]
  idLines "" s ++ countLines "" s.info ++ mat ++ consistency ++ regLines s ++
    idLines "peer " s ++ countLines "peer " s.info ++ ["end"]

/-! ### replayer -/

structure St where
  /-- lines the model still expects in the current block -/
  expected : List String := []
  shapes   : Nat := 0

def step (st : St) (line : String) : St × Option String :=
  let ws := words line
  match ws with
  | [] => (st, none)
  | "ORACLE-FAIL" :: _ => (st, none)
  | "shape" :: _ =>
    match st.expected with
    | e :: _ => (st, mismatch "block ended early; model still expects" e "shape")
    | [] =>
      let text := (line.trimAscii.toString.drop 5).toString
      match parse text with
      | none => (st, some s!"cannot parse shape: {text}")
      | some s => ({ expected := expectedBlock s, shapes := st.shapes + 1 }, none)
  | _ =>
    let got := " ".intercalate ws
    match st.expected with
    | [] => (st, mismatch "line" "<nothing: block complete>" got)
    | e :: rest =>
      if e = got then ({ st with expected := rest }, none)
      else (st, mismatch "line" e got)

def replayer : Replayer := { State := St, init := {}, step := step }

end Hfsm.Drive.C17
