/-
Transcript replayer for C07 (`/verif/harness/c07_harness.cpp`): plan storage driven through real
machine instances.  Every line is replayed through `Hfsm.Model.Plan`; return values, iteration
results and (on `snap` lines) the complete private storage — pool fields and items, `taskLinks`,
`taskBounds`, `planExists` — must equal the model's.
-/
import Hfsm.Drive.Common
import Hfsm.Model.Plan

namespace Hfsm.Drive.C07
open Hfsm.Model Hfsm.Drive

abbrev St := Option PlanData

def payTok : Option Int → String
  | none => "-"
  | some p => toString p

def payOf (s : String) : Option (Option Int) :=
  if s = "-" then some none else s.toInt?.map some

def itemTok (x : Item) : String := s!"{x.prev},{x.next},{x.type},{payTok x.payload}"

def boolTok (b : Bool) : String := if b then "1" else "0"

def snapWords (pd : PlanData) : List String :=
  [toString pd.tasks.vacantHead, toString pd.tasks.vacantTail, toString pd.tasks.last,
   toString pd.tasks.count, "|"]
    ++ pd.tasks.items.toList.map itemTok ++ ["|"]
    ++ pd.links.toList.map (fun l => s!"{l.prev},{l.next}") ++ ["|"]
    ++ pd.bounds.toList.map (fun b => s!"{b.first},{b.last}") ++ ["|"]
    ++ [String.join (pd.planExists.toList.map boolTok)]

def check (what : String) (expected got : List String) : Option String :=
  if expected = got then none else mismatch what (" ".intercalate expected) (" ".intercalate got)

def bad (st : St) (msg : String) : St × Option String := (st, some msg)

def nats (l : List String) : Option (List Nat) := l.mapM String.toNat?

def stepPlan (pd : PlanData) (lhs rhs : List String) : St × Option String :=
  let st : St := some pd
  match lhs with
  | ["append", r, t, o, d, pay] =>
    match r.toNat?, t.toNat?, o.toNat?, d.toNat?, payOf pay with
    | some r, some t, some o, some d, some pay =>
      match pd.append r { prev := o, next := d, type := t, payload := pay } with
      | none => bad st "model: append reaches undefined behaviour"
      | some (pd', ok) => (some pd', check "append" [boolTok ok] rhs)
    | _, _, _, _, _ => bad st "parse error"
  | "rmw" :: r :: ks =>
    match r.toNat?, nats ks with
    | some r, some ks =>
      match pd.iterate r ks with
      | none => bad st "model: remove-while-iterating reaches undefined behaviour"
      | some (pd', xs) => (some pd', check "rmw" (xs.map itemTok) rhs)
    | _, _ => bad st "parse error"
  | [op, r] =>
    match r.toNat? with
    | none => bad st "parse error"
    | some r =>
      if op = "iter" ∨ op = "citer" then
        match pd.iterate r [] with
        | none => bad st "model: iteration reaches undefined behaviour"
        | some (_, xs) => (st, check op (xs.map itemTok) rhs)
      else if op = "cplan" then
        match pd.nonEmpty r, pd.iterate r [] with
        | some b, some (_, xs) =>
          let tail : Option (List String) :=
            if b then
              match pd.firstTask r, pd.lastTask r with
              | some f, some l => some ["|", itemTok f, "|", itemTok l]
              | _, _ => none
            else some []
          match tail with
          | none => bad st "model: first()/last() out of bounds"
          | some tl => (st, check "cplan" ([boolTok b, "|"] ++ xs.map itemTok ++ tl) rhs)
        | _, _ => bad st "model: CPlan reaches undefined behaviour"
      else if op = "clear" then
        match pd.clearTasks r with
        | none => bad st "model: clear reaches undefined behaviour"
        | some pd' => (some pd', check "clear" [] rhs)
      else if op = "bool" then
        match pd.nonEmpty r with
        | none => bad st "model: region out of range"
        | some b => (st, check "bool" [boolTok b] rhs)
      else bad st "unknown plan operation"
  | ["pdclear"] => (some pd.clear, check "pdclear" [] rhs)
  | ["snap"] => (st, check "snap" (snapWords pd) rhs)
  | _ => bad st "unknown plan operation"

def step (st : St) (line : String) : St × Option String :=
  if line.startsWith "ORACLE-FAIL" then (st, none) else
  let (lhs, rhs) := splitArrow (words line)
  match lhs with
  | ["plan", k, r] =>
    match k.toNat?, r.toNat? with
    | some k, some r => (some (PlanData.new k r), none)
    | _, _ => bad st "parse error"
  | [] => (st, none)
  | _ =>
    match st with
    | some pd => stepPlan pd lhs rhs
    | none => bad st "no plan instance"

def replayer : Replayer := { State := St, init := none, step := step }

end Hfsm.Drive.C07
