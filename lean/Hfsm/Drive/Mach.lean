/-
Transcript replay for whole machines (harness/mach_*.hpp, gen/emit_mach.py).

For every `op … end` block the recorded callback decisions and generator outputs are fed to the
model's operation; the model's trace (callbacks with what they could observe, logger records) is
compared line by line with what the implementation did, then the `snap` line with the model's state.
-/
import Hfsm.Drive.Common
import Hfsm.Model.Machine

namespace Hfsm.Drive.MachReplay
open Hfsm

instance : UtilArith Float32 where
  zero := 0
  one := 1
  add := (· + ·)
  sub := (· - ·)
  mul := (· * ·)
  divNat := fun x n => x / Float32.ofNat n
  le := fun a b => decide (a ≤ b)

abbrev F := Float32

/-! ### shape parsing -/

def tokenizeSexpr (s : String) : List String :=
  let spaced := s.toList.foldl (fun acc c =>
    if c = '(' then acc ++ [' ', '(', ' '] else if c = ')' then acc ++ [' ', ')', ' '] else acc ++ [c]) []
  words (String.ofList spaced)

def parseStrategy : String → Option Strategy
  | "composite" => some .composite | "resumable" => some .resumable | "selectable" => some .selectable
  | "utilitarian" => some .utilitarian | "random" => some .random | _ => none

def flagNat (pre : String) (t : String) : Option Nat :=
  if t.startsWith pre then (t.drop pre.length).toString.toNat? else none

mutual
partial def parseNode : List String → Option (Shape × List String)
  | "(" :: "L" :: i :: ")" :: rest => do
      let inj ← flagNat "i" i
      pure (.leaf inj, rest)
  | "(" :: "C" :: h :: i :: st :: rest => do
      let hd ← flagNat "h" h
      let inj ← flagNat "i" i
      let sg ← parseStrategy st
      let (subs, rest) ← parseSubs rest
      pure (.compo (hd = 1) inj sg subs, rest)
  | "(" :: "O" :: h :: i :: rest => do
      let hd ← flagNat "h" h
      let inj ← flagNat "i" i
      let (subs, rest) ← parseSubs rest
      pure (.ortho (hd = 1) inj subs, rest)
  | _ => none
partial def parseSubs : List String → Option (Shapes × List String)
  | ")" :: rest => some (.nil, rest)
  | toks => do
      let (n, rest) ← parseNode toks
      let (ss, rest) ← parseSubs rest
      pure (.cons n ss, rest)
end

def parseShape (s : String) : Option Shape :=
  match parseNode (tokenizeSexpr s) with
  | some (sh, []) => some sh
  | _ => none

/-! ### token codecs -/

def kindOfLetter : String → Option Kind
  | "C" => some .change | "R" => some .restart | "M" => some .resume | "S" => some .select
  | "U" => some .utilize | "Z" => some .randomize | "H" => some .schedule | _ => none

def letterOfKind : Kind → String
  | .change => "C" | .restart => "R" | .resume => "M" | .select => "S"
  | .utilize => "U" | .randomize => "Z" | .schedule => "H"

def methodOfName : String → Option Method
  | "select" => some .select | "rank" => some .rank | "utility" => some .utility
  | "entryGuard" => some .entryGuard | "enter" => some .enter | "reenter" => some .reenter
  | "preUpdate" => some .preUpdate | "update" => some .update | "postUpdate" => some .postUpdate
  | "preReact" => some .preReact | "react" => some .react | "postReact" => some .postReact
  | "query" => some .query | "planSucceeded" => some .planSucceeded | "planFailed" => some .planFailed
  | "exitGuard" => some .exitGuard | "exit" => some .exit | _ => none

def nameOfMethod : Method → String
  | .select => "select" | .rank => "rank" | .utility => "utility"
  | .entryGuard => "entryGuard" | .enter => "enter" | .reenter => "reenter"
  | .preUpdate => "preUpdate" | .update => "update" | .postUpdate => "postUpdate"
  | .preReact => "preReact" | .react => "react" | .postReact => "postReact"
  | .query => "query" | .planSucceeded => "planSucceeded" | .planFailed => "planFailed"
  | .exitGuard => "exitGuard" | .exit => "exit"

def optNat (s : String) : Option (Option Nat) :=
  if s = "-" then some none else s.toNat?.map some

def showOpt : Option Nat → String
  | some n => toString n
  | none => "-"

def parseInt (s : String) : Option Int :=
  if s.startsWith "-" then (s.drop 1).toString.toNat?.map (fun n => -(n : Int)) else s.toNat?.map (fun n => (n : Int))

def f32OfHex (s : String) : Option F := (hex? s).map (fun n => Float32.ofBits n.toUInt32)
def hexOfF32 (f : F) : String := toHex f.toBits.toNat

def showTransition (t : Transition) : String :=
  s!"{showOpt t.origin}>{letterOfKind t.kind}>{t.dest}>{showOpt t.payload}"

def showTransitions (ts : List Transition) : String :=
  "[" ++ ";".intercalate (ts.map showTransition) ++ "]"

def parseTransition (s : String) : Option Transition :=
  match s.splitOn ">" with
  | [o, k, d, p] => do
      let o ← optNat o
      let k ← kindOfLetter k
      let d ← d.toNat?
      let p ← optNat p
      pure { origin := o, dest := d, kind := k, payload := p }
  | _ => none

def parseTransitions (s : String) : Option (List Transition) :=
  if s = "[]" then some [] else
  if s.startsWith "[" && s.endsWith "]" then
    (((s.drop 1).dropEnd 1).toString.splitOn ";").mapM parseTransition
  else none

def parseAction (s : String) : Option (Action F) :=
  match s.splitOn ":" with
  | ["S", sid] => sid.toNat?.map .succeed
  | ["F", sid] => sid.toNat?.map .fail
  | ["X"] => some .cancel
  | ["E"] => some .consume
  | ["PC"] => some .planClear
  | ["PA", o, d, k, p] => do
      let o ← o.toNat?; let d ← d.toNat?; let k ← kindOfLetter k; let p ← optNat p
      pure (.planAppend o d k p)
  | ["RS", i] => i.toNat?.map .retSelect
  | ["RR", r] => (parseInt r).map .retRank
  | ["RU", h] => (f32OfHex h).map .retUtil
  | [q, d, p] =>
      if q.startsWith "Q" then do
        let k ← kindOfLetter (q.drop 1).toString
        let d ← d.toNat?; let p ← optNat p
        pure (.request k d p)
      else none
  | _ => none

def parseActions (s : String) : Option (Decision F) :=
  if s = "." then some [] else (s.splitOn ";").mapM parseAction

def showObs : Option Obs → String
  | none => "-"
  | some o =>
    let base := s!"a:{toHex o.active}/r:{toHex o.resumable}/s:{",".intercalate (o.subs.map showOpt)}"
    match o.pend with
    | some (e, x, c) => base ++ s!"/p:{toHex e}.{toHex x}.{toHex c}"
    | none => base

def showLog : LogRec F → String
  | .method sid m => s!"log M {sid} {nameOfMethod m}"
  | .transition o k d => s!"log T {showOpt o} {letterOfKind k} {d}"
  | .taskStatus r sid ok => s!"log K {showOpt r} {sid} {if ok then "S" else "F"}"
  | .planStatus r ok => s!"log P {r} {if ok then "S" else "F"}"
  | .cancelled sid => s!"log X {sid}"
  | .selectRes h p => s!"log RS {h} {showOpt p}"
  | .utilityRes h p u => s!"log RU {h} {showOpt p} {hexOfF32 u}"
  | .randomRes h p u => s!"log RR {h} {showOpt p} {hexOfF32 u}"

/-- canonical text of a model event, comparable with the implementation's line (a `cb` line is
compared without its trailing actions token, which is input) -/
def showEvent : Event F → String
  | .cb sid m slot obs pend curr =>
      s!"cb {sid} {nameOfMethod m} {slot} {showObs obs} {showTransitions pend} {showTransitions curr}"
  | .log r => showLog r

/-! ### replay state -/

structure Features where
  serial : Bool := true
  util : Bool := true
  structRep : Bool := true
  payload : Nat := 1
  deriving Inhabited

structure St where
  shape : Option Shape := none
  cfg : Config := {}
  feat : Features := {}
  insts : List (Option (Mach F)) := [none, none]
  -- current op block
  op : List String := []
  ds : List (Decision F) := []
  rng : List F := []
  expected : List String := []      -- expected `cb`/`log` lines, oldest first (cb lines without actions)
  ret : Option String := none
  inBlock : Bool := false
  lastOp : String := ""             -- name of the operation whose snapshot comes next (for diagnostics)

def St.inst (s : St) (k : Nat) : Option (Mach F) := (s.insts.getD k none)
def St.setInst (s : St) (k : Nat) (m : Option (Mach F)) : St := { s with insts := s.insts.set k m }

def parseConfig (toks : List String) (st : St) : St :=
  toks.foldl (fun st t =>
    match t.splitOn "=" with
    | [k, v] =>
      let n := v.toNat?.getD 0
      match k with
      | "limit" => { st with cfg := { st.cfg with substitutionLimit := n } }
      | "bottomup" => { st with cfg := { st.cfg with topDown := n = 0 } }
      | "manual" => { st with cfg := { st.cfg with manual := n = 1 } }
      | "plans" => { st with cfg := { st.cfg with plans := n = 1 } }
      | "history" => { st with cfg := { st.cfg with history := n = 1 } }
      | "serial" => { st with feat := { st.feat with serial := n = 1 } }
      | "util" => { st with feat := { st.feat with util := n = 1 } }
      | "struct" => { st with feat := { st.feat with structRep := n = 1 } }
      | "log" => { st with cfg := { st.cfg with logging := n ≥ 1, verbose := n ≥ 2 } }
      | "payload" => { st with feat := { st.feat with payload := n } }
      | "taskcap" => { st with cfg := { st.cfg with taskCap := n } }
      | "queuecap" => { st with cfg := { st.cfg with queueCap := n } }
      | _ => st
    | _ => st) st

/-! ### snapshots -/

def showTask (t : Task) : String := s!"{t.origin}>{letterOfKind t.kind}>{t.dest}>{showOpt t.payload}"

mutual
/-- `compoRequested` / `compoRemains` in composite-index (pre-) order -/
def compoMarks : Node → List (Option Nat × Bool)
  | .leaf .. => []
  | .compo _ _ _ _ _ _ _ q m s => (q, m) :: compoMarksIn s
  | .ortho _ _ _ _ s => compoMarksIn s
def compoMarksIn : Subs → List (Option Nat × Bool)
  | .nil => []
  | .cons _ n r => compoMarks n ++ compoMarksIn r
end

def subBits : Subs → List Bool
  | .nil => []
  | .cons b _ r => b :: subBits r

mutual
/-- request bits of every orthogonal region in orthogonal-index (pre-) order -/
def orthoMarks : Node → List (List Bool)
  | .leaf .. => []
  | .compo _ _ _ _ _ _ _ _ _ s => orthoMarksIn s
  | .ortho _ _ _ _ s => subBits s :: orthoMarksIn s
def orthoMarksIn : Subs → List (List Bool)
  | .nil => []
  | .cons _ n r => orthoMarks n ++ orthoMarksIn r
end

def hex2 (n : Nat) : String := String.ofList [hexChar (n / 16), hexChar (n % 16)]

/-- the bytes of one orthogonal region's units (`⌈width/8⌉` of them), least significant bit first -/
partial def unitBytes (bits : List Bool) : String :=
  if bits.isEmpty then "" else
  let byte := (bits.take 8).zipIdx.foldl (fun acc (b, i) => if b then acc + 2 ^ i else acc) 0
  hex2 byte ++ unitBytes (bits.drop 8)

def snapText (st : St) (k : Nat) (m : Mach F) : String :=
  let n := m.w.cfg.stateCount
  let active := m.root.machineActive
  let base := s!"snap {k} A={toHex (maskOf n m.root.isActive)} R={toHex (maskOf n m.root.isResumable)} " ++
    s!"S={",".intercalate ((List.range n).map (fun i => showOpt (m.root.regionSubState i)))}"
  let cm := compoMarks m.root
  let om := orthoMarks m.root
  let q := " Q=" ++ showTransitions m.w.requests ++
    " RQ=" ++ ",".intercalate (cm.map (fun x => showOpt x.1)) ++
    " RM=" ++ toHex (maskOf cm.length (fun i => (cm.getD i (none, false)).2)) ++
    " OB=" ++ (if om.isEmpty then "-" else String.join (om.map unitBytes))
  let hist := if m.w.cfg.history then
      " P=" ++ showTransitions m.w.previous ++ " L=" ++
      ",".intercalate ((List.range n).map (fun i =>
        match m.w.targets.getD i none with
        | some j => if active && j < m.w.previous.length then toString j else "-"
        | none => "-"))
    else ""
  let plans := if m.w.cfg.plans then
      " PL=" ++ "|".intercalate ((List.range m.w.cfg.regionCount).map (fun r =>
        ";".intercalate ((m.w.planOf r).map showTask))) ++
      " PX=" ++ toHex m.w.planExists ++ " TS=" ++ toHex m.w.succ ++ " TF=" ++ toHex m.w.fail
    else ""
  let rep := if st.feat.structRep then
      " ST=" ++ toHex (maskOf n (fun i => m.structActive.getD i false)) ++
      " H=" ++ ",".intercalate (m.activity.map toString)
    else ""
  base ++ q ++ hist ++ plans ++ rep

/-- `key=value` fields of a snapshot line -/
def snapFields (s : String) : List (String × String) :=
  (words s).filterMap (fun t =>
    match t.splitOn "=" with
    | k :: v :: rest => some (k, "=".intercalate (v :: rest))
    | _ => none)

/-! ### running one operation -/

def bitsOfString (s : String) : List Bool := s.toList.map (· = '1')
def stringOfBits (b : List Bool) : String := String.ofList (b.map (fun x => if x then '1' else '0'))

/-- Run the operation of the current block on the model. Returns the new instance (none = destroyed),
and the model's return token, if the operation has one. -/
def runOp (st : St) (k : Nat) (name : String) (args : List String) (m? : Option (Mach F)) :
    Except String (Option (Mach F) × Option String) := do
  let prep (m : Mach F) : Mach F := { m with w := { m.w with ds := st.ds, rng := st.rng, trace := [], err := none } }
  match name, args, m? with
  | "new", [], _ =>
    match st.shape with
    | none => throw "no shape"
    | some sh =>
      let m : Mach F := prep (Mach.create sh st.cfg)
      pure (some (if st.cfg.manual then m else m.initialEnter), none)
  | _, _, none => throw s!"operation {name} on a missing instance {k}"
  | "enter", [], some m => pure (some (prep m).initialEnter, none)
  | "exit", [], some m => pure (some (prep m).finalExit, none)
  | "destroy", [], some m =>
    let m := prep m
    -- `~RV_<Automatic>` runs `finalExit`; a manual instance is simply dropped
    pure (some (if st.cfg.manual then m else m.finalExit), none)
  | "update", [], some m => pure (some (prep m).update, none)
  | "react", [], some m => pure (some (prep m).react, none)
  | "query", [], some m => pure (some (prep m).query, none)
  | "reset", [], some m => pure (some (prep m).reset, none)
  | "attachlogger", [a], some m =>
    if a = "0" || a = "1" then pure (some ((prep m).attachLogger (a = "1")), none) else throw "bad attachlogger"
  | "req", [kd, d, p], some m =>
    match kindOfLetter kd, d.toNat?, optNat p with
    | some kd, some d, some p => pure (some ((prep m).request kd d p), none)
    | _, _, _ => throw "bad req"
  | "imm", [kd, d, p], some m =>
    match kindOfLetter kd, d.toNat?, optNat p with
    | some kd, some d, some p => pure (some ((prep m).immediate kd d p), none)
    | _, _, _ => throw "bad imm"
  | "succeed", [s], some m =>
    match s.toNat? with
    | some s => pure (some ((prep m).setTask s true), none)
    | none => throw "bad succeed"
  | "fail", [s], some m =>
    match s.toNat? with
    | some s => pure (some ((prep m).setTask s false), none)
    | none => throw "bad fail"
  | "planappend", [r, o, d, kd, p], some m =>
    match r.toNat?, o.toNat?, d.toNat?, kindOfLetter kd, optNat p with
    | some r, some o, some d, some kd, some p =>
      let m := prep m
      let before := m.w.taskCount
      let m := m.planAppend r { origin := o, dest := d, kind := kd, payload := p }
      pure (some m, some (if m.w.taskCount > before then "1" else "0"))
    | _, _, _, _, _ => throw "bad planappend"
  | "planclear", [r], some m =>
    match r.toNat? with
    | some r => pure (some ((prep m).planClear r), none)
    | none => throw "bad planclear"
  | "save", [], some m =>
    let m := prep m
    pure (some m, some (stringOfBits m.save))
  | "load", [bits], some m => pure (some ((prep m).load (bitsOfString bits)), none)
  | "replay", [ts], some m =>
    match parseTransitions ts with
    | some ts =>
      let (m, ok) := (prep m).replayTransitions ts
      pure (some m, some (if ok then "1" else "0"))
    | none => throw "bad replay"
  | "replayenter", [ts], some m =>
    match parseTransitions ts with
    | some ts =>
      let (m, ok) := (prep m).replayEnter ts
      pure (some m, some (if ok then "1" else "0"))
    | none => throw "bad replayenter"
  | _, _, _ => throw s!"unknown operation {name}"

/-- first index where two lists differ -/
def firstDiff : List String → List String → Nat → Option (Nat × String × String)
  | [], [], _ => none
  | a :: _, [], i => some (i, a, "<nothing>")
  | [], b :: _, i => some (i, "<nothing>", b)
  | a :: as, b :: bs, i => if a = b then firstDiff as bs (i+1) else some (i, a, b)

/-- two callback lines that differ only in what the callback OBSERVED (activity / pending masks): the same handler ran
with the same lists; observations are outputs, the model's state does not depend on them -/
def softEqCb (a b : String) : Bool :=
  match words a, words b with
  | "cb" :: s1 :: m1 :: k1 :: _ :: _ :: c1, "cb" :: s2 :: m2 :: k2 :: _ :: _ :: c2 =>
    s1 == s2 && m1 == m2 && k1 == k2 && c1 == c2
  | _, _ => false

/-- first index where two lists differ other than by a soft callback difference; also the first soft difference -/
def firstDiffSoft : List String → List String → Nat → Option (Nat × String × String) →
    Option (Nat × String × String) × Option (Nat × String × String)
  | [], [], _, soft => (none, soft)
  | a :: _, [], i, soft => (some (i, a, "<nothing>"), soft)
  | [], b :: _, i, soft => (some (i, "<nothing>", b), soft)
  | a :: as, b :: bs, i, soft =>
    if a = b then firstDiffSoft as bs (i+1) soft
    else if softEqCb a b then firstDiffSoft as bs (i+1) (soft.orElse (fun _ => some (i, a, b)))
    else (some (i, a, b), soft)

def finishBlock (st : St) : St × Option String :=
  let st' := { st with inBlock := false, op := [], ds := [], rng := [], expected := [], ret := none,
                        lastOp := (st.op.drop 1).headD "" }
  match st.op with
  | kTok :: name :: args =>
    match kTok.toNat? with
    | none => (st', some "bad instance index")
    | some k =>
      match runOp st k name args (st.inst k) with
      | .error e => (st', some s!"replay error: {e}")
      | .ok (m?, ret) =>
        match m? with
        | none => (st'.setInst k none, none)
        | some m =>
          let got := m.w.trace.reverse.map showEvent
          let keep := if name = "destroy" then none else some { m with w := { m.w with trace := [] } }
          let st' := st'.setInst k keep
          match m.w.err with
          | some e =>
            -- the model ran into a contract violation: usually because it wanted another callback than the one the
            -- implementation ran (and so read a decision meant for something else) — report where the two
            -- callback / record sequences part, which says WHAT differs
            match firstDiff got st.expected 0 with
            | some (i, g, x) =>
              (st', some s!"event#{i} expected(model)={g.replace " " "_"} got(impl)={x.replace " " "_"} [then model-error {e.replace " " "_"}]")
            | none => (st', some s!"model-error {e}")
          | none =>
            match firstDiffSoft got st.expected 0 none with
            | (some (i, g, e), _) => (st', some s!"event#{i} expected(model)={g.replace " " "_"} got(impl)={e.replace " " "_"}")
            | (none, some (i, g, e)) =>
              -- only observations differ: report, keep the scenario going (the model state is unaffected)
              (st', some s!"SOFT event#{i} expected(model)={g.replace " " "_"} got(impl)={e.replace " " "_"}")
            | (none, none) =>
              if !m.w.ds.isEmpty then (st', some s!"model consumed fewer decisions ({m.w.ds.length} left)") else
              match ret, st.ret with
              | some a, some b =>
                -- a saved image is compared on the bits the model writes; the rest of the buffer is zero
                let ok := if name = "save" then
                    b.startsWith a && (b.drop a.length).toString.toList.all (· = '0')
                  else a = b
                if ok then (st', none) else (st', some s!"ret expected(model)={a} got(impl)={b}")
              | _, _ => (st', none)
  | _ => (st', some "malformed op")

def step (st : St) (line : String) : St × Option String :=
  match words line with
  | "scenario" :: _ => ({ ({} : St) with }, none)
  | "shape" :: rest =>
    match parseShape (" ".intercalate rest) with
    | some sh => ({ st with shape := some sh }, none)
    | none => (st, some "unparsable shape")
  | "config" :: rest => (parseConfig rest st, none)
  | "op" :: rest => ({ st with inBlock := true, op := rest, ds := [], rng := [], expected := [], ret := none }, none)
  | "cb" :: sid :: m :: slot :: obs :: pend :: curr :: acts :: extra =>
    if !extra.isEmpty then (st, some s!"callback ran on a different object than access<State>() returns: {" ".intercalate extra}") else
    match parseActions acts with
    | some d =>
      ({ st with ds := st.ds ++ [d],
                 expected := st.expected ++ [s!"cb {sid} {m} {slot} {obs} {pend} {curr}"] }, none)
    | none => (st, some "unparsable actions")
  | "log" :: rest => ({ st with expected := st.expected ++ [" ".intercalate ("log" :: rest)] }, none)
  | "rng" :: [h] =>
    match f32OfHex h with
    | some f => ({ st with rng := st.rng ++ [f] }, none)
    | none => (st, some "bad rng")
  | "ret" :: [r] => ({ st with ret := some r }, none)
  | "assert" :: _ => (st, none)   -- library assertions are judged by tools/check.py against known_findings.json
  | "end" :: _ => finishBlock st
  | "snap" :: kTok :: _ =>
    match kTok.toNat? with
    | none => (st, some "bad snap")
    | some k =>
      match st.inst k with
      | none => (st, some "snap of a missing instance")
      | some m =>
        let mine := snapText st k m
        let theirs := " ".intercalate (words line)
        if mine = theirs then (st, none) else
        let fa := snapFields mine
        let fb := snapFields theirs
        let diff := (fa.filter (fun kv => fb.lookup kv.1 != some kv.2)).map (·.1)
        let msg := s!"snap after={st.lastOp} expected(model)={mine.replace " " "_"}"
        if diff = ["L"] then
          -- only `lastTransitionTo` differs: report it, adopt the implementation's pins and go on with the
          -- scenario, so that what the difference leads to is seen as well (SOFT = the caller does not skip)
          let implL := (((fb.lookup "L").getD "").splitOn ",").map (fun x => x.toNat?)
          let tg := (List.range m.w.cfg.stateCount).map (fun i =>
            match implL.getD i none with
            | some j => some j
            | none =>
              match m.w.targets.getD i none with
              | some j => if m.root.machineActive && j < m.w.previous.length then none else some j
              | none => none)
          (st.setInst k (some { m with w := { m.w with targets := tg } }), some ("SOFT " ++ msg))
        else (st, some msg)
  | _ => (st, some "unknown line")

def replayer : Replayer := { State := St, init := {}, step := step }

end Hfsm.Drive.MachReplay
