/-
Transcript replayer for property C20 (bundled random generators).

Line protocol (written by /verif/harness/c20_harness.cpp; all numbers lower-case hex, no prefix;
float / double results are IEEE-754 bit patterns):

  cfg widen-order f4|i4 => leftFirst|rightFirst   which argument of widen the binary's FIRST uint32() draw
                                               ends up in, as MEASURED by the harness on <g>::uint64().
                                               The order is a source fact now (`Generated.Rng.f4/i4WidenFirstDrawArg`):
                                               the driver compares the measurement with it (mismatch = divergence)
                                               and never adopts the measured value.
  new <g> seed <s>        => w0 w1 w2 w3       g ∈ {f8,f4,i8,i4}: construct from a seed, state words
  new <g> default         => w0 w1 w2 w3       default constructor
  new <g> words a b c d   => w0 w1 w2 w3       array constructor
  new sm8|sm4 seed <s>    => st                SimpleRandomT: counter after construction
  reseed <s>              => w0 w1 w2 w3       BaseRandomT::seed(s) on the current object
  rewords a b c d         => w0 w1 w2 w3       BaseRandomT::seed(const T(&)[4])
  jump                    => w0 w1 w2 w3       state after jump()
  u64 k | u32 k           => o1 … ok           k calls of uint64() / uint32()
  f32 k | f64 k           => b1 … bk           k calls of float32() / float64(), result bit patterns
  raw k | uint k          => o1 … ok           SimpleRandomT: k calls of rawNN() / uintNN()
  state                   => st                SimpleRandomT: current counter

Float results are predicted *arithmetically* (`Model.Rng.uniformBits32/64`: the bit pattern of
`m·2^-23` resp. `m·2^-52`); as a cross-check of that prediction the driver also evaluates
`Float32.ofBits (0x3F800000 ||| m) - 1.0` (resp. `Float.ofBits … - 1.0`) with Lean's runtime floats and
reports a disagreement between the two predictions as a model-internal error.
-/
import Hfsm.Drive.Common
import Hfsm.Model.Rng

namespace Hfsm.Drive.C20

open Hfsm.Drive Hfsm.Model.Rng

inductive Gen where
  | none
  | sm8 (st : BitVec 64)
  | sm4 (st : BitVec 32)
  | x8 (p : XoParams) (s : S4 64)
  | x4 (p : XoParams) (firstDrawArg : Nat) (s : S4 32)

structure St where
  gen   : Gen := .none

def hexList (l : List Nat) : String := " ".intercalate (l.map toHex)

def parseHexes (ts : List String) : Option (List Nat) := ts.mapM hex?

def cmpList (what : String) (expected : List Nat) (got : List String) : Option String :=
  match parseHexes got with
  | none => some s!"{what}: unparsable answer"
  | some g => if g = expected then none else mismatch what (hexList expected) (hexList g)

def words4 {w : Nat} (s : S4 w) : List Nat := [s.s0.toNat, s.s1.toNat, s.s2.toNat, s.s3.toNat]

/-- parameters, 8-byte variant?, and (4-byte variants) which `widen` argument gets the first draw -/
def xoParams? : String → Option (XoParams × Bool × Nat)
  | "f8" => some (f8, true, 0)
  | "i8" => some (i8, true, 0)
  | "f4" => some (f4, false, Hfsm.Generated.Rng.f4WidenFirstDrawArg)
  | "i4" => some (i4, false, Hfsm.Generated.Rng.i4WidenFirstDrawArg)
  | _ => none

def orderName (firstDrawArg : Nat) : String := if firstDrawArg = 0 then "leftFirst" else "rightFirst"

/-- `Float32` cross-check of the arithmetic prediction. -/
def f32ViaRuntime (x : BitVec 32) : Nat :=
  ((Float32.ofBits (UInt32.ofNat (uniformArg32 x).toNat)) - (1.0 : Float32)).toBits.toNat

def f64ViaRuntime (x : BitVec 64) : Nat :=
  ((Float.ofBits (UInt64.ofNat (uniformArg64 x).toNat)) - (1.0 : Float)).toBits.toNat

/-- Iterate a draw `k` times, collecting results. -/
def drawN {σ α : Type} (f : σ → α × σ) : Nat → σ → List α × σ
  | 0, s => ([], s)
  | n + 1, s =>
    let r := f s
    let rest := drawN f n r.2
    (r.1 :: rest.1, rest.2)

def bad (st : St) (msg : String) : St × Option String := (st, some msg)

def floatCheck32 (xs : List (BitVec 32)) : Option String :=
  xs.findSome? fun x =>
    if (uniformBits32 x).toNat = f32ViaRuntime x then none
    else some s!"model-internal: arithmetic float32 prediction {toHex (uniformBits32 x).toNat} ≠ Float32 runtime {toHex (f32ViaRuntime x)} for x={toHex x.toNat}"

def floatCheck64 (xs : List (BitVec 64)) : Option String :=
  xs.findSome? fun x =>
    if (uniformBits64 x).toNat = f64ViaRuntime x then none
    else some s!"model-internal: arithmetic float64 prediction {toHex (uniformBits64 x).toNat} ≠ Float runtime {toHex (f64ViaRuntime x)} for x={toHex x.toNat}"

def orElse (a b : Option String) : Option String := match a with | some m => some m | none => b

def step (st : St) (line : String) : St × Option String :=
  if line.startsWith "ORACLE-FAIL" then (st, none) else
  let (lhs, rhs) := splitArrow (words line)
  match lhs with
  | ["cfg", "widen-order", g] =>
    match xoParams? g, rhs with
    | some (_, false, fda), [measured] =>
      if measured = orderName fda then (st, none)
      else (st, mismatch s!"{g}::uint64() draw order (source fact vs measured on the binary)" (orderName fda) measured)
    | _, _ => bad st "cfg widen-order: unknown generator / value"
  | ["new", g, "seed", sd] =>
    match hex? sd with
    | none => bad st "new: bad seed"
    | some sd =>
      if g = "sm8" then
        let c := BitVec.ofNat 64 sd
        ({ st with gen := .sm8 c }, cmpList "new sm8" [c.toNat] rhs)
      else if g = "sm4" then
        let c := BitVec.ofNat 32 sd
        ({ st with gen := .sm4 c }, cmpList "new sm4" [c.toNat] rhs)
      else match xoParams? g with
        | none => bad st s!"new: unknown generator {g}"
        | some (p, true, _) =>
          match seed64 (BitVec.ofNat 64 sd) with
          | none => bad st "model: seeding retry loop exceeded its fuel"
          | some s => ({ st with gen := .x8 p s }, cmpList "seeded state" (words4 s) rhs)
        | some (p, false, fda) =>
          match seed32 (BitVec.ofNat 32 sd) with
          | none => bad st "model: seeding retry loop exceeded its fuel"
          | some s => ({ st with gen := .x4 p fda s }, cmpList "seeded state" (words4 s) rhs)
  | ["new", g, "default"] =>
    match xoParams? g with
    | none => bad st s!"new: unknown generator {g}"
    | some (p, true, _) =>
      match seed64 (BitVec.ofNat 64 Hfsm.Generated.Rng.base8DefaultSeed) with
      | none => bad st "model: seeding retry loop exceeded its fuel"
      | some s => ({ st with gen := .x8 p s }, cmpList "default state" (words4 s) rhs)
    | some (p, false, fda) =>
      match seed32 (BitVec.ofNat 32 Hfsm.Generated.Rng.base4DefaultSeed) with
      | none => bad st "model: seeding retry loop exceeded its fuel"
      | some s => ({ st with gen := .x4 p fda s }, cmpList "default state" (words4 s) rhs)
  | ["new", g, "words", a, b, c, d] =>
    match xoParams? g, parseHexes [a, b, c, d] with
    | some (p, true, _), some [a, b, c, d] =>
      let s : S4 64 := ⟨.ofNat 64 a, .ofNat 64 b, .ofNat 64 c, .ofNat 64 d⟩
      ({ st with gen := .x8 p s }, cmpList "words state" (words4 s) rhs)
    | some (p, false, fda), some [a, b, c, d] =>
      let s : S4 32 := ⟨.ofNat 32 a, .ofNat 32 b, .ofNat 32 c, .ofNat 32 d⟩
      ({ st with gen := .x4 p fda s }, cmpList "words state" (words4 s) rhs)
    | _, _ => bad st "new words: unparsable"
  | ["reseed", sd] =>
    match hex? sd, st.gen with
    | some sd, .x8 p _ =>
      match seed64 (BitVec.ofNat 64 sd) with
      | none => bad st "model: seeding retry loop exceeded its fuel"
      | some s => ({ st with gen := .x8 p s }, cmpList "reseeded state" (words4 s) rhs)
    | some sd, .x4 p fda _ =>
      match seed32 (BitVec.ofNat 32 sd) with
      | none => bad st "model: seeding retry loop exceeded its fuel"
      | some s => ({ st with gen := .x4 p fda s }, cmpList "reseeded state" (words4 s) rhs)
    | _, _ => bad st "reseed: no xoshiro object / bad seed"
  | ["rewords", a, b, c, d] =>
    match st.gen, parseHexes [a, b, c, d] with
    | .x8 p _, some [a, b, c, d] =>
      let s : S4 64 := ⟨.ofNat 64 a, .ofNat 64 b, .ofNat 64 c, .ofNat 64 d⟩
      ({ st with gen := .x8 p s }, cmpList "rewords state" (words4 s) rhs)
    | .x4 p fda _, some [a, b, c, d] =>
      let s : S4 32 := ⟨.ofNat 32 a, .ofNat 32 b, .ofNat 32 c, .ofNat 32 d⟩
      ({ st with gen := .x4 p fda s }, cmpList "rewords state" (words4 s) rhs)
    | _, _ => bad st "rewords: no xoshiro object / unparsable"
  | ["jump"] =>
    match st.gen with
    | .x8 p s => let s' := jump p s; ({ st with gen := .x8 p s' }, cmpList "state after jump" (words4 s') rhs)
    | .x4 p fda s => let s' := jump p s; ({ st with gen := .x4 p fda s' }, cmpList "state after jump" (words4 s') rhs)
    | _ => bad st "jump: no xoshiro object"
  | ["state"] =>
    match st.gen with
    | .sm8 c => (st, cmpList "counter" [c.toNat] rhs)
    | .sm4 c => (st, cmpList "counter" [c.toNat] rhs)
    | _ => bad st "state: no SimpleRandom object"
  | [op, k] =>
    match k.toNat? with
    | none => bad st s!"{op}: bad count"
    | some k =>
      match op, st.gen with
      | "u64", .x8 p s =>
        let (vs, s') := drawN (next p) k s
        ({ st with gen := .x8 p s' }, cmpList "uint64()" (vs.map (·.toNat)) rhs)
      | "u32", .x8 p s =>
        let (vs, s') := drawN (next32of64 p) k s
        ({ st with gen := .x8 p s' }, cmpList "uint32()" (vs.map (·.toNat)) rhs)
      | "f64", .x8 p s =>
        let (xs, s') := drawN (next p) k s
        ({ st with gen := .x8 p s' },
          orElse (floatCheck64 xs) (cmpList "float64() bits" (xs.map (fun x => (uniformBits64 x).toNat)) rhs))
      | "f32", .x8 p s =>
        let (xs, s') := drawN (next32of64 p) k s
        ({ st with gen := .x8 p s' },
          orElse (floatCheck32 xs) (cmpList "float32() bits" (xs.map (fun x => (uniformBits32 x).toNat)) rhs))
      | "u64", .x4 p fda s =>
        let (vs, s') := drawN (next64of32 fda p) k s
        ({ st with gen := .x4 p fda s' }, cmpList "uint64()" (vs.map (·.toNat)) rhs)
      | "u32", .x4 p fda s =>
        let (vs, s') := drawN (next p) k s
        ({ st with gen := .x4 p fda s' }, cmpList "uint32()" (vs.map (·.toNat)) rhs)
      | "f64", .x4 p fda s =>
        let (xs, s') := drawN (next64of32 fda p) k s
        ({ st with gen := .x4 p fda s' },
          orElse (floatCheck64 xs) (cmpList "float64() bits" (xs.map (fun x => (uniformBits64 x).toNat)) rhs))
      | "f32", .x4 p fda s =>
        let (xs, s') := drawN (next p) k s
        ({ st with gen := .x4 p fda s' },
          orElse (floatCheck32 xs) (cmpList "float32() bits" (xs.map (fun x => (uniformBits32 x).toNat)) rhs))
      | "raw", .sm8 c =>
        let (vs, c') := drawN (fun c => let r := raw sm64 c; (r.2, r.1)) k c
        ({ st with gen := .sm8 c' }, cmpList "raw64()" (vs.map (·.toNat)) rhs)
      | "raw", .sm4 c =>
        let (vs, c') := drawN (fun c => let r := raw sm32 c; (r.2, r.1)) k c
        ({ st with gen := .sm4 c' }, cmpList "raw32()" (vs.map (·.toNat)) rhs)
      | "uint", .sm8 c =>
        match drawStream sm64 k c with
        | none => bad st "model: uint64() retry loop exceeded its fuel"
        | some (vs, c') => ({ st with gen := .sm8 c' }, cmpList "SimpleRandom uint64()" (vs.map (·.toNat)) rhs)
      | "uint", .sm4 c =>
        match drawStream sm32 k c with
        | none => bad st "model: uint32() retry loop exceeded its fuel"
        | some (vs, c') => ({ st with gen := .sm4 c' }, cmpList "SimpleRandom uint32()" (vs.map (·.toNat)) rhs)
      | _, _ => bad st s!"operation {op} does not apply to the current object"
  | _ => bad st "unrecognised line"

def replayer : Replayer := { State := St, init := {}, step := step }

end Hfsm.Drive.C20
