/-
Common plumbing for transcript replay.

A transcript is a text file written by a C++ harness that ran the *real* HFSM2 code.  Every line is
self-contained: blank-separated tokens, the part after the token `=>` being what the implementation
answered.  A component replayer folds its model over the lines and reports the first line on which
the model's answer differs from the implementation's.
-/
namespace Hfsm.Drive

/-- A component replayer: model state plus one step per transcript line.
`step` returns `some msg` when model and implementation disagree on that line. -/
structure Replayer where
  State : Type
  init  : State
  step  : State → String → State × Option String

/-- Tokens of a line (single blanks; empty tokens dropped). -/
def words (line : String) : List String :=
  (line.trimAscii.toString.splitOn " ").filter (· ≠ "")

/-- Split a token list at the first `=>`. -/
def splitArrow : List String → List String × List String
  | [] => ([], [])
  | "=>" :: rest => ([], rest)
  | t :: rest => let (a, b) := splitArrow rest; (t :: a, b)

def hexDigit? (c : Char) : Option Nat :=
  if '0' ≤ c ∧ c ≤ '9' then some (c.toNat - '0'.toNat)
  else if 'a' ≤ c ∧ c ≤ 'f' then some (c.toNat - 'a'.toNat + 10)
  else if 'A' ≤ c ∧ c ≤ 'F' then some (c.toNat - 'A'.toNat + 10)
  else none

/-- Parse a hexadecimal natural number (no prefix). -/
def hex? (s : String) : Option Nat :=
  if s.isEmpty then none else
  s.toList.foldl (fun acc c => match acc, hexDigit? c with
    | some a, some d => some (a * 16 + d)
    | _, _ => none) (some 0)

def hexChar (d : Nat) : Char :=
  if d < 10 then Char.ofNat ('0'.toNat + d) else Char.ofNat ('a'.toNat + d - 10)

/-- Lower-case hexadecimal rendering without prefix, at least one digit. -/
def toHex (n : Nat) : String :=
  String.ofList (Nat.toDigits 16 n)

def mismatch (what : String) (expected got : String) : Option String :=
  some s!"{what} expected={expected} got={got}"

end Hfsm.Drive
