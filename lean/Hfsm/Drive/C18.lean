/-
Transcript replayer for C18 (bit arrays, views, bit streams).  Line protocol: see the header comment
of /verif/harness/c18_harness.cpp.  Every line is replayed through `Hfsm.Model.Bits` /
`Hfsm.Model.Stream`; the first line whose answer differs from the model's is reported.
-/
import Hfsm.Drive.Common
import Hfsm.Model.Bits
import Hfsm.Model.Stream
namespace Hfsm.Drive.C18
open Hfsm.Drive Hfsm.Model Hfsm.Model.Bits

structure State where
  /-- current bit-array capacity (0 = no session) and the two arrays -/
  baN : Nat := 0
  a : Storage := []
  b : Storage := []
  /-- current stream capacity (0 = no session), the two buffers, write / read stream (target, cursor) -/
  sbCap : Nat := 0
  sa : Storage := []
  sb : Storage := []
  wx : Nat := 0
  wc : Nat := 0
  rx : Nat := 0
  rc : Nat := 0

def sel? (t : String) : Option Nat := if t == "a" then some 0 else if t == "b" then some 1 else none

def State.arr (s : State) (x : Nat) : Storage := if x == 0 then s.a else s.b
def State.setArr (s : State) (x : Nat) (v : Storage) : State := if x == 0 then { s with a := v } else { s with b := v }
def State.buf (s : State) (x : Nat) : Storage := if x == 0 then s.sa else s.sb
def State.setBuf (s : State) (x : Nat) (v : Storage) : State := if x == 0 then { s with sa := v } else { s with sb := v }

def bit (b : Bool) : String := if b then "1" else "0"

def expect (what : String) (model : List String) (impl : List String) : Option String :=
  if model == impl then none else mismatch what (" ".intercalate model) (" ".intercalate impl)

/-- A mutating array operation: new storage of `x`, expected answer = its hex. -/
def mutArr (s : State) (x : Nat) (v : Storage) (ans : List String) (what : String) : State × Option String :=
  (s.setArr x v, expect what [Bits.toHex v] ans)

def bad (s : State) (msg : String) : State × Option String := (s, some msg)

/-- Does the model say that `operator bool` on a fresh `BitArrayT<n>` reads outside the array? -/
def f9Crash (n u w : Nat) : Bool :=
  let s := mk n
  (View.toBoolReads s u w).any (fun k => decide (s.length ≤ k))

def stepBA (s : State) (n : Nat) (op : List String) (ans : List String) : State × Option String :=
  if op != ["new"] ∧ n != s.baN then bad s s!"array op for N={n} but the open session is N={s.baN}" else
  match op with
  | ["new"] =>
    let v := mk n
    ({ s with baN := n, a := v, b := v }, expect "new" [Bits.toHex v, Bits.toHex v] ans)
  | [o, xs, is] =>
    match sel? xs, is.toNat? with
    | some x, some i =>
      if i ≥ n then bad s s!"index {i} out of contract for N={n}" else
      if o == "set" ∨ o == "sset" then mutArr s x (Bits.set (s.arr x) i) ans o
      else if o == "clr" ∨ o == "sclr" then mutArr s x (Bits.clear (s.arr x) i) ans o
      else if o == "get" ∨ o == "sget" then (s, expect o [bit (Bits.get (s.arr x) i)] ans)
      else bad s s!"unknown array op {o}"
    | _, _ => bad s "malformed array op"
  | [o, xs] =>
    match sel? xs with
    | some x =>
      if o == "setall" then mutArr s x (setAll n (s.arr x)) ans o
      else if o == "clrall" then mutArr s x (clearAll (s.arr x)) ans o
      else if o == "empty" then (s, expect o [bit (empty (s.arr x))] ans)
      else if o == "andeq" then mutArr s x (andAssign (s.arr x) (s.arr (1 - x))) ans o
      else if o == "copy" then mutArr s x (s.arr (1 - x)) ans o
      else bad s s!"unknown array op {o}"
    | none => bad s "malformed array op"
  | ["neq"] => (s, expect "neq" [bit (neq s.a s.b)] ans)
  | ["and"] => (s, expect "and" [bit (andAny s.a s.b)] ans)
  | _ => bad s "malformed array op"

def stepBV (s : State) (n u w : Nat) (op : List String) (ans : List String) : State × Option String :=
  if n != s.baN then bad s s!"view op for N={n} but the open session is N={s.baN}" else
  if ¬ (u + contain w 8 ≤ unitCount n) ∨ w = 0 then bad s s!"view unit={u} width={w} out of contract for N={n}" else
  match op with
  | [o, xs, is] =>
    match sel? xs, is.toNat? with
    | some x, some i =>
      if i ≥ w then bad s s!"view index {i} out of contract for width={w}" else
      if o == "get" ∨ o == "cget" ∨ o == "sget" ∨ o == "tget" ∨ o == "tcget" then
        (s, expect o [bit (View.get (s.arr x) u i)] ans)
      else if o == "set" ∨ o == "sset" ∨ o == "tset" then mutArr s x (View.set (s.arr x) u i) ans o
      else if o == "clr" ∨ o == "sclr" ∨ o == "tclr" then mutArr s x (View.clear (s.arr x) u i) ans o
      else bad s s!"unknown view op {o}"
    | _, _ => bad s "malformed view op"
  | [o, xs] =>
    match sel? xs with
    | some x =>
      if o == "clrall" ∨ o == "tclrall" then mutArr s x (View.clearAll (s.arr x) u w) ans o
      else if o == "bool" ∨ o == "cbool" ∨ o == "tbool" ∨ o == "tcbool" then
        (s, expect o [bit (View.toBool (s.arr x) u w)] ans)
      else bad s s!"unknown view op {o}"
    | none => bad s "malformed view op"
  | _ => bad s "malformed view op"

def stepSB (s : State) (cap : Nat) (op : List String) (ans : List String) : State × Option String :=
  if op != ["new"] ∧ cap != s.sbCap then bad s s!"stream op for CAP={cap} but the open session is CAP={s.sbCap}" else
  match op with
  | ["new"] =>
    let v := Stream.cleared cap
    ({ s with sbCap := cap, sa := v, sb := v, wx := 0, wc := 0, rx := 0, rc := 0 },
      expect "new" [Bits.toHex v, Bits.toHex v] ans)
  | ["poke", xs, is, vs] =>
    match sel? xs, is.toNat?, hex? vs with
    | some x, some i, some v =>
      if i ≥ (s.buf x).length ∨ v ≥ 256 then bad s "poke out of range" else
      let nb := (s.buf x).set i (BitVec.ofNat 8 v)
      (s.setBuf x nb, expect "poke" [Bits.toHex nb] ans)
    | _, _, _ => bad s "malformed poke"
  | ["clear", xs] =>
    match sel? xs with
    | some x => let nb := Stream.cleared cap; (s.setBuf x nb, expect "clear" [Bits.toHex nb] ans)
    | none => bad s "malformed clear"
  | ["eq"] => (s, expect "eq" [bit (Stream.bufEq s.sa s.sb)] ans)
  | ["ne"] => (s, expect "ne" [bit (Stream.bufNe s.sa s.sb)] ans)
  | ["wopen", xs, cs] =>
    match sel? xs, cs.toNat? with
    | some x, some c =>
      let (nb, c') := Stream.openWrite (s.buf x) c
      ({ s.setBuf x nb with wx := x, wc := c' }, expect "wopen" [Bits.toHex nb] ans)
    | _, _ => bad s "malformed wopen"
  | ["write", ws, vs] =>
    match ws.toNat?, hex? vs with
    | some w, some v =>
      if w = 0 ∨ w > 32 ∨ s.wc + w > cap then bad s s!"write width={w} at cursor={s.wc} out of contract" else
      let r := Stream.write w v (s.buf s.wx) s.wc
      if r.touched.any (fun k => decide (k ≥ Stream.byteCount cap)) then bad s "model: write touches a byte outside the buffer" else
      ({ s.setBuf s.wx r.buf with wc := r.cursor }, expect "write" [toString r.cursor, Bits.toHex r.buf] ans)
    | _, _ => bad s "malformed write"
  | ["ropen", xs, cs] =>
    match sel? xs, cs.toNat? with
    | some x, some c => ({ s with rx := x, rc := c }, expect "ropen" [toString c] ans)
    | _, _ => bad s "malformed ropen"
  | ["read", ws] =>
    match ws.toNat? with
    | some w =>
      if w = 0 ∨ w > 32 ∨ s.rc + w > cap then bad s s!"read width={w} at cursor={s.rc} out of contract" else
      let r := Stream.read w (s.buf s.rx) s.rc
      if r.touched.any (fun k => decide (k ≥ Stream.byteCount cap)) then bad s "model: read touches a byte outside the buffer" else
      ({ s with rc := r.cursor }, expect "read" [Hfsm.Drive.toHex r.item, toString r.cursor] ans)
    | none => bad s "malformed read"
  | _ => bad s "malformed stream op"

def step (s : State) (line : String) : State × Option String :=
  if line.startsWith "ORACLE-FAIL" then (s, none) else
  let (lhs, ans) := splitArrow (words line)
  match lhs with
  | "ba" :: ns :: op =>
    match ns.toNat? with
    | some n => stepBA s n op ans
    | none => bad s "malformed capacity"
  | "bv" :: ns :: us :: ws :: op =>
    match ns.toNat?, us.toNat?, ws.toNat? with
    | some n, some u, some w => stepBV s n u w op ans
    | _, _, _ => bad s "malformed view"
  | "sb" :: cs :: op =>
    match cs.toNat? with
    | some c => stepSB s c op ans
    | none => bad s "malformed capacity"
  | ["f9probe", ns, us, ws] =>
    match ns.toNat?, us.toNat?, ws.toNat? with
    | some n, some u, some w =>
      (s, expect "f9probe" [if f9Crash n u w then "crash" else "ok"] ans)
    | _, _, _ => bad s "malformed f9probe"
  | _ => bad s "unknown line"

def replayer : Replayer := { State := State, init := {}, step := step }

end Hfsm.Drive.C18
