/-
Transcript replayer for C19 (`/verif/harness/c19_harness.cpp`): task pool, `DynamicArrayT`,
`StaticArrayT`.  Every line is replayed through `Hfsm.Model.Pool` / `Hfsm.Model.BArray`; the
implementation's answer after `=>` (returned index, count, contents, and for `snap` lines the four
private index fields plus every slot's `prev,next,type,payload`) must equal the model's.
-/
import Hfsm.Drive.Common
import Hfsm.Model.Pool
import Hfsm.Model.BArray

namespace Hfsm.Drive.C19
open Hfsm.Model Hfsm.Drive

structure St where
  pool : Option Pool := none
  darr : Option (DArray Int) := none
  sarr : Option (SArray Int × SArray Int × Int) := none

def payTok : Option Int → String
  | none => "-"
  | some p => toString p

def payOf (s : String) : Option (Option Int) :=
  if s = "-" then some none else s.toInt?.map some

def itemTok (x : Item) : String :=
  s!"{x.prev},{x.next},{x.type},{payTok x.payload}"

def itemWords (x : Item) : List String :=
  [toString x.prev, toString x.next, toString x.type, payTok x.payload]

def snapWords (p : Pool) : List String :=
  [toString p.vacantHead, toString p.vacantTail, toString p.last, toString p.count]
    ++ p.items.toList.map itemTok

def check (what : String) (expected got : List String) : Option String :=
  if expected = got then none else mismatch what (" ".intercalate expected) (" ".intercalate got)

def ints (l : List String) : Option (List Int) := l.mapM String.toInt?

def bad (st : St) (msg : String) : St × Option String := (st, some msg)

def stepPool (st : St) (p : Pool) (lhs rhs : List String) : St × Option String :=
  match lhs with
  | ["emplace", o, d, t, pay] =>
    match o.toNat?, d.toNat?, t.toNat?, payOf pay with
    | some o, some d, some t, some pay =>
      match p.emplace { prev := o, next := d, type := t, payload := pay } with
      | none => bad st "model: emplace reaches undefined behaviour"
      | some (p', idx) => ({ st with pool := some p' }, check "emplace" [toString idx] rhs)
    | _, _, _, _ => bad st "parse error"
  | ["remove", i] =>
    match i.toNat? with
    | some i =>
      match p.remove i with
      | none => bad st "model: remove reaches undefined behaviour"
      | some p' => ({ st with pool := some p' }, check "remove" [] rhs)
    | none => bad st "parse error"
  | ["clear"] => ({ st with pool := some p.clear }, check "clear" [] rhs)
  | ["count"] => (st, check "count" [toString p.count] rhs)
  | ["get", i] =>
    match i.toNat? with
    | some i =>
      match p.get i with
      | none => bad st "model: operator[] out of bounds"
      | some x => (st, check "get" (itemWords x) rhs)
    | none => bad st "parse error"
  | ["snap"] => (st, check "snap" (snapWords p) rhs)
  | _ => bad st "unknown pool operation"

def boolTok (b : Bool) : String := if b then "1" else "0"

def stepDArr (st : St) (a : DArray Int) (lhs rhs : List String) : St × Option String :=
  match lhs with
  | ["demplace", v] =>
    match v.toInt? with
    | some v =>
      match a.emplace v with
      | none => bad st "model: emplace on a full array (out of contract)"
      | some (a', idx) => ({ st with darr := some a' }, check "demplace" [toString idx] rhs)
    | none => bad st "parse error"
  | "dappend" :: m :: k :: vs =>
    match m.toNat?, k.toNat?, ints vs with
    | some m, some k, some vs =>
      if vs.length ≠ k then bad st "parse error" else
      match (DArray.new m (0 : Int)).appendList vs with
      | none => bad st "model: right-hand array overflows"
      | some other =>
        match a.append other with
        | none => bad st "model: += overflows (out of contract)"
        | some a' => ({ st with darr := some a' }, check "dappend" [toString a'.size] rhs)
    | _, _, _ => bad st "parse error"
  | ["dclear"] => ({ st with darr := some a.clear }, check "dclear" [] rhs)
  | ["dcopy"] => ({ st with darr := some a.copy.copy.copy }, check "dcopy" [] rhs)
  | ["dget", i] =>
    match i.toNat? with
    | some i =>
      match a.get i with
      | none => bad st "model: operator[] beyond count (out of contract)"
      | some v => (st, check "dget" [toString v] rhs)
    | none => bad st "parse error"
  | ["dcount"] => (st, check "dcount" [toString a.size] rhs)
  | ["dempty"] => (st, check "dempty" [boolTok a.empty] rhs)
  | ["diter"] => (st, check "diter" (a.toList.map toString) rhs)
  | _ => bad st "unknown array operation"

def stepSArr (st : St) (a b : SArray Int) (flr : Int) (lhs rhs : List String) : St × Option String :=
  let sel (w : String) : Option (SArray Int) := if w = "0" then some a else if w = "1" then some b else none
  let put (w : String) (x : SArray Int) : St :=
    if w = "0" then { st with sarr := some (x, b, flr) } else { st with sarr := some (a, x, flr) }
  match lhs with
  | ["sfill", w, v] =>
    match sel w, v.toInt? with
    | some x, some v => (put w (x.fill v), check "sfill" [] rhs)
    | _, _ => bad st "parse error"
  | ["sclear", w] =>
    match sel w with
    | some x => (put w (x.clear flr), check "sclear" [] rhs)
    | none => bad st "parse error"
  | ["sempty", w] =>
    match sel w with
    | some x => (st, check "sempty" [boolTok (x.empty flr)] rhs)
    | none => bad st "parse error"
  | ["sset", w, i, v] =>
    match sel w, i.toNat?, v.toInt? with
    | some x, some i, some v =>
      match x.set i v with
      | none => bad st "model: operator[] out of bounds"
      | some x' => (put w x', check "sset" [] rhs)
    | _, _, _ => bad st "parse error"
  | ["sget", w, i] =>
    match sel w, i.toNat? with
    | some x, some i =>
      match x.get i with
      | none => bad st "model: operator[] out of bounds"
      | some v => (st, check "sget" [toString v] rhs)
    | _, _ => bad st "parse error"
  | ["sne"] => (st, check "sne" [boolTok (a.ne b)] rhs)
  | _ => bad st "unknown static-array operation"

def step (st : St) (line : String) : St × Option String :=
  if line.startsWith "ORACLE-FAIL" then (st, none) else
  let (lhs, rhs) := splitArrow (words line)
  match lhs with
  | ["pool", n] =>
    match n.toNat? with
    | some n => ({ pool := some (Pool.new n) }, none)
    | none => bad st "parse error"
  | ["darr", n] =>
    match n.toNat? with
    | some n => ({ darr := some (DArray.new n 0) }, none)
    | none => bad st "parse error"
  | ["sarr", n, f] =>
    match n.toNat?, f.toInt? with
    | some n, some f => ({ sarr := some (SArray.new n 0, SArray.new n 0, f) }, none)
    | _, _ => bad st "parse error"
  | [] => (st, none)
  | op :: _ =>
    if op.startsWith "d" then
      match st.darr with
      | some a => stepDArr st a lhs rhs
      | none => bad st "no array instance"
    else if op.startsWith "s" ∧ op ≠ "snap" then
      match st.sarr with
      | some (a, b, f) => stepSArr st a b f lhs rhs
      | none => bad st "no static-array instance"
    else
      match st.pool with
      | some p => stepPool st p lhs rhs
      | none => bad st "no pool instance"

def replayer : Replayer := { State := St, init := {}, step := step }

end Hfsm.Drive.C19
