-- Root of the `Hfsm` library: model, proofs, property theorems, transcript replayers.
import Hfsm.Drive.Common
