-- Root of the `Hfsm` library: model, proofs, property theorems, transcript replayers.
import Hfsm.Drive.Common
import Hfsm.Model.Shape
import Hfsm.Model.Basic
import Hfsm.Model.Callback
import Hfsm.Model.Tree
import Hfsm.Model.Forward
import Hfsm.Model.Commit
import Hfsm.Model.Dispatch
import Hfsm.Model.Serial
import Hfsm.Model.Machine
import Hfsm.Generated.RngFacts
import Hfsm.Model.Rng
import Hfsm.Proofs.RngBits
import Hfsm.Proofs.RngUniform
import Hfsm.Props.C20
import Hfsm.Drive.C20
