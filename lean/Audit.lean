/-
Obligation and axiom audit, run by tools/check.py as `lake env lean Audit.lean`.

For every module `Hfsm.Props.*` it prints one line per theorem declared there:
    THM <module> <theorem> <axiom> <axiom> …
so the list of proof obligations is read from the compiled library, never kept by hand.
-/
import Hfsm
import Lean
open Lean Elab Command

run_cmd do
  let env ← getEnv
  let mods := env.header.moduleNames
  for h : i in [0:mods.size] do
    let m := mods[i]
    if (`Hfsm.Props).isPrefixOf m then
      let mut names : Array Name := #[]
      for (n, ci) in env.constants.map₁.toList do
        if env.getModuleIdxFor? n == some i then
          match ci with
          | .thmInfo _ => if !n.isInternalDetail && (`Hfsm.Props).isPrefixOf n then names := names.push n
          | _ => pure ()
      let sorted := names.qsort (fun a b => a.toString < b.toString)
      for n in sorted do
        let axs ← liftCoreM (Lean.collectAxioms n)
        let axs := axs.qsort (fun a b => a.toString < b.toString)
        IO.println s!"THM {m} {n} {" ".intercalate (axs.toList.map toString)}"
