import Hfsm.Drive.Common
import Hfsm.Drive.C20
import Hfsm.Drive.Mach
import Hfsm.Drive.C18
import Hfsm.Drive.C19
import Hfsm.Drive.C07
import Hfsm.Drive.C17
open Hfsm.Drive

def replayers : List (String × Replayer) :=
  [ ("c20", Hfsm.Drive.C20.replayer),
    ("mach", Hfsm.Drive.MachReplay.replayer),
    ("c18", Hfsm.Drive.C18.replayer),
    ("c19", Hfsm.Drive.C19.replayer),
    ("c07", Hfsm.Drive.C07.replayer),
    ("c17", Hfsm.Drive.C17.replayer) ]

partial def loop (h : IO.FS.Stream) (r : Replayer) (st : r.State) (n : Nat) : IO UInt32 := do
  let line ← h.getLine
  if line.isEmpty then
    IO.println s!"OK {n}"
    return 0
  let l := line.trimAscii.toString
  if l.isEmpty || l.startsWith "#" then loop h r st (n+1) else
  let (st', res) := r.step st l
  match res with
  | some msg =>
    IO.println s!"DIVERGE line={n+1} {msg} :: {l}"
    return 1
  | none => loop h r st' (n+1)

/-- `driver mach all`: scenarios are independent (a `scenario` line resets the replayer), so after a
divergence skip to the next scenario and go on: every diverging scenario is reported (at most 40). -/
partial def loopAll (h : IO.FS.Stream) (r : Replayer) (st : r.State) (n : Nat) (bad : Nat) (skipping : Bool) : IO UInt32 := do
  let line ← h.getLine
  if line.isEmpty then
    if bad = 0 then IO.println s!"OK {n}" else IO.println s!"DIVERGED {bad}"
    return (if bad = 0 then 0 else 1)
  let l := line.trimAscii.toString
  if l.isEmpty || l.startsWith "#" then loopAll h r st (n+1) bad skipping else
  if skipping && !l.startsWith "scenario " then loopAll h r st (n+1) bad true else
  let (st', res) := r.step st l
  match res with
  | some msg =>
    let soft := msg.startsWith "SOFT "
    let shown := if soft then (msg.drop 5).toString else msg
    IO.println s!"DIVERGE line={n+1} {shown} :: {l}"
    if bad + 1 ≥ 40 then
      IO.println s!"DIVERGED {bad + 1}"
      return 1
    -- a SOFT divergence was repaired by the replayer: stay in the scenario
    loopAll h r st' (n+1) (bad + 1) (!soft)
  | none => loopAll h r st' (n+1) bad false

def main (args : List String) : IO UInt32 := do
  match args with
  | [name, "all"] =>
    match replayers.lookup name with
    | some r => loopAll (← IO.getStdin) r r.init 0 0 false
    | none => IO.eprintln s!"unknown component {name}"; return 2
  | [name] =>
    match replayers.lookup name with
    | some r => loop (← IO.getStdin) r r.init 0
    | none => IO.eprintln s!"unknown component {name}"; return 2
  | _ => IO.eprintln "usage: driver <component> < transcript"; return 2
