import Hfsm.Drive.Common
import Hfsm.Drive.C20
import Hfsm.Drive.Mach
import Hfsm.Drive.C18
import Hfsm.Drive.C19
import Hfsm.Drive.C07
import Hfsm.Drive.C17
open Hfsm.Drive

def replayers : List (String × Replayer) :=
  [ ("c20", Hfsm.Drive.C20.replayer),
    ("mach", Hfsm.Drive.MachReplay.replayer),
    ("c18", Hfsm.Drive.C18.replayer),
    ("c19", Hfsm.Drive.C19.replayer),
    ("c07", Hfsm.Drive.C07.replayer),
    ("c17", Hfsm.Drive.C17.replayer) ]

partial def loop (h : IO.FS.Stream) (r : Replayer) (st : r.State) (n : Nat) : IO UInt32 := do
  let line ← h.getLine
  if line.isEmpty then
    IO.println s!"OK {n}"
    return 0
  let l := line.trimAscii.toString
  if l.isEmpty || l.startsWith "#" then loop h r st (n+1) else
  let (st', res) := r.step st l
  match res with
  | some msg =>
    IO.println s!"DIVERGE line={n+1} {msg} :: {l}"
    return 1
  | none => loop h r st' (n+1)

def main (args : List String) : IO UInt32 := do
  match args with
  | [name] =>
    match replayers.lookup name with
    | some r => loop (← IO.getStdin) r r.init 0
    | none => IO.eprintln s!"unknown component {name}"; return 2
  | _ => IO.eprintln "usage: driver <component> < transcript"; return 2
