// C20 correspondence harness: bundled random generators of HFSM2.
//
// Drives the REAL classes hfsm2::detail::SimpleRandomT<4>/<8>, FloatRandomT<4>/<8>, IntRandomT<4>/<8>
// (all six instantiable on a 64-bit build) and writes a transcript on stdout (one operation per line,
// implementation's answer after "=>", all numbers lower-case hex without prefix, float/double results as
// IEEE-754 bit patterns).  The Lean replayer `Hfsm.Drive.C20` recomputes every line from the model.
//
// Besides, the harness evaluates the property directly on the implementation and prints
//   ORACLE-FAIL <description>
// when  (a) the library differs from the independent transcription of the published reference algorithms
//           below (splitmix64.c, splitmix32 (murmur3 finaliser), xoshiro256plus.c, xoshiro256starstar.c,
//           xoshiro128plus.c, xoshiro128starstar.c incl. their jump()),
//       (b) a float/double result is outside [0,1) or is not exactly (x >> 9)·2^-23 / (x >> 12)·2^-52,
//       (c) a state word produced by seeding is zero,
//       (d) two objects built from the same seed do not produce the same stream,
//       (e) uint64() of a 4-byte variant is not widen(first uint32() draw, second uint32() draw).
//
// Usage: ./c20_harness <seed> <count> [mode]
//   mode = quick (default) : special seeds + <count> random seeds, short scripts
//          long            : same, plus 10^4 outputs (before and after jump) for the special seeds
//          exhaustive      : no transcript ops; oracle over ALL 2^32 inputs of uniform(uint32_t), ALL 2^32
//                            counter values of SimpleRandomT<4>::raw32()/uint32() (takes ~1 min with sanitizers)
//
// Build: g++ -std=c++14 -O1 -g -fsanitize=address,undefined -fno-sanitize-recover=all
//            -I/repo/include -I/verif/harness c20_harness.cpp -o c20_harness

#define HFSM2_ENABLE_UTILITY_THEORY
#include <hfsm2/machine.hpp>

#include <cinttypes>
#include <cmath>
#include <cstdint>
#include <cstdio>
#include <cstdlib>
#include <cstring>
#include <string>
#include <type_traits>
#include <vector>

using hfsm2::detail::FloatRandomT;
using hfsm2::detail::IntRandomT;
using hfsm2::detail::SimpleRandomT;

////////////////////////////////////////////////////////////////////////////////////////////////////
// Independent transcription of the published reference algorithms (public domain, Blackman & Vigna;
// splitmix32 = the murmur3 32-bit finaliser posted in the prng group thread the source cites).
// Written from the reference C files, NOT from the library.

namespace ref {

static inline uint64_t rotl64(const uint64_t x, int k) { return (x << k) | (x >> (64 - k)); }
static inline uint32_t rotl32(const uint32_t x, int k) { return (x << k) | (x >> (32 - k)); }

struct SplitMix64 {
	uint64_t x;
	uint64_t next() {
		uint64_t z = (x += 0x9e3779b97f4a7c15ULL);
		z = (z ^ (z >> 30)) * 0xbf58476d1ce4e5b9ULL;
		z = (z ^ (z >> 27)) * 0x94d049bb133111ebULL;
		return z ^ (z >> 31);
	}
};

struct SplitMix32 {
	uint32_t x;
	uint32_t next() {
		uint32_t z = (x += 0x9e3779b9U);
		z = (z ^ (z >> 16)) * 0x85ebca6bU;
		z = (z ^ (z >> 13)) * 0xc2b2ae35U;
		return z ^ (z >> 16);
	}
};

// xoshiro256+ 1.0 / xoshiro256** 1.0 share the state transition and the jump polynomial
struct Xo256 {
	uint64_t s[4];
	bool starstar;

	uint64_t next() {
		const uint64_t result = starstar ? rotl64(s[1] * 5, 7) * 9 : s[0] + s[3];
		const uint64_t t = s[1] << 17;
		s[2] ^= s[0];
		s[3] ^= s[1];
		s[1] ^= s[2];
		s[0] ^= s[3];
		s[2] ^= t;
		s[3] = rotl64(s[3], 45);
		return result;
	}

	void jump() {
		static const uint64_t JUMP[] = { 0x180ec6d33cfd0abaULL, 0xd5a61266f0c9392cULL, 0xa9582618e03fc9aaULL, 0x39abdc4529b1661cULL };
		uint64_t s0 = 0, s1 = 0, s2 = 0, s3 = 0;
		for (unsigned i = 0; i < sizeof JUMP / sizeof *JUMP; i++)
			for (int b = 0; b < 64; b++) {
				if (JUMP[i] & UINT64_C(1) << b) {
					s0 ^= s[0];
					s1 ^= s[1];
					s2 ^= s[2];
					s3 ^= s[3];
				}
				next();
			}
		s[0] = s0;
		s[1] = s1;
		s[2] = s2;
		s[3] = s3;
	}
};

// xoshiro128+ 1.0 / xoshiro128** 1.1
struct Xo128 {
	uint32_t s[4];
	bool starstar;

	uint32_t next() {
		const uint32_t result = starstar ? rotl32(s[1] * 5, 7) * 9 : s[0] + s[3];
		const uint32_t t = s[1] << 9;
		s[2] ^= s[0];
		s[3] ^= s[1];
		s[1] ^= s[2];
		s[0] ^= s[3];
		s[2] ^= t;
		s[3] = rotl32(s[3], 11);
		return result;
	}

	void jump() {
		static const uint32_t JUMP[] = { 0x8764000bU, 0xf542d2d3U, 0x6fa035c3U, 0x77f2db5bU };
		uint32_t s0 = 0, s1 = 0, s2 = 0, s3 = 0;
		for (unsigned i = 0; i < sizeof JUMP / sizeof *JUMP; i++)
			for (int b = 0; b < 32; b++) {
				if (JUMP[i] & UINT32_C(1) << b) {
					s0 ^= s[0];
					s1 ^= s[1];
					s2 ^= s[2];
					s3 ^= s[3];
				}
				next();
			}
		s[0] = s0;
		s[1] = s1;
		s[2] = s2;
		s[3] = s3;
	}
};

// HFSM2's documented deviation from "fill the state with splitmix output": zero outputs are skipped.
template <typename SM, typename T>
static T nonzero(SM& sm, unsigned& rawDraws) {
	for (;;) {
		++rawDraws;
		const T v = sm.next();
		if (v != 0) return v;
	}
}

} // namespace ref

////////////////////////////////////////////////////////////////////////////////////////////////////
// harness-private PRNG (splitmix64, seeded from argv) -- every random choice derives from it

static uint64_t g_rng;
static uint64_t rnd() {
	uint64_t z = (g_rng += 0x9e3779b97f4a7c15ULL);
	z = (z ^ (z >> 30)) * 0xbf58476d1ce4e5b9ULL;
	z = (z ^ (z >> 27)) * 0x94d049bb133111ebULL;
	return z ^ (z >> 31);
}
static unsigned rndBelow(unsigned n) { return static_cast<unsigned>(rnd() % n); }

////////////////////////////////////////////////////////////////////////////////////////////////////
// statistics

static unsigned long long st_lines, st_oracle_fail, st_outputs, st_new_seed, st_new_words, st_new_default,
	st_reseed, st_rewords, st_jump, st_u64, st_u32, st_f32, st_f64, st_raw, st_uint, st_retry_hits,
	st_retry_seed_positions[4], st_float_zero, st_float_top, st_allzero_state, st_determinism_checks,
	st_ref_compares;

static void oracleFail(const std::string& what) {
	++st_oracle_fail;
	std::printf("ORACLE-FAIL %s\n", what.c_str());
}

static std::string hex(uint64_t v) {
	char buf[32];
	std::snprintf(buf, sizeof buf, "%" PRIx64, v);
	return buf;
}

static uint32_t bits32(float f)  { uint32_t u; std::memcpy(&u, &f, 4); return u; }
static uint64_t bits64(double f) { uint64_t u; std::memcpy(&u, &f, 8); return u; }

static void checkFloat32(const char* gen, uint32_t x, float f) {
	if (!(f >= 0.0f && f < 1.0f))
		oracleFail(std::string(gen) + " float32 outside [0,1): x=" + hex(x) + " bits=" + hex(bits32(f)));
	if (f != std::ldexp(static_cast<float>(x >> 9), -23))
		oracleFail(std::string(gen) + " float32 != (x>>9)*2^-23: x=" + hex(x) + " bits=" + hex(bits32(f)));
	if (f == 0.0f) ++st_float_zero;
	if (bits32(f) == 0x3f7ffffeU) ++st_float_top;
}
static void checkFloat64(const char* gen, uint64_t x, double f) {
	if (!(f >= 0.0 && f < 1.0))
		oracleFail(std::string(gen) + " float64 outside [0,1): x=" + hex(x) + " bits=" + hex(bits64(f)));
	if (f != std::ldexp(static_cast<double>(x >> 12), -52))
		oracleFail(std::string(gen) + " float64 != (x>>12)*2^-52: x=" + hex(x) + " bits=" + hex(bits64(f)));
	if (f == 0.0) ++st_float_zero;
}

////////////////////////////////////////////////////////////////////////////////////////////////////
// uint64() of the 4-byte variants = widen(first draw, second draw)?  The source now sequences the two draws
// (`const uint32_t x = uint32(); const uint32_t y = uint32(); return widen(x, y);`), so the order is a source
// fact; the harness still MEASURES what the binary does and prints it -- the Lean driver compares the
// measurement with the fact extracted from the source (it does not adopt it), and the oracle below requires
// "first draw = first argument of widen = high half".  (Before the repair the body was
// `widen(uint32(), uint32())`: unspecified order, g++ drew the right argument first, clang the left one.)

template <typename Gen>
static void measureWidenOrder(const char* name) {
	Gen a(12345u), b(12345u);
	const uint32_t first = b.uint32(), second = b.uint32();
	const uint64_t w = a.uint64();
	const char* order = "neither";
	if (w == ((static_cast<uint64_t>(first) << 32) | second))
		order = "leftFirst";
	else if (w == ((static_cast<uint64_t>(second) << 32) | first))
		order = "rightFirst";
	std::printf("cfg widen-order %s => %s\n", name, order);
	++st_lines;
	if (std::strcmp(order, "leftFirst") != 0)
		oracleFail(std::string(name) + "::uint64() is not widen(first draw, second draw): measured order " + order
				   + " (compiler-dependent or swapped halves)");
}

////////////////////////////////////////////////////////////////////////////////////////////////////
// generic driver over the four xoshiro classes

template <typename T> struct WordFmt;
template <> struct WordFmt<uint64_t> { static constexpr unsigned N = 8; };
template <> struct WordFmt<uint32_t> { static constexpr unsigned N = 4; };

template <typename Gen, typename Word, typename Ref, typename RefSM>
struct XoDriver {
	using Base = hfsm2::detail::BaseRandomT<sizeof(Word)>;
	const char* name;       // f8 f4 i8 i4
	bool starstar;
	Gen gen;
	Ref ref;

	XoDriver(const char* n, bool ss) : name(n), starstar(ss), gen(), ref() { ref.starstar = ss; }

	void readState(Word (&w)[4]) {
		static_assert(sizeof(Gen) == 4 * sizeof(Word), "generator object is exactly its four state words");
		std::memcpy(w, &gen, sizeof w);
	}

	void printState(const std::string& op) {
		Word w[4];
		readState(w);
		std::printf("%s => %s %s %s %s\n", op.c_str(), hex(w[0]).c_str(), hex(w[1]).c_str(), hex(w[2]).c_str(), hex(w[3]).c_str());
		++st_lines;
		for (int i = 0; i < 4; ++i)
			if (w[i] != ref.s[i]) {
				oracleFail(std::string(name) + " state word " + std::to_string(i) + " differs from reference after `" + op + "`: lib=" + hex(w[i]) + " ref=" + hex(ref.s[i]));
				break;
			}
		++st_ref_compares;
		if (!(w[0] | w[1] | w[2] | w[3])) ++st_allzero_state;
	}

	void refSeed(Word seed, const std::string& op) {
		RefSM sm{seed};
		for (int i = 0; i < 4; ++i) {
			unsigned draws = 0;
			ref.s[i] = ref::nonzero<RefSM, Word>(sm, draws);
			if (draws > 1) {
				st_retry_hits += draws - 1;
				++st_retry_seed_positions[i];
			}
			if (draws > 2)
				oracleFail(std::string(name) + " seeding needed more than two raw draws: " + op);
		}
	}

	void checkSeeded(const std::string& op) {
		Word w[4];
		readState(w);
		for (int i = 0; i < 4; ++i)
			if (w[i] == 0)
				oracleFail(std::string(name) + " seeded state word " + std::to_string(i) + " is zero after `" + op + "`");
	}

	void newSeed(Word seed) {
		const std::string op = std::string("new ") + name + " seed " + hex(seed);
		gen = Gen(seed);
		refSeed(seed, op);
		printState(op);
		checkSeeded(op);
		++st_new_seed;
		// determinism: a second object from the same seed gives the same first outputs
		Gen a(seed), b(seed);
		for (int i = 0; i < 8; ++i)
			if (next(a) != next(b)) { oracleFail(std::string(name) + " two objects with seed " + hex(seed) + " diverge"); break; }
		++st_determinism_checks;
	}

	void newDefault() {
		const std::string op = std::string("new ") + name + " default";
		gen = Gen();
		refSeed(0, op);
		printState(op);
		checkSeeded(op);
		++st_new_default;
	}

	void newWords(const Word (&w)[4]) {
		const std::string op = std::string("new ") + name + " words " + hex(w[0]) + " " + hex(w[1]) + " " + hex(w[2]) + " " + hex(w[3]);
		gen = Gen(w);
		for (int i = 0; i < 4; ++i) ref.s[i] = w[i];
		printState(op);
		++st_new_words;
	}

	void reseed(Word seed) {
		const std::string op = std::string("reseed ") + hex(seed);
		// FloatRandomT/IntRandomT inherit BaseRandomT privately, so seed() is reachable only through a C-style cast
		((Base&) gen).seed(seed);
		refSeed(seed, op);
		printState(op);
		checkSeeded(op);
		++st_reseed;
	}

	void rewords(const Word (&w)[4]) {
		const std::string op = std::string("rewords ") + hex(w[0]) + " " + hex(w[1]) + " " + hex(w[2]) + " " + hex(w[3]);
		((Base&) gen).seed(w);
		for (int i = 0; i < 4; ++i) ref.s[i] = w[i];
		printState(op);
		++st_rewords;
	}

	void jump() {
		gen.jump();
		ref.jump();
		printState("jump");
		++st_jump;
	}

	static Word next(Gen& g);

	// the reference has no uint32()/uint64() wrappers: build them from next() as the library documents
	uint64_t refU64() {
		if (sizeof(Word) == 8) return ref.next();
		const uint32_t first = static_cast<uint32_t>(ref.next());
		const uint32_t second = static_cast<uint32_t>(ref.next());
		return (static_cast<uint64_t>(first) << 32) | second;   // defined order: first draw is the high half
	}
	uint32_t refU32() { return static_cast<uint32_t>(ref.next()); }

	void u64(unsigned k) {
		std::string line = "u64 " + std::to_string(k) + " =>";
		for (unsigned i = 0; i < k; ++i) {
			const uint64_t v = gen.uint64(), r = refU64();
			if (v != r) oracleFail(std::string(name) + " uint64() differs from reference: lib=" + hex(v) + " ref=" + hex(r));
			line += " " + hex(v);
		}
		std::puts(line.c_str());
		++st_lines; ++st_u64; st_outputs += k; st_ref_compares += k;
	}
	void u32(unsigned k) {
		std::string line = "u32 " + std::to_string(k) + " =>";
		for (unsigned i = 0; i < k; ++i) {
			const uint32_t v = gen.uint32(), r = refU32();
			if (v != r) oracleFail(std::string(name) + " uint32() differs from reference: lib=" + hex(v) + " ref=" + hex(r));
			line += " " + hex(v);
		}
		std::puts(line.c_str());
		++st_lines; ++st_u32; st_outputs += k; st_ref_compares += k;
	}
	void f32(unsigned k) {
		std::string line = "f32 " + std::to_string(k) + " =>";
		for (unsigned i = 0; i < k; ++i) {
			const float v = gen.float32();
			checkFloat32(name, refU32(), v);
			line += " " + hex(bits32(v));
		}
		std::puts(line.c_str());
		++st_lines; ++st_f32; st_outputs += k; st_ref_compares += k;
	}
	void f64(unsigned k) {
		std::string line = "f64 " + std::to_string(k) + " =>";
		for (unsigned i = 0; i < k; ++i) {
			const double v = gen.float64();
			checkFloat64(name, refU64(), v);
			line += " " + hex(bits64(v));
		}
		std::puts(line.c_str());
		++st_lines; ++st_f64; st_outputs += k; st_ref_compares += k;
	}

	void batch(unsigned total) {           // `total` outputs, in lines of at most 16, random kinds
		while (total) {
			const unsigned k = total < 16 ? total : 1 + rndBelow(16);
			switch (rndBelow(4)) {
			case 0: u64(k); break;
			case 1: u32(k); break;
			case 2: f32(k); break;
			default: f64(k); break;
			}
			total -= k;
		}
	}
	void batchOf(int kind, unsigned total) {
		while (total) {
			const unsigned k = total < 16 ? total : 16;
			switch (kind) {
			case 0: u64(k); break;
			case 1: u32(k); break;
			case 2: f32(k); break;
			default: f64(k); break;
			}
			total -= k;
		}
	}
};

template <> uint64_t XoDriver<FloatRandomT<8>, uint64_t, ref::Xo256, ref::SplitMix64>::next(FloatRandomT<8>& g) { return g.uint64(); }
template <> uint64_t XoDriver<IntRandomT<8>,   uint64_t, ref::Xo256, ref::SplitMix64>::next(IntRandomT<8>& g)   { return g.uint64(); }
template <> uint32_t XoDriver<FloatRandomT<4>, uint32_t, ref::Xo128, ref::SplitMix32>::next(FloatRandomT<4>& g) { return g.uint32(); }
template <> uint32_t XoDriver<IntRandomT<4>,   uint32_t, ref::Xo128, ref::SplitMix32>::next(IntRandomT<4>& g)   { return g.uint32(); }

using F8 = XoDriver<FloatRandomT<8>, uint64_t, ref::Xo256, ref::SplitMix64>;
using I8 = XoDriver<IntRandomT<8>,   uint64_t, ref::Xo256, ref::SplitMix64>;
using F4 = XoDriver<FloatRandomT<4>, uint32_t, ref::Xo128, ref::SplitMix32>;
using I4 = XoDriver<IntRandomT<4>,   uint32_t, ref::Xo128, ref::SplitMix32>;

////////////////////////////////////////////////////////////////////////////////////////////////////
// SimpleRandomT drivers

template <typename Gen, typename Word, typename RefSM>
struct SmDriver {
	const char* name;   // sm8 sm4
	Gen gen;
	RefSM ref;

	explicit SmDriver(const char* n) : name(n), gen(), ref{0} {}

	static Word rawOf(Gen& g);
	static Word uintOf(Gen& g);

	void fresh(Word seed) {
		gen = Gen(seed);
		ref.x = seed;
		std::printf("new %s seed %s => %s\n", name, hex(seed).c_str(), hex(gen._state).c_str());
		++st_lines; ++st_new_seed;
		if (gen._state != ref.x) oracleFail(std::string(name) + " constructor state differs from seed " + hex(seed));
	}
	void raw(unsigned k) {
		std::string line = "raw " + std::to_string(k) + " =>";
		for (unsigned i = 0; i < k; ++i) {
			const Word v = rawOf(gen), r = ref.next();
			if (v != r) oracleFail(std::string(name) + " raw differs from reference: lib=" + hex(v) + " ref=" + hex(r));
			line += " " + hex(v);
		}
		std::puts(line.c_str());
		++st_lines; ++st_raw; st_outputs += k; st_ref_compares += k;
		state();
	}
	void uint(unsigned k) {
		std::string line = "uint " + std::to_string(k) + " =>";
		for (unsigned i = 0; i < k; ++i) {
			unsigned draws = 0;
			const Word v = uintOf(gen), r = ref::nonzero<RefSM, Word>(ref, draws);
			if (draws > 1) st_retry_hits += draws - 1;
			if (v != r) oracleFail(std::string(name) + " uint differs from reference: lib=" + hex(v) + " ref=" + hex(r));
			if (v == 0) oracleFail(std::string(name) + " uint returned zero");
			if (draws > 2) oracleFail(std::string(name) + " uint needed more than two raw draws");
			line += " " + hex(v);
		}
		std::puts(line.c_str());
		++st_lines; ++st_uint; st_outputs += k; st_ref_compares += k;
		state();
	}
	void state() {
		std::printf("state => %s\n", hex(gen._state).c_str());
		++st_lines;
		if (gen._state != ref.x) oracleFail(std::string(name) + " counter differs from reference: lib=" + hex(gen._state) + " ref=" + hex(ref.x));
	}
};
template <> uint64_t SmDriver<SimpleRandomT<8>, uint64_t, ref::SplitMix64>::rawOf(SimpleRandomT<8>& g)  { return g.raw64(); }
template <> uint64_t SmDriver<SimpleRandomT<8>, uint64_t, ref::SplitMix64>::uintOf(SimpleRandomT<8>& g) { return g.uint64(); }
template <> uint32_t SmDriver<SimpleRandomT<4>, uint32_t, ref::SplitMix32>::rawOf(SimpleRandomT<4>& g)  { return g.raw32(); }
template <> uint32_t SmDriver<SimpleRandomT<4>, uint32_t, ref::SplitMix32>::uintOf(SimpleRandomT<4>& g) { return g.uint32(); }

using SM8 = SmDriver<SimpleRandomT<8>, uint64_t, ref::SplitMix64>;
using SM4 = SmDriver<SimpleRandomT<4>, uint32_t, ref::SplitMix32>;

////////////////////////////////////////////////////////////////////////////////////////////////////
// scripts

static const uint64_t INC64 = 0x9e3779b97f4a7c15ULL;   // harness-side knowledge of the published increments,
static const uint32_t INC32 = 0x9e3779b9U;             // used only to aim seeds at the retry branch

template <typename Word> static Word inc();
template <> uint64_t inc<uint64_t>() { return INC64; }
template <> uint32_t inc<uint32_t>() { return INC32; }

// seed for which the j-th raw draw (1-based) of the seeding routine hits counter 0, i.e. returns 0
template <typename Word> static Word zeroAt(unsigned j) { return static_cast<Word>(0) - static_cast<Word>(j) * inc<Word>(); }

template <typename Word>
static Word biasedSeed() {
	switch (rndBelow(8)) {
	case 0: return zeroAt<Word>(1 + rndBelow(5));                       // retry branch, each of the 4 positions (+ one past)
	case 1: return static_cast<Word>(rndBelow(4));                      // tiny
	case 2: return static_cast<Word>(~static_cast<Word>(rndBelow(4)));  // near all-ones
	case 3: return static_cast<Word>(static_cast<Word>(1) << rndBelow(sizeof(Word) * 8)); // single bit
	case 4: return static_cast<Word>(rnd() & 0xffffffffULL);            // 32-bit value (also for the 64-bit classes)
	default: return static_cast<Word>(rnd());
	}
}

template <typename Word>
static void biasedWords(Word (&w)[4]) {
	switch (rndBelow(6)) {
	case 0: w[0] = w[1] = w[2] = w[3] = 0; break;                                        // the forbidden all-zero state (array ctor accepts it)
	case 1: w[0] = w[1] = w[2] = w[3] = 0; w[rndBelow(4)] = static_cast<Word>(1) << rndBelow(sizeof(Word) * 8); break; // single bit
	case 2: w[0] = w[1] = w[2] = w[3] = static_cast<Word>(~static_cast<Word>(0)); break;  // all ones
	default: for (int i = 0; i < 4; ++i) w[i] = static_cast<Word>(rnd()); break;
	}
}

template <typename D, typename Word>
static void xoScript(D& d, Word seed, unsigned outputs, bool longRun) {
	d.newSeed(seed);
	if (longRun) {
		d.batchOf(sizeof(Word) == 8 ? 0 : 1, outputs);   // native word stream
		d.jump();
		d.batchOf(sizeof(Word) == 8 ? 0 : 1, outputs);
		d.batchOf(2, outputs / 10);                      // float32() stream
		d.batchOf(3, outputs / 10);                      // float64() stream
		d.batchOf(sizeof(Word) == 8 ? 1 : 0, outputs / 10); // the non-native integer width
		return;
	}
	d.batch(outputs);
	d.jump();
	d.batch(outputs / 2 + 1);
	if (rndBelow(2)) { d.jump(); d.jump(); d.batch(8); }
	switch (rndBelow(4)) {
	case 0: d.reseed(biasedSeed<Word>()); d.batch(8); break;
	case 1: { Word w[4]; biasedWords(w); d.rewords(w); d.batch(8); d.jump(); d.batch(4); break; }
	case 2: { Word w[4]; biasedWords(w); d.newWords(w); d.batch(8); d.jump(); d.batch(4); break; }
	default: break;
	}
}

template <typename D, typename Word>
static void smScript(D& d, Word seed, unsigned outputs) {
	d.fresh(seed);
	unsigned total = outputs;
	while (total) {
		const unsigned k = total < 16 ? total : 1 + rndBelow(16);
		if (rndBelow(2)) d.raw(k); else d.uint(k);
		total -= k;
	}
}

static void runAll(uint64_t seed, unsigned outputs, bool longRun) {
	{ F8 d("f8", false); xoScript<F8, uint64_t>(d, seed, outputs, longRun); }
	{ I8 d("i8", true);  xoScript<I8, uint64_t>(d, seed, outputs, longRun); }
	{ F4 d("f4", false); xoScript<F4, uint32_t>(d, static_cast<uint32_t>(seed), outputs, longRun); }
	{ I4 d("i4", true);  xoScript<I4, uint32_t>(d, static_cast<uint32_t>(seed), outputs, longRun); }
	{ SM8 d("sm8"); smScript<SM8, uint64_t>(d, seed, outputs); }
	{ SM4 d("sm4"); smScript<SM4, uint32_t>(d, static_cast<uint32_t>(seed), outputs); }
}

////////////////////////////////////////////////////////////////////////////////////////////////////
// exhaustive oracles (implementation only)

static void exhaustive() {
	unsigned long long zeroRaw = 0, zeroRawNotAtCounter0 = 0, uintZero = 0, uniformBad = 0, maxDraws = 0;
	// (1) all 2^32 counter values of SimpleRandomT<4>
	for (uint64_t c = 0; c < (UINT64_C(1) << 32); ++c) {
		SimpleRandomT<4> g(static_cast<uint32_t>(c));
		const uint32_t r = g.raw32();                 // counter after increment = c + INC32
		if (r == 0) {
			++zeroRaw;
			if (g._state != 0) ++zeroRawNotAtCounter0;
		}
		if ((c & 0xff) == 0 || r == 0) {              // uint32() on a 1/256 subsample plus every zero-raw seed
			SimpleRandomT<4> h(static_cast<uint32_t>(c));
			const uint32_t before = h._state;
			const uint32_t v = h.uint32();
			const unsigned long long draws = static_cast<uint32_t>(h._state - before) == INC32 ? 1 : static_cast<uint32_t>(h._state - before) == 2 * INC32 ? 2 : 3;
			if (draws > maxDraws) maxDraws = draws;
			if (v == 0) ++uintZero;
		}
	}
	if (zeroRaw != 1 || zeroRawNotAtCounter0) oracleFail("SimpleRandomT<4>::raw32() returns 0 for " + std::to_string(zeroRaw) + " counter values (expected exactly one: counter 0)");
	if (uintZero) oracleFail("SimpleRandomT<4>::uint32() returned 0");
	if (maxDraws > 2) oracleFail("SimpleRandomT<4>::uint32() needed more than two raw draws");
	std::printf("# stat exhaustive_raw32_counters=4294967296 zero_raw=%llu max_draws=%llu\n", zeroRaw, maxDraws);
	// (2) all 2^32 arguments of uniform(uint32_t)
	for (uint64_t x = 0; x < (UINT64_C(1) << 32); ++x) {
		const float f = hfsm2::detail::uniform(static_cast<uint32_t>(x));
		if (!(f >= 0.0f && f < 1.0f) || f != std::ldexp(static_cast<float>(static_cast<uint32_t>(x) >> 9), -23)) {
			if (++uniformBad <= 5) oracleFail("uniform(uint32_t) wrong for x=" + hex(x) + " bits=" + hex(bits32(f)));
		}
	}
	std::printf("# stat exhaustive_uniform32_args=4294967296 bad=%llu\n", uniformBad);
	// (3) uniform(uint64_t): all 2^12 low-bit patterns × edge mantissas + 2^24 random
	unsigned long long n64 = 0, bad64 = 0;
	const uint64_t tops[] = { 0, 1, 2, UINT64_C(0xfffffffffffff), UINT64_C(0xffffffffffffe), UINT64_C(0x8000000000000), UINT64_C(0x7ffffffffffff) };
	for (uint64_t t : tops)
		for (uint64_t lo = 0; lo < 4096; ++lo) {
			const uint64_t x = t << 12 | lo;
			const double f = hfsm2::detail::uniform(x);
			++n64;
			if (!(f >= 0.0 && f < 1.0) || f != std::ldexp(static_cast<double>(x >> 12), -52)) { if (++bad64 <= 5) oracleFail("uniform(uint64_t) wrong for x=" + hex(x)); }
		}
	for (unsigned i = 0; i < (1u << 24); ++i) {
		const uint64_t x = rnd();
		const double f = hfsm2::detail::uniform(x);
		++n64;
		if (!(f >= 0.0 && f < 1.0) || f != std::ldexp(static_cast<double>(x >> 12), -52)) { if (++bad64 <= 5) oracleFail("uniform(uint64_t) wrong for x=" + hex(x)); }
	}
	std::printf("# stat uniform64_args=%llu bad=%llu\n", n64, bad64);
}

////////////////////////////////////////////////////////////////////////////////////////////////////

int main(int argc, char** argv) {
	if (argc < 3) {
		std::fprintf(stderr, "usage: %s <seed> <count> [quick|long|exhaustive]\n", argv[0]);
		return 2;
	}
	const uint64_t seed = std::strtoull(argv[1], nullptr, 0);
	const unsigned count = static_cast<unsigned>(std::strtoul(argv[2], nullptr, 0));
	const std::string mode = argc > 3 ? argv[3] : "quick";
	g_rng = seed;

	std::printf("# c20 harness seed=%" PRIu64 " count=%u mode=%s sizeof(void*)=%u\n", seed, count, mode.c_str(), static_cast<unsigned>(sizeof(void*)));
	static_assert(std::is_same<hfsm2::FloatRandom, FloatRandomT<sizeof(void*)>>::value, "FloatRandom alias");
	static_assert(std::is_same<hfsm2::IntRandom, IntRandomT<sizeof(void*)>>::value, "IntRandom alias");
	static_assert(std::is_same<hfsm2::SimpleRandom, SimpleRandomT<sizeof(void*)>>::value, "SimpleRandom alias");

	if (mode == "exhaustive") {
		exhaustive();
		std::printf("# stat oracle_fail=%llu\n", st_oracle_fail);
		return 0;
	}

	measureWidenOrder<FloatRandomT<4>>("f4");
	measureWidenOrder<IntRandomT<4>>("i4");

	// default-constructed objects (seed 0)
	{ F8 d("f8", false); d.newDefault(); d.batch(8); }
	{ I8 d("i8", true);  d.newDefault(); d.batch(8); }
	{ F4 d("f4", false); d.newDefault(); d.batch(8); }
	{ I4 d("i4", true);  d.newDefault(); d.batch(8); }

	// special seeds: 0, 1, 2^64-1, 2^32-1, and the seeds that put counter 0 at the 1st..5th raw draw
	std::vector<uint64_t> special = { 0, 1, ~UINT64_C(0), UINT64_C(0xffffffff), UINT64_C(0x100000000), UINT64_C(0x8000000000000000) };
	for (unsigned j = 1; j <= 5; ++j) special.push_back(zeroAt<uint64_t>(j));                        // 64-bit classes retry at draw j
	for (unsigned j = 1; j <= 5; ++j) special.push_back(UINT64_C(0xabcdef0100000000) | zeroAt<uint32_t>(j)); // 32-bit classes retry at draw j
	const bool longRun = mode == "long";
	for (uint64_t s : special)
		runAll(s, longRun ? 10000 : 48, longRun);

	// random, biased seeds
	for (unsigned i = 0; i < count; ++i) {
		const unsigned outputs = 8 + rndBelow(56);
		switch (rndBelow(6)) {
		case 0: { F8 d("f8", false); xoScript<F8, uint64_t>(d, biasedSeed<uint64_t>(), outputs, false); break; }
		case 1: { I8 d("i8", true);  xoScript<I8, uint64_t>(d, biasedSeed<uint64_t>(), outputs, false); break; }
		case 2: { F4 d("f4", false); xoScript<F4, uint32_t>(d, biasedSeed<uint32_t>(), outputs, false); break; }
		case 3: { I4 d("i4", true);  xoScript<I4, uint32_t>(d, biasedSeed<uint32_t>(), outputs, false); break; }
		case 4: { SM8 d("sm8"); smScript<SM8, uint64_t>(d, biasedSeed<uint64_t>(), outputs); break; }
		default: { SM4 d("sm4"); smScript<SM4, uint32_t>(d, biasedSeed<uint32_t>(), outputs); break; }
		}
	}

	std::printf("# stat lines=%llu outputs=%llu ref_compares=%llu determinism_checks=%llu\n", st_lines, st_outputs, st_ref_compares, st_determinism_checks);
	std::printf("# stat new_seed=%llu new_default=%llu new_words=%llu reseed=%llu rewords=%llu jump=%llu\n", st_new_seed, st_new_default, st_new_words, st_reseed, st_rewords, st_jump);
	std::printf("# stat op_u64=%llu op_u32=%llu op_f32=%llu op_f64=%llu op_raw=%llu op_uint=%llu\n", st_u64, st_u32, st_f32, st_f64, st_raw, st_uint);
	std::printf("# stat retry_hits=%llu retry_at_word0=%llu retry_at_word1=%llu retry_at_word2=%llu retry_at_word3=%llu\n",
				st_retry_hits, st_retry_seed_positions[0], st_retry_seed_positions[1], st_retry_seed_positions[2], st_retry_seed_positions[3]);
	std::printf("# stat float_zero=%llu float32_top=%llu allzero_state_lines=%llu\n", st_float_zero, st_float_top, st_allzero_state);
	std::printf("# stat oracle_fail=%llu\n", st_oracle_fail);
	return 0;
}
