// Witness for C09 (replay of a multi-round processing step), known finding KF-C09-multiround-replay.
//
//   g++ -std=c++14 -O0 -I/repo/include c09_witness_multiround_replay.cpp -o w && ./w
//
// The substitution loop of R_::processTransitions() does not commit between rounds: an approved round leaves
// its request marks in the registry, the next round is applied on top of them, one commit pass follows the
// loop.  replayTransitions() applies the concatenated history as one batch on the same registry, i.e. it makes
// the same sequence of applyRequest() calls.  So:
//
//  PART 1 (control, TRUE): two APPROVED rounds with conflicting requests.  R[ M[ N[D0 D] ] Rr ], active D0.
//         update() with changeTo<Rr>() queued; the exit guard of D0 substitutes changeTo<D>().  Both rounds are
//         approved, history = [->Rr, D0->D].  The authority ends in Rr (the EARLIER request wins, N1 — in
//         the two rounds exactly as in a batch) and so does the replica: no discrepancy.
//
//  PART 2 (FALSE): a round that is NOT recorded leaves something behind.  R[ A B[B1 B2] ], active A, nothing
//         resumable.  Queue: schedule<B2>(), changeTo<B>().  Round 1 is applied (schedule sets
//         compoResumable(B) := B2, changeTo marks B/B1), A::exitGuard substitutes resume<B>() and cancels:
//         round 1 is vetoed, registry.restore() puts the request marks back but NOT compoResumable.  Round 2
//         [A: resume B] is approved and resumes B2.  previousTransitions() = [A: resume B].  A replica in the
//         same pre-state replays it: nothing is resumable there, B resolves to B1.
//         Authority: R B B2.   Replica: R B B1.   The ACTIVE configurations differ.
//
// Lean: Hfsm.Props.C09.multi_round_replay_witness (part 2), replay_reproduces_multi_round_step_partial (part 1
// is an instance of it).  Exit code 0 always; the verdict is printed.
//
//   ./w transcript     prints PART 2 as a transcript in the line format of harness/mach_runtime.hpp (op / cb / ret
//                      / snap lines, every value read from the library) for tools/oracle_c09.py, which rejects it
//                      with tag `replay-multiround`.
#define HFSM2_ENABLE_TRANSITION_HISTORY
#define HFSM2_VERIF		// read-only accessor verifCore() (the request queue, for the Q= field of snap lines)
#include <cstdio>
#include <string>
// with HFSM2_VERIF the library's assertions call this hook (harness/mach_main.hpp); none fires in this program
static long g_assertions = 0;
extern "C" void hfsm2_verif_break(const char* file, int line) noexcept { ++g_assertions; fprintf(stderr, "assert %s:%d\n", file, line); }
#include <hfsm2/machine.hpp>

using M = hfsm2::Machine;

template <typename TInstance>
static std::string config(const TInstance& fsm, const char* const* names, const unsigned count) {
	std::string act = "active {", res = "} resumable {";
	for (unsigned s = 0; s < count; ++s) {
		if (fsm.isActive   (static_cast<hfsm2::StateID>(s))) { act += ' '; act += names[s]; }
		if (fsm.isResumable(static_cast<hfsm2::StateID>(s))) { res += ' '; res += names[s]; }
	}
	return act + " " + res + " }";
}

static const char* kind(const hfsm2::TransitionType t) {
	switch (t) {
	case hfsm2::TransitionType::CHANGE:		return "changeTo";
	case hfsm2::TransitionType::RESTART:	return "restart";
	case hfsm2::TransitionType::RESUME:		return "resume";
	case hfsm2::TransitionType::SCHEDULE:	return "schedule";
	default:								return "?";
	}
}

template <typename TInstance>
static void printHistory(const char* who, const TInstance& fsm, const char* const* names) {
	const auto& h = fsm.previousTransitions();
	printf("  %s previousTransitions() = [", who);
	for (unsigned i = 0; i < h.count(); ++i)
		printf("%s%s: %s %s", i ? ", " : "",
			   h[i].origin == hfsm2::INVALID_STATE_ID ? "-" : names[h[i].origin], kind(h[i].type), names[h[i].destination]);
	printf("]\n");
}

//------------------------------------------------------------------------------
namespace part1 {

struct Mm; struct N; struct D0; struct D; struct Rr;
using FSM = M::Root<struct R,
				M::Composite<Mm,
					M::Composite<N, D0, D>
				>,
				Rr
			>;
static const char* const NAMES[] = {"R", "M", "N", "D0", "D", "Rr"};
static bool armed = false;
static int guardCalls = 0;

struct R  : FSM::State {};
struct Mm : FSM::State {};
struct N  : FSM::State {};
struct D0 : FSM::State {
	void exitGuard(GuardControl& control) {
		++guardCalls;
		if (armed) { armed = false; control.changeTo<D>(); }	// substituted round, nothing cancelled
	}
};
struct D  : FSM::State {};
struct Rr : FSM::State {};

static bool run() {
	FSM::Instance authority, replica;
	printf("PART 1  two approved rounds, conflicting requests  R[ M[ N[D0 D] ] Rr ]\n");
	printf("  pre-state          authority %s\n                     replica   %s\n",
		   config(authority, NAMES, 6).c_str(), config(replica, NAMES, 6).c_str());
	armed = true;
	authority.changeTo<Rr>();
	authority.update();
	printHistory("authority", authority, NAMES);
	guardCalls = 0;
	const bool answer = replica.replayTransitions(authority.previousTransitions());
	const std::string a = config(authority, NAMES, 6), r = config(replica, NAMES, 6);
	printf("  replayTransitions() = %d, guards consulted by the replay: %d\n", answer, guardCalls);
	printf("  authority %s\n  replica   %s\n  => %s\n", a.c_str(), r.c_str(), a == r ? "SAME" : "DIFFERENT");
	return a == r && authority.previousTransitions().count() == 2;
}

}

//------------------------------------------------------------------------------
namespace part2 {

struct A; struct B; struct B1; struct B2;
using FSM = M::Root<struct R,
				A,
				M::Composite<B, B1, B2>
			>;
static const char* const NAMES[] = {"R", "A", "B", "B1", "B2"};
static bool armed = false;
static bool transcript = false;		// `./w transcript`

template <typename TList>
static std::string list(const TList& l) {
	std::string s = "[";
	for (unsigned i = 0; i < static_cast<unsigned>(l.count()); ++i) {
		if (i) s += ";";
		s += l[i].origin == hfsm2::INVALID_STATE_ID ? std::string("-") : std::to_string(static_cast<int>(l[i].origin));
		s += ">"; s += "CRMSUZH"[static_cast<int>(l[i].type)];
		s += ">" + std::to_string(static_cast<int>(l[i].destination)) + ">-";
	}
	return s + "]";
}

// scripted state: reports every guard / lifecycle callback as a `cb` line
template <int SID>
struct Scripted : FSM::State {
	using GuardControl = typename FSM::State::GuardControl;
	using PlanControl  = typename FSM::State::PlanControl;
	void guard(GuardControl& control, const char* method) {
		std::string acts = ".";
		if (SID == 1 && armed && method[1] == 'x') {
			armed = false;
			control.template resume<B>();
			control.cancelPendingTransitions();
			acts = "QM:2:-;X";
		}
		if (transcript)
			printf("cb %d %s 0 - %s %s %s\n", SID, method, list(control.pendingTransitions()).c_str(),
				   list(control.currentTransitions()).c_str(), acts.c_str());
	}
	void life(PlanControl& control, const char* method) {
		if (transcript)
			printf("cb %d %s 0 - [] %s .\n", SID, method, list(control.currentTransitions()).c_str());
	}
	void entryGuard(GuardControl& control)	{ guard(control, "entryGuard"); }
	void exitGuard (GuardControl& control)	{ guard(control, "exitGuard");  }
	void enter	   (PlanControl&  control)	{ life (control, "enter");		}
	void reenter   (PlanControl&  control)	{ life (control, "reenter");	}
	void exit	   (PlanControl&  control)	{ life (control, "exit");		}
};

struct R  : Scripted<0> {};
struct A  : Scripted<1> {};		// its exit guard, when armed: resume<B>() + cancelPendingTransitions()
struct B  : Scripted<2> {};
struct B1 : Scripted<3> {};
struct B2 : Scripted<4> {};

static void snap(const int k, const FSM::Instance& fsm) {
	unsigned a = 0, r = 0;
	std::string subs, last;
	for (int i = 0; i < 5; ++i) {
		if (fsm.isActive   (static_cast<hfsm2::StateID>(i))) a |= 1u << i;
		if (fsm.isResumable(static_cast<hfsm2::StateID>(i))) r |= 1u << i;
		const auto sub = (i == 0 || i == 2) ? fsm.activeSubState(static_cast<hfsm2::StateID>(i)) : hfsm2::INVALID_PRONG;
		subs += (i ? "," : "") + (sub == hfsm2::INVALID_PRONG ? std::string("-") : std::to_string(static_cast<int>(sub)));
		const auto* t = fsm.lastTransitionTo(static_cast<hfsm2::StateID>(i));
		last += (i ? "," : "") + (t && fsm.previousTransitions().count()
								  ? std::to_string(static_cast<long long>(t - &fsm.previousTransitions()[0])) : std::string("-"));
	}
	printf("snap %d A=%x R=%x S=%s Q=%s P=%s L=%s\n", k, a, r, subs.c_str(), list(fsm.verifCore().requests).c_str(),
		   list(fsm.previousTransitions()).c_str(), last.c_str());
}

// PART 2 in the line format of the correspondence harness
static void runTranscript() {
	transcript = true;
	printf("scenario 0\nshape (C h1 i0 composite (L i0) (C h1 i0 composite (L i0) (L i0)))\n"
		   "config limit=4 bottomup=0 manual=0 plans=0 history=1 serial=0 util=0 struct=0 log=0 payload=0 taskcap=0 queuecap=2\n");
	printf("op 0 new\n"); FSM::Instance authority; printf("end\n"); snap(0, authority);
	printf("op 1 new\n"); FSM::Instance replica;   printf("end\n"); snap(1, replica);
	printf("op 0 req H 4 -\n"); authority.schedule<B2>(); printf("end\n"); snap(0, authority);
	printf("op 0 req C 2 -\n"); authority.changeTo<B>();  printf("end\n"); snap(0, authority);
	armed = true;
	printf("op 0 update\n"); authority.update(); printf("end\n"); snap(0, authority);
	printf("op 1 replay %s\n", list(authority.previousTransitions()).c_str());
	const bool answer = replica.replayTransitions(authority.previousTransitions());
	printf("ret %d\nend\n", answer ? 1 : 0); snap(1, replica);
	transcript = false;
}

static bool run() {
	FSM::Instance authority, replica;
	printf("PART 2  vetoed round with schedule(), then an approved resume()  R[ A B[B1 B2] ]\n");
	printf("  pre-state          authority %s\n                     replica   %s\n",
		   config(authority, NAMES, 5).c_str(), config(replica, NAMES, 5).c_str());
	armed = true;
	authority.schedule<B2>();
	authority.changeTo<B>();
	authority.update();
	printHistory("authority", authority, NAMES);
	const bool answer = replica.replayTransitions(authority.previousTransitions());
	const bool actSame = authority.isActive<B1>() == replica.isActive<B1>() && authority.isActive<B2>() == replica.isActive<B2>()
					  && authority.isActive<A>() == replica.isActive<A>() && authority.isActive<B>() == replica.isActive<B>();
	printf("  replayTransitions() = %d\n", answer);
	printf("  authority %s\n  replica   %s\n  => active configurations %s\n",
		   config(authority, NAMES, 5).c_str(), config(replica, NAMES, 5).c_str(), actSame ? "SAME" : "DIFFERENT");
	return !actSame;
}

}

//------------------------------------------------------------------------------
int main(int argc, char** argv) {
	if (argc > 1 && std::string(argv[1]) == "transcript") { part2::runTranscript(); return 0; }
	const bool control     = part1::run();
	const bool discrepancy = part2::run();
	printf("VERDICT  two approved rounds replay faithfully: %s;  multi-round step whose vetoed round scheduled: %s\n",
		   control ? "yes (as the model proves)" : "NO (unexpected)",
		   discrepancy ? "C09-MULTIROUND-REPLAY-DISCREPANCY reproduced on the real library" : "no discrepancy (library repaired?)");
	return 0;
}
