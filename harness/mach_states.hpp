// Scripted state bodies. Included by a generated TU after `FSM` (and `vh::Instance`) are defined.
#pragma once

namespace vh {

using Instance = FSM::Instance;

// address of the state object `access<S<sid>>()` of the instance executing the current API call
// (defined by the generated TU once every state type is complete)
const void* stateAddress(int sid);

} // namespace vh

// identity check: the callback must run on the very object access<State>() returns
#define VH_THIS_OK(ID)		(vh::stateAddress(ID) == static_cast<const void*>(this))

#if VH_UTIL
#define VH_UTILITY_METHODS(ID, SLOT)																						\
	Rank	rank   (const Control& c)				{ return vh::onRank   (c, ID, SLOT); }									\
	Utility utility(const Control& c)				{ return vh::onUtility(c, ID, SLOT); }
#else
#define VH_UTILITY_METHODS(ID, SLOT)
#endif

#if VH_PLANS
#define VH_PLAN_METHODS(ID, SLOT)																							\
	void planSucceeded(FullControl& c)				{ vh::onFull (c, ID, SLOT, vh::M_PLAN_SUCCEEDED, VH_THIS_OK(ID)); }		\
	void planFailed   (FullControl& c)				{ vh::onFull (c, ID, SLOT, vh::M_PLAN_FAILED   , VH_THIS_OK(ID)); }
#else
#define VH_PLAN_METHODS(ID, SLOT)
#endif

#define VH_COMMON_METHODS(ID, SLOT, OK)																						\
	void entryGuard(GuardControl& c)				{ vh::onGuard(c, ID, SLOT, vh::M_ENTRY_GUARD, OK); }					\
	void enter     (PlanControl&  c)				{ vh::onPlan (c, ID, SLOT, vh::M_ENTER      , OK); }					\
	void reenter   (PlanControl&  c)				{ vh::onPlan (c, ID, SLOT, vh::M_REENTER    , OK); }					\
	void preUpdate (FullControl&  c)				{ vh::onFull (c, ID, SLOT, vh::M_PRE_UPDATE , OK); }					\
	void update    (FullControl&  c)				{ vh::onFull (c, ID, SLOT, vh::M_UPDATE     , OK); }					\
	void postUpdate(FullControl&  c)				{ vh::onFull (c, ID, SLOT, vh::M_POST_UPDATE, OK); }					\
	void preReact  (const vh::Ev&, EventControl& c)	{ vh::onEvent(c, ID, SLOT, vh::M_PRE_REACT  , OK); }					\
	void react     (const vh::Ev&, EventControl& c)	{ vh::onEvent(c, ID, SLOT, vh::M_REACT      , OK); }					\
	void postReact (const vh::Ev&, EventControl& c)	{ vh::onEvent(c, ID, SLOT, vh::M_POST_REACT , OK); }					\
	void query     (vh::Qy&, ConstControl& c) const	{ vh::onQuery(c, ID, SLOT, OK); }										\
	void query     (vh::Probe& p, ConstControl& c) const { vh::onProbe(p, c); }												\
	void exitGuard (GuardControl& c)				{ vh::onGuard(c, ID, SLOT, vh::M_EXIT_GUARD , OK); }					\
	void exit      (PlanControl&  c)				{ vh::onPlan (c, ID, SLOT, vh::M_EXIT       , OK); }

// the state's own handlers (slot = number of injected bases)
#define VH_OWN_METHODS(ID, SLOT)																							\
	hfsm2::Prong select(const Control& c)			{ return vh::onSelect(c, ID, SLOT); }									\
	VH_UTILITY_METHODS(ID, SLOT)																							\
	VH_PLAN_METHODS(ID, SLOT)																								\
	VH_COMMON_METHODS(ID, SLOT, VH_THIS_OK(ID))

// an injected base of state ID
#define VH_INJ(ID, SLOT)																									\
	struct I##ID##_##SLOT : FSM::State {																					\
		VH_COMMON_METHODS(ID, SLOT, true)	/* S##ID is incomplete here: identity is checked for own handlers only */																	\
	};
