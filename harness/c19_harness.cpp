// C19 correspondence harness: drives the real hfsm2::detail::TaskListT / DynamicArrayT /
// StaticArrayT directly and writes a transcript for the Lean replayer `Hfsm.Drive.C19`.
//
// usage: c19_harness <seed> <count> [mode]
//   mode = random      (default) random interleavings, `count` operations per container instance
//          exhaustive  every pool operation sequence of length <= L for capacities 1..3
//                      (L derived from `count`: 6 if count < 1000, else 7) plus array sweeps
//          ooc         OUT-OF-CONTRACT mode, clearly separate: one `remove` of a dead slot per pool
//                      instance, then the instance is dropped (model must predict the corruption)
//
// Transcript (one operation per line, answer after `=>`):
//   pool N                                  new TaskListT<int, N>
//   emplace o d t p|-   => idx              emplace(o, d, type t[, payload p])
//   remove i            =>
//   clear               =>
//   count               => n
//   get i               => o d t p|-
//   snap                => head tail last count  prev,next,type,pay ... (one group per slot)
//   darr N / demplace v => idx / dappend M k v1..vk => count / dclear => / dcopy => / dget i => v
//   dcount => n / dempty => b / diter => v1 ... vn
//   sarr N flr / sfill w v => / sclear w => / sempty w => b / sset w i v => / sget w i => v / sne => b
//   (w = 0|1 selects one of two arrays of the same capacity; flr = filler<Item>())
// Lines starting with `#` are comments/statistics, lines starting with ORACLE-FAIL are property
// violations found by the shadow-model oracle (std::map / std::vector).

#include <stdint.h>
#include <string.h>
#include <new>
#include <cstdio>
#include <cstdlib>
#include <map>
#include <vector>
#include <string>

#define HFSM2_ENABLE_PLANS
// read-only access to the private fields for `snap` lines (std headers are already included above,
// so only the library's own classes are affected)
#define private public
#include <hfsm2/machine.hpp>
#undef private

using hfsm2::Long;
using hfsm2::Short;
using hfsm2::TransitionType;

//------------------------------------------------------------------------------

struct Rng {
	uint64_t s;
	explicit Rng(uint64_t seed) : s{seed} {}
	uint64_t next() {
		uint64_t z = (s += 0x9E3779B97F4A7C15ull);
		z = (z ^ (z >> 30)) * 0xBF58476D1CE4E5B9ull;
		z = (z ^ (z >> 27)) * 0x94D049BB133111EBull;
		return z ^ (z >> 31);
	}
	unsigned below(unsigned n) { return n ? static_cast<unsigned>(next() % n) : 0; }
	bool chance(unsigned num, unsigned den) { return below(den) < num; }
};

static std::map<std::string, unsigned long> g_stats;
static unsigned long g_oracleFails = 0;
static void stat(const char* k) { ++g_stats[k]; }

//------------------------------------------------------------------------------
// pool

struct ShadowTask { unsigned o, d, t; bool hasP; int p; };

template <unsigned N>
struct PoolDriver {
	using List = hfsm2::detail::TaskListT<int, N>;
	List list;
	std::map<unsigned, ShadowTask> live;

	void start() { std::printf("pool %u\n", N); snap(); }

	void printItem(const typename List::Item& it) const {
		const int* p = it.payload();
		if (p) std::printf("%u,%u,%u,%d", unsigned(it.prev), unsigned(it.next), unsigned(it.type), *p);
		else   std::printf("%u,%u,%u,-" , unsigned(it.prev), unsigned(it.next), unsigned(it.type));
	}

	void snap() const {
		std::printf("snap => %u %u %u %u", unsigned(list._vacantHead), unsigned(list._vacantTail),
					unsigned(list._last), unsigned(list._count));
		for (unsigned i = 0; i < N; ++i) { std::printf(" "); printItem(list._items[i]); }
		std::printf("\n");
	}

	void oracleAll(const char* after) {
		if (list.count() != live.size()) {
			++g_oracleFails;
			std::printf("ORACLE-FAIL pool N=%u after %s: count()=%u live=%zu\n", N, after, unsigned(list.count()), live.size());
		}
		for (const auto& kv : live) {
			const auto& it = list[Long(kv.first)];
			const int* p = it.payload();
			const bool ok = it.origin == kv.second.o && it.destination == kv.second.d &&
							unsigned(it.type) == kv.second.t && (p != nullptr) == kv.second.hasP &&
							(!p || *p == kv.second.p);
			if (!ok) {
				++g_oracleFails;
				std::printf("ORACLE-FAIL pool N=%u after %s: slot %u lost its contents\n", N, after, kv.first);
			}
		}
	}

	void emplace(unsigned o, unsigned d, unsigned t, bool hasP, int p) {
		// branch statistics from the pre-state
		if (list._count < N) {
			if (list._vacantHead != list._vacantTail) stat("pool.emplace.recycle");
			else if (list._last < N - 1)			  stat("pool.emplace.grow");
			else									  stat("pool.emplace.last");
		} else										  stat("pool.emplace.full");

		Long idx;
		if (hasP) idx = list.emplace(Long(o), Long(d), static_cast<TransitionType>(t), p);
		else	  idx = list.emplace(Long(o), Long(d), static_cast<TransitionType>(t));

		if (hasP) std::printf("emplace %u %u %u %d => %u\n", o, d, t, p, unsigned(idx));
		else	  std::printf("emplace %u %u %u - => %u\n", o, d, t, unsigned(idx));

		if (idx == List::INVALID) {
			if (live.size() != N) {
				++g_oracleFails;
				std::printf("ORACLE-FAIL pool N=%u emplace failed with %zu live slots\n", N, live.size());
			}
		} else {
			if (idx >= N || live.count(idx)) {
				++g_oracleFails;
				std::printf("ORACLE-FAIL pool N=%u emplace returned slot %u (live or out of range)\n", N, unsigned(idx));
			}
			if (live.size() == N) {
				++g_oracleFails;
				std::printf("ORACLE-FAIL pool N=%u emplace succeeded on a full pool\n", N);
			}
			live[idx] = ShadowTask{o, d, t, hasP, p};
		}
		oracleAll("emplace");
		snap();
	}

	void remove(unsigned i, bool inContract) {
		if (list._count < N) stat("pool.remove.partial"); else stat("pool.remove.fromFull");
		list.remove(Long(i));
		std::printf("remove %u =>\n", i);
		if (inContract) { live.erase(i); oracleAll("remove"); }
		snap();
	}

	void clear() {
		stat("pool.clear");
		list.clear();
		std::printf("clear =>\n");
		live.clear();
		oracleAll("clear");
		snap();
	}

	void count() {
		stat("pool.count");
		std::printf("count => %u\n", unsigned(list.count()));
	}

	void get(unsigned i) {
		stat("pool.get");
		const auto& it = list[Long(i)];
		const int* p = it.payload();
		if (p) std::printf("get %u => %u %u %u %d\n", i, unsigned(it.origin), unsigned(it.destination), unsigned(it.type), *p);
		else   std::printf("get %u => %u %u %u -\n" , i, unsigned(it.origin), unsigned(it.destination), unsigned(it.type));
	}

	unsigned pickLive(Rng& rng) const {
		unsigned k = rng.below(unsigned(live.size()));
		auto it = live.begin();
		while (k--) ++it;
		return it->first;
	}

	void randomEmplace(Rng& rng) {
		const bool hasP = rng.chance(1, 2);
		// origin/destination share storage with prev/next: use values that look like slot indices
		// and INVALID as well as ordinary ids
		unsigned o = rng.chance(1, 4) ? rng.below(N + 1) : (rng.chance(1, 8) ? 65535u : rng.below(300));
		unsigned d = rng.chance(1, 4) ? rng.below(N + 1) : (rng.chance(1, 8) ? 65535u : rng.below(300));
		emplace(o, d, rng.below(8), hasP, int(rng.below(2001)) - 1000);
	}

	void randomRun(Rng& rng, unsigned long ops) {
		start();
		// phases: 0 fill, 1 drain, 2 churn near full, 3 churn near empty
		unsigned phase = 0, left = 0;
		for (unsigned long n = 0; n < ops; ++n) {
			if (left == 0) { phase = rng.below(4); left = 1 + rng.below(3 * N + 2); }
			--left;
			const unsigned r = rng.below(100);
			if (r < 2) { clear(); continue; }
			if (r < 8) { count(); continue; }
			if (r < 16 && !live.empty()) { get(pickLive(rng)); continue; }
			bool ins;
			switch (phase) {
				case 0:  ins = rng.chance(5, 6); break;
				case 1:  ins = rng.chance(1, 6); break;
				case 2:  ins = live.size() + 1 < N ? true : rng.chance(1, 2); break;
				default: ins = live.size() > 1 ? false : rng.chance(1, 2); break;
			}
			if (live.empty()) ins = true;
			if (ins) randomEmplace(rng);		 // includes emplace on a full pool (in contract: returns INVALID)
			else	 remove(pickLive(rng), true);
		}
	}

	// OUT-OF-CONTRACT: reach a random state in contract, then remove one dead slot and stop
	void oocRun(Rng& rng) {
		start();
		const unsigned pre = rng.below(4 * N + 1);
		for (unsigned n = 0; n < pre; ++n) {
			if (live.empty() || rng.chance(3, 5)) randomEmplace(rng);
			else remove(pickLive(rng), true);
		}
		std::vector<unsigned> dead;
		for (unsigned i = 0; i < N; ++i) if (!live.count(i)) dead.push_back(i);
		if (dead.empty() || list._count == 0) return;		// count==0 would wrap: left to the model's `none`
		std::printf("# OUT-OF-CONTRACT remove of a dead slot follows\n");
		stat("pool.ooc.removeDead");
		remove(dead[rng.below(unsigned(dead.size()))], false);
		count();
	}
};

// exhaustive enumeration of operation sequences (depth-first, re-running the prefix each time)
template <unsigned N>
static void poolExhaustive(unsigned depth) {
	// op codes: 0 = emplace, 1..N = remove slot (i-1) if live, N+1 = clear
	std::vector<unsigned> seq;
	unsigned long sequences = 0;
	for (;;) {
		// run `seq` on a fresh pool; invalid (out-of-contract) sequences are skipped
		{
			PoolDriver<N> d;
			bool valid = true;
			// the pool is deterministic: run once; an out-of-contract step ends the sequence
			// *before* it is executed (what was printed so far is a valid in-contract prefix)
			d.start();
			unsigned k = 0;
			for (unsigned op : seq) {
				if (op == 0) d.emplace(10 + k, 20 + k, k % 8, (k & 1) != 0, int(k) - 3);
				else if (op == N + 1) d.clear();
				else {
					if (!d.live.count(op - 1)) { valid = false; break; }
					d.remove(op - 1, true);
				}
				++k;
			}
			if (valid) { d.count(); for (auto& kv : d.live) d.get(kv.first); ++sequences; }
		}
		// next sequence (odometer over lengths 1..depth)
		unsigned pos = unsigned(seq.size());
		while (pos > 0 && seq[pos - 1] == N + 1) --pos;
		if (pos == 0) {
			if (seq.size() == depth) break;
			seq.assign(seq.size() + 1, 0);
		} else {
			++seq[pos - 1];
			for (unsigned j = pos; j < seq.size(); ++j) seq[j] = 0;
		}
	}
	g_stats[std::string("pool.exhaustive.sequences.N") + char('0' + N)] += sequences;
}

//------------------------------------------------------------------------------
// DynamicArrayT

template <unsigned N>
struct DArrDriver {
	using Arr = hfsm2::detail::DynamicArrayT<int, N>;
	Arr arr;
	std::vector<int> shadow;

	void start() { std::printf("darr %u\n", N); }

	void oracle(const char* after) {
		bool ok = arr.count() == shadow.size();
		for (unsigned i = 0; ok && i < shadow.size(); ++i) ok = arr[i] == shadow[i];
		if (!ok) { ++g_oracleFails; std::printf("ORACLE-FAIL darr N=%u after %s: differs from std::vector\n", N, after); }
	}

	void emplace(int v) {
		stat(arr.count() + 1 == N ? "darr.emplace.toFull" : "darr.emplace");
		const unsigned idx = arr.emplace(v);
		std::printf("demplace %d => %u\n", v, idx);
		if (idx != shadow.size()) { ++g_oracleFails; std::printf("ORACLE-FAIL darr N=%u emplace returned %u\n", N, idx); }
		shadow.push_back(v); oracle("emplace");
	}

	template <unsigned M>
	void append(Rng& rng, unsigned k) {
		hfsm2::detail::DynamicArrayT<int, M> other;
		std::vector<int> vals;
		for (unsigned i = 0; i < k; ++i) { int v = int(rng.below(2001)) - 1000; other.emplace(v); vals.push_back(v); }
		// stale items beyond count in `other` must not be visited: put some there
		if (k < M && rng.chance(1, 2)) { other.emplace(4242); other.clear(); for (int v : vals) other.emplace(v); }
		stat(k == 0 ? "darr.append.empty" : (arr.count() + k == N ? "darr.append.toFull" : "darr.append"));
		arr += other;
		std::printf("dappend %u %u", M, k);
		for (int v : vals) std::printf(" %d", v);
		std::printf(" => %u\n", unsigned(arr.count()));
		shadow.insert(shadow.end(), vals.begin(), vals.end()); oracle("+=");
	}

	void clear() { stat("darr.clear"); arr.clear(); std::printf("dclear =>\n"); shadow.clear(); oracle("clear"); }

	void copy() {
		stat("darr.copy");
		Arr c{arr};			// copy construction
		Arr a2; a2 = c;		// copy assignment
		arr = a2;
		std::printf("dcopy =>\n");
		oracle("copy");
	}

	void get(unsigned i) { stat("darr.get"); std::printf("dget %u => %d\n", i, arr[i]); }
	void count() { stat("darr.count"); std::printf("dcount => %u\n", unsigned(arr.count())); }
	void empty() { stat("darr.empty"); std::printf("dempty => %d\n", arr.empty() ? 1 : 0); }
	void iter() {
		stat("darr.iterate");
		std::printf("diter =>");
		for (const int& v : static_cast<const Arr&>(arr)) std::printf(" %d", v);
		std::printf("\n");
	}

	void randomRun(Rng& rng, unsigned long ops) {
		start();
		for (unsigned long n = 0; n < ops; ++n) {
			const unsigned room = N - unsigned(shadow.size());
			const unsigned r = rng.below(100);
			if (r < 40) { if (room) emplace(int(rng.below(2001)) - 1000); else if (rng.chance(1, 2)) clear(); else iter(); }
			else if (r < 60) {
				// bulk append that fits (never out of contract); biased to exactly filling up
				unsigned k = rng.chance(1, 3) ? room : rng.below(room + 1);
				if (rng.chance(1, 2)) { if (k > N) k = N; append<N>(rng, k); }
				else				  { if (k > 4) k = 4; append<4>(rng, k); }
			}
			else if (r < 66) clear();
			else if (r < 74) copy();
			else if (r < 84) { if (!shadow.empty()) get(rng.below(unsigned(shadow.size()))); else empty(); }
			else if (r < 90) count();
			else if (r < 94) empty();
			else iter();
		}
	}
};

//------------------------------------------------------------------------------
// StaticArrayT (two element types: int with filler 0, Short with filler INVALID_SHORT)

template <typename T, unsigned N>
struct SArrDriver {
	using Arr = hfsm2::detail::StaticArrayT<T, N>;
	Arr a[2];
	std::vector<long> sh[2];
	static long flr() { return long(hfsm2::detail::filler<T>()); }

	void start() {
		std::printf("sarr %u %ld\n", N, flr());
		sh[0].assign(N, 0); sh[1].assign(N, 0);	// `_items {}` value-initialised
		for (unsigned w = 0; w < 2; ++w) for (unsigned i = 0; i < N; ++i)
			if (long(a[w][i]) != 0) { ++g_oracleFails; std::printf("ORACLE-FAIL sarr N=%u not value-initialised\n", N); }
	}

	void oracle(const char* after) {
		for (unsigned w = 0; w < 2; ++w) for (unsigned i = 0; i < N; ++i)
			if (long(a[w][i]) != sh[w][i]) { ++g_oracleFails; std::printf("ORACLE-FAIL sarr N=%u after %s: item %u of array %u\n", N, after, i, w); }
		if (unsigned(a[0].count()) != N) { ++g_oracleFails; std::printf("ORACLE-FAIL sarr N=%u count\n", N); }
	}

	void fill(unsigned w, long v) { stat("sarr.fill"); a[w].fill(T(v)); std::printf("sfill %u %ld =>\n", w, v); sh[w].assign(N, v); oracle("fill"); }
	void clear(unsigned w) { stat("sarr.clear"); a[w].clear(); std::printf("sclear %u =>\n", w); sh[w].assign(N, flr()); oracle("clear"); }
	void empty(unsigned w) {
		const bool e = a[w].empty();
		bool se = true; for (long v : sh[w]) se = se && v == flr();
		stat(e ? "sarr.empty.true" : "sarr.empty.false");
		std::printf("sempty %u => %d\n", w, e ? 1 : 0);
		if (e != se) { ++g_oracleFails; std::printf("ORACLE-FAIL sarr N=%u empty()\n", N); }
	}
	void set(unsigned w, unsigned i, long v) { stat("sarr.set"); a[w][i] = T(v); std::printf("sset %u %u %ld =>\n", w, i, v); sh[w][i] = v; oracle("set"); }
	void get(unsigned w, unsigned i) { stat("sarr.get"); std::printf("sget %u %u => %ld\n", w, i, long(a[w][i])); }
	void ne() {
		const bool d = a[0] != a[1];
		stat(d ? "sarr.ne.true" : "sarr.ne.false");
		std::printf("sne => %d\n", d ? 1 : 0);
		if (d != (sh[0] != sh[1])) { ++g_oracleFails; std::printf("ORACLE-FAIL sarr N=%u operator!=\n", N); }
	}

	void randomRun(Rng& rng, unsigned long ops) {
		start();
		const long vmax = sizeof(T) == 1 ? 256 : 1000;
		for (unsigned long n = 0; n < ops; ++n) {
			const unsigned r = rng.below(100), w = rng.below(2);
			if (r < 10) fill(w, rng.chance(1, 3) ? flr() : long(rng.below(unsigned(vmax))));
			else if (r < 18) clear(w);
			else if (r < 30) empty(w);
			else if (r < 55) set(w, rng.below(N), rng.chance(1, 3) ? flr() : long(rng.below(unsigned(vmax))));
			else if (r < 65) get(w, rng.below(N));
			else if (r < 75) { // make both arrays equal, then perhaps break one position (first/last/any)
				const long v = long(rng.below(unsigned(vmax))); fill(0, v); fill(1, v);
				if (rng.chance(2, 3)) set(rng.below(2), rng.chance(1, 3) ? 0 : (rng.chance(1, 2) ? N - 1 : rng.below(N)), (v + 1) % vmax);
				ne();
			}
			else ne();
		}
	}
};

//------------------------------------------------------------------------------

template <unsigned N>
static void runAllRandom(Rng& rng, unsigned long ops) {
	{ PoolDriver<N> d; d.randomRun(rng, ops); }
	{ DArrDriver<N> d; d.randomRun(rng, ops / 2 + 1); }
	{ SArrDriver<int, N> d; d.randomRun(rng, ops / 4 + 1); }
	{ SArrDriver<Short, N> d; d.randomRun(rng, ops / 4 + 1); }
}

template <unsigned N>
static void runOoc(Rng& rng, unsigned long reps) {
	for (unsigned long i = 0; i < reps; ++i) { PoolDriver<N> d; d.oocRun(rng); }
}

template <unsigned N>
static void arraySweep() {
	// every fill level, then clear / copy / append that exactly fits
	for (unsigned k = 0; k <= N; ++k) {
		Rng rng(1000u * N + k);
		DArrDriver<N> d; d.start();
		for (unsigned i = 0; i < k; ++i) d.emplace(int(i) * 3 - 4);
		d.count(); d.empty(); d.iter(); d.copy();
		d.template append<N>(rng, N - k);
		d.iter(); d.clear(); d.iter();
		d.template append<N>(rng, k);
		d.iter();
	}
}

// Arrays on both sides of an index-type boundary (`UCapacity<N>`: uint8_t up to 255, uint16_t above): bulk append of a
// narrow array into a wide one and of a wide one into a narrow one, at vacant-room values around multiples of 256
// (a room computed in the narrower index type wraps there).
template <unsigned N, unsigned M>
static void mixedAppend(unsigned fill, unsigned k) {
	Rng rng(77u * N + 13u * M + fill + 1000u * k);
	DArrDriver<N> d; d.start();
	while (unsigned(d.shadow.size()) + 4 <= fill) d.template append<4>(rng, 4);
	while (unsigned(d.shadow.size()) < fill) d.emplace(int(d.shadow.size()));
	const unsigned room = N - unsigned(d.shadow.size());
	d.template append<M>(rng, k < room ? (k < M ? k : M) : (room < M ? room : M));
	d.count(); d.iter();
}

static void wideArraySweep() {
	// wide destination, narrow source: vacant room 300, 260, 257, 256, 255, 44, 4
	mixedAppend<300, 4>(0, 4);    mixedAppend<300, 4>(40, 4);   mixedAppend<300, 4>(43, 4);  mixedAppend<300, 4>(44, 4);
	mixedAppend<300, 4>(45, 4);   mixedAppend<300, 4>(256, 4);  mixedAppend<300, 4>(296, 4);
	mixedAppend<300, 200>(0, 200); mixedAppend<300, 200>(44, 200); mixedAppend<300, 200>(100, 200);
	mixedAppend<256, 4>(0, 3);    mixedAppend<256, 9>(0, 9);    mixedAppend<256, 255>(0, 255); mixedAppend<256, 255>(1, 255);
	mixedAppend<512, 4>(0, 4);    mixedAppend<512, 4>(256, 4);  mixedAppend<512, 255>(0, 255); mixedAppend<512, 255>(257, 255);
	mixedAppend<600, 8>(88, 8);   mixedAppend<600, 8>(344, 8);
	// same-width wide arrays, and a wide source into a narrow destination
	mixedAppend<300, 300>(0, 300); mixedAppend<300, 300>(44, 256); mixedAppend<512, 300>(212, 300);
	mixedAppend<8, 300>(0, 8);    mixedAppend<9, 256>(4, 5);    mixedAppend<255, 256>(0, 255); mixedAppend<200, 300>(100, 100);
}

int main(int argc, char** argv) {
	if (argc < 3) { std::fprintf(stderr, "usage: %s <seed> <count> [random|exhaustive|ooc]\n", argv[0]); return 2; }
	const uint64_t seed = std::strtoull(argv[1], nullptr, 10);
	const unsigned long count = std::strtoul(argv[2], nullptr, 10);
	const std::string mode = argc > 3 ? argv[3] : "random";
	std::setvbuf(stdout, nullptr, _IOLBF, 1 << 16);	// keep the transcript up to a sanitizer abort
	Rng rng(seed);

	std::printf("# c19 harness seed=%llu count=%lu mode=%s\n", static_cast<unsigned long long>(seed), count, mode.c_str());

	if (mode == "random") {
		runAllRandom<1>(rng, count); runAllRandom<2>(rng, count); runAllRandom<3>(rng, count);
		runAllRandom<4>(rng, count); runAllRandom<5>(rng, count); runAllRandom<6>(rng, count);
		runAllRandom<7>(rng, count); runAllRandom<8>(rng, count); runAllRandom<9>(rng, count);
		{ DArrDriver<300> d; d.randomRun(rng, count / 8 + 1); }
		wideArraySweep();
	} else if (mode == "exhaustive") {
		const unsigned depth = count < 1000 ? 6 : 7;
		poolExhaustive<1>(depth + 2); poolExhaustive<2>(depth); poolExhaustive<3>(depth);
		arraySweep<1>(); arraySweep<2>(); arraySweep<3>(); arraySweep<4>(); arraySweep<5>();
		arraySweep<6>(); arraySweep<7>(); arraySweep<8>(); arraySweep<9>();
		wideArraySweep();
	} else if (mode == "ooc") {
		std::printf("# OUT-OF-CONTRACT MODE: removes of dead slots; not part of the property\n");
		runOoc<1>(rng, count); runOoc<2>(rng, count); runOoc<3>(rng, count); runOoc<5>(rng, count); runOoc<9>(rng, count);
	} else {
		std::fprintf(stderr, "unknown mode %s\n", mode.c_str());
		return 2;
	}

	for (const auto& kv : g_stats) std::printf("# stat %s=%lu\n", kv.first.c_str(), kv.second);
	std::printf("# stat oracle.fails=%lu\n", g_oracleFails);
	return 0;
}
