// Assertion hook (see /repo …/shared/macros_on.hpp, guard HFSM2_VERIF): every HFSM2_ASSERT / HFSM2_BREAK
// that fires is recorded in the transcript instead of being compiled out.
#pragma once
#define HFSM2_VERIF
extern "C" void hfsm2_verif_break(const char* file, int line) noexcept;
