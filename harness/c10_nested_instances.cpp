// C10 ("… whatever other instances do"): an instance must behave the same whether or not ANOTHER instance of the same
// machine type is driven in the middle of its own processing — from inside its callbacks.  The machine-model harness
// drives its two instances one operation after the other, never nested; this harness covers the nesting directly on the
// real code (differential: same subject, same seeded script, bystander left alone vs driven from inside the subject's
// callbacks) and compares everything the subject shows: every callback with the pending / current transitions it sees,
// and after every operation the active states, previousTransitions() and lastTransitionTo() of every state.
//
// prints `C10-NEST-DIFF <what>` per differing run, `C10-NEST-OK <runs> <callbacks> <nested drives>` at the end.
#define HFSM2_ENABLE_TRANSITION_HISTORY
#define HFSM2_ENABLE_PLANS
#define HFSM2_ENABLE_UTILITY_THEORY
#include <hfsm2/machine.hpp>

#include <cstdint>
#include <cstdio>
#include <string>

struct Prng {
	uint64_t s;
	uint32_t next() { s += 0x9E3779B97F4A7C15ull; uint64_t z = s; z = (z ^ (z >> 30)) * 0xBF58476D1CE4E5B9ull; z = (z ^ (z >> 27)) * 0x94D049BB133111EBull; return static_cast<uint32_t>((z ^ (z >> 31)) >> 16); }
	unsigned below(unsigned n) { return next() % n; }
};

struct Ctx {
	std::string trace;
	void* bystander = nullptr;		// another instance of the same type
	bool disturb = false;
	Prng script{1};					// decisions of the subject's callbacks (identical in both runs)
	Prng noise{2};					// what is done to the bystander (only used when disturb)
	long callbacks = 0, drives = 0;
	bool quiet = false;				// the bystander's own callbacks do nothing
};

using Config = hfsm2::Config::ContextT<Ctx&>;
using M = hfsm2::MachineT<Config>;
template <int I> struct S;
using FSM = M::Root<S<0>,
				S<1>,
				M::Composite<S<2>, S<3>, S<4>>,
				M::Orthogonal<S<5>,
					M::Composite<S<6>, S<7>, S<8>>,
					M::Resumable<S<9>, S<10>, S<11>>
				>,
				S<12>
			>;
static const int N = 13;

static void driveBystander(Ctx& ctx);

template <typename TList>
static void show(std::string& o, const char* tag, const TList& l) {
	o += tag;
	for (unsigned i = 0; i < l.count(); ++i) {
		o += ' '; o += std::to_string(static_cast<int>(l[static_cast<hfsm2::Short>(i)].destination));
		o += ':'; o += std::to_string(static_cast<int>(l[static_cast<hfsm2::Short>(i)].type));
	}
}

template <typename TControl>
static void note(TControl& c, int id, const char* m, bool lists) {
	Ctx& x = c.context();
	if (x.quiet) return;
	++x.callbacks;
	x.trace += "\n cb "; x.trace += std::to_string(id); x.trace += ' '; x.trace += m;
	if (lists) { show(x.trace, " cur", c.currentTransitions()); }
	if (x.disturb && x.bystander && x.noise.below(3) == 0) driveBystander(x);
}

template <int I>
struct S : FSM::State {
	using typename FSM::State::GuardControl; using typename FSM::State::PlanControl; using typename FSM::State::FullControl;
	void entryGuard(GuardControl& c) {
		note(c, I, "entryGuard", true); show(c.context().trace, " pend", c.pendingTransitions());
		Ctx& x = c.context();
		if (!x.quiet && x.script.below(7) == 0) c.changeTo(static_cast<hfsm2::StateID>(1 + x.script.below(N - 1)));
		if (!x.quiet && x.script.below(11) == 0) c.cancelPendingTransitions();
	}
	void enter(PlanControl& c)		{ note(c, I, "enter", true); }
	void reenter(PlanControl& c)	{ note(c, I, "reenter", true); }
	void update(FullControl& c) {
		note(c, I, "update", true);
		Ctx& x = c.context();
		if (!x.quiet && x.script.below(5) == 0) c.changeTo(static_cast<hfsm2::StateID>(1 + x.script.below(N - 1)));
	}
	void exitGuard(GuardControl& c)	{ note(c, I, "exitGuard", true); show(c.context().trace, " pend", c.pendingTransitions()); }
	void exit(PlanControl& c)		{ note(c, I, "exit", true); }
};

static void driveBystander(Ctx& ctx) {
	FSM::Instance& b = *static_cast<FSM::Instance*>(ctx.bystander);
	++ctx.drives;
	const hfsm2::StateID dest = static_cast<hfsm2::StateID>(1 + ctx.noise.below(N - 1));
	switch (ctx.noise.below(4)) {
	case 0: b.immediateChangeTo(dest); break;
	case 1: b.changeTo(dest); b.update(); break;
	case 2: b.immediateRestart(dest); break;
	default: b.changeTo(dest); b.changeTo(static_cast<hfsm2::StateID>(1 + ctx.noise.below(N - 1))); b.update(); break;
	}
}

static void observe(const FSM::Instance& m, std::string& o) {
	o += "\n obs A=";
	for (int i = 0; i < N; ++i) o += m.isActive(static_cast<hfsm2::StateID>(i)) ? '1' : '0';
	show(o, " prev", m.previousTransitions());
	o += " last";
	for (int i = 0; i < N; ++i) {
		const auto* const t = m.lastTransitionTo(static_cast<hfsm2::StateID>(i));
		o += ' '; o += t ? std::to_string(static_cast<int>(t->destination)) : std::string("-");
	}
}

static std::string runOnce(uint64_t seed, bool disturb, long& callbacks, long& drives) {
	Ctx bctx; bctx.quiet = true;
	FSM::Instance bystander{bctx};
	Ctx ctx; ctx.script = Prng{seed * 31 + 7}; ctx.noise = Prng{seed * 131 + 3};
	ctx.bystander = &bystander; ctx.disturb = disturb;
	Prng ops{seed * 17 + 1};
	FSM::Instance m{ctx};
	observe(m, ctx.trace);
	for (int n = 0; n < 60; ++n) {
		const unsigned r = ops.below(100);
		const hfsm2::StateID dest = static_cast<hfsm2::StateID>(1 + ops.below(N - 1));
		ctx.trace += "\nop "; ctx.trace += std::to_string(n);
		if (r < 35)			m.update();
		else if (r < 55)	{ m.changeTo(dest); m.update(); }
		else if (r < 70)	m.immediateChangeTo(dest);
		else if (r < 80)	m.immediateRestart(dest);
		else if (r < 88)	m.immediateResume(dest);
		else				{ m.changeTo(dest); m.changeTo(static_cast<hfsm2::StateID>(1 + ops.below(N - 1))); m.update(); }
		observe(m, ctx.trace);
	}
	callbacks += ctx.callbacks; drives += ctx.drives;
	return ctx.trace;
}

int main(int argc, char** argv) {
	const uint64_t seed = argc > 1 ? strtoull(argv[1], nullptr, 10) : 1;
	const int runs = argc > 2 ? atoi(argv[2]) : 40;
	long callbacks = 0, drives = 0, dummy = 0, diffs = 0;
	for (int i = 0; i < runs; ++i) {
		const std::string quietRun = runOnce(seed * 1000 + static_cast<uint64_t>(i), false, callbacks, dummy);
		const std::string noisyRun = runOnce(seed * 1000 + static_cast<uint64_t>(i), true, dummy, drives);
		if (quietRun != noisyRun) {
			size_t k = 0;
			while (k < quietRun.size() && k < noisyRun.size() && quietRun[k] == noisyRun[k]) ++k;
			const size_t lo = quietRun.rfind("\nop ", k) == std::string::npos ? 0 : quietRun.rfind("\nop ", k);
			std::string a = quietRun.substr(lo, k - lo + 160), b = noisyRun.substr(lo, k - lo + 160);
			for (char& ch : a) if (ch == '\n') ch = '|';
			for (char& ch : b) if (ch == '\n') ch = '|';
			std::printf("C10-NEST-DIFF run %d (seed %llu): bystander left alone: %s   ###   bystander driven from inside the subject's callbacks: %s\n",
						i, static_cast<unsigned long long>(seed * 1000 + static_cast<uint64_t>(i)), a.c_str(), b.c_str());
			if (++diffs >= 3) break;
		}
	}
	if (!diffs) std::printf("C10-NEST-OK %d %ld %ld\n", runs, callbacks, drives);
	return 0;
}
