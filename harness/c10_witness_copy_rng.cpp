// Witness for known finding F4 (C10/C11): a copy of an instance that uses the library's built-in random
// generator keeps a *reference to the original's generator* (CoreT::rng is `RNG&`, InstanceT's implicit copy
// constructor copies the RNGT base but binds the reference to the original).
//
//   g++ -std=c++14 -O1 -g -fsanitize=address,undefined -fno-sanitize-recover=all -I/repo/include \
//       c10_witness_copy_rng.cpp -o w && ./w
//
// Expected on the unrepaired tree: "F4-BEHAVIOUR ..." (the copy's draws advance the original's generator:
// original and copy, driven identically, do not behave identically), then — with `./w uaf` — an
// AddressSanitizer heap-use-after-free report in FloatRandomT::next() once the original is gone.
// A repaired library prints "F4-OK".
#define HFSM2_ENABLE_UTILITY_THEORY
#include <hfsm2/machine.hpp>
#include <cstdio>
#include <cstring>
#include <new>

using M = hfsm2::MachineT<hfsm2::Config::ContextT<int>>;		// no RandomT<>: built-in generator

struct A; struct B; struct C;
using FSM = M::RandomRoot<struct R, A, B, C>;

static int g_last = -1;
struct R : FSM::State {};
struct A : FSM::State { void enter(PlanControl&) { g_last = 0; } Utility utility(const Control&) { return 1.0f; } };
struct B : FSM::State { void enter(PlanControl&) { g_last = 1; } Utility utility(const Control&) { return 1.0f; } };
struct C : FSM::State { void enter(PlanControl&) { g_last = 2; } Utility utility(const Control&) { return 1.0f; } };

int main(int argc, char** argv) {
	int ctx = 0;
	FSM::Instance* original = new FSM::Instance{ctx};
	FSM::Instance* copy     = new FSM::Instance{*original};

	// drive both identically: the same 12 randomize() steps, interleaved
	char so[16] = {0}, sc[16] = {0};
	for (int i = 0; i < 12; ++i) {
		original->immediateRandomize(FSM::stateId<R>()); so[i] = static_cast<char>('0' + g_last);
		copy    ->immediateRandomize(FSM::stateId<R>()); sc[i] = static_cast<char>('0' + g_last);
	}
	if (strcmp(so, sc) != 0)
		printf("F4-BEHAVIOUR original entered %s, copy entered %s: the copy does not continue as the original would\n", so, sc);
	else
		printf("F4-OK original and copy entered %s\n", so);

	if (argc > 1 && !strcmp(argv[1], "uaf")) {
		delete original;							// the copy's generator reference now dangles
		copy->immediateRandomize(FSM::stateId<R>());	// ASan: heap-use-after-free
		printf("F4-UAF-NOT-DETECTED\n");
		delete copy;
		return 0;
	}
	delete copy;
	delete original;
	return 0;
}
