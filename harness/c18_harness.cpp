// C18 correspondence harness: drives the real hfsm2::detail::BitArrayT<N> (N = 1..72, Bits/CBits views,
// static and dynamic index forms) and StreamBufferT / BitWriteStreamT / BitReadStreamT (several capacities,
// write<W>/read<W> for W = 1..32) and writes one transcript line per operation:
//
//   ba <N> new                         => <hexA> <hexB>
//   ba <N> set|sset|clr|sclr <X> <i>   => <hex of X>          (s… = template <Short NIndex> form)
//   ba <N> get|sget <X> <i>            => 0|1
//   ba <N> setall|clrall <X>           => <hex of X>
//   ba <N> empty <X>                   => 0|1
//   ba <N> neq | and                   => 0|1                 (A != B, A & B)
//   ba <N> andeq|copy <X>              => <hex of X>          (X &= other, X = other)
//   bv <N> <u> <w> get|cget|sget|tget|tcget <X> <i> => 0|1    (bits(Units) / cbits(Units) / Bits::get<I> /
//                                                              bits<U,W>() / cbits<U,W>())
//   bv <N> <u> <w> set|sset|tset|clr|sclr|tclr <X> <i> => <hex of X>
//   bv <N> <u> <w> clrall|tclrall <X>  => <hex of X>
//   bv <N> <u> <w> bool|cbool|tbool|tcbool <X> => 0|1
//   sb <CAP> new                       => <hexA> <hexB>
//   sb <CAP> poke <X> <idx> <hexbyte>  => <hex of X>
//   sb <CAP> clear <X>                 => <hex of X>
//   sb <CAP> eq | ne                   => 0|1
//   sb <CAP> wopen <X> <cursor>        => <hex of X>          (constructor clears the buffer)
//   sb <CAP> write <w> <hexvalue>      => <cursor> <hex of X>
//   sb <CAP> ropen <X> <cursor>        => <cursor>
//   sb <CAP> read <w>                  => <hexvalue> <cursor>
//   f9probe <N> <u> <w>                => ok|crash            (mode f9: operator bool on an exact-size heap
//                                                              block in a forked child; crash = ASan report.
//                                                              Regression check of the repaired finding F9:
//                                                              every probe must answer ok)
// X is a or b; <hex> is two lower-case digits per byte, byte 0 first.
// The property is also evaluated directly: ideal-set shadows (std::bitset) for the arrays, a
// std::vector<bool> shadow and write->read round trips for the streams; violations are printed as
// `ORACLE-FAIL kind=<tag> ...` (first few per tag; all are counted in `# stat oracle_fail_<tag>`).
//
// The dynamic forms are instantiated for every N = 1..72; the template <Short NIndex> forms for the
// capacities in staticIndexFor(), bits<U,W>()/cbits<U,W>() for those in staticViewsFor() (every (U,W)
// that fits).  CBits::get<NIndex>() is not exercised: it cannot be instantiated (its static_assert
// names the non-static member _width).  Build: ~100 s with -O1 -g ASan+UBSan (72 x 2 class templates).
//
// usage: c18_harness <seed> <count> [rand|exh|f9|all]
//   rand (default): about <count> random operations in sessions, biased to unit/byte boundaries
//   exh : exhaustive small domains (every N, index, view; alignment 0..7 x width 1..32 x boundary values)
//   f9  : forked ASan probes of Bits/CBits::operator bool at the end of a heap block (F9 regression: all ok)
#define HFSM2_ENABLE_SERIALIZATION
#include <hfsm2/machine.hpp>

#include <bitset>
#include <cstdint>
#include <cstdio>
#include <cstdlib>
#include <cstring>
#include <map>
#include <memory>
#include <new>
#include <string>
#include <utility>
#include <vector>
#include <sys/wait.h>
#include <unistd.h>

using hfsm2::Long;
using hfsm2::Short;
using hfsm2::detail::BitArrayT;
using hfsm2::detail::BitReadStreamT;
using hfsm2::detail::BitWriteStreamT;
using hfsm2::detail::StreamBufferT;
using hfsm2::detail::Units;

//----------------------------------------------------------------------------------------------------
// PRNG (splitmix64), statistics, oracle reporting

static uint64_t g_state;
static uint64_t rnd() {
	uint64_t z = (g_state += 0x9E3779B97F4A7C15ull);
	z = (z ^ (z >> 30)) * 0xBF58476D1CE4E5B9ull;
	z = (z ^ (z >> 27)) * 0x94D049BB133111EBull;
	return z ^ (z >> 31);
}
static unsigned below(unsigned n) { return n ? (unsigned) (rnd() % n) : 0; }
static bool chance(unsigned pct) { return below(100) < pct; }

static std::map<std::string, unsigned long> g_stat;
static void stat(const std::string& k, unsigned long d = 1) { g_stat[k] += d; }

static std::map<std::string, unsigned long> g_fail;
static void oracleFail(const char* kind, const std::string& what) {
	unsigned long& n = g_fail[kind];
	if (n < 5)
		printf("ORACLE-FAIL kind=%s %s\n", kind, what.c_str());
	++n;
}

static std::string hexBytes(const uint8_t* p, unsigned n) {
	static const char* d = "0123456789abcdef";
	if (n == 0) return "-";
	std::string s;
	for (unsigned i = 0; i < n; ++i) { s += d[p[i] >> 4]; s += d[p[i] & 15]; }
	return s;
}

//----------------------------------------------------------------------------------------------------
// bit arrays

static constexpr unsigned MAX_N = 72;
using Shadow = std::bitset<80>;

struct BAIface {
	virtual ~BAIface() {}
	virtual unsigned cap() const = 0;
	virtual unsigned units() const = 0;
	virtual bool hasStaticViews() const = 0;
	virtual bool hasStaticIndex() const = 0;
	virtual void construct() = 0;
	virtual const uint8_t* bytes(int x) const = 0;
	virtual bool guardsIntact() const = 0;
	virtual bool get(int x, unsigned i, bool stat) const = 0;
	virtual void set(int x, unsigned i, bool stat) = 0;
	virtual void clr(int x, unsigned i, bool stat) = 0;
	virtual void setall(int x) = 0;
	virtual void clrall(int x) = 0;
	virtual bool empty(int x) const = 0;
	virtual bool neq() const = 0;
	virtual bool andAny() const = 0;
	virtual void andeq(int x) = 0;
	virtual void copy(int x) = 0;
	// views; form: 0 = bits(Units), 1 = cbits(Units), 2 = Bits::get<I> on bits(Units), 3 = bits<U,W>(), 4 = cbits<U,W>()
	virtual bool vget(int x, unsigned u, unsigned w, unsigned i, int form) = 0;
	virtual void vset(int x, unsigned u, unsigned w, unsigned i, int form) = 0;
	virtual void vclr(int x, unsigned u, unsigned w, unsigned i, int form) = 0;
	virtual void vclrall(int x, unsigned u, unsigned w, int form) = 0;
	virtual bool vbool(int x, unsigned u, unsigned w, int form) = 0;
};

constexpr bool staticViewsFor(unsigned n) { return n == 1 || n == 8 || n == 13 || n == 16 || n == 32 || n == 40; }
// capacities for which the template <Short NIndex> forms are instantiated (every index below N, every view index)
constexpr bool staticIndexFor(unsigned n) {
	return n <= 2 || n == 5 || (n >= 7 && n <= 9) || n == 13 || (n >= 15 && n <= 17) || n == 24 || (n >= 31 && n <= 33)
	    || (n >= 63 && n <= 65) || n == 71 || n == 72;
}

template <unsigned N, unsigned U, unsigned W, bool OK>
struct SView {
	using BA = BitArrayT<N>;
	static bool get(BA&, unsigned) { return false; }
	static bool cget(const BA&, unsigned) { return false; }
	static void set(BA&, unsigned) {}
	static void clr(BA&, unsigned) {}
	static void clrall(BA&) {}
	static bool tobool(BA&) { return false; }
	static bool ctobool(const BA&) { return false; }
	static constexpr bool valid = false;
};
template <unsigned N, unsigned U, unsigned W>
struct SView<N, U, W, true> {
	using BA = BitArrayT<N>;
	using Index = typename BA::Index;
	static bool get(BA& a, unsigned i) { return a.template bits<U, W>().get((Index) i); }
	static bool cget(const BA& a, unsigned i) { return a.template cbits<U, W>().get((Index) i); }
	static void set(BA& a, unsigned i) { a.template bits<U, W>().set((Index) i); }
	static void clr(BA& a, unsigned i) { a.template bits<U, W>().clear((Index) i); }
	static void clrall(BA& a) { a.template bits<U, W>().clear(); }
	static bool tobool(BA& a) { return (bool) a.template bits<U, W>(); }
	static bool ctobool(const BA& a) { return (bool) a.template cbits<U, W>(); }
	static constexpr bool valid = true;
};

template <unsigned N>
struct BAImpl final : BAIface {
	using BA = BitArrayT<N>;
	using Bits = typename BA::Bits;
	using CBits = typename BA::CBits;
	using Index = typename BA::Index;
	static constexpr unsigned UC = (N + 7) / 8;
	static_assert(sizeof(BA) == UC, "BitArrayT is exactly its storage");
	static_assert(BA::UNIT_COUNT == UC, "unit count");

	// the array sits between guard bytes inside one object; a read just past the array (former finding F9 of
	// operator bool) would be intra-object here and invisible to the sanitizers, so it is probed separately in mode f9
	struct Slot { uint8_t pre[8]; BA a; uint8_t post[8]; };
	Slot s[2];

	BAImpl() { for (auto& x : s) { memset(x.pre, 0xA5, 8); memset(x.post, 0x5A, 8); } }

	unsigned cap() const override { return N; }
	unsigned units() const override { return UC; }
	bool hasStaticViews() const override { return staticViewsFor(N); }
	bool hasStaticIndex() const override { return staticIndexFor(N); }
	void construct() override { for (auto& x : s) { memset((void*) &x.a, 0xCC, sizeof(BA)); new (&x.a) BA(); } }
	const uint8_t* bytes(int x) const override { return reinterpret_cast<const uint8_t*>(&s[x].a); }
	bool guardsIntact() const override {
		for (auto& x : s) for (int i = 0; i < 8; ++i) if (x.pre[i] != 0xA5 || x.post[i] != 0x5A) return false;
		return true;
	}

	// static index dispatch
	template <size_t I> static bool sget_(const BA& a) { return a.template get<(Short) I>(); }
	template <size_t I> static void sset_(BA& a) { a.template set<(Short) I>(); }
	template <size_t I> static void sclr_(BA& a) { a.template clear<(Short) I>(); }
	template <size_t I> static bool vsget_(Bits b) { return b.template get<(Short) I>(); }
	template <size_t I> static void vsset_(Bits b) { b.template set<(Short) I>(); }
	template <size_t I> static void vsclr_(Bits b) { b.template clear<(Short) I>(); }
	struct STab { bool (*get)(const BA&); void (*set)(BA&); void (*clr)(BA&); };
	struct VTab { bool (*get)(Bits); void (*set)(Bits); void (*clr)(Bits); };
	template <size_t... I> static const STab* stab(std::index_sequence<I...>) {
		static const STab t[] = { STab{&sget_<I>, &sset_<I>, &sclr_<I>}... };
		return t;
	}
	// view static indices range over the whole unit domain 8*UC (a view may be as wide as the units allow)
	template <size_t... I> static const VTab* vtab(std::index_sequence<I...>) {
		static const VTab t[] = { VTab{&vsget_<I>, &vsset_<I>, &vsclr_<I>}... };
		return t;
	}
	static const STab& st(unsigned i) { return stab(std::make_index_sequence<staticIndexFor(N) ? N : 1>())[i]; }
	static const VTab& vt(unsigned i) { return vtab(std::make_index_sequence<staticIndexFor(N) ? 8 * UC : 1>())[i]; }

	// static view dispatch: flat index U * (8*UC) + (W-1)
	struct TTab {
		bool (*get)(BA&, unsigned); bool (*cget)(const BA&, unsigned); void (*set)(BA&, unsigned);
		void (*clr)(BA&, unsigned); void (*clrall)(BA&); bool (*tobool)(BA&); bool (*ctobool)(const BA&); bool valid;
	};
	template <size_t F> struct TSel {
		static constexpr unsigned U = F / (8 * UC), W = F % (8 * UC) + 1;
		static constexpr bool OK = staticViewsFor(N) && U + (W + 7) / 8 <= UC;
		using V = SView<N, OK ? U : 0, OK ? W : 0, OK>;	// one shared stub for every (U, W) that does not fit
	};
	template <size_t... F> static const TTab* ttab(std::index_sequence<F...>) {
		static const TTab t[] = { TTab{&TSel<F>::V::get, &TSel<F>::V::cget, &TSel<F>::V::set, &TSel<F>::V::clr,
		                               &TSel<F>::V::clrall, &TSel<F>::V::tobool, &TSel<F>::V::ctobool, TSel<F>::V::valid}... };
		return t;
	}
	static const TTab& tt(unsigned u, unsigned w) {
		return ttab(std::make_index_sequence<staticViewsFor(N) ? UC * 8 * UC : 1>())[u * 8 * UC + (w - 1)];
	}

	bool get(int x, unsigned i, bool stc) const override { return stc ? st(i).get(s[x].a) : s[x].a.get(i); }
	void set(int x, unsigned i, bool stc) override { if (stc) st(i).set(s[x].a); else s[x].a.set(i); }
	void clr(int x, unsigned i, bool stc) override { if (stc) st(i).clr(s[x].a); else s[x].a.clear(i); }
	void setall(int x) override { s[x].a.set(); }
	void clrall(int x) override { s[x].a.clear(); }
	bool empty(int x) const override { return s[x].a.empty(); }
	bool neq() const override { return s[0].a != s[1].a; }
	bool andAny() const override { return s[0].a & s[1].a; }
	void andeq(int x) override { s[x].a &= s[1 - x].a; }
	void copy(int x) override { s[x].a = s[1 - x].a; }

	static Units un(unsigned u, unsigned w) { return Units{(Short) u, (Short) w}; }
	bool vget(int x, unsigned u, unsigned w, unsigned i, int form) override {
		BA& a = s[x].a; const BA& ca = a;
		switch (form) {
		case 0: return a.bits(un(u, w)).get((Index) i);
		case 1: return ca.cbits(un(u, w)).get((Index) i);
		case 2: return vt(i).get(a.bits(un(u, w)));
		case 3: return tt(u, w).get(a, i);
		default: return tt(u, w).cget(ca, i);
		}
	}
	void vset(int x, unsigned u, unsigned w, unsigned i, int form) override {
		BA& a = s[x].a;
		switch (form) {
		case 0: a.bits(un(u, w)).set((Index) i); break;
		case 2: vt(i).set(a.bits(un(u, w))); break;
		default: tt(u, w).set(a, i); break;
		}
	}
	void vclr(int x, unsigned u, unsigned w, unsigned i, int form) override {
		BA& a = s[x].a;
		switch (form) {
		case 0: a.bits(un(u, w)).clear((Index) i); break;
		case 2: vt(i).clr(a.bits(un(u, w))); break;
		default: tt(u, w).clr(a, i); break;
		}
	}
	void vclrall(int x, unsigned u, unsigned w, int form) override {
		BA& a = s[x].a;
		if (form == 3) tt(u, w).clrall(a); else a.bits(un(u, w)).clear();
	}
	bool vbool(int x, unsigned u, unsigned w, int form) override {
		BA& a = s[x].a; const BA& ca = a;
		switch (form) {
		case 0: return (bool) a.bits(un(u, w));
		case 1: return (bool) ca.cbits(un(u, w));
		case 3: return tt(u, w).tobool(a);
		default: return tt(u, w).ctobool(ca);
		}
	}
};

static BAIface* g_ba[MAX_N + 1];
template <size_t... I> static void makeArrays(std::index_sequence<I...>) {
	BAIface* t[] = { nullptr, new BAImpl<I + 1>()... };
	for (unsigned i = 0; i <= MAX_N; ++i) g_ba[i] = t[i];
}

// one bit-array session: implementation + shadows over the unit domain [0, 8*UC)
struct BASession {
	BAIface* impl;
	unsigned N, UC;
	Shadow sh[2];

	explicit BASession(unsigned n) : impl(g_ba[n]), N(n), UC((n + 7) / 8) {}

	std::string hex(int x) const { return hexBytes(impl->bytes(x), UC); }
	static char nm(int x) { return x ? 'b' : 'a'; }
	std::string ctx(const char* op, int x) const {
		char b[160]; snprintf(b, sizeof b, "N=%u op=%s X=%c A=%s B=%s", N, op, nm(x), hex(0).c_str(), hex(1).c_str());
		return b;
	}
	Shadow lowMask() const { Shadow m; for (unsigned i = 0; i < N; ++i) m.set(i); return m; }
	bool padDirty(int x) const { return (sh[x] & ~lowMask()).any(); }

	// property check after every mutation: every index below CAPACITY reads as the ideal set says,
	// and the raw storage equals the unit-domain shadow (so nothing outside was disturbed either)
	void checkAll(const char* op, int x) {
		for (int y = 0; y < 2; ++y) {
			for (unsigned i = 0; i < N; ++i)
				if (impl->get(y, i, false) != sh[y][i]) {
					oracleFail("array-frame", ctx(op, x) + " index=" + std::to_string(i) + " of " + nm(y));
					break;
				}
			const uint8_t* p = impl->bytes(y);
			for (unsigned i = 0; i < 8 * UC; ++i)
				if (((p[i / 8] >> (i % 8)) & 1) != (unsigned) sh[y][i]) {
					oracleFail("array-storage", ctx(op, x) + " bit=" + std::to_string(i) + " of " + nm(y));
					break;
				}
		}
		if (!impl->guardsIntact()) oracleFail("array-guard", ctx(op, x));
	}

	void opNew() {
		impl->construct();
		sh[0].reset(); sh[1].reset();
		printf("ba %u new => %s %s\n", N, hex(0).c_str(), hex(1).c_str());
		stat("ba.new");
		checkAll("new", 0);
	}
	void opSet(int x, unsigned i, bool stc) {
		stc = stc && impl->hasStaticIndex();
		impl->set(x, i, stc); sh[x].set(i);
		printf("ba %u %s %c %u => %s\n", N, stc ? "sset" : "set", nm(x), i, hex(x).c_str());
		stat(stc ? "ba.sset" : "ba.set"); if (i % 8 == 7 || i % 8 == 0) stat("ba.index_at_unit_edge");
		if (i == N - 1) stat("ba.index_last");
		checkAll("set", x);
	}
	void opClr(int x, unsigned i, bool stc) {
		stc = stc && impl->hasStaticIndex();
		impl->clr(x, i, stc); sh[x].reset(i);
		printf("ba %u %s %c %u => %s\n", N, stc ? "sclr" : "clr", nm(x), i, hex(x).c_str());
		stat(stc ? "ba.sclr" : "ba.clr"); if (i % 8 == 7 || i % 8 == 0) stat("ba.index_at_unit_edge");
		checkAll("clr", x);
	}
	void opGet(int x, unsigned i, bool stc) {
		stc = stc && impl->hasStaticIndex();
		const bool r = impl->get(x, i, stc);
		printf("ba %u %s %c %u => %d\n", N, stc ? "sget" : "get", nm(x), i, (int) r);
		stat(stc ? "ba.sget" : "ba.get"); stat(r ? "ba.get_true" : "ba.get_false");
		if (r != sh[x][i]) oracleFail("array-get", ctx("get", x) + " index=" + std::to_string(i));
	}
	void opSetAll(int x) {
		impl->setall(x);
		sh[x].reset();
		for (unsigned i = 0; i < N; ++i) sh[x].set(i);	// ideal: exactly the indices below CAPACITY (padding stays clear)
		printf("ba %u setall %c => %s\n", N, nm(x), hex(x).c_str());
		stat("ba.setall"); if (N % 8) stat("ba.setall_with_padding");
		checkAll("setall", x);
	}
	void opClrAll(int x) {
		impl->clrall(x); sh[x].reset();
		printf("ba %u clrall %c => %s\n", N, nm(x), hex(x).c_str());
		stat("ba.clrall");
		checkAll("clrall", x);
	}
	void opEmpty(int x) {
		const bool r = impl->empty(x);
		printf("ba %u empty %c => %d\n", N, nm(x), (int) r);
		stat("ba.empty"); stat(r ? "ba.empty_true" : "ba.empty_false");
		const bool ideal = (sh[x] & lowMask()).none();
		if (r != ideal) {
			if (padDirty(x) && r == sh[x].none()) { oracleFail("pad-bits", ctx("empty", x) + " empty()=" + (r ? "1" : "0") + " but no index below CAPACITY is set"); }
			else oracleFail("array-empty", ctx("empty", x));
		}
	}
	void opNeq() {
		const bool r = impl->neq();
		printf("ba %u neq => %d\n", N, (int) r);
		stat("ba.neq"); stat(r ? "ba.neq_true" : "ba.neq_false");
		const bool ideal = (sh[0] & lowMask()) != (sh[1] & lowMask());
		if (r != ideal) {
			if ((padDirty(0) || padDirty(1)) && r == (sh[0] != sh[1])) oracleFail("pad-bits", ctx("neq", 0) + " != differs although index sets below CAPACITY are equal");
			else oracleFail("array-neq", ctx("neq", 0));
		}
	}
	void opAnd() {
		const bool r = impl->andAny();
		printf("ba %u and => %d\n", N, (int) r);
		stat("ba.and"); stat(r ? "ba.and_true" : "ba.and_false");
		const Shadow both = sh[0] & sh[1];
		const bool intersects = (both & lowMask()).any();
		bool perUnit = true;
		for (unsigned u = 0; u < UC; ++u) { bool any = false; for (unsigned k = 0; k < 8; ++k) any |= both[8 * u + k]; perUnit &= any; }
		if (r != intersects) {
			if (r == perUnit) { oracleFail("and-per-unit", ctx("and", 0) + " operator& is 'every unit has a common bit', not 'intersection non-empty'"); }
			else oracleFail("array-and", ctx("and", 0));
		} else stat("ba.and_agrees_with_intersects");
	}
	void opAndEq(int x) {
		impl->andeq(x); sh[x] &= sh[1 - x];
		printf("ba %u andeq %c => %s\n", N, nm(x), hex(x).c_str());
		stat("ba.andeq");
		checkAll("andeq", x);
	}
	void opCopy(int x) {
		impl->copy(x); sh[x] = sh[1 - x];
		printf("ba %u copy %c => %s\n", N, nm(x), hex(x).c_str());
		stat("ba.copy");
		checkAll("copy", x);
	}

	// views
	int norm(int form) const {
		if (form == 2 && !impl->hasStaticIndex()) return 0;
		if (form == 3 && !impl->hasStaticViews()) return 0;
		if (form == 4 && !impl->hasStaticViews()) return 1;
		return form;
	}
	static const char* getName(int form) { static const char* n[] = {"get", "cget", "sget", "tget", "tcget"}; return n[form]; }
	std::string vctx(const char* op, int x, unsigned u, unsigned w) const {
		char b[200]; snprintf(b, sizeof b, "N=%u view unit=%u width=%u op=%s X=%c storage=%s", N, u, w, op, nm(x), hex(x).c_str());
		return b;
	}
	void viewStat(unsigned u, unsigned w) {
		stat(w % 8 == 0 ? "bv.width_mult8" : "bv.width_partial");
		if (u + (w + 7) / 8 == UC) stat("bv.ends_at_array_end");
		if (w % 8 == 0 && u + w / 8 == UC) stat("bv.former_f9_shape(width%8==0,at_end)");
		if (8 * u + w > N) stat("bv.wider_than_capacity");
	}
	void opVGet(int x, unsigned u, unsigned w, unsigned i, int form) {
		form = norm(form);
		const bool r = impl->vget(x, u, w, i, form);
		printf("bv %u %u %u %s %c %u => %d\n", N, u, w, getName(form), nm(x), i, (int) r);
		stat(std::string("bv.") + getName(form)); viewStat(u, w);
		if (r != sh[x][8 * u + i]) oracleFail("view-get", vctx("get", x, u, w) + " index=" + std::to_string(i));
	}
	void opVSet(int x, unsigned u, unsigned w, unsigned i, int form) {
		form = norm(form);
		// a view may be declared wider than the capacity (bits() only checks the unit range); writing through it
		// beyond CAPACITY would set a padding bit, which is outside the contract modelled (Props.C18 Reachable)
		if (8 * u + i >= N) { i = N - 1 - 8 * u; stat("bv.set_index_clamped_to_capacity"); }
		impl->vset(x, u, w, i, form); sh[x].set(8 * u + i);
		const char* n = form == 0 ? "set" : form == 2 ? "sset" : "tset";
		printf("bv %u %u %u %s %c %u => %s\n", N, u, w, n, nm(x), i, hex(x).c_str());
		stat(std::string("bv.") + n); viewStat(u, w);
		checkAll("view-set", x);
	}
	void opVClr(int x, unsigned u, unsigned w, unsigned i, int form) {
		form = norm(form);
		impl->vclr(x, u, w, i, form); sh[x].reset(8 * u + i);
		const char* n = form == 0 ? "clr" : form == 2 ? "sclr" : "tclr";
		printf("bv %u %u %u %s %c %u => %s\n", N, u, w, n, nm(x), i, hex(x).c_str());
		stat(std::string("bv.") + n); viewStat(u, w);
		checkAll("view-clr", x);
	}
	void opVClrAll(int x, unsigned u, unsigned w, int form) {
		form = norm(form);
		// ideal: exactly [8u, 8u+w) is cleared
		Shadow ideal = sh[x];
		for (unsigned i = 0; i < w; ++i) ideal.reset(8 * u + i);
		const std::string before = hex(x);
		impl->vclrall(x, u, w, form);
		printf("bv %u %u %u %s %c => %s\n", N, u, w, form == 3 ? "tclrall" : "clrall", nm(x), hex(x).c_str());
		stat(form == 3 ? "bv.tclrall" : "bv.clrall"); viewStat(u, w);
		// as coded: whole units
		Shadow coded = sh[x];
		for (unsigned i = 8 * u; i < 8 * (u + (w + 7) / 8); ++i) coded.reset(i);
		const uint8_t* p = impl->bytes(x);
		Shadow now;
		for (unsigned i = 0; i < 8 * UC; ++i) if ((p[i / 8] >> (i % 8)) & 1) now.set(i);
		if (now != ideal) {
			if (now == coded) { oracleFail("view-clear-spill", vctx("clear()", x, u, w) + " before=" + before + " cleared set bits beyond the view's width (whole units are zeroed)"); }
			else oracleFail("view-clrall", vctx("clear()", x, u, w) + " before=" + before);
		} else stat("bv.clrall_exact");
		sh[x] = now;
		checkAll("view-clrall", x);
	}
	void opVBool(int x, unsigned u, unsigned w, int form) {
		form = norm(form);
		const bool r = impl->vbool(x, u, w, form);
		static const char* n[] = {"bool", "cbool", "", "tbool", "tcbool"};
		printf("bv %u %u %u %s %c => %d\n", N, u, w, n[form], nm(x), (int) r);
		stat(std::string("bv.") + n[form]); stat(r ? "bv.bool_true" : "bv.bool_false"); viewStat(u, w);
		bool any = false; for (unsigned i = 0; i < w; ++i) any |= sh[x][8 * u + i];
		if (r != any) oracleFail("view-bool", vctx("operator bool", x, u, w));
		bool fullZero = true; for (unsigned i = 0; i < 8 * (w / 8); ++i) fullZero &= !sh[x][8 * u + i];
		if (w % 8 == 0 && fullZero) stat("bv.bool_whole_byte_view_all_zero(former_F9_read_outside_view)");
		if (w % 8 == 0 && fullZero && u + w / 8 == UC) stat("bv.bool_whole_byte_view_all_zero_at_array_end(former_F9_read_outside_array)");
	}
};

static unsigned pickIndex(unsigned n) {	// biased to unit boundaries and the ends
	if (n == 1) return 0;
	switch (below(6)) {
	case 0: return n - 1;
	case 1: return 0;
	case 2: { unsigned u = below((n + 7) / 8); unsigned i = 8 * u + (chance(50) ? 7 : 0); return i < n ? i : n - 1; }
	default: return below(n);
	}
}

static int pickViewForm(BAIface* impl, bool mut, bool indexed) {
	// 0 bits(Units), 1 cbits(Units), 2 Bits::get<I>, 3 bits<U,W>, 4 cbits<U,W>
	std::vector<int> f = {0, 0};
	if (!mut) f.push_back(1);
	if (indexed) f.push_back(2);
	if (impl->hasStaticViews()) { f.push_back(3); f.push_back(3); if (!mut) f.push_back(4); }
	return f[below((unsigned) f.size())];
}

static void pickView(unsigned N, unsigned UC, unsigned& u, unsigned& w) {
	u = below(UC);
	if (chance(30)) u = UC - 1 - below(UC > 2 ? 2 : 1);
	const unsigned maxUnits = UC - u;
	unsigned maxW = 8 * maxUnits;
	if (!chance(10)) {	// mostly keep the view inside [0, N)
		if (8 * u >= N) { u = 0; }
		maxW = N - 8 * u;
	}
	if (maxW > 8 * (UC - u)) maxW = 8 * (UC - u);
	switch (below(5)) {
	case 0: w = maxW; break;
	case 1: { unsigned k = maxW / 8; w = k ? 8 * (1 + below(k)) : maxW; } break;	// multiple of 8
	case 2: { unsigned k = maxW / 8; w = k ? 8 * (1 + below(k)) : maxW; if (w > 1 && chance(50)) --w; else if (w < maxW) ++w; } break;
	default: w = 1 + below(maxW); break;
	}
}

static void randomArraySession(unsigned ops) {
	static const unsigned hot[] = {1, 2, 7, 8, 9, 13, 15, 16, 17, 24, 31, 32, 33, 63, 64, 65, 71, 72};
	const unsigned N = chance(60) ? hot[below(sizeof hot / sizeof *hot)] : 1 + below(MAX_N);
	BASession S(N);
	S.opNew();
	for (unsigned k = 0; k < ops; ++k) {
		const int x = (int) below(2);
		const unsigned r = below(100);
		const bool stc = chance(35);
		if (r < 18) S.opSet(x, pickIndex(N), stc);
		else if (r < 28) S.opClr(x, pickIndex(N), stc);
		else if (r < 38) S.opGet(x, pickIndex(N), stc);
		else if (r < 41) S.opSetAll(x);
		else if (r < 43) S.opClrAll(x);
		else if (r < 48) S.opEmpty(x);
		else if (r < 52) S.opNeq();
		else if (r < 56) S.opAnd();
		else if (r < 59) S.opAndEq(x);
		else if (r < 62) S.opCopy(x);
		else if (r < 64) {	// drain: clear every index below N one by one, then ask empty()
			for (unsigned i = 0; i < N; ++i) if (S.sh[x][i]) S.opClr(x, i, false);
			S.opEmpty(x);
			stat("ba.drain");
		} else {
			unsigned u, w; pickView(N, S.UC, u, w);
			const unsigned q = below(100);
			const unsigned i = chance(30) ? w - 1 : below(w);
			if (q < 22) S.opVSet(x, u, w, i, pickViewForm(S.impl, true, true));
			else if (q < 36) S.opVClr(x, u, w, i, pickViewForm(S.impl, true, true));
			else if (q < 56) S.opVGet(x, u, w, i, pickViewForm(S.impl, false, true));
			else if (q < 68) S.opVClrAll(x, u, w, S.impl->hasStaticViews() && chance(50) ? 3 : 0);
			else S.opVBool(x, u, w, pickViewForm(S.impl, false, false));
		}
	}
}

static void exhaustiveArrays() {
	for (unsigned N = 1; N <= MAX_N; ++N) {
		BASession S(N);
		S.opNew();
		S.opEmpty(0);
		// every index: set / get / clear with both forms, neighbours checked by checkAll
		for (unsigned i = 0; i < N; ++i) {
			S.opSet(0, i, false); S.opGet(0, i, true); S.opEmpty(0); S.opNeq();
			S.opSet(1, i, true); S.opAnd();
			S.opClr(0, i, true); S.opGet(0, i, false);
			S.opClr(1, i, false);
		}
		// set() then drain below N: the (repaired) padding-bit case; empty() must now answer 1
		S.opSetAll(0);
		for (unsigned i = 0; i < N; ++i) S.opClr(0, i, i & 1);
		S.opEmpty(0); S.opNeq();
		S.opClrAll(0); S.opEmpty(0);
		// masks as the library uses them: all-ones mask with some bits cleared, then &=
		for (unsigned i = 0; i < N; i += 3) S.opSet(1, i, false);
		S.opSetAll(0);
		for (unsigned i = 0; i < N; i += 2) S.opClr(0, i, false);
		S.opAndEq(1); S.opAnd(); S.opCopy(0); S.opNeq();
		// every view that fits
		const unsigned UC = S.UC;
		for (unsigned u = 0; u < UC; ++u)
			for (unsigned w = 1; w <= 8 * (UC - u); ++w) {
				if (8 * u + w > N && w % 8 != 0 && w != 8 * (UC - u) - 1) continue;	// outside capacity: keep only the unit-aligned ones
				const bool tv = S.impl->hasStaticViews();
				S.opClrAll(0);
				S.opVBool(0, u, w, 0); S.opVBool(0, u, w, 1);
				if (tv) { S.opVBool(0, u, w, 3); S.opVBool(0, u, w, 4); }
				// neighbours just outside the view
				if (u > 0) S.opSet(0, 8 * u - 1 < N ? 8 * u - 1 : N - 1, false);
				if (8 * u + w < N) S.opSet(0, 8 * u + w, false);
				S.opVBool(0, u, w, 0);
				S.opVSet(0, u, w, w - 1, tv ? 3 : 0); S.opVBool(0, u, w, 1);
				S.opVGet(0, u, w, w - 1, 2); S.opVGet(0, u, w, 0, 1);
				S.opVClr(0, u, w, w - 1, 2); S.opVBool(0, u, w, tv ? 4 : 0);
				S.opVSet(0, u, w, 0, 2); S.opVSet(0, u, w, w / 2, 0);
				if (tv) { S.opVGet(0, u, w, w / 2, 3); S.opVGet(0, u, w, 0, 4); S.opVClr(0, u, w, 0, 3); }
				S.opVClrAll(0, u, w, tv ? 3 : 0);
				S.opVBool(0, u, w, 0);
			}
	}
}

//----------------------------------------------------------------------------------------------------
// F9 probe: operator bool on a BitArrayT that ends exactly at the end of a heap block, in a child process

struct F9Iface { virtual ~F9Iface() {} virtual void run(unsigned u, unsigned w, bool constView) = 0; };
template <unsigned N> struct F9Impl final : F9Iface {
	void run(unsigned u, unsigned w, bool constView) override {
		using BA = BitArrayT<N>;
		void* mem = malloc(sizeof(BA));
		BA* a = new (mem) BA();
		volatile bool r = constView ? (bool) static_cast<const BA*>(a)->cbits(Units{(Short) u, (Short) w})
		                            : (bool) a->bits(Units{(Short) u, (Short) w});
		(void) r;
		free(mem);
	}
};
static F9Iface* g_f9[MAX_N + 1];
template <size_t... I> static void makeF9(std::index_sequence<I...>) {
	F9Iface* t[] = { nullptr, new F9Impl<I + 1>()... };
	for (unsigned i = 0; i <= MAX_N; ++i) g_f9[i] = t[i];
}

static void f9Probe(unsigned N, unsigned u, unsigned w) {
	fflush(stdout);
	bool crashed = false;
	for (int constView = 0; constView < 2; ++constView) {
		const pid_t pid = fork();
		if (pid == 0) {
			if (!freopen("/dev/null", "w", stderr)) _exit(3);
			g_f9[N]->run(u, w, constView != 0);
			_exit(0);
		}
		int status = 0;
		waitpid(pid, &status, 0);
		if (!(WIFEXITED(status) && WEXITSTATUS(status) == 0)) crashed = true;
	}
	printf("f9probe %u %u %u => %s\n", N, u, w, crashed ? "crash" : "ok");
	stat(crashed ? "f9.crash" : "f9.ok");
	if (crashed) {
		char b[200];
		snprintf(b, sizeof b, "BitArrayT<%u> freshly constructed at the end of a heap block, (bool) bits(Units{%u,%u}): sanitizer abort (read of _storage[%u], one past the array)", N, u, w, u + w / 8);
		oracleFail("f9-tail-read", b);
	}
}

static void f9Mode() {
	static const unsigned ns[] = {1, 7, 8, 9, 16, 32, 72};
	for (unsigned N : ns) {
		const unsigned UC = (N + 7) / 8;
		for (unsigned u = 0; u < UC; ++u) {
			const unsigned maxW = 8 * (UC - u);
			f9Probe(N, u, maxW);                          // width % 8 == 0 and the view ends at the array end
			if (maxW > 1) f9Probe(N, u, maxW - 1);        // partial last unit: in bounds
			if (maxW > 8) f9Probe(N, u, maxW - 8);        // width % 8 == 0 but not at the end: inside the array
		}
	}
}

//----------------------------------------------------------------------------------------------------
// streams

struct SBIface {
	virtual ~SBIface() {}
	virtual unsigned cap() const = 0;
	virtual unsigned bytes() const = 0;
	virtual void construct() = 0;
	virtual const uint8_t* data(int x) const = 0;
	virtual void poke(int x, unsigned idx, uint8_t v) = 0;
	virtual void clear(int x) = 0;
	virtual bool eq() const = 0;
	virtual bool ne() const = 0;
	virtual void wopen(int x, unsigned cursor) = 0;
	virtual void write(unsigned w, uint32_t v) = 0;
	virtual unsigned wcursor() const = 0;
	virtual void ropen(int x, unsigned cursor) = 0;
	virtual uint32_t read(unsigned w) = 0;
	virtual unsigned rcursor() const = 0;
	virtual bool guardsIntact() const = 0;
};

template <unsigned CAP>
struct SBImpl final : SBIface {
	using Buf = StreamBufferT<CAP>;
	using WS = BitWriteStreamT<CAP>;
	using RS = BitReadStreamT<CAP>;
	static constexpr unsigned BC = (CAP + 7) / 8;
	static_assert(sizeof(Buf) == BC, "StreamBufferT is exactly its data");
	static_assert(Buf::BYTE_COUNT == BC, "byte count");
	struct Slot { uint8_t pre[8]; Buf b; uint8_t post[8]; };
	Slot s[2];
	std::unique_ptr<WS> ws;
	std::unique_ptr<RS> rs;

	SBImpl() { for (auto& x : s) { memset(x.pre, 0xA5, 8); memset(x.post, 0x5A, 8); } }
	unsigned cap() const override { return CAP; }
	unsigned bytes() const override { return BC; }
	void construct() override { ws.reset(); rs.reset(); for (auto& x : s) { memset((void*) &x.b, 0xCC, sizeof(Buf)); new (&x.b) Buf(); } }
	const uint8_t* data(int x) const override { return s[x].b.data(); }
	void poke(int x, unsigned idx, uint8_t v) override { s[x].b.data()[idx] = v; }
	void clear(int x) override { s[x].b.clear(); }
	bool eq() const override { return s[0].b == s[1].b; }
	bool ne() const override { return s[0].b != s[1].b; }
	void wopen(int x, unsigned cursor) override { ws.reset(new WS(s[x].b, (Long) cursor)); }
	void ropen(int x, unsigned cursor) override { rs.reset(new RS(s[x].b, (Long) cursor)); }
	unsigned wcursor() const override { return ws->cursor(); }
	unsigned rcursor() const override { return rs->cursor(); }
	bool guardsIntact() const override {
		for (auto& x : s) for (int i = 0; i < 8; ++i) if (x.pre[i] != 0xA5 || x.post[i] != 0x5A) return false;
		return true;
	}

	template <size_t W> static void write_(WS& w, uint32_t v) { w.template write<(Short) (W + 1)>((hfsm2::UBitWidth<W + 1>) v); }
	template <size_t W> static uint32_t read_(RS& r) { return (uint32_t) r.template read<(Short) (W + 1)>(); }
	struct Tab { void (*write)(WS&, uint32_t); uint32_t (*read)(RS&); };
	template <size_t... W> static const Tab* tab(std::index_sequence<W...>) {
		static const Tab t[] = { Tab{&write_<W>, &read_<W>}... };
		return t;
	}
	void write(unsigned w, uint32_t v) override { tab(std::make_index_sequence<32>())[w - 1].write(*ws, v); }
	uint32_t read(unsigned w) override { return tab(std::make_index_sequence<32>())[w - 1].read(*rs); }
};

static const unsigned kCaps[] = {1, 7, 8, 9, 31, 32, 33, 45, 64, 100, 256};
static SBIface* makeStream(unsigned cap) {
	switch (cap) {
	case 1: return new SBImpl<1>(); case 7: return new SBImpl<7>(); case 8: return new SBImpl<8>();
	case 9: return new SBImpl<9>(); case 31: return new SBImpl<31>(); case 32: return new SBImpl<32>();
	case 33: return new SBImpl<33>(); case 45: return new SBImpl<45>(); case 64: return new SBImpl<64>();
	case 100: return new SBImpl<100>(); default: return new SBImpl<256>();
	}
}
static SBIface* g_sb[257];	// by capacity; plain array so the objects stay reachable at exit (LeakSanitizer)

static unsigned typeBits(unsigned w) { return w <= 8 ? 8 : w <= 16 ? 16 : 32; }
static uint32_t lowMask32(unsigned w) { return w >= 32 ? 0xFFFFFFFFu : ((1u << w) - 1); }

struct SBSession {
	SBIface* impl;
	unsigned CAP, BC;
	std::vector<bool> sh[2];	// ideal content, bit i of the buffer
	int wx = -1, rx = -1;
	unsigned wc = 0, rc = 0;

	explicit SBSession(unsigned cap) : impl(g_sb[cap]), CAP(cap), BC((cap + 7) / 8) {}
	static char nm(int x) { return x ? 'b' : 'a'; }
	std::string hex(int x) const { return hexBytes(impl->data(x), BC); }
	std::string ctx(const char* op) const {
		char b[256]; snprintf(b, sizeof b, "CAP=%u op=%s A=%s B=%s wcursor=%u rcursor=%u", CAP, op, hex(0).c_str(), hex(1).c_str(), wc, rc);
		return b;
	}
	void resync(int x) { const uint8_t* p = impl->data(x); for (unsigned i = 0; i < 8 * BC; ++i) sh[x][i] = (p[i / 8] >> (i % 8)) & 1; }
	void check(const char* op, int x) {
		const uint8_t* p = impl->data(x);
		for (unsigned i = 0; i < 8 * BC; ++i)
			if ((bool) ((p[i / 8] >> (i % 8)) & 1) != sh[x][i]) { oracleFail("stream-content", ctx(op) + " bit=" + std::to_string(i) + " of " + nm(x)); resync(x); break; }
		if (!impl->guardsIntact()) oracleFail("stream-guard", ctx(op));
	}
	void opNew() {
		impl->construct();
		for (auto& v : sh) v.assign(8 * BC, false);
		wx = rx = -1;
		printf("sb %u new => %s %s\n", CAP, hex(0).c_str(), hex(1).c_str());
		stat("sb.new"); check("new", 0); check("new", 1);
	}
	void opPoke(int x, unsigned idx, uint8_t v) {
		impl->poke(x, idx, v);
		for (unsigned k = 0; k < 8; ++k) sh[x][8 * idx + k] = (v >> k) & 1;
		printf("sb %u poke %c %u %02x => %s\n", CAP, nm(x), idx, v, hex(x).c_str());
		stat("sb.poke"); check("poke", x);
	}
	void opClear(int x) {
		impl->clear(x); sh[x].assign(8 * BC, false);
		printf("sb %u clear %c => %s\n", CAP, nm(x), hex(x).c_str());
		stat("sb.clear"); check("clear", x);
	}
	void opEq() {
		const bool r = impl->eq();
		printf("sb %u eq => %d\n", CAP, (int) r);
		stat("sb.eq"); stat(r ? "sb.eq_true" : "sb.eq_false");
		if (r != (sh[0] == sh[1])) oracleFail("stream-eq", ctx("=="));
	}
	void opNe() {
		const bool r = impl->ne();
		printf("sb %u ne => %d\n", CAP, (int) r);
		stat("sb.ne"); stat(r ? "sb.ne_true" : "sb.ne_false");
		if (r != (sh[0] != sh[1])) oracleFail("stream-ne", ctx("!="));
	}
	void opWOpen(int x, unsigned c) {
		impl->wopen(x, c); wx = x; wc = c; sh[x].assign(8 * BC, false);
		printf("sb %u wopen %c %u => %s\n", CAP, nm(x), c, hex(x).c_str());
		stat("sb.wopen"); stat("sb.wopen_align" + std::to_string(c % 8));
		if (impl->wcursor() != c) oracleFail("stream-cursor", ctx("wopen"));
		check("wopen", x);
	}
	void opWrite(unsigned w, uint32_t v) {	// needs wc + w <= CAP
		const bool inContract = (v & ~lowMask32(w)) == 0;
		impl->write(w, v);
		const unsigned c0 = wc; wc += w;
		printf("sb %u write %u %x => %u %s\n", CAP, w, v, impl->wcursor(), hex(wx).c_str());
		stat("sb.write"); stat("sb.write_align" + std::to_string(c0 % 8));
		const unsigned spans = (c0 + w - 1) / 8 - c0 / 8 + 1;
		stat("sb.write_spans_" + std::to_string(spans) + "_bytes");
		if (c0 + w == CAP) stat("sb.write_ends_at_capacity");
		if (impl->wcursor() != wc) oracleFail("stream-cursor", ctx("write") + " w=" + std::to_string(w));
		if (inContract) {
			for (unsigned j = 0; j < w; ++j) if ((v >> j) & 1) sh[wx][c0 + j] = true;
			check("write", wx);
		} else {
			stat("sb.write_out_of_contract(spill)");
			resync(wx);
		}
	}
	void opROpen(int x, unsigned c) {
		impl->ropen(x, c); rx = x; rc = c;
		printf("sb %u ropen %c %u => %u\n", CAP, nm(x), c, impl->rcursor());
		stat("sb.ropen");
	}
	uint32_t opRead(unsigned w) {	// needs rc + w <= CAP
		const uint32_t v = impl->read(w);
		const unsigned c0 = rc; rc += w;
		printf("sb %u read %u => %x %u\n", CAP, w, v, impl->rcursor());
		stat("sb.read"); stat("sb.read_align" + std::to_string(c0 % 8));
		uint32_t ideal = 0;
		for (unsigned j = 0; j < w; ++j) if (sh[rx][c0 + j]) ideal |= (1u << j);
		if (v != ideal) { char b[64]; snprintf(b, sizeof b, " w=%u at=%u got=%x want=%x", w, c0, v, ideal); oracleFail("stream-read", ctx("read") + b); }
		if (impl->rcursor() != rc) oracleFail("stream-cursor", ctx("read"));
		return v;
	}
	// the property itself: write a sequence from c0 on a freshly opened write stream, read it back
	void roundTrip(int x, unsigned c0, const std::vector<std::pair<unsigned, uint32_t>>& xs) {
		opWOpen(x, c0);
		for (auto& p : xs) opWrite(p.first, p.second);
		opROpen(x, c0);
		bool ok = true;
		for (auto& p : xs) ok &= (opRead(p.first) == p.second);
		ok &= impl->rcursor() == impl->wcursor();
		stat("sb.roundtrip"); stat("sb.roundtrip_items", xs.size());
		if (!ok) {
			std::string d = "CAP=" + std::to_string(CAP) + " start=" + std::to_string(c0) + " seq=";
			for (auto& p : xs) { char b[32]; snprintf(b, sizeof b, "(%u,%x)", p.first, p.second); d += b; }
			oracleFail("roundtrip", d);
		}
	}
};

static uint32_t pickValue(unsigned w) {
	const uint32_t m = lowMask32(w);
	switch (below(8)) {
	case 0: return 0;
	case 1: return 1;
	case 2: return m;
	case 3: return 1u << (w - 1);
	case 4: return 0xAAAAAAAAu & m;
	case 5: return 0x55555555u & m;
	default: return (uint32_t) rnd() & m;
	}
}
static unsigned pickWidth(unsigned maxW) {
	if (maxW > 32) maxW = 32;
	static const unsigned hot[] = {1, 7, 8, 9, 15, 16, 17, 24, 25, 31, 32};
	if (chance(50)) { unsigned w = hot[below(sizeof hot / sizeof *hot)]; if (w <= maxW) return w; }
	return 1 + below(maxW);
}

static void randomStreamSession(unsigned ops) {
	const unsigned cap = kCaps[below(sizeof kCaps / sizeof *kCaps)];
	SBSession S(cap);
	S.opNew();
	for (unsigned k = 0; k < ops; ++k) {
		const unsigned r = below(100);
		const int x = (int) below(2);
		if (r < 45) {	// round trip of a random sequence from a random start cursor
			unsigned c0 = chance(25) ? 0 : below(cap);
			std::vector<std::pair<unsigned, uint32_t>> xs;
			unsigned c = c0;
			const bool fill = chance(40);
			while (c < cap && (fill || xs.size() < 1 + below(6))) {
				const unsigned w = (fill && cap - c <= 32 && chance(60)) ? cap - c : pickWidth(cap - c);
				xs.push_back({w, pickValue(w)});
				c += w;
			}
			if (chance(30)) for (unsigned i = 0; i < S.BC; ++i) if (chance(50)) S.opPoke(x, i, (uint8_t) rnd());	// constructor must clear this
			S.roundTrip(x, c0, xs);
		} else if (r < 60) {	// read from arbitrary content
			for (unsigned i = 0; i < S.BC; ++i) if (chance(70)) S.opPoke(x, i, chance(20) ? 0xFF : (uint8_t) rnd());
			unsigned c = below(cap);
			S.opROpen(x, c);
			while (c < cap && chance(80)) { const unsigned w = pickWidth(cap - c); S.opRead(w); c += w; }
		} else if (r < 72) {	// write OR-s into whatever is there (poke after opening)
			unsigned c = below(cap);
			S.opWOpen(x, c);
			for (unsigned i = 0; i < S.BC; ++i) if (chance(50)) S.opPoke(x, i, (uint8_t) rnd());
			while (c < cap && chance(75)) { const unsigned w = pickWidth(cap - c); S.opWrite(w, pickValue(w)); c += w; }
			stat("sb.write_over_nonzero");
		} else if (r < 80) {	// out of contract value: bits above the width (still representable in UBitWidth<w>)
			unsigned c = below(cap);
			S.opWOpen(x, c);
			while (c < cap && chance(70)) {
				const unsigned w = pickWidth(cap - c);
				uint32_t v = (uint32_t) rnd() & lowMask32(typeBits(w));
				if (chance(50)) v |= lowMask32(typeBits(w)) & ~lowMask32(w);
				S.opWrite(w, v); c += w;
			}
		} else if (r < 90) {	// comparison: equal, differ in one byte (first / last / random), after copying by pokes
			for (unsigned i = 0; i < S.BC; ++i) { const uint8_t v = (uint8_t) rnd(); S.opPoke(0, i, v); S.opPoke(1, i, v); }
			S.opEq(); S.opNe();
			const unsigned i = chance(30) ? 0 : chance(50) ? S.BC - 1 : below(S.BC);
			S.opPoke((int) below(2), i, (uint8_t) (S.impl->data(0)[i] ^ (1u << below(8))));
			S.opEq(); S.opNe();
		} else if (r < 95) { S.opClear(x); S.opEq(); }
		else { S.opEq(); S.opNe(); }
	}
}

static void exhaustiveStreams() {
	static const unsigned caps[] = {45, 64, 100};
	for (unsigned cap : caps) {
		SBSession S(cap);
		S.opNew();
		// single item: every alignment x every width x boundary values, at the front, in the middle and flush with the end
		for (unsigned w = 1; w <= 32; ++w)
			for (unsigned al = 0; al < 8; ++al) {
				std::vector<unsigned> starts = {al};
				if (al + 16 + w <= cap) starts.push_back(al + 16);
				if (al == 0 && cap - w > 16 + 7) starts.push_back(cap - w);	// flush with the capacity
				const uint32_t m = lowMask32(w);
				const uint32_t vals[] = {0, 1, m, 1u << (w - 1), 0xAAAAAAAAu & m, 0x55555555u & m, 0xDEADBEEFu & m};
				for (unsigned c0 : starts) if (c0 + w <= cap)
					for (uint32_t v : vals) S.roundTrip((int) (w & 1), c0, {{w, v}});
			}
		// pairs: neighbours must not bleed into each other (all-ones next to all-zeros, both orders; all-ones twice)
		for (unsigned w1 = 1; w1 <= 32; ++w1)
			for (unsigned w2 = 1; w2 <= 32; ++w2)
				for (unsigned al = 0; al < 8; ++al) {
					if (al + w1 + w2 > cap) continue;
					S.roundTrip(0, al, {{w1, lowMask32(w1)}, {w2, 0}});
					S.roundTrip(1, al, {{w1, 0}, {w2, lowMask32(w2)}});
					if (cap == 45) S.roundTrip(0, al, {{w1, lowMask32(w1)}, {w2, lowMask32(w2)}});
				}
	}
	// small capacities: everything that fits
	static const unsigned small[] = {1, 7, 8, 9, 31, 32, 33};
	for (unsigned cap : small) {
		SBSession S(cap);
		S.opNew();
		for (unsigned c0 = 0; c0 < cap; ++c0)
			for (unsigned w = 1; w <= 32 && c0 + w <= cap; ++w) {
				const uint32_t m = lowMask32(w);
				S.roundTrip(0, c0, {{w, m}}); S.roundTrip(1, c0, {{w, 0x55555555u & m}});
				if (c0 + w < cap) S.roundTrip(0, c0, {{w, m}, {1, 0}});
			}
		S.opEq(); S.opNe();
	}
}

//----------------------------------------------------------------------------------------------------

int main(int argc, char** argv) {
	const uint64_t seed = argc > 1 ? strtoull(argv[1], nullptr, 10) : 1;
	const unsigned long count = argc > 2 ? strtoul(argv[2], nullptr, 10) : 2000;
	const std::string mode = argc > 3 ? argv[3] : "rand";
	g_state = seed * 0x9E3779B97F4A7C15ull + 0x1234567;
	static char obuf[1 << 16];
	setvbuf(stdout, obuf, _IOFBF, sizeof obuf);

	makeArrays(std::make_index_sequence<MAX_N>());
	makeF9(std::make_index_sequence<MAX_N>());
	for (unsigned c : kCaps) g_sb[c] = makeStream(c);

	printf("# c18 harness seed=%llu count=%lu mode=%s\n", (unsigned long long) seed, count, mode.c_str());
	if (mode == "exh" || mode == "all") { exhaustiveArrays(); exhaustiveStreams(); }
	if (mode == "f9" || mode == "all") f9Mode();
	if (mode == "rand" || mode == "all") {
		unsigned long done = 0;
		while (done < count) {
			const unsigned ops = 10 + below(40);
			if (chance(55)) randomArraySession(ops); else randomStreamSession(ops / 3 + 1);
			done += ops;
		}
	}
	for (auto& kv : g_fail) printf("# stat oracle_fail_%s=%lu\n", kv.first.c_str(), kv.second);
	for (auto& kv : g_stat) printf("# stat %s=%lu\n", kv.first.c_str(), kv.second);
	fflush(stdout);
	return 0;
}
