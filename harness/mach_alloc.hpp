// Allocation monitor for the correspondence harness (C11: "the library never allocates").
//
// Global operator new/delete (and, when the TU is linked with
//   -DVH_ALLOC_WRAP -Wl,--wrap=malloc -Wl,--wrap=calloc -Wl,--wrap=realloc
// also the C allocator) are replaced by counting versions.  An allocation is attributed to the library
// iff the innermost open scope is an `ApiScope`: the harness opens an ApiScope around every call into the
// library (instance API, and the control-object calls of the scripted callbacks) and a HarnessScope inside
// every scripted callback, logger method, generator call and the assertion hook (they build transcript
// strings).  vh::run() reports
//   # stat allocations_inside_api=<n>      (must be 0)
//   # stat allocations_by_harness=<n>      (sanity: the monitor is alive, must be > 0)
#pragma once
#include <cstdlib>
#include <new>

namespace vh {

struct AllocStats {
	long inside  = 0;			// while library code runs
	long outside = 0;			// harness, transcript writer, scripted callbacks
	bool inLibrary = false;
};

inline AllocStats& allocStats() noexcept { static AllocStats s; return s; }

inline void noteAlloc() noexcept {
	AllocStats& s = allocStats();
	if (s.inLibrary) ++s.inside; else ++s.outside;
}

// around a call into the library (also a nested one made by a scripted callback through its control object)
struct ApiScope {
	bool saved, open = true;
	ApiScope()  noexcept : saved{allocStats().inLibrary} { allocStats().inLibrary = true; }
	void close() noexcept { if (open) { allocStats().inLibrary = saved; open = false; } }
	~ApiScope() noexcept { close(); }
};

// around harness code the library calls back (scripted callbacks, logger, generator, assertion hook)
struct HarnessScope {
	bool saved;
	HarnessScope()  noexcept : saved{allocStats().inLibrary} { allocStats().inLibrary = false; }
	~HarnessScope() noexcept { allocStats().inLibrary = saved; }
};

} // namespace vh

#ifndef VH_ALLOC_NO_NEW_REPLACEMENT
void* operator new  (std::size_t n)								{ vh::noteAlloc(); if (void* p = std::malloc(n ? n : 1)) return p; throw std::bad_alloc(); }
void* operator new[](std::size_t n)								{ vh::noteAlloc(); if (void* p = std::malloc(n ? n : 1)) return p; throw std::bad_alloc(); }
void* operator new  (std::size_t n, const std::nothrow_t&) noexcept { vh::noteAlloc(); return std::malloc(n ? n : 1); }
void* operator new[](std::size_t n, const std::nothrow_t&) noexcept { vh::noteAlloc(); return std::malloc(n ? n : 1); }
void  operator delete  (void* p) noexcept						{ std::free(p); }
void  operator delete[](void* p) noexcept						{ std::free(p); }
void  operator delete  (void* p, std::size_t) noexcept			{ std::free(p); }
void  operator delete[](void* p, std::size_t) noexcept			{ std::free(p); }
#endif

#ifdef VH_ALLOC_WRAP
extern "C" {
void* __real_malloc (std::size_t);
void* __real_calloc (std::size_t, std::size_t);
void* __real_realloc(void*, std::size_t);
void* __wrap_malloc (std::size_t n)					{ vh::noteAlloc(); return __real_malloc(n); }
void* __wrap_calloc (std::size_t a, std::size_t b)	{ vh::noteAlloc(); return __real_calloc(a, b); }
void* __wrap_realloc(void* p, std::size_t n)		{ vh::noteAlloc(); return __real_realloc(p, n); }
}
#endif
