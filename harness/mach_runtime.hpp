// Correspondence harness runtime for HFSM2 machines (see /verif/DESIGN.md §5).
//
// A generated translation unit defines the feature macros VH_*, includes <hfsm2/machine.hpp>,
// declares the machine structure `FSM` with scripted states (VH_STATE / VH_INJ macros below), fills
// the static shape tables and calls vh::run<FSM>(argc, argv).  Everything the library does is written
// to stdout as a transcript which the Lean driver replays through the model.
//
// Line protocol (blank separated tokens, no blanks inside a token):
//   shape <sexpr> | config k=v ... | op <inst> <name> <args...> | cb … | log … | rng <hex> | ret … | snap …
#pragma once

#include <cstdint>
#include <cstdio>
#include <cstdlib>
#include <cstring>
#include <string>
#include <vector>
#include <new>
#include <climits>
#include "mach_alloc.hpp"

namespace vh {

//------------------------------------------------------------------------------
// deterministic PRNG for all scripted choices (never the library's)

struct Prng {
	uint64_t s;
	explicit Prng(uint64_t seed) : s{seed * 0x9E3779B97F4A7C15ull + 0x1234567ull} {}
	uint64_t next() {
		uint64_t z = (s += 0x9E3779B97F4A7C15ull);
		z = (z ^ (z >> 30)) * 0xBF58476D1CE4E5B9ull;
		z = (z ^ (z >> 27)) * 0x94D049BB133111EBull;
		return z ^ (z >> 31);
	}
	unsigned below(unsigned n) { return n ? static_cast<unsigned>(next() % n) : 0; }
	bool chance(unsigned percent) { return below(100) < percent; }
};

//------------------------------------------------------------------------------
// static description of the generated shape (filled by the generated TU)

struct StateInfo {
	int parent;		// parent region head id, -1 for the root
	int prong;		// index within the parent region
	int width;		// number of sub-states (0 for a leaf)
	int strategy;	// 0 composite 1 resumable 2 selectable 3 utilitarian 4 random 5 orthogonal, -1 leaf
	int headed;		// 0 for an anonymous region head
	int regionId;	// region id if this state heads a region, else -1
	int size;		// number of states in the sub-tree
	int inj;		// number of injected bases
};

extern const int         STATE_COUNT;
extern const int         REGION_COUNT;
extern const StateInfo   STATES[];
extern const char* const SHAPE_TEXT;
extern const bool        ANY_HEADLESS;

//------------------------------------------------------------------------------
// transcript

struct Out {
	std::string buf;
	void flush() { fwrite(buf.data(), 1, buf.size(), stdout); buf.clear(); }
	Out& operator<<(const char* s) { buf += s; return *this; }
	Out& operator<<(const std::string& s) { buf += s; return *this; }
	Out& operator<<(long long v) { buf += std::to_string(v); return *this; }
	Out& operator<<(int v) { buf += std::to_string(v); return *this; }
	Out& operator<<(unsigned v) { buf += std::to_string(v); return *this; }
	Out& operator<<(unsigned long v) { buf += std::to_string(v); return *this; }
};

inline Out& out() { static Out o; return o; }

inline std::string hex(uint64_t v) {
	char b[32]; snprintf(b, sizeof b, "%llx", static_cast<unsigned long long>(v)); return b;
}

inline uint32_t floatBits(float f) { uint32_t u; memcpy(&u, &f, 4); return u; }

static const char* const KIND_LETTER = "CRMSUZH";	// change restart resuMe select utilize randomiZe scHedule

enum MethodId {
	M_SELECT, M_RANK, M_UTILITY, M_ENTRY_GUARD, M_ENTER, M_REENTER, M_PRE_UPDATE, M_UPDATE, M_POST_UPDATE,
	M_PRE_REACT, M_REACT, M_POST_REACT, M_QUERY, M_PLAN_SUCCEEDED, M_PLAN_FAILED, M_EXIT_GUARD, M_EXIT
};

static const char* const METHOD_NAME[] = {
	"select", "rank", "utility", "entryGuard", "enter", "reenter", "preUpdate", "update", "postUpdate",
	"preReact", "react", "postReact", "query", "planSucceeded", "planFailed", "exitGuard", "exit"
};

//------------------------------------------------------------------------------
// payload kinds

#ifndef VH_PAYLOAD
#define VH_PAYLOAD 1
#endif

#if VH_PAYLOAD == 1
using Payload = int;
inline Payload makePayload(int v) { return v; }
inline int payloadValue(const Payload& p) { return p; }
#elif VH_PAYLOAD == 2
struct Payload { int a; int pad[4]; int check; };
inline Payload makePayload(int v) { Payload p{}; p.a = v; for (int i = 0; i < 4; ++i) p.pad[i] = v + i; p.check = ~v; return p; }
inline int payloadValue(const Payload& p) {
	bool ok = p.check == ~p.a; for (int i = 0; i < 4; ++i) ok = ok && p.pad[i] == p.a + i;
	return ok ? p.a : -999;
}
#elif VH_PAYLOAD == 3
struct alignas(16) Payload { int a; int check; };
inline Payload makePayload(int v) { Payload p{}; p.a = v; p.check = ~v; return p; }
inline int payloadValue(const Payload& p) {
	return (p.check == ~p.a && (reinterpret_cast<uintptr_t>(&p) % 16) == 0) ? p.a : -999;
}
#endif

//------------------------------------------------------------------------------
// scripted generator handed to the machine (Config::RandomT)

struct Script;
Script& script();

struct ScriptRng {
	float next();
};

//------------------------------------------------------------------------------
// events

struct Ev {};			// react()
struct Qy {};			// query()
struct Probe {			// silent query that reads the request queue
	std::string queue;
	bool done = false;
};

//------------------------------------------------------------------------------
// scenario-wide script: decides what every callback does

struct Knobs {
	unsigned idle        = 70;	// % of periodic callbacks doing nothing
	unsigned cancel      = 12;	// % of guard invocations cancelling
	unsigned guardReq    = 10;	// % of guard invocations requesting something
	unsigned consume     = 8;	// % of react/query callbacks consuming
	unsigned planEdit    = 10;	// % of enter/exit callbacks editing the plan
	unsigned payload     = 40;	// % of requests carrying a payload
	unsigned succeed     = 25;	// % of non-idle callbacks reporting success
	unsigned fail        = 8;
	bool     allowSelect    = true;
	bool     allowUtility   = true;
	bool     allowZeroUtil  = false;
};

struct Script {
	Prng prng{1};
	Knobs knobs;
	bool  firstActivation = false;	// inside initialEnter: guards must not cancel (documented precondition)
	// boundary sweep (C12): answers forced for the next resolution; an unset entry falls back to the palette
	bool  sweeping = false;			// during the sweep callbacks are idle and guards never cancel
	std::vector<float> forcedUtility;	// per state id, negative = not forced
	std::vector<int>   forcedRank;		// per state id, INT_MIN = not forced
	float forcedRng = -1.0f;			// negative = not forced
	int   instance = 0;		// instance currently executing an API call
	void* instancePtr = nullptr;

	int randomState(bool allowRoot) {
		if (STATE_COUNT <= 1) return 0;
		if (allowRoot && prng.chance(3)) return 0;
		return 1 + static_cast<int>(prng.below(static_cast<unsigned>(STATE_COUNT - 1)));
	}

	// destinations of API requests: often one of the last few, so that batches re-address the same branches
	// (a later request overriding, repeating or conflicting with an earlier one of the same step)
	int recent[4] = {0, 0, 0, 0};
	int recentCount = 0;
	int requestDest() {
		if (recentCount > 0 && prng.chance(40))
			return recent[prng.below(static_cast<unsigned>(recentCount))];
		const int d = randomState(true);
		if (recentCount < 4) recent[recentCount++] = d;
		else recent[prng.below(4)] = d;
		return d;
	}

	// destination biased towards structurally interesting relatives of `from`
	int destinationFor(int from) {
		const unsigned r = prng.below(100);
		if (from > 0 && r < 25) {						// sibling in the same region
			const int p = STATES[from].parent;
			if (p >= 0 && STATES[p].width > 0) {
				int id = p + 1, k = static_cast<int>(prng.below(static_cast<unsigned>(STATES[p].width)));
				for (int i = 0; i < k; ++i) id += STATES[id].size;
				return id;
			}
		}
		if (from > 0 && r < 35) return from;				// self
		if (from > 0 && r < 45 && STATES[from].parent >= 0) return STATES[from].parent > 0 ? STATES[from].parent : from;
		return randomState(true);
	}

	int randomKind(bool allowSchedule) {
		for (;;) {
			const unsigned r = prng.below(100);
			int k = r < 40 ? 0 : r < 52 ? 1 : r < 64 ? 2 : r < 74 ? 3 : r < 82 ? 4 : r < 90 ? 5 : 6;
			if (k == 3 && !knobs.allowSelect) continue;
#if VH_UTIL
			if ((k == 4 || k == 5) && !knobs.allowUtility) continue;
			if (k == 5 && knobs.allowZeroUtil) continue;	// `randomize` draws over ANY region's sub-states: zero weights are out of contract
#else
			if (k == 4 || k == 5) continue;
#endif
			if (k == 6 && !allowSchedule) continue;
			return k;
		}
	}

	// $VH_NOPAYLOADUSE: the draws happen, the payload is not used — a build with a payload type then behaves like one
	// without ("payload type configured but unused ≡ Payload = void", engine_c15 pair `payload0`)
	int randomPayload() {
		static const bool unused = std::getenv("VH_NOPAYLOADUSE") != nullptr;
		const int v = prng.chance(knobs.payload) ? static_cast<int>(prng.below(1000)) : -1;
		return unused ? -1 : v;
	}
};

inline Script& script() { static Script s; return s; }

inline float ScriptRng::next() {
	HarnessScope hs;
	Script& s = script();
	float v;
	if (s.forcedRng >= 0.0f) {
		v = s.forcedRng;
		out() << "rng " << hex(floatBits(v)) << "\n";
		return v;
	}
	const unsigned r = s.prng.below(100);
	if (r < 10)			v = 0.0f;
	else if (r < 35)	{ uint32_t b = 0x3F7FFFFFu; memcpy(&v, &b, 4); }		// 1 - 2^-24
	else if (r < 42)	v = 0.5f;
	else				{ uint32_t m = static_cast<uint32_t>(s.prng.next()) >> 9; uint32_t b = 0x3F800000u | m; float f; memcpy(&f, &b, 4); v = f - 1.0f; }
	out() << "rng " << hex(floatBits(v)) << "\n";
	return v;
}

//------------------------------------------------------------------------------
// observation helpers

template <typename TControl>
std::string observe(const TControl& c, bool guard);

template <typename TList>
std::string transitionList(const TList& list) {
	std::string s = "[";
	for (unsigned i = 0; i < static_cast<unsigned>(list.count()); ++i) {
		const auto& t = list[i];
		if (i) s += ";";
		s += (t.origin == hfsm2::INVALID_STATE_ID ? std::string("-") : std::to_string(static_cast<int>(t.origin)));
		s += ">"; s += KIND_LETTER[static_cast<int>(t.type)];
		s += ">"; s += std::to_string(static_cast<int>(t.destination));
		s += ">";
#if VH_PAYLOAD
		if (const auto* p = t.payload()) s += std::to_string(payloadValue(*p)); else s += "-";
#else
		s += "-";
#endif
	}
	return s + "]";
}

template <typename TControl>
std::string observeBasic(const TControl& c) {
	uint64_t a = 0, r = 0;
	std::string subs;
	for (int i = 0; i < STATE_COUNT; ++i) {
		if (c.isActive(static_cast<hfsm2::StateID>(i)))    a |= 1ull << i;
		if (c.isResumable(static_cast<hfsm2::StateID>(i))) r |= 1ull << i;
		// activeSubState() is only meaningful (and only in contract) for region heads
		const auto sub = STATES[i].width > 0 ? c.activeSubState(static_cast<hfsm2::StateID>(i)) : hfsm2::INVALID_PRONG;
		if (i) subs += ",";
		subs += (sub == hfsm2::INVALID_PRONG ? std::string("-") : std::to_string(static_cast<int>(sub)));
	}
	return "a:" + hex(a) + "/r:" + hex(r) + "/s:" + subs;
}

template <typename TControl>
std::string observeGuard(const TControl& c) {
	uint64_t e = 0, x = 0, g = 0;
	for (int i = 0; i < STATE_COUNT; ++i) {
		if (c.isPendingEnter (static_cast<hfsm2::StateID>(i))) e |= 1ull << i;
		if (c.isPendingExit  (static_cast<hfsm2::StateID>(i))) x |= 1ull << i;
		if (c.isPendingChange(static_cast<hfsm2::StateID>(i))) g |= 1ull << i;
	}
	return observeBasic(c) + "/p:" + hex(e) + "." + hex(x) + "." + hex(g);
}

//------------------------------------------------------------------------------
// performing actions on a control object

template <typename TControl>
void performRequest(TControl& c, int kind, int dest, int payload, std::string& acts) {
	const auto id = static_cast<hfsm2::StateID>(dest);
	ApiScope scope;
#if VH_PAYLOAD
	if (payload >= 0) {
		const Payload p = makePayload(payload);
		switch (kind) {
		case 0: c.changeWith   (id, p); break;
		case 1: c.restartWith  (id, p); break;
		case 2: c.resumeWith   (id, p); break;
		case 3: c.selectWith   (id, p); break;
#if VH_UTIL
		case 4: c.utilizeWith  (id, p); break;
		case 5: c.randomizeWith(id, p); break;
#endif
		case 6: c.scheduleWith (id, p); break;
		}
	} else
#endif
	{
		payload = -1;
		switch (kind) {
		case 0: c.changeTo (id); break;
		case 1: c.restart  (id); break;
		case 2: c.resume   (id); break;
		case 3: c.select   (id); break;
#if VH_UTIL
		case 4: c.utilize  (id); break;
		case 5: c.randomize(id); break;
#endif
		case 6: c.schedule (id); break;
		}
	}
	scope.close();
	if (!acts.empty()) acts += ";";
	acts += "Q"; acts += KIND_LETTER[kind]; acts += ":" + std::to_string(dest) + ":" + (payload >= 0 ? std::to_string(payload) : std::string("-"));
}

#if VH_PLANS
template <typename TControl>
void performPlanAppend(TControl& c, int origin, int dest, int kind, int payload, std::string& acts) {
	ApiScope scope;
	auto plan = c.plan();
	const auto o = static_cast<hfsm2::StateID>(origin);
	const auto d = static_cast<hfsm2::StateID>(dest);
#if VH_PAYLOAD
	if (payload >= 0) {
		const Payload p = makePayload(payload);
		switch (kind) {
		case 0: plan.changeWith   (o, d, p); break;
		case 1: plan.restartWith  (o, d, p); break;
		case 2: plan.resumeWith   (o, d, p); break;
		case 3: plan.selectWith   (o, d, p); break;
#if VH_UTIL
		case 4: plan.utilizeWith  (o, d, p); break;
		case 5: plan.randomizeWith(o, d, p); break;
#endif
		case 6: plan.scheduleWith (o, d, p); break;
		}
	} else
#endif
	{
		payload = -1;
		switch (kind) {
		case 0: plan.change   (o, d); break;
		case 1: plan.restart  (o, d); break;
		case 2: plan.resume   (o, d); break;
		case 3: plan.select   (o, d); break;
#if VH_UTIL
		case 4: plan.utilize  (o, d); break;
		case 5: plan.randomize(o, d); break;
#endif
		case 6: plan.schedule (o, d); break;
		}
	}
	scope.close();
	if (!acts.empty()) acts += ";";
	acts += "PA:" + std::to_string(origin) + ":" + std::to_string(dest) + ":"; acts += KIND_LETTER[kind];
	acts += ":" + (payload >= 0 ? std::to_string(payload) : std::string("-"));
}
#endif

// region (head id) enclosing a state, for plausible plan tasks
inline int regionHeadOf(int sid) { return STATES[sid].width > 0 ? sid : (STATES[sid].parent >= 0 ? STATES[sid].parent : 0); }

inline int stateWithin(int head) {
	Script& s = script();
	return head + static_cast<int>(s.prng.below(static_cast<unsigned>(STATES[head].size)));
}

//------------------------------------------------------------------------------
// the callbacks

inline void cbLine(int sid, int slot, MethodId m, const std::string& obs, const std::string& pend,
				   const std::string& curr, const std::string& acts, bool thisOk)
{
	out() << "cb " << sid << " " << METHOD_NAME[m] << " " << slot << " " << obs << " " << pend << " " << curr
		  << " " << (acts.empty() ? std::string(".") : acts) << (thisOk ? "" : " THIS-MISMATCH") << "\n";
}

// $VH_NOPLANUSE: a build with plans compiled in behaves like one without — callbacks draw exactly the numbers
// the plans-off build draws and never touch plans or task status (tools/engine_c15.py, pair `plans0`)
inline bool noPlanUse() { static const bool v = std::getenv("VH_NOPLANUSE") != nullptr; return v; }

template <typename TControl>
void fullActions(TControl& c, int sid, std::string& acts, unsigned idlePercent) {
	Script& s = script();
	if (s.sweeping) return;
	if (s.prng.chance(idlePercent)) return;
	const unsigned n = 1 + s.prng.below(2);
	for (unsigned k = 0; k < n; ++k) {
		const unsigned r = s.prng.below(100);
		if (r < 55) {
			const int kind = s.randomKind(true);
			performRequest(c, kind, s.destinationFor(sid), s.randomPayload(), acts);
		}
#if VH_PLANS
		else if (noPlanUse()) {}
		else if (r < 55 + s.knobs.succeed) {
			const int target = s.prng.chance(85) ? sid : s.randomState(false);
			{ ApiScope scope; c.succeed(static_cast<hfsm2::StateID>(target)); }
			if (!acts.empty()) acts += ";";
			acts += "S:" + std::to_string(target);
		} else if (r < 55 + s.knobs.succeed + s.knobs.fail) {
			const int target = s.prng.chance(85) ? sid : s.randomState(false);
			{ ApiScope scope; c.fail(static_cast<hfsm2::StateID>(target)); }
			if (!acts.empty()) acts += ";";
			acts += "F:" + std::to_string(target);
		} else if (r < 97) {
			const int head = regionHeadOf(sid);
			performPlanAppend(c, stateWithin(head), stateWithin(head), s.randomKind(true), s.randomPayload(), acts);
		} else {
			{ ApiScope scope; c.plan().clear(); }
			if (!acts.empty()) acts += ";";
			acts += "PC";
		}
#endif
	}
}

template <typename TState, typename TControl>
bool thisMatches(const TControl&, const void* self, int slot, int inj);

template <typename TControl>
void onFull(TControl& c, int sid, int slot, MethodId m, bool thisOk) {
	HarnessScope hs;
	const std::string obs = observeBasic(c);
	std::string acts;
	fullActions(c, sid, acts, script().knobs.idle);
	cbLine(sid, slot, m, obs, "[]", "[]", acts, thisOk);
}

template <typename TControl>
void onEvent(TControl& c, int sid, int slot, MethodId m, bool thisOk) {
	HarnessScope hs;
	const std::string obs = observeBasic(c);
	std::string acts;
	fullActions(c, sid, acts, script().knobs.idle);
	if (script().prng.chance(script().knobs.consume)) {
		{ ApiScope scope; c.consumeEvent(); }
		if (!acts.empty()) acts += ";";
		acts += "E";
	}
	cbLine(sid, slot, m, obs, "[]", "[]", acts, thisOk);
}

template <typename TControl>
void onQuery(TControl& c, int sid, int slot, bool thisOk) {
	HarnessScope hs;
	const std::string obs = observeBasic(c);
	std::string acts;
	if (script().prng.chance(script().knobs.consume)) {
		{ ApiScope scope; c.consumeQuery(); }
		acts = "E";
	}
	cbLine(sid, slot, M_QUERY, obs, "[]", "[]", acts, thisOk);
}

template <typename TControl>
void onProbe(Probe& p, TControl& c) {
	HarnessScope hs;
	if (!p.done) {
		p.queue = transitionList(c.requests());
		p.done = true;
	}
	c.consumeQuery();
}

template <typename TControl>
void onGuard(TControl& c, int sid, int slot, MethodId m, bool thisOk) {
	HarnessScope hs;
	Script& s = script();
	const std::string obs = observeGuard(c);
	const std::string pend = transitionList(c.pendingTransitions());
	const std::string curr = transitionList(c.currentTransitions());
	std::string acts;
	if (!s.sweeping && s.prng.chance(s.knobs.guardReq))
		fullActions(c, sid, acts, 0);
	if (!s.firstActivation && !s.sweeping && s.prng.chance(s.knobs.cancel)) {
		{ ApiScope scope; c.cancelPendingTransitions(); }
		if (!acts.empty()) acts += ";";
		acts += "X";
	}
	cbLine(sid, slot, m, obs, pend, curr, acts, thisOk);
}

template <typename TControl>
void onPlan(TControl& c, int sid, int slot, MethodId m, bool thisOk) {
	HarnessScope hs;
	Script& s = script();
	const std::string curr = transitionList(c.currentTransitions());
	std::string acts;
	(void) sid;
#if VH_PLANS
	if (!noPlanUse() && s.prng.chance(s.knobs.planEdit)) {
		if (s.prng.chance(90)) {
			// the plan addressed is the one of the control's *current* region, whatever that is
			const int head = regionHeadOf(sid);
			performPlanAppend(c, stateWithin(head), stateWithin(head), s.randomKind(true), s.randomPayload(), acts);
		} else {
			{ ApiScope scope; c.plan().clear(); }
			acts = "PC";
		}
	}
#else
	(void) s;
#endif
	cbLine(sid, slot, m, "-", "[]", curr, acts, thisOk);
}

template <typename TControl>
hfsm2::Prong onSelect(const TControl& c, int sid, int slot) {
	HarnessScope hs;
	const std::string obs = observeBasic(c);
	const int w = STATES[sid].width;
	const int i = w > 0 ? static_cast<int>(script().prng.below(static_cast<unsigned>(w))) : 0;
	cbLine(sid, slot, M_SELECT, obs, "[]", "[]", "RS:" + std::to_string(i), true);
	return static_cast<hfsm2::Prong>(i);
}

#if VH_UTIL
template <typename TControl>
int8_t onRank(const TControl& c, int sid, int slot) {
	HarnessScope hs;
	const std::string obs = observeBasic(c);
	const unsigned r = script().prng.below(100);
	int v = r < 60 ? 0 : r < 80 ? 1 : r < 90 ? -1 : 2;
	if (sid < static_cast<int>(script().forcedRank.size()) && script().forcedRank[sid] != INT_MIN)
		v = script().forcedRank[sid];
	cbLine(sid, slot, M_RANK, obs, "[]", "[]", "RR:" + std::to_string(v), true);
	return static_cast<int8_t>(v);
}

// a zero utility below a random region could make every top-rank weight zero (out of contract: nothing to draw)
inline bool belowRandomRegion(int sid) {
	for (int p = STATES[sid].parent; p >= 0; p = STATES[p].parent)
		if (STATES[p].strategy == 4) return true;
	return false;
}

template <typename TControl>
float onUtility(const TControl& c, int sid, int slot) {
	HarnessScope hs;
	Script& s = script();
	const std::string obs = observeBasic(c);
	const unsigned r = s.prng.below(100);
	float v;
	if (r < 25 && s.knobs.allowZeroUtil && !belowRandomRegion(sid)) v = 0.0f;	// legal for arg-max resolution (ties: leftmost)
	else if (r < 30)	v = 1.0f;
	else if (r < 45)	v = 0.5f;
	else if (r < 55)	v = 0.1f;
	else if (r < 60)	v = 3.0e-5f;
	else if (r < 65)	v = 1000.0f;
	else if (r < 75)	v = static_cast<float>(1 + s.prng.below(4096)) / 1024.0f;
	else				v = static_cast<float>(1 + s.prng.below(1u << 24)) / 1048576.0f;	// full mantissa: rounding in sums
	if (sid < static_cast<int>(s.forcedUtility.size()) && s.forcedUtility[sid] >= 0.0f)
		v = s.forcedUtility[sid];
	cbLine(sid, slot, M_UTILITY, obs, "[]", "[]", "RU:" + hex(floatBits(v)), true);
	return v;
}
#endif

} // namespace vh
