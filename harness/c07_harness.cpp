// C07 correspondence harness: plan storage (PlanDataT / PlanT / PayloadPlanT / CPlanT) driven through
// real machine instances with Config::TaskCapacityN<K>, K = 1..8, payload type int.
// Transcript for the Lean replayer `Hfsm.Drive.C07`.
//
// usage: c07_harness <seed> <count> [mode]
//   mode = random      (default) `count` operations per capacity, random interleavings across all
//                      regions, biased to the full edge and to remove-while-iterating
//          exhaustive  every sequence of {append to region 0/1/2, remove 1st/2nd/last of region 0/1/2,
//                      clear region 0/1/2} up to depth 4 (count < 1000) or 5, for K = 1..3
//
// The machine is never update()d: tasks must not execute.
//
// Transcript lines (answer after `=>`):
//   plan K R                      new machine: task capacity K, R regions
//   append r t o d p|-  => 0|1    plan(r).<kind t>[With](o, d[, p])      (t = TransitionType value)
//   iter r              => o,d,t,p ...      full iteration with PlanT::Iterator
//   citer r             => o,d,t,p ...      full iteration with PlanT::CIterator (const plan)
//   cplan r             => b | o,d,t,p ... | first | last       CPlanT: bool, iteration, first(), last()
//   rmw r k1 k2 ...     => o,d,t,p ...      iterate with PlanT::Iterator, calling remove() at the
//                                           listed positions; answer = tasks visited (before removal)
//   clear r             =>                  plan(r).clear()
//   bool r              => 0|1              plan(r) operator bool
//   pdclear             =>                  PlanDataT::clear()  (what finalExit()/load() do)
//   snap                => <pool head tail last count> | <item prev,next,type,pay>* | <link prev,next>* |
//                          <bounds first,last>* | <planExists bits>
// `# ...` comments/statistics; `ORACLE-FAIL ...` = property violation found by the shadow oracle
// (one std::vector<Task> per region).

#include <stdint.h>
#include <string.h>
#include <new>
#include <typeindex>
#include <cstdio>
#include <cstdlib>
#include <map>
#include <vector>
#include <string>

#define HFSM2_ENABLE_PLANS
#define HFSM2_ENABLE_UTILITY_THEORY
// read-only access to private state for `snap` lines and for constructing CPlanT (see below)
#define private public
#define protected public
#include <hfsm2/machine.hpp>
#undef private
#undef protected

using hfsm2::Long;
using hfsm2::StateID;
using hfsm2::RegionID;
using hfsm2::TransitionType;

//------------------------------------------------------------------------------

struct Rng {
	uint64_t s;
	explicit Rng(uint64_t seed) : s{seed} {}
	uint64_t next() {
		uint64_t z = (s += 0x9E3779B97F4A7C15ull);
		z = (z ^ (z >> 30)) * 0xBF58476D1CE4E5B9ull;
		z = (z ^ (z >> 27)) * 0x94D049BB133111EBull;
		return z ^ (z >> 31);
	}
	unsigned below(unsigned n) { return n ? static_cast<unsigned>(next() % n) : 0; }
	bool chance(unsigned num, unsigned den) { return below(den) < num; }
};

static std::map<std::string, unsigned long> g_stats;
static unsigned long g_oracleFails = 0;
static void stat(const std::string& k) { ++g_stats[k]; }

struct STask {
	unsigned o, d, t; bool hasP; int p;
	bool operator == (const STask& r) const { return o == r.o && d == r.d && t == r.t && hasP == r.hasP && (!hasP || p == r.p); }
};

//------------------------------------------------------------------------------
// one fixture per capacity: 5 regions (root composite, composite, orthogonal with two composites)

#define C07_FIXTURE(K)																		\
namespace fix##K {																			\
	using Config = hfsm2::Config::TaskCapacityN<K>::PayloadT<int>;							\
	using M = hfsm2::MachineT<Config>;														\
	struct Apex; struct A; struct A1; struct A2; struct O; struct P; struct P1; struct P2;		\
	struct Q; struct Q1; struct Q2; struct Q3;													\
	using FSM = M::Root<Apex,																	\
					M::Composite<A, A1, A2>,													\
					M::Orthogonal<O,															\
						M::Composite<P, P1, P2>,												\
						M::Resumable<Q, Q1, Q2, Q3>												\
					>																			\
				>;																				\
	struct Apex : FSM::State {}; struct A : FSM::State {}; struct A1 : FSM::State {};			\
	struct A2 : FSM::State {}; struct O : FSM::State {}; struct P : FSM::State {};				\
	struct P1 : FSM::State {}; struct P2 : FSM::State {}; struct Q : FSM::State {};				\
	struct Q1 : FSM::State {}; struct Q2 : FSM::State {}; struct Q3 : FSM::State {};				\
	static_assert(FSM::regionId<Apex>() == 0 && FSM::regionId<A>() == 1 && FSM::regionId<O>() == 2 &&	\
				  FSM::regionId<P>() == 3 && FSM::regionId<Q>() == 4, "");						\
	static_assert(FSM::Instance::Info::REGION_COUNT == 5, "");									\
	static_assert(FSM::Instance::Info::STATE_COUNT == 12, "");									\
}

C07_FIXTURE(1) C07_FIXTURE(2) C07_FIXTURE(3) C07_FIXTURE(4)
C07_FIXTURE(5) C07_FIXTURE(6) C07_FIXTURE(7) C07_FIXTURE(8)

static constexpr unsigned REGIONS = 5;
static constexpr unsigned STATES  = 12;

//------------------------------------------------------------------------------

template <typename FSM, unsigned K>
struct Driver {
	using Instance = typename FSM::Instance;
	using Plan	   = typename Instance::Plan;
	using CPlan	   = typename Instance::CPlan;
	using Task	   = typename Plan::Task;

	Instance fsm;
	std::vector<STask> shadow[REGIONS];

	static_assert(Plan::Tasks::CAPACITY == K, "TaskCapacityN<K> must give a pool of K tasks");

	size_t total() const { size_t n = 0; for (auto& v : shadow) n += v.size(); return n; }

	static STask toS(const Task& t) {
		const int* p = t.payload();
		return STask{unsigned(t.origin), unsigned(t.destination), unsigned(t.type), p != nullptr, p ? *p : 0};
	}
	static void printTask(const STask& t) {
		if (t.hasP) std::printf(" %u,%u,%u,%d", t.o, t.d, t.t, t.p);
		else		std::printf(" %u,%u,%u,-", t.o, t.d, t.t);
	}

	void start() { std::printf("plan %u %u\n", K, REGIONS); snap(); }

	void snap() {
		const auto& pd = fsm._core.planData;
		const auto& l = pd.tasks;
		std::printf("snap => %u %u %u %u |", unsigned(l._vacantHead), unsigned(l._vacantTail), unsigned(l._last), unsigned(l._count));
		for (unsigned i = 0; i < K; ++i) {
			const auto& it = l._items[i];
			const int* p = it.payload();
			if (p) std::printf(" %u,%u,%u,%d", unsigned(it.prev), unsigned(it.next), unsigned(it.type), *p);
			else   std::printf(" %u,%u,%u,-", unsigned(it.prev), unsigned(it.next), unsigned(it.type));
		}
		std::printf(" |");
		for (unsigned i = 0; i < K; ++i) std::printf(" %u,%u", unsigned(pd.taskLinks[i].prev), unsigned(pd.taskLinks[i].next));
		std::printf(" |");
		for (unsigned r = 0; r < REGIONS; ++r) std::printf(" %u,%u", unsigned(pd.taskBounds[r].first), unsigned(pd.taskBounds[r].last));
		std::printf(" | ");
		for (unsigned r = 0; r < REGIONS; ++r) std::printf("%d", pd.planExists.get(r) ? 1 : 0);
		std::printf("\n");
	}

	std::vector<STask> observe(unsigned r) {
		std::vector<STask> out;
		Plan plan = fsm.plan(RegionID(r));
		for (auto it = plan.begin(); it; ++it) { out.push_back(toS(*it)); if (out.size() > 4 * K + 4) break; }
		return out;
	}

	// the property itself, evaluated on the implementation after every operation
	void oracle(const char* after) {
		for (unsigned r = 0; r < REGIONS; ++r) {
			const auto got = observe(r);
			if (!(got == shadow[r])) {
				++g_oracleFails;
				std::printf("ORACLE-FAIL plan K=%u after %s: region %u iterates %zu tasks, expected %zu (or contents differ)\n",
							K, after, r, got.size(), shadow[r].size());
			}
			const bool b = static_cast<bool>(fsm.plan(RegionID(r)));
			if (b != !shadow[r].empty()) { ++g_oracleFails; std::printf("ORACLE-FAIL plan K=%u after %s: region %u operator bool\n", K, after, r); }
		}
		if (fsm._core.planData.tasks.count() != total()) {
			++g_oracleFails;
			std::printf("ORACLE-FAIL plan K=%u after %s: %u stored tasks, lists hold %zu\n", K, after, unsigned(fsm._core.planData.tasks.count()), total());
		}
	}

	void append(unsigned r, unsigned t, unsigned o, unsigned d, bool hasP, int p) {
		Plan plan = fsm.plan(RegionID(r));
		const bool full = total() == K;
		stat(full ? "append.full" : (shadow[r].empty() ? "append.first" : "append.link"));
		stat(hasP ? "append.payload" : "append.plain");
		bool ok = false;
		const StateID so = StateID(o), sd = StateID(d);
		switch (t) {
			case 0: ok = hasP ? plan.changeWith   (so, sd, p) : plan.change   (so, sd); break;
			case 1: ok = hasP ? plan.restartWith  (so, sd, p) : plan.restart  (so, sd); break;
			case 2: ok = hasP ? plan.resumeWith   (so, sd, p) : plan.resume   (so, sd); break;
			case 3: ok = hasP ? plan.selectWith   (so, sd, p) : plan.select   (so, sd); break;
			case 4: ok = hasP ? plan.utilizeWith  (so, sd, p) : plan.utilize  (so, sd); break;
			case 5: ok = hasP ? plan.randomizeWith(so, sd, p) : plan.randomize(so, sd); break;
			default:ok = hasP ? plan.scheduleWith (so, sd, p) : plan.schedule (so, sd); break;
		}
		stat("append.kind" + std::to_string(t));
		if (hasP) std::printf("append %u %u %u %u %d => %d\n", r, t, o, d, p, ok ? 1 : 0);
		else	  std::printf("append %u %u %u %u - => %d\n", r, t, o, d, ok ? 1 : 0);
		if (ok == full) { ++g_oracleFails; std::printf("ORACLE-FAIL plan K=%u append returned %d with %zu/%u tasks stored\n", K, ok ? 1 : 0, total(), K); }
		if (ok) shadow[r].push_back(STask{o, d, t, hasP, p});
		oracle("append");
		snap();
	}

	void iter(unsigned r) {
		stat("iter");
		std::printf("iter %u =>", r);
		for (const auto& t : observe(r)) printTask(t);
		std::printf("\n");
	}

	void citer(unsigned r) {
		stat("citer");
		const Plan plan = fsm.plan(RegionID(r));
		std::printf("citer %u =>", r);
		unsigned n = 0;
		for (auto it = plan.begin(); it; ++it) { printTask(toS(*it)); if (++n > 4 * K + 4) break; }
		std::printf("\n");
	}

	// CPlanT: `Instance::plan() const` does not compile (it passes three constructor arguments to
	// a two-argument constructor), so the object is built with the constructor the class does have
	void cplan(unsigned r) {
		stat("cplan");
		CPlan plan{fsm._core.planData, RegionID(r)};
		const bool b = static_cast<bool>(plan);
		std::printf("cplan %u => %d |", r, b ? 1 : 0);
		std::vector<STask> got;
		for (auto it = plan.begin(); it; ++it) { got.push_back(toS(*it)); printTask(got.back()); if (got.size() > 4 * K + 4) break; }
		if (!(got == shadow[r])) { ++g_oracleFails; std::printf("\nORACLE-FAIL plan K=%u CPlan iteration of region %u\n", K, r); }
		if (b) {
			std::printf(" |"); printTask(toS(plan.first()));
			std::printf(" |"); printTask(toS(plan.last()));
			if (!(toS(plan.first()) == shadow[r].front()) || !(toS(plan.last()) == shadow[r].back())) {
				++g_oracleFails; std::printf("\nORACLE-FAIL plan K=%u CPlan first()/last() of region %u\n", K, r);
			}
		}
		std::printf("\n");
	}

	void rmw(unsigned r, const std::vector<bool>& removeAt) {
		Plan plan = fsm.plan(RegionID(r));
		std::vector<STask> visited, kept;
		std::vector<unsigned> positions;
		unsigned k = 0;
		for (auto it = plan.begin(); it; ++it, ++k) {
			visited.push_back(toS(*it));
			if (k < removeAt.size() && removeAt[k]) {
				const size_t n = shadow[r].size();
				stat(n == 1 ? "remove.only" : (k == 0 ? "remove.first" : (k + 1 == n ? "remove.last" : "remove.middle")));
				it.remove(); positions.push_back(k);
			}
			else kept.push_back(visited.back());
			if (k > 4 * K + 4) break;
		}
		stat(positions.empty() ? "rmw.none" : (kept.empty() ? "rmw.all" : "rmw.some"));
		std::printf("rmw %u", r);
		for (unsigned p : positions) std::printf(" %u", p);
		std::printf(" =>");
		for (const auto& t : visited) printTask(t);
		std::printf("\n");
		if (!(visited == shadow[r])) { ++g_oracleFails; std::printf("ORACLE-FAIL plan K=%u remove-while-iterating region %u skipped or repeated a task\n", K, r); }
		shadow[r] = kept;
		oracle("remove-while-iterating");
		snap();
	}

	void clear(unsigned r) {
		stat(shadow[r].empty() ? "clear.empty" : "clear.nonempty");
		Plan plan = fsm.plan(RegionID(r));
		plan.clear();
		std::printf("clear %u =>\n", r);
		shadow[r].clear();
		oracle("clear");
		snap();
	}

	void boolOp(unsigned r) {
		stat("bool");
		std::printf("bool %u => %d\n", r, static_cast<bool>(fsm.plan(RegionID(r))) ? 1 : 0);
	}

	void pdclear() {
		stat("pdclear");
		fsm._core.planData.clear();
		std::printf("pdclear =>\n");
		for (auto& v : shadow) v.clear();
		oracle("PlanData::clear");
		snap();
	}

	void randomAppend(Rng& rng, unsigned r) {
		append(r, rng.below(7), rng.below(STATES), rng.below(STATES), rng.chance(1, 2), int(rng.below(2001)) - 1000);
	}

	void randomRun(Rng& rng, unsigned long ops) {
		start();
		unsigned phase = 0, left = 0;
		for (unsigned long n = 0; n < ops; ++n) {
			if (left == 0) { phase = rng.below(3); left = 1 + rng.below(2 * K + 3); }
			--left;
			const unsigned r = rng.chance(1, 3) ? rng.below(2) : rng.below(REGIONS);	// some regions busier
			const unsigned x = rng.below(100);
			if (x < 1) { pdclear(); continue; }
			if (x < 6) { iter(r); continue; }
			if (x < 10) { citer(r); continue; }
			if (x < 15) { cplan(r); continue; }
			if (x < 18) { boolOp(r); continue; }
			// phase 0: fill (appends, also at the full edge); 1: edit (remove while iterating); 2: mixed + clears
			const unsigned y = rng.below(100);
			const bool wantAppend = phase == 0 ? y < 85 : (phase == 1 ? y < 25 : y < 50);
			if (wantAppend) { randomAppend(rng, r); continue; }
			if (phase == 2 && y > 85) { clear(r); continue; }
			// remove while iterating on a non-empty region if there is one
			if (total() == 0 && rng.chance(7, 8)) { randomAppend(rng, r); continue; }
			unsigned rr = r;
			for (unsigned k = 0; k < REGIONS && shadow[rr].empty(); ++k) rr = (rr + 1) % REGIONS;
			std::vector<bool> mask(shadow[rr].size(), false);
			const unsigned style = rng.below(6);
			for (size_t i = 0; i < mask.size(); ++i)
				mask[i] = style == 0 ? true : style == 1 ? i == 0 : style == 2 ? i + 1 == mask.size()
						: style == 3 ? (i & 1) != 0 : rng.chance(1, 2);
			rmw(rr, mask);
		}
	}

	// exhaustive: alphabet of 3 regions x {append, remove 1st, remove 2nd, remove last, clear}
	bool apply(unsigned op, unsigned k) {
		const unsigned r = op / 5, what = op % 5;
		const size_t n = shadow[r].size();
		switch (what) {
			case 0: append(r, k % 7, (k * 5 + 1) % STATES, (k * 7 + 2) % STATES, (k & 1) != 0, int(k) * 11 - 40); return true;
			case 1: if (n < 1) return false; { std::vector<bool> m(n, false); m[0] = true; rmw(r, m); } return true;
			case 2: if (n < 2) return false; { std::vector<bool> m(n, false); m[1] = true; rmw(r, m); } return true;
			case 3: if (n < 3) return false; { std::vector<bool> m(n, false); m[n - 1] = true; rmw(r, m); } return true;
			default: clear(r); return true;
		}
	}
};

template <typename FSM, unsigned K>
static void exhaustive(unsigned depth) {
	const unsigned ALPHA = 15;
	std::vector<unsigned> seq(1, 0);
	unsigned long sequences = 0;
	for (;;) {
		{
			Driver<FSM, K> d; d.start();
			bool valid = true; unsigned k = 0;
			for (unsigned op : seq) { if (!d.apply(op, k++)) { valid = false; break; } }
			if (valid) { for (unsigned r = 0; r < 3; ++r) { d.iter(r); d.cplan(r); } ++sequences; }
		}
		unsigned pos = unsigned(seq.size());
		while (pos > 0 && seq[pos - 1] == ALPHA - 1) --pos;
		if (pos == 0) { if (seq.size() == depth) break; seq.assign(seq.size() + 1, 0); }
		else { ++seq[pos - 1]; for (unsigned j = pos; j < seq.size(); ++j) seq[j] = 0; }
	}
	g_stats["exhaustive.sequences.K" + std::to_string(K)] += sequences;
}

#define RUN_RANDOM(K) { Driver<fix##K::FSM, K> d; d.randomRun(rng, count); }

int main(int argc, char** argv) {
	if (argc < 3) { std::fprintf(stderr, "usage: %s <seed> <count> [random|exhaustive]\n", argv[0]); return 2; }
	const uint64_t seed = std::strtoull(argv[1], nullptr, 10);
	const unsigned long count = std::strtoul(argv[2], nullptr, 10);
	const std::string mode = argc > 3 ? argv[3] : "random";
	std::setvbuf(stdout, nullptr, _IOLBF, 1 << 16);	// keep the transcript up to a sanitizer abort
	Rng rng(seed);

	std::printf("# c07 harness seed=%llu count=%lu mode=%s\n", static_cast<unsigned long long>(seed), count, mode.c_str());

	if (mode == "random") {
		RUN_RANDOM(1) RUN_RANDOM(2) RUN_RANDOM(3) RUN_RANDOM(4)
		RUN_RANDOM(5) RUN_RANDOM(6) RUN_RANDOM(7) RUN_RANDOM(8)
	} else if (mode == "exhaustive") {
		const unsigned depth = count < 1000 ? 4 : 5;
		exhaustive<fix1::FSM, 1>(depth); exhaustive<fix2::FSM, 2>(depth); exhaustive<fix3::FSM, 3>(depth);
	} else {
		std::fprintf(stderr, "unknown mode %s\n", mode.c_str());
		return 2;
	}

	for (const auto& kv : g_stats) std::printf("# stat %s=%lu\n", kv.first.c_str(), kv.second);
	std::printf("# stat oracle.fails=%lu\n", g_oracleFails);
	return 0;
}
