// Scenario runner. Included by a generated TU after the states are defined.
#pragma once
#include <type_traits>

namespace vh {

using StateID = hfsm2::StateID;

#if VH_LOG
struct Logger : M::LoggerInterface {
	using Context = M::LoggerInterface::Context;
	bool muted = false;

	void recordMethod(const Context&, const StateID origin, const hfsm2::Method method) override {
		HarnessScope hs;
		if (muted) return;
		out() << "log M " << static_cast<int>(origin) << " " << hfsm2::methodName(method) << "\n";
	}
	void recordTransition(const Context&, const StateID origin, const hfsm2::TransitionType type, const StateID target) override {
		HarnessScope hs;
		if (muted) return;
		out() << "log T " << (origin == hfsm2::INVALID_STATE_ID ? std::string("-") : std::to_string(static_cast<int>(origin)))
			  << " " << std::string(1, KIND_LETTER[static_cast<int>(type)]) << " " << static_cast<int>(target) << "\n";
	}
#if VH_PLANS
	void recordTaskStatus(const Context&, const StateID region, const StateID origin, const hfsm2::StatusEvent event) override {
		HarnessScope hs;
		if (muted) return;
		out() << "log K " << (region == static_cast<StateID>(hfsm2::INVALID_REGION_ID) ? std::string("-") : std::to_string(static_cast<int>(region)))
			  << " " << static_cast<int>(origin) << " " << (event == hfsm2::StatusEvent::SUCCEEDED ? "S" : "F") << "\n";
	}
	void recordPlanStatus(const Context&, const StateID region, const hfsm2::StatusEvent event) override {
		HarnessScope hs;
		if (muted) return;
		out() << "log P " << static_cast<int>(region) << " " << (event == hfsm2::StatusEvent::SUCCEEDED ? "S" : "F") << "\n";
	}
#endif
	void recordCancelledPending(const Context&, const StateID origin) override {
		HarnessScope hs;
		if (muted) return;
		out() << "log X " << static_cast<int>(origin) << "\n";
	}
	void recordSelectResolution(const Context&, const StateID head, const hfsm2::Prong prong) override {
		HarnessScope hs;
		if (muted) return;
		out() << "log RS " << static_cast<int>(head) << " " << (prong == hfsm2::INVALID_PRONG ? std::string("-") : std::to_string(static_cast<int>(prong))) << "\n";
	}
#if VH_UTIL
	void recordUtilityResolution(const Context&, const StateID head, const hfsm2::Prong prong, const float utility) override {
		HarnessScope hs;
		if (muted) return;
		out() << "log RU " << static_cast<int>(head) << " " << (prong == hfsm2::INVALID_PRONG ? std::string("-") : std::to_string(static_cast<int>(prong)))
			  << " " << hex(floatBits(utility)) << "\n";
	}
	void recordRandomResolution(const Context&, const StateID head, const hfsm2::Prong prong, const float utility) override {
		HarnessScope hs;
		if (muted) return;
		out() << "log RR " << static_cast<int>(head) << " " << (prong == hfsm2::INVALID_PRONG ? std::string("-") : std::to_string(static_cast<int>(prong)))
			  << " " << hex(floatBits(utility)) << "\n";
	}
#endif
};
#endif

//------------------------------------------------------------------------------

struct Slot {
	alignas(64) unsigned char storage[sizeof(Instance) + 64];
	Instance* ptr = nullptr;
	int ctx = 0;
};

inline const char* envStr(const char* name) { const char* v = getenv(name); return (v && *v) ? v : nullptr; }
inline int envInt(const char* name, int dflt) { const char* v = envStr(name); return v ? atoi(v) : dflt; }

// a list with the interface transitionList() expects, for histories longer than the library's own arrays
template <typename T>
struct ManyT {
	std::vector<T> v;
	unsigned count() const { return static_cast<unsigned>(v.size()); }
	const T& operator[](unsigned i) const { return v[i]; }
};

struct Runner {
	Slot slots[4];		// 0,1: the two instances of a scenario; 2,3: their copies ($VH_COPY_AT)
	int  base = 0;		// 0: operations address the originals, 2: the copies
#if !VH_RNG_BUILTIN
	ScriptRng rng;
#endif
#if VH_LOG
	Logger logger;
#endif
	long assertionHits = 0;

	Instance& inst(int k) { return *slots[base + k].ptr; }


	// an automatic instance is active from construction to destruction
	static bool active(const Instance& m) {
#if VH_MANUAL
		return m.isActive();
#else
		(void) m; return true;
#endif
	}

	void enterCall(int k) { script().instance = k; script().instancePtr = slots[base + k].ptr; }

	// $VH_FILL = 00|FF|AA|3C|<any hex byte>|rand overrides the fill pattern chosen by the script (the script's
	// draw still happens, so the scenario is the same); `rand` is noise from a private generator.
	// $VH_OFFSET = 0..63 moves the instance inside its slot (rounded down to the type's alignment).
	static void fillStorage(unsigned char* p, size_t n, unsigned char fill) {
		const char* v = envStr("VH_FILL");
		if (v && !strcmp(v, "rand")) {
			uint64_t x = 0x2545F4914F6CDD1Dull ^ reinterpret_cast<uintptr_t>(p);
			for (size_t i = 0; i < n; ++i) { x ^= x << 13; x ^= x >> 7; x ^= x << 17; p[i] = static_cast<unsigned char>(x >> 24); }
			return;
		}
		if (v) fill = static_cast<unsigned char>(strtoul(v, nullptr, 16));
		memset(p, fill, n);
	}
	static size_t placementOffset() {
		const int o = envInt("VH_OFFSET", 0);
		const size_t a = alignof(Instance);
		return (o <= 0 ? 0u : static_cast<size_t>(o > 63 ? 63 : o)) / a * a;
	}

	void construct(int k, unsigned char fill) {
		Slot& s = slots[base + k];
		fillStorage(s.storage, sizeof s.storage, fill);
		void* const where = s.storage + placementOffset();
		script().instance = k;
		script().instancePtr = where;		// callbacks of an automatic instance run inside the constructor
		ApiScope scope;
#if VH_UTIL && !VH_RNG_BUILTIN
  #if VH_LOG
		s.ptr = new (where) Instance{s.ctx, rng, &logger};
  #else
		s.ptr = new (where) Instance{s.ctx, rng};
  #endif
#else
  #if VH_LOG
		s.ptr = new (where) Instance{s.ctx, &logger};
  #else
		s.ptr = new (where) Instance{s.ctx};
  #endif
#endif
	}

	// copy-construct instance k into slot 2 + k (the copy shares context, logger and scripted generator)
	void copyConstruct(int k) {
		Slot& from = slots[k];
		Slot& to   = slots[2 + k];
		fillStorage(to.storage, sizeof to.storage, 0x5A);
		void* const where = to.storage + placementOffset();
		script().instance = k;
		script().instancePtr = from.ptr;
		ApiScope scope;
		to.ptr = new (where) Instance{*from.ptr};
	}

	void destroy(int k) {
		enterCall(k);
		{ ApiScope scope; slots[base + k].ptr->~Instance(); }
		slots[base + k].ptr = nullptr;
	}

	//--------------------------------------------------------------------------

	void snap(int k) {
		Instance& m = inst(k);
		// the line is assembled locally and emitted at the end, so that a library assertion firing inside
		// a query cannot tear it
		std::string o;
		uint64_t a = 0, r = 0;
		std::string subs;
		for (int i = 0; i < STATE_COUNT; ++i) {
			if (m.isActive   (static_cast<StateID>(i))) a |= 1ull << i;
			if (m.isResumable(static_cast<StateID>(i))) r |= 1ull << i;
			const auto sub = STATES[i].width > 0 ? m.activeSubState(static_cast<StateID>(i)) : hfsm2::INVALID_PRONG;
			if (i) subs += ",";
			subs += (sub == hfsm2::INVALID_PRONG ? std::string("-") : std::to_string(static_cast<int>(sub)));
		}
		o += "snap " + std::to_string(k) + " A=" + hex(a) + " R=" + hex(r) + " S=" + subs;
		const auto& core = m.verifCore();		// HFSM2_VERIF hook (root_0.hpp)
		o += " Q=" + transitionList(core.requests);
		// request marks: compoRequested per composite region (pre-order), compoRemains, orthoRequested per
		// orthogonal region — all must be clear between operations
		{
			std::string rq;
			uint64_t rm = 0;
			for (unsigned c = 0; c < static_cast<unsigned>(FSM::COMPO_COUNT); ++c) {
				const auto q = core.registry.compoRequested[c];
				if (c) rq += ",";
				rq += (q == hfsm2::INVALID_PRONG ? std::string("-") : std::to_string(static_cast<int>(q)));
				if (core.registry.compoRemains.get(c)) rm |= 1ull << c;
			}
			o += " RQ=" + rq + " RM=" + hex(rm) + " OB=" + orthoBits(core.registry);
		}
#if VH_HISTORY
		o += " P=" + transitionList(m.previousTransitions());
		{
			std::string l;
			for (int i = 0; i < STATE_COUNT; ++i) {
				if (i) l += ",";
				const auto* t = active(m) ? m.lastTransitionTo(static_cast<StateID>(i)) : nullptr;
				if (t && m.previousTransitions().count())
					l += std::to_string(static_cast<long long>(t - &m.previousTransitions()[0]));
				else
					l += "-";
			}
			o += " L=" + l;
		}
#endif
#if VH_PLANS
		{
			std::string pl;
			for (int rid = 0; rid < REGION_COUNT; ++rid) {
				auto plan = m.plan(static_cast<hfsm2::RegionID>(rid));	// the const overload does not compile (root_0.hpp)
				if (rid) pl += "|";
				bool first = true;
				for (auto it = plan.begin(); it; ++it) {
					if (!first) pl += ";";
					first = false;
					pl += std::to_string(static_cast<int>(it->origin)) + ">" + std::string(1, KIND_LETTER[static_cast<int>(it->type)]) + ">" +
						  std::to_string(static_cast<int>(it->destination)) + ">";
#if VH_PAYLOAD
					if (const auto* p = it->payload()) pl += std::to_string(payloadValue(*p)); else pl += "-";
#else
					pl += "-";
#endif
				}
			}
			o += " PL=" + pl;
			uint64_t px = 0, ts = 0, tf = 0;
			for (int rid = 0; rid < REGION_COUNT; ++rid)
				if (core.planData.planExists.get(static_cast<hfsm2::RegionID>(rid))) px |= 1ull << rid;
			for (int i = 0; i < STATE_COUNT; ++i) {
				if (core.planData.tasksSuccesses.get(static_cast<StateID>(i))) ts |= 1ull << i;
				if (core.planData.tasksFailures .get(static_cast<StateID>(i))) tf |= 1ull << i;
			}
			o += " PX=" + hex(px) + " TS=" + hex(ts) + " TF=" + hex(tf);
		}
#endif
#if VH_STRUCT
		{
			uint64_t st = 0;
			std::string h;
			const auto& structure = m.structure();
			const auto& history = m.activityHistory();
			for (int i = 0; i < STATE_COUNT; ++i) {
				if (structure[i].isActive) st |= 1ull << i;
				if (i) h += ",";
				h += std::to_string(static_cast<int>(history[i]));
			}
			o += " ST=" + hex(st) + " H=" + h;
		}
#endif
		out() << o << "\n";
	}

	template <typename TRegistry>
	static std::string orthoBitsImpl(const TRegistry& registry, std::true_type) {
		// one hex byte per orthogonal unit, unit 0 first
		std::string s;
		const auto& bits = registry.orthoRequested;
		for (unsigned i = 0; i < static_cast<unsigned>(FSM::ORTHO_UNITS) * 8; i += 8) {
			unsigned byte = 0;
			for (unsigned b = 0; b < 8; ++b)
				if (bits.get(i + b)) byte |= 1u << b;
			char buf[8]; snprintf(buf, sizeof buf, "%02x", byte); s += buf;
		}
		return s;
	}
	template <typename TRegistry>
	static std::string orthoBitsImpl(const TRegistry&, std::false_type) { return "-"; }	// no orthogonal regions
	template <typename TRegistry>
	static std::string orthoBits(const TRegistry& registry) {
		return orthoBitsImpl(registry, std::integral_constant<bool, (FSM::ORTHO_UNITS > 0)>{});
	}

	//--------------------------------------------------------------------------

	void apiRequest(int k, bool immediate, int kind, int dest, int payload) {
		Instance& m = inst(k);
		const auto id = static_cast<StateID>(dest);
		enterCall(k);
		ApiScope scope;		// allocations from here to the end of the call are the library's (mach_alloc.hpp)
#if VH_PAYLOAD
		if (payload >= 0) {
			const Payload p = makePayload(payload);
			if (immediate) switch (kind) {
				case 0: m.immediateChangeWith(id, p); break;
				case 1: m.immediateRestartWith(id, p); break;
				case 2: m.immediateResumeWith(id, p); break;
				case 3: m.immediateSelectWith(id, p); break;
#if VH_UTIL
				case 4: m.immediateUtilizeWith(id, p); break;
				case 5: m.immediateRandomizeWith(id, p); break;
#endif
			} else switch (kind) {
				case 0: m.changeWith(id, p); break;
				case 1: m.restartWith(id, p); break;
				case 2: m.resumeWith(id, p); break;
				case 3: m.selectWith(id, p); break;
#if VH_UTIL
				case 4: m.utilizeWith(id, p); break;
				case 5: m.randomizeWith(id, p); break;
#endif
				case 6: m.scheduleWith(id, p); break;
			}
			return;
		}
#endif
		(void) payload;
		if (immediate) switch (kind) {
			case 0: m.immediateChangeTo(id); break;
			case 1: m.immediateRestart(id); break;
			case 2: m.immediateResume(id); break;
			case 3: m.immediateSelect(id); break;
#if VH_UTIL
			case 4: m.immediateUtilize(id); break;
			case 5: m.immediateRandomize(id); break;
#endif
		} else switch (kind) {
			case 0: m.changeTo(id); break;
			case 1: m.restart(id); break;
			case 2: m.resume(id); break;
			case 3: m.select(id); break;
#if VH_UTIL
			case 4: m.utilize(id); break;
			case 5: m.randomize(id); break;
#endif
			case 6: m.schedule(id); break;
		}
	}

#if VH_SERIAL
	std::string saveBits(int k) {
		Instance::SerialBuffer buffer;
		enterCall(k);
		{ ApiScope scope; inst(k).save(buffer); }
		std::string bits;
		const auto& data = buffer.data();
		for (unsigned i = 0; i < sizeof(data); ++i)
			for (int b = 0; b < 8; ++b)
				bits += ((data[i] >> b) & 1) ? '1' : '0';
		return bits;
	}

	void loadBits(int k, const std::string& bits) {
		Instance::SerialBuffer buffer;
		auto& data = buffer.data();
		for (unsigned i = 0; i < sizeof(data); ++i) {
			data[i] = 0;
			for (int b = 0; b < 8; ++b)
				if (bits[i * 8 + b] == '1') data[i] |= static_cast<uint8_t>(1u << b);
		}
		enterCall(k);
		{ ApiScope scope; inst(k).load(buffer); }
	}
#endif

	//--------------------------------------------------------------------------

#if VH_SERIAL
	// save `src`, load the image into `dst`, save `dst` again (must give the same image)
	void saveLoadPair(int src, int dst) {
		Out& o = out();
		o << "op " << src << " save\n";
		const std::string bits = saveBits(src);
		o << "ret " << bits << "\n" << "end\n";
		snap(src);
		o << "op " << dst << " load " << bits << "\n";
		loadBits(dst, bits);
		o << "end\n";
		snap(dst);
		o << "op " << dst << " save\n";
		const std::string again = saveBits(dst);
		o << "ret " << again << "\n" << "end\n";
		snap(dst);
	}
#endif

	// Common-subset mode ($VH_SKIP = comma separated kinds out of update react query req imm task planappend
	// planclear reset saveload replay, plus `utility`): the kind of an operation is a function of the draw `r`
	// alone, and kinds that are listed — or that this build lacks — are skipped without drawing anything else.
	// Builds with different feature sets then walk through the same operation sequence (tools/engine_c15.py).
	static bool skipListed(const char* kind) {
		static const char* const list = envStr("VH_SKIP");
		if (!list) return false;
		const size_t n = strlen(kind);
		for (const char* p = list; (p = strstr(p, kind)) != nullptr; p += n)
			if ((p == list || p[-1] == ',') && (p[n] == 0 || p[n] == ',')) return true;
		return false;
	}
	static bool skipped(unsigned r) {
		if (!envStr("VH_SKIP")) return false;
		const char* const kind = r < 28 ? "update" : r < 42 ? "react" : r < 47 ? "query" : r < 62 ? "req" : r < 74 ? "imm"
							   : r < 79 ? "task" : r < 86 ? "planappend" : r < 87 ? "planclear" : r < 89 ? "reset"
							   : r < 95 ? "saveload" : r < 98 ? "replay" : "update";
		if (skipListed(kind)) return true;
		if (!VH_PLANS   && r >= 74 && r < 87) return true;
		if (!VH_SERIAL  && r >= 89 && r < 95) return true;
		if (!VH_HISTORY && r >= 95 && r < 98) return true;
		return false;
	}

	void configLine() {
		Out& o = out();
		o << "config limit=" << VH_LIMIT << " bottomup=" << VH_BOTTOMUP << " manual=" << VH_MANUAL << " plans=" << VH_PLANS
		  << " history=" << VH_HISTORY << " serial=" << VH_SERIAL << " util=" << VH_UTIL << " struct=" << VH_STRUCT
		  << " log=" << VH_LOG << " payload=" << VH_PAYLOAD
#if VH_PLANS
		  << " taskcap=" << static_cast<long long>(FSM::TASK_CAPACITY)
#else
		  << " taskcap=0"
#endif
		  << " queuecap=" << static_cast<long long>(FSM::COMPO_COUNT) << "\n";
	}

#if VH_UTIL
	// C12 boundary sweep (DESIGN §7 C12): for every random-strategy region whose sub-states are plain
	// states, drive `randomize` and `changeTo` of the region with forced ranks, utilities and generator
	// outputs: non-dyadic utilities (rounding differs between the balanced sum and the sequential walk),
	// outputs 0, 1/2, 1-2^-24 and both neighbours of every cumulative boundary, last sub-state of lower
	// rank / zero utility.  `budget` resolutions per region, sampled by the seed when the grid is larger.
	void sweepC12(uint64_t seed, int index, int budget) {
		Script& s = script();
		std::vector<int> regions;
		for (int i = 0; i < STATE_COUNT; ++i) {
			if (STATES[i].strategy != 4 || STATES[i].width < 2 || STATES[i].width > 4) continue;
			bool leaves = true;
			for (int c = i + 1, k = 0; k < STATES[i].width; ++k) { if (STATES[c].width != 0) leaves = false; c += STATES[c].size; }
			if (leaves && i > 0) regions.push_back(i);
		}
		if (regions.empty() || VH_MANUAL) return;
		s.prng = Prng{seed * 7777777ull + 99};
		s.knobs = Knobs{};
		s.sweeping = true;
		s.forcedUtility.assign(static_cast<size_t>(STATE_COUNT), -1.0f);
		s.forcedRank.assign(static_cast<size_t>(STATE_COUNT), INT_MIN);
		Out& o = out();
		o << "scenario " << index << "\n" << "shape " << SHAPE_TEXT << "\n";
		configLine();
		o << "op 0 new\n";
		s.firstActivation = true; construct(0, 0x00); s.firstActivation = false;
		o << "end\n"; snap(0);
		o << "op 1 new\n";
		s.firstActivation = true; construct(1, 0xFF); s.firstActivation = false;
		o << "end\n"; snap(1);
		static const float PAL[] = {0.1f, 0.2f, 0.3f, 0.4f, 0.5f, 0.6f, 0.7f, 0.8f, 0.9f};
		long resolutions = 0;
		for (int region : regions) {
			const int w = STATES[region].width;
			std::vector<int> subs;
			for (int c = region + 1, k = 0; k < w; ++k) { subs.push_back(c); c += STATES[c].size; }
			for (int n = 0; n < budget; ++n) {
				// utilities
				std::vector<float> u(static_cast<size_t>(w));
				for (int k = 0; k < w; ++k) u[static_cast<size_t>(k)] = PAL[s.prng.below(9)];
				// rank / zero pattern for the last sub-state
				const unsigned pat = s.prng.below(4);
				for (int k = 0; k < w; ++k) s.forcedRank[static_cast<size_t>(subs[static_cast<size_t>(k)])] = 0;
				if (pat == 1) s.forcedRank[static_cast<size_t>(subs.back())] = -1;
				if (pat == 2) u.back() = 0.0f;
				if (pat == 3) s.forcedRank[static_cast<size_t>(subs.front())] = -1;
				for (int k = 0; k < w; ++k) s.forcedUtility[static_cast<size_t>(subs[static_cast<size_t>(k)])] = u[static_cast<size_t>(k)];
				// generator output: end points or a neighbour of a cumulative boundary (computed in double)
				double sum = 0; for (int k = 0; k < w; ++k) if (s.forcedRank[static_cast<size_t>(subs[static_cast<size_t>(k)])] == 0) sum += u[static_cast<size_t>(k)];
				float r;
				const unsigned which = s.prng.below(10);
				if (which < 4)			{ uint32_t b = 0x3F7FFFFFu; memcpy(&r, &b, 4); }
				else if (which == 4)	r = 0.0f;
				else if (which == 5)	r = 0.5f;
				else {
					double prefix = 0; const int upto = static_cast<int>(s.prng.below(static_cast<unsigned>(w)));
					for (int k = 0; k <= upto; ++k) if (s.forcedRank[static_cast<size_t>(subs[static_cast<size_t>(k)])] == 0) prefix += u[static_cast<size_t>(k)];
					float b = sum > 0 ? static_cast<float>(prefix / sum) : 0.5f;
					uint32_t bits; memcpy(&bits, &b, 4);
					const int delta = static_cast<int>(s.prng.below(3)) - 1;
					bits = static_cast<uint32_t>(static_cast<int64_t>(bits) + delta);
					memcpy(&b, &bits, 4);
					r = (b >= 0.0f && b < 1.0f) ? b : 0.25f;
				}
				s.forcedRng = r;
				const int kind = s.prng.chance(50) ? 5 : 0;		// randomize / changeTo (the region is Random)
				const int k = 0;
				o << "op " << k << " imm " << std::string(1, KIND_LETTER[kind]) << " " << region << " -\n";
				apiRequest(k, true, kind, region, -1);
				o << "end\n";
				snap(k);
				++resolutions;
				if (o.buf.size() > (1u << 20)) o.flush();
			}
		}
		s.forcedRng = -1.0f;
		s.forcedUtility.clear(); s.forcedRank.clear();
		s.sweeping = false;
		for (int k = 0; k < 2; ++k) { o << "op " << k << " destroy\n"; destroy(k); o << "end\n"; }
		o << "# stat c12_sweep_resolutions=" << static_cast<long long>(resolutions) << "\n";
		o.flush();
	}
#endif

	// Batch sweep (C02, C01, C04): request batches over structurally related destinations — the same state
	// twice, a state and a sibling of one of its ancestors, ancestor and descendant, in every order — queued
	// for ONE processing step, with idle callbacks and approving guards, from varying configurations.  This is
	// where "later requests override earlier conflicting ones" and the ancestor climb of `requestImmediate`
	// are decided; random scenarios reach such triples far too rarely.
	int relativeOf(int x) {
		Script& s = script();
		const unsigned r = s.prng.below(100);
		if (r < 20) return x;
		if (r < 50) {								// a sibling of x or of one of its ancestors
			int a = x;
			for (unsigned up = s.prng.below(3); up > 0 && a > 0 && STATES[a].parent > 0; --up) a = STATES[a].parent;
			const int p = a > 0 ? STATES[a].parent : -1;
			if (p >= 0 && STATES[p].width > 0) {
				int id = p + 1; const int k = static_cast<int>(s.prng.below(static_cast<unsigned>(STATES[p].width)));
				for (int i = 0; i < k; ++i) id += STATES[id].size;
				// … or a state below that sibling (a request into another branch must be forwarded and resolved there)
				if (STATES[id].size > 1 && s.prng.chance(60)) id += static_cast<int>(s.prng.below(static_cast<unsigned>(STATES[id].size)));
				return id;
			}
		}
		if (r < 65) {								// an ancestor
			int a = x;
			for (unsigned up = 1 + s.prng.below(3); up > 0 && a > 0; --up) a = STATES[a].parent >= 0 ? STATES[a].parent : 0;
			return a;
		}
		if (r < 80) return x + static_cast<int>(s.prng.below(static_cast<unsigned>(STATES[x].size)));	// a descendant
		return s.randomState(true);
	}

#if VH_UTIL
	// Zero-utility sweep (C01, C12, C02): utility() = 0 is a legal answer for arg-max resolution (ties: leftmost).
	// For every utilitarian region with a REGION among its candidates: candidates' heads and leaf candidates answer
	// 0 or a palette value in every combination (up to 5 candidates), then `utilize` / `changeTo` of the region from
	// outside and from inside.  All-zero makes the leftmost candidate win, also when it is a nested region whose
	// own sub-states must then still be resolved.
	void sweepZeroUtility(uint64_t seed, int index) {
		Script& s = script();
		std::vector<int> regions;
		for (int i = 0; i < STATE_COUNT; ++i) {
			if (STATES[i].strategy != 3 || STATES[i].width < 2 || STATES[i].width > 5) continue;
			bool anyRegion = false, underRandom = belowRandomRegion(i);
			for (int c = i + 1, k = 0; k < STATES[i].width; ++k) { if (STATES[c].width != 0) anyRegion = true; c += STATES[c].size; }
			if (anyRegion && !underRandom && i > 0) regions.push_back(i);
		}
		if (regions.empty() || VH_MANUAL) return;
		s.prng = Prng{seed * 3333331ull + 7};
		s.knobs = Knobs{};
		s.sweeping = true;
		s.forcedUtility.assign(static_cast<size_t>(STATE_COUNT), -1.0f);
		Out& o = out();
		o << "scenario " << index << "\n" << "shape " << SHAPE_TEXT << "\n";
		configLine();
		for (int k = 0; k < 2; ++k) {
			o << "op " << k << " new\n";
			s.firstActivation = true; construct(k, k ? 0xFF : 0x00); s.firstActivation = false;
			o << "end\n"; snap(k);
		}
		long resolutions = 0;
		const int k = 0;
		for (int region : regions) {
			const int w = STATES[region].width;
			std::vector<int> subs;
			for (int c = region + 1, j = 0; j < w; ++j) { subs.push_back(c); c += STATES[c].size; }
			for (unsigned mask = 0; mask < (1u << w); ++mask) {
				for (int j = 0; j < w; ++j)
					s.forcedUtility[static_cast<size_t>(subs[static_cast<size_t>(j)])] = (mask >> j & 1) ? 0.5f : 0.0f;
				for (int variant = 0; variant < 3; ++variant) {
					if (variant != 2) {				// from outside: leave the region first
						int other = 0;
						for (int t = 1; t < STATE_COUNT; ++t)
							if (!(t >= region && t < region + STATES[region].size) && !(region >= t && region < t + STATES[t].size)) { other = t; break; }
						if (other) {
							o << "op " << k << " imm C " << other << " -\n";
							apiRequest(k, true, 0, other, -1);
							o << "end\n"; snap(k);
						}
					}
					const int kind = variant == 1 ? 0 : 4;		// changeTo / utilize
					o << "op " << k << " imm " << std::string(1, KIND_LETTER[kind]) << " " << region << " -\n";
					apiRequest(k, true, kind, region, -1);
					o << "end\n"; snap(k);
					o << "op " << k << " update\n";
					enterCall(k); { ApiScope scope; inst(k).update(); }
					o << "end\n"; snap(k);
					++resolutions;
				}
				if (o.buf.size() > (1u << 20)) o.flush();
			}
			for (int j = 0; j < w; ++j) s.forcedUtility[static_cast<size_t>(subs[static_cast<size_t>(j)])] = -1.0f;
		}
		s.forcedUtility.clear();
		s.sweeping = false;
		for (int j = 0; j < 2; ++j) { o << "op " << j << " destroy\n"; destroy(j); o << "end\n"; }
		o << "# stat zero_utility_sweep_resolutions=" << static_cast<long long>(resolutions) << "\n";
		o.flush();
	}
#endif

	// Structured batch sweep: what the random batches reach only by luck, enumerated.  For every state x, every
	// region p on its ancestor chain and every sibling branch b of x's branch in p:
	//   composite p:   (go to b) then the batch [x, b', x];  (go to x) then the batch [b', x, b']   — a later request
	//                  overriding an earlier one at every level of the ancestor climb of `requestImmediate`
	//   orthogonal p:  (activate p / leave p) then the batch [x, leaf below b]                        — two requests of one
	//                  step into different prongs, each forwarded into and resolved below its prong
	// where b' is b itself or a state below it.  Idle callbacks, approving guards.  When the enumeration exceeds `budget`
	// every k-th combination is taken, the offset depending on the seed.
	static int firstLeafBelow(int b) { while (STATES[b].width > 0) b = b + 1; return b; }
	// the first region strictly below b (its sub-state must be RESOLVED by the forward pass), or b's first leaf
	static int firstRegionBelow(int b) {
		for (int t = b + 1; t < b + STATES[b].size; ++t) if (STATES[t].width > 0) return t;
		return firstLeafBelow(b);
	}
	void oneBatch(int k, int pre, const int* dests, int n, long& batches) {
		Out& o = out();
		if (pre > 0) {
			o << "op " << k << " imm C " << pre << " -\n";
			apiRequest(k, true, 0, pre, -1);
			o << "end\n"; snap(k);
		}
		for (int i = 0; i < n; ++i) {
			o << "op " << k << " req C " << dests[i] << " -\n";
			apiRequest(k, false, 0, dests[i], -1);
			o << "end\n"; snap(k);
		}
		o << "op " << k << " update\n";
		enterCall(k); { ApiScope scope; inst(k).update(); }
		o << "end\n"; snap(k);
		++batches;
		if (o.buf.size() > (1u << 20)) o.flush();
	}
	void sweepStructured(uint64_t seed, int index, int budget) {
		Script& s = script();
		struct Combo { int x, p, b; };
		std::vector<Combo> combos;
		for (int x = 1; x < STATE_COUNT; ++x)
			for (int a = x; a > 0; a = STATES[a].parent) {
				const int p = STATES[a].parent;
				if (p < 0 || STATES[p].width < 2) continue;
				for (int b = p + 1, j = 0; j < STATES[p].width; ++j, b += STATES[b].size)
					if (b != a) combos.push_back(Combo{x, p, b});
			}
		if (combos.empty()) return;
		const size_t stride = combos.size() > static_cast<size_t>(budget) ? (combos.size() + static_cast<size_t>(budget) - 1) / static_cast<size_t>(budget) : 1;
		s.prng = Prng{seed * 1111111ull + 3};
		s.knobs = Knobs{};
		s.sweeping = true;
		Out& o = out();
		o << "scenario " << index << "\n" << "shape " << SHAPE_TEXT << "\n";
		configLine();
		for (int k = 0; k < 2; ++k) {
			o << "op " << k << " new\n";
			s.firstActivation = true; construct(k, k ? 0xFF : 0x00); s.firstActivation = false;
			o << "end\n"; snap(k);
		}
#if VH_MANUAL
		o << "op 0 enter\n";
		enterCall(0);
		s.firstActivation = true;
		{ ApiScope scope; inst(0).enter(); }
		s.firstActivation = false;
		o << "end\n"; snap(0);
#endif
		long batches = 0;
		for (size_t c = static_cast<size_t>(seed % stride); c < combos.size(); c += stride) {
			const Combo& cb = combos[c];
			const int bLeaf = firstLeafBelow(cb.b);
			if (STATES[cb.p].strategy == 5) {
				const int bRegion = firstRegionBelow(cb.b);
				if (bRegion != bLeaf) {												// a nested region must be resolved below the later prong
					const int deep[2] = {cb.x, bRegion};
					oneBatch(0, cb.p, deep, 2, batches);
				}
				const int two[2] = {cb.x, bLeaf};
				oneBatch(0, cb.p, two, 2, batches);									// orthogonal region active
				int outside = 0;
				for (int t = 1; t < STATE_COUNT; ++t)
					if (!(t >= cb.p && t < cb.p + STATES[cb.p].size) && !(cb.p >= t && cb.p < t + STATES[t].size)) { outside = t; break; }
				if (outside) oneBatch(0, outside, two, 2, batches);					// … and entered by the batch
			} else {
				const int bb = (c & 1) ? bLeaf : cb.b;
				const int t1[3] = {cb.x, bb, cb.x};
				oneBatch(0, cb.b, t1, 3, batches);
				const int t2[3] = {bb, cb.x, bb};
				oneBatch(0, cb.x, t2, 3, batches);
			}
		}
		s.sweeping = false;
		for (int j = 0; j < 2; ++j) { o << "op " << j << " destroy\n"; destroy(j); o << "end\n"; }
		o << "# stat structured_sweep_batches=" << static_cast<long long>(batches) << "\n";
		o.flush();
	}

	void sweepBatches(uint64_t seed, int index, int budget) {
		Script& s = script();
		s.prng = Prng{seed * 5555557ull + 31};
		s.knobs = Knobs{};
		s.sweeping = true;
		Out& o = out();
		o << "scenario " << index << "\n" << "shape " << SHAPE_TEXT << "\n";
		configLine();
		for (int k = 0; k < 2; ++k) {
			o << "op " << k << " new\n";
			s.firstActivation = true; construct(k, k ? 0xFF : 0x00); s.firstActivation = false;
			o << "end\n"; snap(k);
		}
#if VH_MANUAL
		o << "op 0 enter\n";
		enterCall(0);
		s.firstActivation = true;
		{ ApiScope scope; inst(0).enter(); }
		s.firstActivation = false;
		o << "end\n"; snap(0);
#endif
		long batches = 0;
		const int k = 0;
		for (int n = 0; n < budget; ++n) {
			if (s.prng.chance(35)) {				// move to another configuration first
				const int dest = s.randomState(false);
				o << "op " << k << " imm C " << dest << " -\n";
				apiRequest(k, true, 0, dest, -1);
				o << "end\n"; snap(k);
			}
			const int count = 2 + static_cast<int>(s.prng.below(3));
			const int x = s.randomState(true);
			int y = x;
			for (int b = 0; b < count; ++b) {
				int dest;
				if (b == 0)			dest = x;
				else if (b == 1)	dest = y = relativeOf(x);
				else {
					const unsigned w = s.prng.below(100);
					dest = w < 45 ? x : w < 60 ? y : w < 80 ? relativeOf(y) : relativeOf(x);
				}
				const unsigned q = s.prng.below(100);
				int kind = q < 64 ? 0 : q < 76 ? 1 : q < 88 ? 2 : s.randomKind(true);
				o << "op " << k << " req " << std::string(1, KIND_LETTER[kind]) << " " << dest << " -\n";
				apiRequest(k, false, kind, dest, -1);
				o << "end\n"; snap(k);
			}
			o << "op " << k << " update\n";
			enterCall(k); { ApiScope scope; inst(k).update(); }
			o << "end\n"; snap(k);
			++batches;
			if (o.buf.size() > (1u << 20)) o.flush();
		}
		s.sweeping = false;
		for (int j = 0; j < 2; ++j) { o << "op " << j << " destroy\n"; destroy(j); o << "end\n"; }
		o << "# stat batch_sweep_batches=" << static_cast<long long>(batches) << "\n";
		o.flush();
	}

#if VH_LOG
	// Logger sweep (C16): `attachLogger(nullptr)` / `attachLogger(&logger)` in mid-run, between operations with live
	// callbacks (requests, cancelling guards, task statuses, plans).  With the logger detached no record may arrive and
	// everything else must go on exactly as the model says; re-attached, the records resume.
	void sweepLogger(uint64_t seed, int index, int opCount) {
		Script& s = script();
		s.prng = Prng{seed * 7777789ull + 57};
		s.recentCount = 0;
		Knobs& kn = s.knobs;
		kn = Knobs{};
		kn.idle     = 50 + s.prng.below(40);
		kn.cancel   = s.prng.below(25);
		kn.guardReq = s.prng.below(20);
		kn.consume  = s.prng.below(20);
		kn.planEdit = s.prng.below(30);
		kn.allowSelect  = true;
		kn.allowUtility = !skipListed("utility");
		Out& o = out();
		o << "scenario " << index << "\n" << "shape " << SHAPE_TEXT << "\n";
		configLine();
		const int k = 0;
		o << "op " << k << " new\n";
		s.firstActivation = true; construct(k, 0xAA); s.firstActivation = false;
		o << "end\n"; snap(k);
#if VH_MANUAL
		o << "op 0 enter\n";
		enterCall(0);
		s.firstActivation = true;
		{ ApiScope scope; inst(0).enter(); }
		s.firstActivation = false;
		o << "end\n"; snap(0);
#endif
		long toggles = 0, detachedOps = 0;
		bool attached = true;
		for (int n = 0; n < opCount; ++n) {
			Instance& m = inst(k);
			const unsigned r = s.prng.below(100);
			if (r < 14) {
				attached = !attached;
				o << "op " << k << " attachlogger " << (attached ? 1 : 0) << "\n";
				enterCall(k); { ApiScope scope; m.attachLogger(attached ? &logger : nullptr); }
				++toggles;
			} else if (r < 45) {
				o << "op " << k << " update\n";
				enterCall(k); { ApiScope scope; m.update(); }
			} else if (r < 58) {
				o << "op " << k << " react\n";
				enterCall(k); { ApiScope scope; m.react(Ev{}); }
			} else if (r < 62) {
				o << "op " << k << " query\n";
				Qy q; enterCall(k); { ApiScope scope; m.query(q); }
			} else {
				const bool immediate = r >= 85;
				const int kind = s.randomKind(!immediate), dest = s.requestDest(), payload = s.randomPayload();
				o << "op " << k << (immediate ? " imm " : " req ") << std::string(1, KIND_LETTER[kind]) << " " << dest << " "
				  << (payload < 0 ? std::string("-") : std::to_string(payload)) << "\n";
				apiRequest(k, immediate, kind, dest, payload);
			}
			if (!attached) ++detachedOps;
			o << "end\n"; snap(k);
			if (o.buf.size() > (1u << 20)) o.flush();
		}
		if (!attached) {		// the logger object outlives the instance either way; re-attach so that the exit is recorded
			o << "op " << k << " attachlogger 1\n";
			enterCall(k); { ApiScope scope; inst(k).attachLogger(&logger); }
			o << "end\n"; snap(k);
		}
		o << "op " << k << " destroy\n"; destroy(k); o << "end\n";
		o << "# stat logger_sweep_toggles=" << static_cast<long long>(toggles) << "\n";
		o << "# stat logger_sweep_ops_detached=" << static_cast<long long>(detachedOps) << "\n";
		o.flush();
	}
#endif

	void scenario(uint64_t seed, int index, int opCount) {
		Script& s = script();
		s.prng = Prng{seed * 1000003ull + static_cast<uint64_t>(index)};
		s.recentCount = 0;
		Knobs& kn = s.knobs;
		kn = Knobs{};
		kn.idle     = 40 + s.prng.below(55);
		kn.cancel   = s.prng.below(30);
		kn.guardReq = s.prng.below(25);
		kn.consume  = s.prng.below(25);
		kn.planEdit = s.prng.below(30);
		kn.allowSelect  = true;		// anonymous heads answer the defaults select() = 0, utility() = 1
		kn.allowUtility = !skipListed("utility");
		kn.allowZeroUtil = index % 3 == 1;	// every third scenario: utility() may answer exactly 0 (outside random regions)
		Out& o = out();
		o << "scenario " << index << "\n";
		o << "shape " << SHAPE_TEXT << "\n";
		configLine();

		static const unsigned char FILLS[] = {0x00, 0xFF, 0xAA, 0x3C};
		for (int k = 0; k < 2; ++k) {
			o << "op " << k << " new\n";
			s.firstActivation = true;
			construct(k, FILLS[s.prng.below(4)]);
			s.firstActivation = false;
			o << "end\n";
			snap(k);
#if VH_MANUAL
#if VH_HISTORY
			// the second instance is sometimes activated by replayEnter() of a one-request history whose destination lies off
			// the default activation path below a plain composite region (so that the replay is sure to change something:
			// a replay that changes nothing is out of contract — HFSM2_CHECKED — and answers false)
			if (k == 1 && !envStr("VH_SKIP") && s.prng.chance(40)) {
				std::vector<int> off;
				for (int x = 1; x < STATE_COUNT; ++x)
					for (int a = x; a > 0; a = STATES[a].parent)
						if (STATES[STATES[a].parent].strategy == 0 && STATES[a].prong != 0) { off.push_back(x); break; }
				if (!off.empty()) {
					const int dest = off[s.prng.below(static_cast<unsigned>(off.size()))];
					using Tr = typename std::decay<decltype(inst(k).previousTransitions()[0])>::type;
					ManyT<Tr> one;
					one.v.push_back(Tr{static_cast<StateID>(dest), hfsm2::TransitionType::CHANGE});
					o << "op " << k << " replayenter " << transitionList(one) << "\n";
					enterCall(k);
					bool res;
					s.firstActivation = true;
					{ ApiScope scope; res = inst(k).replayEnter(&one.v[0], 1); }
					s.firstActivation = false;
					o << "ret " << (res ? 1 : 0) << "\n" << "end\n";
					snap(k);
					if (res) continue;
				}
			}
#endif
			o << "op " << k << " enter\n";
			enterCall(k);
			s.firstActivation = true;
			{ ApiScope scope; inst(k).enter(); }
			s.firstActivation = false;
			o << "end\n";
			snap(k);
#endif
		}

		// $VH_COPY_AT = n: before operation n both instances are copy-constructed; the rest of the scenario is run
		// on the originals, then — script generator rewound — on the copies.  A copy continues exactly as its
		// original iff the two passes print the same text (tools/engine_c10.py compares them).
		const int copyAt = envInt("VH_COPY_AT", -1);
		if (copyAt >= 0 && copyAt < opCount) {
			runOps(0, copyAt);
			copyConstruct(0); copyConstruct(1);
			const Prng rewind = s.prng;
			int rewindRecent[4]; const int rewindCount = s.recentCount;
			for (int i = 0; i < 4; ++i) rewindRecent[i] = s.recent[i];
			o << "# copy-pass original\n";
			runOps(copyAt, opCount);
			o << "# copy-pass copy\n";
			s.prng = rewind;
			s.recentCount = rewindCount;
			for (int i = 0; i < 4; ++i) s.recent[i] = rewindRecent[i];
			base = 2;
			runOps(copyAt, opCount);
			o << "# copy-pass end\n";
			for (int k = 0; k < 2; ++k) destroy(k);		// the copies go first: they refer to members of the originals
			base = 0;
		} else
			runOps(0, opCount);

		for (int k = 0; k < 2; ++k) {
			o << "op " << k << " destroy\n";
			destroy(k);
			o << "end\n";
		}
		o.flush();
	}

	void runOps(int from, int to) {
		Script& s = script();
		Out& o = out();
		for (int n = from; n < to; ++n) {
			const int k = s.prng.chance(75) ? 0 : 1;
			Instance& m = inst(k);
			const unsigned r = s.prng.below(100);
#if VH_MANUAL
			if (!m.isActive()) {
#if VH_SERIAL
				// an instance that is not activated can still be saved (empty image) and loaded into
				if (s.prng.chance(45)) {
					const bool asSource = s.prng.chance(40);
					saveLoadPair(asSource ? k : 1 - k, asSource ? 1 - k : k);
					continue;
				}
#endif
				o << "op " << k << " enter\n";
				s.firstActivation = true;
				enterCall(k); { ApiScope scope; m.enter(); }
				s.firstActivation = false;
				o << "end\n"; snap(k);
				continue;
			}
			if (r >= 97) {
				o << "op " << k << " exit\n";
				enterCall(k); { ApiScope scope; m.exit(); }
				o << "end\n"; snap(k);
				continue;
			}
#endif
			if (skipped(r)) continue;
			if (r < 28) {
				o << "op " << k << " update\n";
				enterCall(k); { ApiScope scope; m.update(); }
			} else if (r < 42) {
				o << "op " << k << " react\n";
				enterCall(k); { ApiScope scope; m.react(Ev{}); }
			} else if (r < 47) {
				o << "op " << k << " query\n";
				Qy q; enterCall(k); { ApiScope scope; m.query(q); }
			} else if (r < 62) {
				// one request, or (every third time) a burst of 2..4 queued for the same processing step
				const int more = s.prng.chance(33) ? 1 + static_cast<int>(s.prng.below(3)) : 0;
				for (int b = 0; ; ++b) {
					const int kind = s.randomKind(true), dest = s.requestDest(), payload = s.randomPayload();
					o << "op " << k << " req " << std::string(1, KIND_LETTER[kind]) << " " << dest << " " << (payload >= 0 ? std::to_string(payload) : std::string("-")) << "\n";
					apiRequest(k, false, kind, dest, payload);
					if (b == more) break;
					o << "end\n";
					snap(k);
				}
			} else if (r < 74) {
				const int kind = s.randomKind(false), dest = s.requestDest(), payload = s.randomPayload();
				o << "op " << k << " imm " << std::string(1, KIND_LETTER[kind]) << " " << dest << " " << (payload >= 0 ? std::to_string(payload) : std::string("-")) << "\n";
				apiRequest(k, true, kind, dest, payload);
			}
#if VH_PLANS
			else if (r < 79) {
				const int sid = s.randomState(false);	// succeed(root) is rejected by HFSM2_CHECKED
				const bool ok = s.prng.chance(75);
				o << "op " << k << (ok ? " succeed " : " fail ") << sid << "\n";
				enterCall(k);
				{ ApiScope scope; if (ok) m.succeed(static_cast<StateID>(sid)); else m.fail(static_cast<StateID>(sid)); }
			} else if (r < 86) {
				// a plan for a random region
				int head = s.randomState(true);
				head = regionHeadOf(head);
				const int rid = STATES[head].regionId;
				const int origin = stateWithin(head), dest = stateWithin(head), kind = s.randomKind(true), payload = s.randomPayload();
				o << "op " << k << " planappend " << rid << " " << origin << " " << dest << " " << std::string(1, KIND_LETTER[kind]) << " "
				  << (payload >= 0 ? std::to_string(payload) : std::string("-")) << "\n";
				enterCall(k);
				ApiScope scope;
				auto plan = m.plan(static_cast<hfsm2::RegionID>(rid));
				bool res = false;
				const auto og = static_cast<StateID>(origin);
				const auto de = static_cast<StateID>(dest);
#if VH_PAYLOAD
				if (payload >= 0) {
					const Payload p = makePayload(payload);
					switch (kind) {
					case 0: res = plan.changeWith(og, de, p); break;
					case 1: res = plan.restartWith(og, de, p); break;
					case 2: res = plan.resumeWith(og, de, p); break;
					case 3: res = plan.selectWith(og, de, p); break;
#if VH_UTIL
					case 4: res = plan.utilizeWith(og, de, p); break;
					case 5: res = plan.randomizeWith(og, de, p); break;
#endif
					case 6: res = plan.scheduleWith(og, de, p); break;
					}
				} else
#endif
				switch (kind) {
				case 0: res = plan.change(og, de); break;
				case 1: res = plan.restart(og, de); break;
				case 2: res = plan.resume(og, de); break;
				case 3: res = plan.select(og, de); break;
#if VH_UTIL
				case 4: res = plan.utilize(og, de); break;
				case 5: res = plan.randomize(og, de); break;
#endif
				case 6: res = plan.schedule(og, de); break;
				}
				scope.close();
				o << "ret " << (res ? 1 : 0) << "\n";
			} else if (r < 87) {
				int head = regionHeadOf(s.randomState(true));
				const int rid = STATES[head].regionId;
				o << "op " << k << " planclear " << rid << "\n";
				enterCall(k);
				{ ApiScope scope; m.plan(static_cast<hfsm2::RegionID>(rid)).clear(); }
			}
#endif
			else if (r < 89) {
				o << "op " << k << " reset\n";
				enterCall(k); { ApiScope scope; m.reset(); }
			}
#if VH_SERIAL
			else if (r < 95) {
				saveLoadPair(k, 1 - k);
				continue;
			}
#endif
#if VH_HISTORY
			else if (r < 98) {
				// replay the authority's last step on the other instance
				const int src = k, dst = 1 - k;
				const auto& prev = inst(src).previousTransitions();
				if (prev.count() == 0 || !active(inst(dst))) { --n; if (s.prng.chance(50)) ++n; continue; }
				// (not in common-subset mode: the length depends on SUBSTITUTION_LIMIT, which a compared build may change)
				if (!envStr("VH_SKIP") && s.prng.chance(20)) {
					// an over-long but valid history (C11): the authority's list repeated until it exceeds the capacity
					// of previousTransitions (COMPO_COUNT x SUBSTITUTION_LIMIT); the library keeps the first `capacity`
					using Tr = typename std::decay<decltype(prev[0])>::type;
					ManyT<Tr> many;
					const unsigned cap = static_cast<unsigned>(FSM::COMPO_COUNT) * static_cast<unsigned>(VH_LIMIT);
					const unsigned want = cap + 1 + s.prng.below(3);
					for (unsigned i = 0; many.v.size() < want && many.v.size() < 250; ++i) many.v.push_back(prev[static_cast<hfsm2::Short>(i % prev.count())]);
					o << "op " << dst << " replay " << transitionList(many) << "\n";
					enterCall(dst);
					bool res;
					{ ApiScope scope; res = inst(dst).replayTransitions(&many.v[0], static_cast<hfsm2::Short>(many.v.size())); }
					o << "ret " << (res ? 1 : 0) << "\n" << "end\n";
					snap(dst);
					continue;
				}
				o << "op " << dst << " replay " << transitionList(prev) << "\n";
				enterCall(dst);
				bool res;
				{ ApiScope scope; res = inst(dst).replayTransitions(&prev[0], prev.count()); }
				o << "ret " << (res ? 1 : 0) << "\n" << "end\n";
				snap(dst);
				continue;
			}
#endif
			else {
				o << "op " << k << " update\n";
				enterCall(k); { ApiScope scope; m.update(); }
			}
			o << "end\n";
			snap(k);
			if (o.buf.size() > (1u << 20) || getenv("VH_FLUSH")) o.flush();
		}
	}
};

static long g_assertionHits = 0;

inline int run(int argc, char** argv) {
	const uint64_t seed  = argc > 1 ? strtoull(argv[1], nullptr, 10) : 1;
	const int scenarios  = argc > 2 ? atoi(argv[2]) : 10;
	const int ops        = argc > 3 ? atoi(argv[3]) : 40;
	static Runner runner;
	const int sweep      = argc > 4 ? atoi(argv[4]) : 0;
	for (int i = 0; i < scenarios; ++i)
		runner.scenario(seed, i, ops);
#if VH_UTIL
	if (sweep > 0)
		runner.sweepC12(seed, scenarios, sweep);
#endif
	if (sweep > 0)
		runner.sweepBatches(seed, scenarios + 1, sweep / 2);
	if (sweep > 0)
		runner.sweepStructured(seed, scenarios + 3, sweep);
#if VH_UTIL
	if (sweep > 0)
		runner.sweepZeroUtility(seed, scenarios + 2);
#endif
#if VH_LOG
	if (sweep > 0)
		runner.sweepLogger(seed, scenarios + 4, sweep < 120 ? 120 : sweep);
#endif
	out() << "# stat assertion_hits=" << static_cast<long long>(g_assertionHits) << "\n";
	out() << "# stat allocations_inside_api=" << static_cast<long long>(allocStats().inside) << "\n";
	out() << "# stat allocations_by_harness=" << static_cast<long long>(allocStats().outside) << "\n";
	out() << "# stat sizeof_instance=" << static_cast<long long>(sizeof(Instance)) << "\n";
	out().flush();
	return 0;
}

} // namespace vh

extern "C" void hfsm2_verif_break(const char* file, int line) noexcept {
	vh::HarnessScope hs;
	++vh::g_assertionHits;
	const char* base = strrchr(file, '/');
	vh::out() << "assert " << (base ? base + 1 : file) << ":" << line << "\n";
}
