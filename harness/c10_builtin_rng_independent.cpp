// C10, built-in random generator: "two instances driven identically behave identically … whatever other
// instances do — including the first activation inside the constructor".
//
// Two machine types that use the library's built-in generator (no Config::RandomT<>): one whose ROOT is a random
// region (the first draw happens inside the constructor), one whose random region is entered by a transition.
// Every instance is built by placement new into a buffer pre-filled with a byte pattern and driven by the same
// sequence of randomize steps; its trace (which sub-state each step entered) must be the same
//   * for the first and for a later instance of the process (sequential),
//   * for two instances driven in lock-step (interleaved),
//   * with and without a bystander instance drawing numbers in between,
//   * for storage pre-filled with 0x00 and with 0xFF.
// Prints `C10-RNG-OK …` or `C10-RNG-DIFF <what>`; exit status 0 either way (tools/engine_c10.py judges).
#define HFSM2_ENABLE_UTILITY_THEORY
#include <hfsm2/machine.hpp>
#include <cstdio>
#include <cstring>
#include <new>
#include <string>

static std::string* g_trace = nullptr;
static void note(char c) { if (g_trace) g_trace->push_back(c); }

using M = hfsm2::MachineT<hfsm2::Config::ContextT<int>>;

// 1. random root: the constructor's activation draws
namespace one {
struct A; struct B; struct C; struct D;
using FSM = M::RandomRoot<struct R, A, B, C, D>;
struct R : FSM::State {};
struct A : FSM::State { void enter(PlanControl&) { note('a'); } };
struct B : FSM::State { void enter(PlanControl&) { note('b'); } };
struct C : FSM::State { void enter(PlanControl&) { note('c'); } };
struct D : FSM::State { void enter(PlanControl&) { note('d'); } };
}
// 2. random inner region entered by a transition; utilities differ, ranks tie
namespace two {
struct I; struct X; struct Y; struct Z;
using FSM = M::Root<struct T, I, M::Random<struct W, X, Y, Z>>;
struct T : FSM::State {};
struct I : FSM::State { void enter(PlanControl&) { note('i'); } };
struct W : FSM::State {};
struct X : FSM::State { void enter(PlanControl&) { note('x'); } Utility utility(const Control&) { return 0.5f; } };
struct Y : FSM::State { void enter(PlanControl&) { note('y'); } Utility utility(const Control&) { return 0.3f; } };
struct Z : FSM::State { void enter(PlanControl&) { note('z'); } Utility utility(const Control&) { return 0.2f; } };
}

template <typename TInstance>
struct Slot {
	alignas(16) unsigned char storage[sizeof(TInstance) + 32];
	TInstance* p = nullptr;
	int ctx = 0;
	std::string trace;
	void build(unsigned char fill) { memset(storage, fill, sizeof(storage)); g_trace = &trace; p = new (storage + 16) TInstance{ctx}; g_trace = nullptr; }
	void destroy() { g_trace = &trace; p->~TInstance(); g_trace = nullptr; p = nullptr; }
};

static void stepOne(Slot<one::FSM::Instance>& s) { g_trace = &s.trace; s.p->immediateRandomize(one::FSM::stateId<one::R>()); g_trace = nullptr; }
static void stepTwo(Slot<two::FSM::Instance>& s, int k) {
	g_trace = &s.trace;
	if (k % 3 == 2) s.p->immediateChangeTo(two::FSM::stateId<two::I>());
	else            s.p->immediateRandomize(two::FSM::stateId<two::W>());
	g_trace = nullptr;
}

static int diffs = 0;
static void expectSame(const char* what, const std::string& a, const std::string& b) {
	if (a != b) { ++diffs; printf("C10-RNG-DIFF %s: `%s` vs `%s`\n", what, a.c_str(), b.c_str()); }
}

int main() {
	const int N = 24;
	// sequential: first instance of the process, then a later one in storage with another fill
	static Slot<one::FSM::Instance> a1, a2, a3, a4, a5;
	a1.build(0x00); for (int i = 0; i < N; ++i) stepOne(a1); a1.destroy();
	a2.build(0xFF); for (int i = 0; i < N; ++i) stepOne(a2); a2.destroy();
	expectSame("random root, first vs later instance of the process (0x00 / 0xFF storage)", a1.trace, a2.trace);
	// lock-step
	a3.build(0xAA); a4.build(0x3C);
	for (int i = 0; i < N; ++i) { stepOne(a3); stepOne(a4); }
	a3.destroy(); a4.destroy();
	expectSame("random root, two instances in lock-step", a3.trace, a4.trace);
	expectSame("random root, alone vs next to another instance", a1.trace, a3.trace);

	static Slot<two::FSM::Instance> b1, b2, by;
	b1.build(0x00); for (int i = 0; i < N; ++i) stepTwo(b1, i); b1.destroy();
	b2.build(0xFF); by.build(0x55);
	for (int i = 0; i < N; ++i) { stepTwo(b2, i); stepTwo(by, 0); stepTwo(by, 1); }
	b2.destroy(); by.destroy();
	expectSame("inner random region, alone vs with a bystander drawing in between", b1.trace, b2.trace);
	// a late instance after everybody else has drawn
	a5.build(0xFF); for (int i = 0; i < N; ++i) stepOne(a5); a5.destroy();
	expectSame("random root, late instance", a1.trace, a5.trace);

	if (!diffs) printf("C10-RNG-OK %s %s\n", a1.trace.c_str(), b1.trace.c_str());
	return 0;
}
