import Core
set_option autoImplicit false

/-! reenter / commit preserve activity -/

-- helper: ActAt i after exitAt i then enterAt j
theorem Subs.switch_act (s : Subs) (i j : Nat) (ha : s.ActAt i) (hr : s.ResAt j) :
    ((s.exitAt i).enterAt j).ActAt j :=
  Subs.enterAt_act _ j (Subs.exitAt_clean s i ha) (Subs.exitAt_resAt s i j hr)

mutual
theorem Node.reenter_act : (n : Node) → n.Act → n.Res → n.reenter.Act
  | .leaf, _, _ => trivial
  | .compo a r m s, ha, hr => by
      cases a with
      | none => simp [Node.Act] at ha
      | some ai =>
        cases r with
        | none => simp [Node.Res] at hr
        | some ri =>
          simp only [Node.Act] at ha
          simp only [Node.Res] at hr
          simp only [Node.reenter]
          split
          · next h =>
            subst h
            simp only [Node.Act]
            exact Subs.reenterAt_act s ai ha hr
          · simp only [Node.Act]
            exact Subs.switch_act s ai ri ha hr
  | .ortho s, ha, hr => by
      simp only [Node.Act] at ha
      simp only [Node.Res] at hr
      simp only [Node.reenter, Node.Act]
      exact Subs.reenterAll_act s ha hr
theorem Subs.reenterAt_act : (s : Subs) → (i : Nat) → s.ActAt i → s.ResAt i → (s.reenterAt i).ActAt i
  | .nil, _, h, _ => by simp [Subs.ActAt] at h
  | .cons b n r, 0, ha, hr => by
      simp only [Subs.ActAt] at ha
      simp only [Subs.ResAt] at hr
      simp only [Subs.reenterAt, Subs.ActAt]
      exact ⟨Node.reenter_act n ha.1 hr, ha.2⟩
  | .cons b n r, i+1, ha, hr => by
      simp only [Subs.ActAt] at ha
      simp only [Subs.ResAt] at hr
      simp only [Subs.reenterAt, Subs.ActAt]
      exact ⟨ha.1, Subs.reenterAt_act r i ha.2 hr⟩
theorem Subs.reenterAll_act : (s : Subs) → s.ActAll → s.ResAll → s.reenterAll.ActAll
  | .nil, _, _ => by simp [Subs.reenterAll, Subs.ActAll]
  | .cons b n r, ha, hr => by
      simp only [Subs.ActAll] at ha
      simp only [Subs.ResAll] at hr
      simp only [Subs.reenterAll, Subs.ActAll]
      exact ⟨Node.reenter_act n ha.1 hr.1, Subs.reenterAll_act r ha.2 hr.2⟩
end

-- CommitOK: what `commit` needs of the marks of an active sub-tree
mutual
def Node.COK : Node → Prop
  | .leaf => True
  | .compo a r _ s =>
      match a, r with
      | some ai, none => s.COKAt ai
      | some _, some ri => s.ResAt ri
      | none, _ => False
  | .ortho s => s.COKAll
def Subs.COKAt : Subs → Nat → Prop
  | .nil, _ => False
  | .cons _ n _, 0 => n.COK
  | .cons _ _ r, i+1 => r.COKAt i
def Subs.COKAll : Subs → Prop
  | .nil => True
  | .cons _ n r => n.COK ∧ r.COKAll
end

mutual
theorem Node.commit_act : (n : Node) → n.Act → n.COK → n.commit.Act
  | .leaf, _, _ => trivial
  | .compo a r m s, ha, hc => by
      cases a with
      | none => simp [Node.Act] at ha
      | some ai =>
        simp only [Node.Act] at ha
        cases r with
        | none =>
          simp only [Node.COK] at hc
          simp only [Node.commit, Node.Act]
          exact Subs.commitAt_act s ai ha hc
        | some ri =>
          simp only [Node.COK] at hc
          simp only [Node.commit]
          split
          · simp only [Node.Act]
            exact Subs.switch_act s ai ri ha hc
          · next h =>
            have h' : ri = ai := by
              cases Nat.decEq ri ai with
              | isTrue e => exact e
              | isFalse ne => exact absurd ne h
            subst h'
            split
            · simp only [Node.Act]
              exact Subs.switch_act s ri ri ha hc
            · simp only [Node.Act]
              exact Subs.reenterAt_act s ri ha hc
  | .ortho s, ha, hc => by
      simp only [Node.Act] at ha
      simp only [Node.COK] at hc
      simp only [Node.commit, Node.Act]
      exact Subs.commitAll_act s ha hc
theorem Subs.commitAt_act : (s : Subs) → (i : Nat) → s.ActAt i → s.COKAt i → (s.commitAt i).ActAt i
  | .nil, _, h, _ => by simp [Subs.ActAt] at h
  | .cons b n r, 0, ha, hc => by
      simp only [Subs.ActAt] at ha
      simp only [Subs.COKAt] at hc
      simp only [Subs.commitAt, Subs.ActAt]
      exact ⟨Node.commit_act n ha.1 hc, ha.2⟩
  | .cons b n r, i+1, ha, hc => by
      simp only [Subs.ActAt] at ha
      simp only [Subs.COKAt] at hc
      simp only [Subs.commitAt, Subs.ActAt]
      exact ⟨ha.1, Subs.commitAt_act r i ha.2 hc⟩
theorem Subs.commitAll_act : (s : Subs) → s.ActAll → s.COKAll → s.commitAll.ActAll
  | .nil, _, _ => by simp [Subs.commitAll, Subs.ActAll]
  | .cons b n r, ha, hc => by
      simp only [Subs.ActAll] at ha
      simp only [Subs.COKAll] at hc
      simp only [Subs.commitAll, Subs.ActAll]
      exact ⟨Node.commit_act n ha.1 hc.1, Subs.commitAll_act r ha.2 hc.2⟩
end
#print axioms Node.commit_act
