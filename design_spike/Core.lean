/-! Design spike (not framework code): miniature of the request/forward/commit core,
    to check that the C01 invariant goes through by mutual structural induction. -/

mutual
inductive Node where
  | leaf  : Node
  | compo (act req : Option Nat) (rem : Bool) (subs : Subs) : Node
  | ortho (subs : Subs) : Node
inductive Subs where
  | nil  : Subs
  | cons (bit : Bool) (n : Node) (rest : Subs) : Subs
end

def Subs.len : Subs → Nat
  | .nil => 0
  | .cons _ _ r => r.len + 1

inductive Phase | p1 | p2 | p3
deriving DecidableEq

/-- resolution oracle: index chosen for a region of width `w` with resumable `r` -/
structure Pick where
  ch : Nat → Option Nat → Nat
  ok : ∀ w r, 0 < w → ch w r < w

section
variable (pk : Pick)

/-! ### enter / exit / reenter / commit -/
mutual
def Node.enter : Node → Node
  | .leaf => .leaf
  | .compo _ r m s => .compo r none m (match r with | some i => s.enterAt i | none => s)
  | .ortho s => .ortho s.enterAll
def Subs.enterAt : Subs → Nat → Subs
  | .nil, _ => .nil
  | .cons b n r, 0 => .cons b n.enter r
  | .cons b n r, i+1 => .cons b n (r.enterAt i)
def Subs.enterAll : Subs → Subs
  | .nil => .nil
  | .cons _ n r => .cons false n.enter r.enterAll
end

mutual
def Node.exit : Node → Node
  | .leaf => .leaf
  | .compo a r m s => .compo none r m (match a with | some i => s.exitAt i | none => s)
  | .ortho s => .ortho s.exitAll
def Subs.exitAt : Subs → Nat → Subs
  | .nil, _ => .nil
  | .cons b n r, 0 => .cons b n.exit r
  | .cons b n r, i+1 => .cons b n (r.exitAt i)
def Subs.exitAll : Subs → Subs
  | .nil => .nil
  | .cons b n r => .cons b n.exit r.exitAll
end

mutual
def Node.reenter : Node → Node
  | .leaf => .leaf
  | .compo a r m s =>
      match a, r with
      | some ai, some ri =>
          if ai = ri then .compo a none m (s.reenterAt ai)
          else .compo (some ri) none m ((s.exitAt ai).enterAt ri)
      | _, _ => .compo a r m s          -- asserted unreachable in the C++
  | .ortho s => .ortho s.reenterAll
def Subs.reenterAt : Subs → Nat → Subs
  | .nil, _ => .nil
  | .cons b n r, 0 => .cons b n.reenter r
  | .cons b n r, i+1 => .cons b n (r.reenterAt i)
def Subs.reenterAll : Subs → Subs
  | .nil => .nil
  | .cons _ n r => .cons false n.reenter r.reenterAll
end

mutual
def Node.commit : Node → Node
  | .leaf => .leaf
  | .compo a r m s =>
      match a with
      | none => .compo a r m s            -- asserted unreachable
      | some ai =>
        match r with
        | none => .compo a none m (s.commitAt ai)
        | some ri =>
          if ri ≠ ai then .compo (some ri) none m ((s.exitAt ai).enterAt ri)
          else if m then .compo a none m ((s.exitAt ai).enterAt ai)
          else .compo a none m (s.reenterAt ai)
  | .ortho s => .ortho s.commitAll
def Subs.commitAt : Subs → Nat → Subs
  | .nil, _ => .nil
  | .cons b n r, 0 => .cons b n.commit r
  | .cons b n r, i+1 => .cons b n (r.commitAt i)
def Subs.commitAll : Subs → Subs
  | .nil => .nil
  | .cons _ n r => .cons false n.commit r.commitAll
end

/-! ### predicates -/
mutual
def Node.Clean : Node → Prop
  | .leaf => True
  | .compo a _ _ s => a = none ∧ s.CleanAll
  | .ortho s => s.CleanAll
def Subs.CleanAll : Subs → Prop
  | .nil => True
  | .cons _ n r => n.Clean ∧ r.CleanAll
end

mutual
def Node.Act : Node → Prop
  | .leaf => True
  | .compo a _ _ s => match a with | some i => s.ActAt i | none => False
  | .ortho s => s.ActAll
/-- child `i` active & well-formed, all other children clean -/
def Subs.ActAt : Subs → Nat → Prop
  | .nil, _ => False
  | .cons _ n r, 0 => n.Act ∧ r.CleanAll
  | .cons _ n r, i+1 => n.Clean ∧ r.ActAt i
def Subs.ActAll : Subs → Prop
  | .nil => True
  | .cons _ n r => n.Act ∧ r.ActAll
end

mutual
def Node.Res : Node → Prop
  | .leaf => True
  | .compo _ r _ s => match r with | some i => s.ResAt i | none => False
  | .ortho s => s.ResAll
def Subs.ResAt : Subs → Nat → Prop
  | .nil, _ => False
  | .cons _ n _, 0 => n.Res
  | .cons _ _ r, i+1 => r.ResAt i
def Subs.ResAll : Subs → Prop
  | .nil => True
  | .cons _ n r => n.Res ∧ r.ResAll
end

/-! ### lemmas: exit gives Clean, preserves Res; enter Clean∧Res gives Act -/
mutual
theorem Node.exit_clean : (n : Node) → n.Act → n.exit.Clean
  | .leaf, _ => trivial
  | .compo a r m s, h => by
      cases a with
      | none => simp [Node.Act] at h
      | some i =>
        simp only [Node.Act] at h
        simp only [Node.exit, Node.Clean, true_and]
        exact Subs.exitAt_clean s i h
  | .ortho s, h => by
      simp only [Node.Act] at h
      simp only [Node.exit, Node.Clean]
      exact Subs.exitAll_clean s h
theorem Subs.exitAt_clean : (s : Subs) → (i : Nat) → s.ActAt i → (s.exitAt i).CleanAll
  | .nil, _, h => by simp [Subs.ActAt] at h
  | .cons b n r, 0, h => by
      simp only [Subs.ActAt] at h
      simp only [Subs.exitAt, Subs.CleanAll]
      exact ⟨Node.exit_clean n h.1, h.2⟩
  | .cons b n r, i+1, h => by
      simp only [Subs.ActAt] at h
      simp only [Subs.exitAt, Subs.CleanAll]
      exact ⟨h.1, Subs.exitAt_clean r i h.2⟩
theorem Subs.exitAll_clean : (s : Subs) → s.ActAll → s.exitAll.CleanAll
  | .nil, _ => by simp [Subs.exitAll, Subs.CleanAll]
  | .cons b n r, h => by
      simp only [Subs.ActAll] at h
      simp only [Subs.exitAll, Subs.CleanAll]
      exact ⟨Node.exit_clean n h.1, Subs.exitAll_clean r h.2⟩
end

mutual
theorem Node.exit_res : (n : Node) → n.Res → n.exit.Res
  | .leaf, _ => trivial
  | .compo a r m s, h => by
      cases r with
      | none => simp [Node.Res] at h
      | some j =>
        simp only [Node.Res] at h
        simp only [Node.exit, Node.Res]
        cases a with
        | none => exact h
        | some i => exact Subs.exitAt_resAt s i j h
  | .ortho s, h => by
      simp only [Node.Res] at h
      simp only [Node.exit, Node.Res]
      exact Subs.exitAll_res s h
theorem Subs.exitAt_resAt : (s : Subs) → (i j : Nat) → s.ResAt j → (s.exitAt i).ResAt j
  | .nil, _, _, h => by simp [Subs.ResAt] at h
  | .cons b n r, 0, 0, h => by
      simp only [Subs.ResAt] at h
      simp only [Subs.exitAt, Subs.ResAt]
      exact Node.exit_res n h
  | .cons b n r, 0, j+1, h => by
      simp only [Subs.ResAt] at h
      simp only [Subs.exitAt, Subs.ResAt]
      exact h
  | .cons b n r, i+1, 0, h => by
      simp only [Subs.ResAt] at h
      simp only [Subs.exitAt, Subs.ResAt]
      exact h
  | .cons b n r, i+1, j+1, h => by
      simp only [Subs.ResAt] at h
      simp only [Subs.exitAt, Subs.ResAt]
      exact Subs.exitAt_resAt r i j h
theorem Subs.exitAll_res : (s : Subs) → s.ResAll → s.exitAll.ResAll
  | .nil, _ => by simp [Subs.exitAll, Subs.ResAll]
  | .cons b n r, h => by
      simp only [Subs.ResAll] at h
      simp only [Subs.exitAll, Subs.ResAll]
      exact ⟨Node.exit_res n h.1, Subs.exitAll_res r h.2⟩
end

mutual
theorem Node.enter_act : (n : Node) → n.Clean → n.Res → n.enter.Act
  | .leaf, _, _ => trivial
  | .compo a r m s, hc, h => by
      cases r with
      | none => simp [Node.Res] at h
      | some i =>
        simp only [Node.Res] at h
        simp only [Node.Clean] at hc
        simp only [Node.enter, Node.Act]
        exact Subs.enterAt_act s i hc.2 h
  | .ortho s, hc, h => by
      simp only [Node.Res] at h
      simp only [Node.Clean] at hc
      simp only [Node.enter, Node.Act]
      exact Subs.enterAll_act s hc h
theorem Subs.enterAt_act : (s : Subs) → (i : Nat) → s.CleanAll → s.ResAt i → (s.enterAt i).ActAt i
  | .nil, _, _, h => by simp [Subs.ResAt] at h
  | .cons b n r, 0, hc, h => by
      simp only [Subs.ResAt] at h
      simp only [Subs.CleanAll] at hc
      simp only [Subs.enterAt, Subs.ActAt]
      exact ⟨Node.enter_act n hc.1 h, hc.2⟩
  | .cons b n r, i+1, hc, h => by
      simp only [Subs.ResAt] at h
      simp only [Subs.CleanAll] at hc
      simp only [Subs.enterAt, Subs.ActAt]
      exact ⟨hc.1, Subs.enterAt_act r i hc.2 h⟩
theorem Subs.enterAll_act : (s : Subs) → s.CleanAll → s.ResAll → s.enterAll.ActAll
  | .nil, _, _ => by simp [Subs.enterAll, Subs.ActAll]
  | .cons b n r, hc, h => by
      simp only [Subs.ResAll] at h
      simp only [Subs.CleanAll] at hc
      simp only [Subs.enterAll, Subs.ActAll]
      exact ⟨Node.enter_act n hc.1 h.1, Subs.enterAll_act r hc.2 h.2⟩
end
end
