import Core4
set_option autoImplicit false

-- pre-forward condition: what holds after marking, before the forward pass
mutual
def Node.P : Node → Prop
  | .leaf => True
  | .compo a r _ s =>
      match a, r with
      | some ai, none => s.PAt ai
      | some _, some _ => True
      | none, _ => False
  | .ortho s => s.PBits
def Subs.PAt : Subs → Nat → Prop
  | .nil, _ => False
  | .cons _ n _, 0 => n.P
  | .cons _ _ r, i+1 => r.PAt i
def Subs.PBits : Subs → Prop
  | .nil => True
  | .cons b n r => (if b then n.P else n.COK) ∧ r.PBits
end

mutual
theorem Node.COK_imp_P : (n : Node) → n.COK → n.P
  | .leaf, _ => trivial
  | .compo a r m s, h => by
      cases a with
      | none => simp [Node.COK] at h
      | some ai =>
        cases r with
        | none => simp only [Node.COK] at h; simp only [Node.P]; exact Subs.COKAt_imp_PAt s ai h
        | some ri => simp [Node.P]
  | .ortho s, h => by
      simp only [Node.COK] at h; simp only [Node.P]; exact Subs.COKAll_imp_PBits s h
theorem Subs.COKAt_imp_PAt : (s : Subs) → (i : Nat) → s.COKAt i → s.PAt i
  | .nil, _, h => by simp [Subs.COKAt] at h
  | .cons b n r, 0, h => by simp only [Subs.COKAt] at h; simp only [Subs.PAt]; exact Node.COK_imp_P n h
  | .cons b n r, i+1, h => by simp only [Subs.COKAt] at h; simp only [Subs.PAt]; exact Subs.COKAt_imp_PAt r i h
theorem Subs.COKAll_imp_PBits : (s : Subs) → s.COKAll → s.PBits
  | .nil, _ => by simp [Subs.PBits]
  | .cons b n r, h => by
      simp only [Subs.COKAll] at h
      simp only [Subs.PBits]
      refine ⟨?_, Subs.COKAll_imp_PBits r h.2⟩
      cases b
      · simpa using h.1
      · simpa using Node.COK_imp_P n h.1
end

section
variable (pk : Pick)

/-! forward passes never touch `act` fields: Act / Clean are invariant -/
mutual
theorem Node.request_act : (n : Node) → ((Node.request pk n).Act ↔ n.Act) ∧ ((Node.request pk n).Clean ↔ n.Clean)
  | .leaf => by simp [Node.request]
  | .compo a r m s => by
      have h := Subs.requestAt_act s (pk.ch s.len a)
      simp only [Node.request, Node.Act, Node.Clean]
      refine ⟨?_, by rw [h.2.1]⟩
      cases a with
      | none => simp
      | some ai => exact h.2.2 ai
  | .ortho s => by
      have h := Subs.requestAll_act s
      simp only [Node.request, Node.Act, Node.Clean]
      exact ⟨h.1, h.2⟩
theorem Subs.requestAt_act : (s : Subs) → (i : Nat) →
    ((Subs.requestAt pk s i).ActAll ↔ s.ActAll) ∧ ((Subs.requestAt pk s i).CleanAll ↔ s.CleanAll) ∧
    (∀ j, (Subs.requestAt pk s i).ActAt j ↔ s.ActAt j)
  | .nil, _ => by simp [Subs.requestAt]
  | .cons b n r, 0 => by
      have h := Node.request_act n
      simp only [Subs.requestAt, Subs.ActAll, Subs.CleanAll, h.1, h.2, true_and]
      intro j; cases j <;> simp [Subs.ActAt, h.1, h.2]
  | .cons b n r, i+1 => by
      have h := Subs.requestAt_act r i
      simp only [Subs.requestAt, Subs.ActAll, Subs.CleanAll, h.1, h.2.1, true_and]
      intro j; cases j <;> simp [Subs.ActAt, h.2.1, h.2.2]
theorem Subs.requestAll_act : (s : Subs) →
    ((Subs.requestAll pk s).ActAll ↔ s.ActAll) ∧ ((Subs.requestAll pk s).CleanAll ↔ s.CleanAll)
  | .nil => by simp [Subs.requestAll]
  | .cons b n r => by
      have h1 := Node.request_act n
      have h2 := Subs.requestAll_act r
      simp [Subs.requestAll, Subs.ActAll, Subs.CleanAll, h1.1, h1.2, h2.1, h2.2]
end
end
