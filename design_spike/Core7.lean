import Core6
set_option autoImplicit false

section
variable (pk : Pick)

theorem Subs.fwdActiveAt_len : (s : Subs) → (i : Nat) → (Subs.fwdActiveAt pk s i).len = s.len
  | .nil, _ => by simp [Subs.fwdActiveAt, Subs.len]
  | .cons b n r, 0 => by simp [Subs.fwdActiveAt, Subs.len]
  | .cons b n r, i+1 => by simp [Subs.fwdActiveAt, Subs.len, Subs.fwdActiveAt_len r i]

-- (A) the forward pass turns the post-marking condition P into CommitOK
mutual
theorem Node.fwdActive_cok : (n : Node) → n.Act → n.OK → n.P →
    (Node.fwdActive pk n).COK ∧ (Node.fwdActive pk n).OK
  | .leaf, _, _, _ => ⟨trivial, trivial⟩
  | .compo a r m s, ha, hok, hp => by
      cases a with
      | none => simp [Node.Act] at ha
      | some ai =>
        simp only [Node.Act] at ha
        simp only [Node.OK] at hok
        obtain ⟨hl, hr, hs⟩ := hok
        cases r with
        | none =>
          simp only [Node.P] at hp
          have := Subs.fwdActiveAt_cok s ai ha hs hp
          simp only [Node.fwdActive, Node.COK, Node.OK, Subs.fwdActiveAt_len]
          exact ⟨this.1, hl, hr, this.2⟩
        | some ri =>
          have hri : ri < s.len := hr ri rfl
          have := Subs.fwdRequestAt_res pk s ri hri hs
          simp only [Node.fwdActive, Node.COK, Node.OK, Subs.fwdRequestAt_len]
          exact ⟨this.1, hl, hr, this.2⟩
  | .ortho s, ha, hok, hp => by
      simp only [Node.Act] at ha
      simp only [Node.OK] at hok
      simp only [Node.P] at hp
      have := Subs.fwdActiveBits_cok s ha hok hp
      simp only [Node.fwdActive, Node.COK, Node.OK]
      exact this
theorem Subs.fwdActiveAt_cok : (s : Subs) → (i : Nat) → s.ActAt i → s.OKAll → s.PAt i →
    (Subs.fwdActiveAt pk s i).COKAt i ∧ (Subs.fwdActiveAt pk s i).OKAll
  | .nil, _, h, _, _ => by simp [Subs.ActAt] at h
  | .cons b n r, 0, ha, hok, hp => by
      simp only [Subs.ActAt] at ha
      simp only [Subs.OKAll] at hok
      simp only [Subs.PAt] at hp
      have := Node.fwdActive_cok n ha.1 hok.1 hp
      simp only [Subs.fwdActiveAt, Subs.COKAt, Subs.OKAll]
      exact ⟨this.1, this.2, hok.2⟩
  | .cons b n r, i+1, ha, hok, hp => by
      simp only [Subs.ActAt] at ha
      simp only [Subs.OKAll] at hok
      simp only [Subs.PAt] at hp
      have := Subs.fwdActiveAt_cok r i ha.2 hok.2 hp
      simp only [Subs.fwdActiveAt, Subs.COKAt, Subs.OKAll]
      exact ⟨this.1, hok.1, this.2⟩
theorem Subs.fwdActiveBits_cok : (s : Subs) → s.ActAll → s.OKAll → s.PBits →
    (Subs.fwdActiveBits pk s).COKAll ∧ (Subs.fwdActiveBits pk s).OKAll
  | .nil, _, _, _ => by simp [Subs.fwdActiveBits, Subs.COKAll, Subs.OKAll]
  | .cons b n r, ha, hok, hp => by
      simp only [Subs.ActAll] at ha
      simp only [Subs.OKAll] at hok
      simp only [Subs.PBits] at hp
      have h2 := Subs.fwdActiveBits_cok r ha.2 hok.2 hp.2
      cases b with
      | false =>
        simp only [Subs.fwdActiveBits, Subs.COKAll, Subs.OKAll]
        exact ⟨⟨by simpa using hp.1, h2.1⟩, hok.1, h2.2⟩
      | true =>
        have h1 := Node.fwdActive_cok n ha.1 hok.1 (by simpa using hp.1)
        simp only [Subs.fwdActiveBits, Subs.COKAll, Subs.OKAll]
        exact ⟨⟨by simpa using h1.1, h2.1⟩, by simpa using h1.2, h2.2⟩
end
end
#print axioms Node.fwdActive_cok
