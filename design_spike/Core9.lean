import Core8
set_option autoImplicit false

theorem Subs.setBit_skel : (s : Subs) → (i : Nat) → (s.setBit i).skelAll = s.skelAll
  | .nil, _ => rfl
  | .cons b n r, 0 => by simp [Subs.setBit, Subs.skelAll]
  | .cons b n r, i+1 => by simp [Subs.setBit, Subs.skelAll, Subs.setBit_skel r i]

mutual
theorem Node.mark_skel : (n : Node) → (p : List Nat) → (n.mark p).1.skel = n.skel
  | .leaf, p => by cases p <;> simp [Node.mark]
  | .compo a r m s, [] => by simp [Node.mark]
  | .compo a r m s, i :: rest => by
      have ih := Subs.markAt_skel s i rest
      simp only [Node.mark]
      generalize s.markAt i rest = res at ih
      obtain ⟨s', ph⟩ := res
      simp only at ih
      cases ph with
      | p1 => simp [Node.skel, ih]
      | p2 => simp only; split <;> simp [Node.skel, ih]
      | p3 => simp [Node.skel, ih]
  | .ortho s, [] => by simp [Node.mark]
  | .ortho s, i :: rest => by
      have ih := Subs.markAt_skel s i rest
      simp only [Node.mark]
      generalize s.markAt i rest = res at ih
      obtain ⟨s', ph⟩ := res
      simp only at ih
      simp [Node.skel, Subs.setBit_skel, ih]
theorem Subs.markAt_skel : (s : Subs) → (i : Nat) → (p : List Nat) → (s.markAt i p).1.skelAll = s.skelAll
  | .nil, _, _ => rfl
  | .cons b n r, 0, p => by simp [Subs.markAt, Subs.skelAll, Node.mark_skel n p]
  | .cons b n r, i+1, p => by simp [Subs.markAt, Subs.skelAll, Subs.markAt_skel r i p]
end

-- a clean (inactive) sub-tree never sends the walk into phase 3
mutual
theorem Node.mark_clean_phase : (n : Node) → (p : List Nat) → n.Clean → (n.mark p).2 ≠ .p3
  | .leaf, p, _ => by cases p <;> simp [Node.mark]
  | .compo a r m s, [], _ => by simp [Node.mark]
  | .compo a r m s, i :: rest, h => by
      simp only [Node.Clean] at h
      have ih := Subs.markAt_clean_phase s i rest h.2
      simp only [Node.mark]
      generalize s.markAt i rest = res at ih
      obtain ⟨s', ph⟩ := res
      simp only at ih
      cases ph with
      | p1 => simp
      | p2 => simp [h.1]
      | p3 => exact absurd rfl ih
  | .ortho s, [], _ => by simp [Node.mark]
  | .ortho s, i :: rest, h => by
      simp only [Node.Clean] at h
      have ih := Subs.markAt_clean_phase s i rest h
      simp only [Node.mark]
      generalize s.markAt i rest = res at ih
      obtain ⟨s', ph⟩ := res
      exact ih
theorem Subs.markAt_clean_phase : (s : Subs) → (i : Nat) → (p : List Nat) → s.CleanAll → (s.markAt i p).2 ≠ .p3
  | .nil, _, _, _ => by simp [Subs.markAt]
  | .cons b n r, 0, p, h => by
      simp only [Subs.CleanAll] at h
      simpa [Subs.markAt] using Node.mark_clean_phase n p h.1
  | .cons b n r, i+1, p, h => by
      simp only [Subs.CleanAll] at h
      simpa [Subs.markAt] using Subs.markAt_clean_phase r i p h.2
end

/-- in an active region, phase 3 can only come back from the active child -/
theorem Subs.markAt_p3_active : (s : Subs) → (ai i : Nat) → (p : List Nat) → s.ActAt ai →
    (s.markAt i p).2 = .p3 → i = ai
  | .nil, _, _, _, h, _ => by simp [Subs.ActAt] at h
  | .cons b n r, 0, 0, _, _, _ => rfl
  | .cons b n r, 0, i+1, p, h, hp => by
      simp only [Subs.ActAt] at h
      have := Subs.markAt_clean_phase r i p h.2
      simp [Subs.markAt] at hp
      exact absurd hp this
  | .cons b n r, ai+1, 0, p, h, hp => by
      simp only [Subs.ActAt] at h
      have := Node.mark_clean_phase n p h.1
      simp [Subs.markAt] at hp
      exact absurd hp this
  | .cons b n r, ai+1, i+1, p, h, hp => by
      simp only [Subs.ActAt] at h
      simp [Subs.markAt] at hp
      have := Subs.markAt_p3_active r ai i p h.2 hp
      omega
#print axioms Subs.markAt_p3_active
