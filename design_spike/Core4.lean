import Core3
set_option autoImplicit false

mutual
def Node.OK : Node → Prop
  | .leaf => True
  | .compo _ r _ s => 0 < s.len ∧ (∀ i, r = some i → i < s.len) ∧ s.OKAll
  | .ortho s => s.OKAll
def Subs.OKAll : Subs → Prop
  | .nil => True
  | .cons _ n r => n.OK ∧ r.OKAll
end

section
variable (pk : Pick)

theorem Subs.requestAt_len : (s : Subs) → (i : Nat) → (Subs.requestAt pk s i).len = s.len
  | .nil, _ => by simp [Subs.requestAt, Subs.len]
  | .cons b n r, 0 => by simp [Subs.requestAt, Subs.len]
  | .cons b n r, i+1 => by simp [Subs.requestAt, Subs.len, Subs.requestAt_len r i]

-- request resolves the whole sub-tree and keeps it OK
mutual
theorem Node.request_res : (n : Node) → n.OK → (Node.request pk n).Res ∧ (Node.request pk n).OK
  | .leaf, _ => ⟨trivial, trivial⟩
  | .compo a r m s, h => by
      simp only [Node.OK] at h
      obtain ⟨hl, _, hs⟩ := h
      have hi : pk.ch s.len a < s.len := pk.ok _ _ hl
      have := Subs.requestAt_res s (pk.ch s.len a) hi hs
      simp only [Node.request, Node.Res, Node.OK, Subs.requestAt_len]
      refine ⟨this.1, hl, ?_, this.2⟩
      intro i hi'; cases hi'; exact hi
  | .ortho s, h => by
      simp only [Node.OK] at h
      have := Subs.requestAll_res s h
      simp only [Node.request, Node.Res, Node.OK]
      exact this
theorem Subs.requestAt_res : (s : Subs) → (i : Nat) → i < s.len → s.OKAll →
    (Subs.requestAt pk s i).ResAt i ∧ (Subs.requestAt pk s i).OKAll
  | .nil, _, h, _ => by simp [Subs.len] at h
  | .cons b n r, 0, _, hs => by
      simp only [Subs.OKAll] at hs
      have := Node.request_res n hs.1
      simp only [Subs.requestAt, Subs.ResAt, Subs.OKAll]
      exact ⟨this.1, this.2, hs.2⟩
  | .cons b n r, i+1, h, hs => by
      simp only [Subs.OKAll] at hs
      simp only [Subs.len] at h
      have := Subs.requestAt_res r i (by omega) hs.2
      simp only [Subs.requestAt, Subs.ResAt, Subs.OKAll]
      exact ⟨this.1, hs.1, this.2⟩
theorem Subs.requestAll_res : (s : Subs) → s.OKAll →
    (Subs.requestAll pk s).ResAll ∧ (Subs.requestAll pk s).OKAll
  | .nil, _ => by simp [Subs.requestAll, Subs.ResAll, Subs.OKAll]
  | .cons b n r, hs => by
      simp only [Subs.OKAll] at hs
      have h1 := Node.request_res n hs.1
      have h2 := Subs.requestAll_res r hs.2
      simp only [Subs.requestAll, Subs.ResAll, Subs.OKAll]
      exact ⟨⟨h1.1, h2.1⟩, h1.2, h2.2⟩
end

theorem Subs.fwdRequestAt_len : (s : Subs) → (i : Nat) → (Subs.fwdRequestAt pk s i).len = s.len
  | .nil, _ => by simp [Subs.fwdRequestAt, Subs.len]
  | .cons b n r, 0 => by simp [Subs.fwdRequestAt, Subs.len]
  | .cons b n r, i+1 => by simp [Subs.fwdRequestAt, Subs.len, Subs.fwdRequestAt_len r i]

-- T1: fwdRequest establishes Res unconditionally (on OK trees)
mutual
theorem Node.fwdRequest_res : (n : Node) → n.OK → (Node.fwdRequest pk n).Res ∧ (Node.fwdRequest pk n).OK
  | .leaf, _ => ⟨trivial, trivial⟩
  | .compo a r m s, h => by
      cases r with
      | none => simpa [Node.fwdRequest] using Node.request_res pk (.compo a none m s) h
      | some ri =>
        simp only [Node.OK] at h
        obtain ⟨hl, hr, hs⟩ := h
        have hri : ri < s.len := hr ri rfl
        have := Subs.fwdRequestAt_res s ri hri hs
        simp only [Node.fwdRequest, Node.Res, Node.OK, Subs.fwdRequestAt_len]
        exact ⟨this.1, hl, hr, this.2⟩
  | .ortho s, h => by
      simp only [Node.OK] at h
      simp only [Node.fwdRequest]
      split
      · have := Subs.fwdRequestAll_res s h
        simpa [Node.Res, Node.OK] using this
      · have := Subs.requestAll_res pk s h
        simpa [Node.Res, Node.OK] using this
theorem Subs.fwdRequestAt_res : (s : Subs) → (i : Nat) → i < s.len → s.OKAll →
    (Subs.fwdRequestAt pk s i).ResAt i ∧ (Subs.fwdRequestAt pk s i).OKAll
  | .nil, _, h, _ => by simp [Subs.len] at h
  | .cons b n r, 0, _, hs => by
      simp only [Subs.OKAll] at hs
      have := Node.fwdRequest_res n hs.1
      simp only [Subs.fwdRequestAt, Subs.ResAt, Subs.OKAll]
      exact ⟨this.1, this.2, hs.2⟩
  | .cons b n r, i+1, h, hs => by
      simp only [Subs.OKAll] at hs
      simp only [Subs.len] at h
      have := Subs.fwdRequestAt_res r i (by omega) hs.2
      simp only [Subs.fwdRequestAt, Subs.ResAt, Subs.OKAll]
      exact ⟨this.1, hs.1, this.2⟩
theorem Subs.fwdRequestAll_res : (s : Subs) → s.OKAll →
    (Subs.fwdRequestAll pk s).ResAll ∧ (Subs.fwdRequestAll pk s).OKAll
  | .nil, _ => by simp [Subs.fwdRequestAll, Subs.ResAll, Subs.OKAll]
  | .cons b n r, hs => by
      simp only [Subs.OKAll] at hs
      have h1 := Node.fwdRequest_res n hs.1
      have h2 := Subs.fwdRequestAll_res r hs.2
      simp only [Subs.fwdRequestAll, Subs.ResAll, Subs.OKAll]
      exact ⟨⟨h1.1, h2.1⟩, h1.2, h2.2⟩
end
end
#print axioms Node.fwdRequest_res
