import Core7
set_option autoImplicit false

mutual
def Node.HasPath : Node → List Nat → Prop
  | .leaf, p => p = []
  | .compo _ _ _ s, p => match p with | [] => True | i :: rest => s.HasPathAt i rest
  | .ortho s, p => match p with | [] => True | i :: rest => s.HasPathAt i rest
def Subs.HasPathAt : Subs → Nat → List Nat → Prop
  | .nil, _, _ => False
  | .cons _ n _, 0, p => n.HasPath p
  | .cons _ _ r, i+1, p => r.HasPathAt i p
end

theorem Subs.hasPathAt_lt : (s : Subs) → (i : Nat) → (p : List Nat) → s.HasPathAt i p → i < s.len
  | .nil, _, _, h => by simp [Subs.HasPathAt] at h
  | .cons b n r, 0, _, _ => by simp [Subs.len]
  | .cons b n r, i+1, p, h => by
      simp only [Subs.HasPathAt] at h
      have := Subs.hasPathAt_lt r i p h
      simp only [Subs.len]; omega

theorem Subs.setBit_len : (s : Subs) → (i : Nat) → (s.setBit i).len = s.len
  | .nil, _ => rfl
  | .cons b n r, 0 => by simp [Subs.setBit, Subs.len]
  | .cons b n r, i+1 => by simp [Subs.setBit, Subs.len, Subs.setBit_len r i]

theorem Subs.setBit_ok : (s : Subs) → (i : Nat) → s.OKAll → (s.setBit i).OKAll
  | .nil, _, _ => by simp [Subs.setBit, Subs.OKAll]
  | .cons b n r, 0, h => by simpa [Subs.setBit, Subs.OKAll] using h
  | .cons b n r, i+1, h => by
      simp only [Subs.OKAll] at h
      simp only [Subs.setBit, Subs.OKAll]
      exact ⟨h.1, Subs.setBit_ok r i h.2⟩

/-! marking keeps the tree OK and only ever returns p3 from an active sub-tree -/
mutual
theorem Node.mark_ok : (n : Node) → (p : List Nat) → n.OK → n.HasPath p → (n.mark p).1.OK
  | .leaf, p, _, _ => by cases p <;> simp [Node.mark, Node.OK]
  | .compo a r m s, [], h, _ => by simpa [Node.mark] using h
  | .compo a r m s, i :: rest, h, hp => by
      simp only [Node.OK] at h
      obtain ⟨hl, hr, hs⟩ := h
      simp only [Node.HasPath] at hp
      have hi := Subs.hasPathAt_lt s i rest hp
      have ih := Subs.markAt_ok s i rest hs hp
      simp only [Node.mark]
      generalize hm : s.markAt i rest = res at ih
      obtain ⟨s', ph⟩ := res
      simp only at ih
      cases ph with
      | p1 =>
        simp only [Node.OK, ih.1]
        exact ⟨hl, by intro j hj; cases hj; exact hi, ih.2⟩
      | p2 =>
        simp only
        split
        · simp only [Node.OK, ih.1]
          exact ⟨hl, by intro j hj; cases hj; exact hi, ih.2⟩
        · simp only [Node.OK, ih.1]
          exact ⟨hl, hr, ih.2⟩
      | p3 =>
        simp only [Node.OK, ih.1]
        exact ⟨hl, hr, ih.2⟩
  | .ortho s, [], h, _ => by simpa [Node.mark] using h
  | .ortho s, i :: rest, h, hp => by
      simp only [Node.OK] at h
      simp only [Node.HasPath] at hp
      have ih := Subs.markAt_ok s i rest h hp
      simp only [Node.mark]
      generalize hm : s.markAt i rest = res at ih
      obtain ⟨s', ph⟩ := res
      simp only [Node.OK]
      exact Subs.setBit_ok s' i ih.2
theorem Subs.markAt_ok : (s : Subs) → (i : Nat) → (p : List Nat) → s.OKAll → s.HasPathAt i p →
    (s.markAt i p).1.len = s.len ∧ (s.markAt i p).1.OKAll
  | .nil, _, _, _, h => by simp [Subs.HasPathAt] at h
  | .cons b n r, 0, p, h, hp => by
      simp only [Subs.OKAll] at h
      simp only [Subs.HasPathAt] at hp
      have := Node.mark_ok n p h.1 hp
      simp only [Subs.markAt, Subs.len, Subs.OKAll]
      exact ⟨trivial, this, h.2⟩
  | .cons b n r, i+1, p, h, hp => by
      simp only [Subs.OKAll] at h
      simp only [Subs.HasPathAt] at hp
      have := Subs.markAt_ok r i p h.2 hp
      simp only [Subs.markAt, Subs.len, Subs.OKAll]
      exact ⟨by omega, h.1, this.2⟩
end
#print axioms Node.mark_ok
