import Core5
set_option autoImplicit false

/-! activity skeleton: forget marks -/
mutual
def Node.skel : Node → Node
  | .leaf => .leaf
  | .compo a _ _ s => .compo a none false s.skelAll
  | .ortho s => .ortho s.skelAll
def Subs.skelAll : Subs → Subs
  | .nil => .nil
  | .cons _ n r => .cons false n.skel r.skelAll
end

mutual
theorem Node.act_skel : (n : Node) → (n.skel.Act ↔ n.Act) ∧ (n.skel.Clean ↔ n.Clean)
  | .leaf => by simp [Node.skel]
  | .compo a r m s => by
      have h := Subs.act_skelAll s
      simp only [Node.skel, Node.Act, Node.Clean, h.2.1]
      refine ⟨?_, trivial⟩
      cases a with
      | none => simp
      | some ai => exact h.2.2 ai
  | .ortho s => by
      have h := Subs.act_skelAll s
      simp only [Node.skel, Node.Act, Node.Clean]
      exact ⟨h.1, h.2.1⟩
theorem Subs.act_skelAll : (s : Subs) →
    (s.skelAll.ActAll ↔ s.ActAll) ∧ (s.skelAll.CleanAll ↔ s.CleanAll) ∧ (∀ j, s.skelAll.ActAt j ↔ s.ActAt j)
  | .nil => by simp [Subs.skelAll]
  | .cons b n r => by
      have h1 := Node.act_skel n
      have h2 := Subs.act_skelAll r
      simp only [Subs.skelAll, Subs.ActAll, Subs.CleanAll, h1.1, h1.2, h2.1, h2.2.1, true_and]
      intro j; cases j <;> simp [Subs.ActAt, h1.1, h1.2, h2.2.1, h2.2.2]
end

theorem Node.act_of_skel_eq {n n' : Node} (h : n'.skel = n.skel) : (n'.Act ↔ n.Act) ∧ (n'.Clean ↔ n.Clean) := by
  have a := Node.act_skel n; have b := Node.act_skel n'
  rw [h] at b
  exact ⟨b.1.symm.trans a.1, b.2.symm.trans a.2⟩

section
variable (pk : Pick)

mutual
theorem Node.request_skel : (n : Node) → (Node.request pk n).skel = n.skel
  | .leaf => rfl
  | .compo a r m s => by simp [Node.request, Node.skel, Subs.requestAt_skel s]
  | .ortho s => by simp [Node.request, Node.skel, Subs.requestAll_skel s]
theorem Subs.requestAt_skel : (s : Subs) → (i : Nat) → (Subs.requestAt pk s i).skelAll = s.skelAll
  | .nil, _ => rfl
  | .cons b n r, 0 => by simp [Subs.requestAt, Subs.skelAll, Node.request_skel n]
  | .cons b n r, i+1 => by simp [Subs.requestAt, Subs.skelAll, Subs.requestAt_skel r i]
theorem Subs.requestAll_skel : (s : Subs) → (Subs.requestAll pk s).skelAll = s.skelAll
  | .nil => rfl
  | .cons b n r => by simp [Subs.requestAll, Subs.skelAll, Node.request_skel n, Subs.requestAll_skel r]
end

mutual
theorem Node.fwdRequest_skel : (n : Node) → (Node.fwdRequest pk n).skel = n.skel
  | .leaf => rfl
  | .compo a r m s => by
      cases r with
      | none => simpa [Node.fwdRequest] using Node.request_skel pk (.compo a none m s)
      | some ri => simp [Node.fwdRequest, Node.skel, Subs.fwdRequestAt_skel s]
  | .ortho s => by
      simp only [Node.fwdRequest]
      split
      · simp [Node.skel, Subs.fwdRequestAll_skel s]
      · simp [Node.skel, Subs.requestAll_skel pk s]
theorem Subs.fwdRequestAt_skel : (s : Subs) → (i : Nat) → (Subs.fwdRequestAt pk s i).skelAll = s.skelAll
  | .nil, _ => rfl
  | .cons b n r, 0 => by simp [Subs.fwdRequestAt, Subs.skelAll, Node.fwdRequest_skel n]
  | .cons b n r, i+1 => by simp [Subs.fwdRequestAt, Subs.skelAll, Subs.fwdRequestAt_skel r i]
theorem Subs.fwdRequestAll_skel : (s : Subs) → (Subs.fwdRequestAll pk s).skelAll = s.skelAll
  | .nil => rfl
  | .cons b n r => by simp [Subs.fwdRequestAll, Subs.skelAll, Node.fwdRequest_skel n, Subs.fwdRequestAll_skel r]
end

mutual
theorem Node.fwdActive_skel : (n : Node) → (Node.fwdActive pk n).skel = n.skel
  | .leaf => rfl
  | .compo a r m s => by
      cases r with
      | none => cases a with
        | none => rfl
        | some ai => simp [Node.fwdActive, Node.skel, Subs.fwdActiveAt_skel s]
      | some ri => simp [Node.fwdActive, Node.skel, Subs.fwdRequestAt_skel pk s]
  | .ortho s => by simp [Node.fwdActive, Node.skel, Subs.fwdActiveBits_skel s]
theorem Subs.fwdActiveAt_skel : (s : Subs) → (i : Nat) → (Subs.fwdActiveAt pk s i).skelAll = s.skelAll
  | .nil, _ => rfl
  | .cons b n r, 0 => by simp [Subs.fwdActiveAt, Subs.skelAll, Node.fwdActive_skel n]
  | .cons b n r, i+1 => by simp [Subs.fwdActiveAt, Subs.skelAll, Subs.fwdActiveAt_skel r i]
theorem Subs.fwdActiveBits_skel : (s : Subs) → (Subs.fwdActiveBits pk s).skelAll = s.skelAll
  | .nil => rfl
  | .cons b n r => by
      cases b <;> simp [Subs.fwdActiveBits, Subs.skelAll, Node.fwdActive_skel n, Subs.fwdActiveBits_skel r]
end
end
