import Core9
set_option autoImplicit false

theorem Subs.setBit_PBits : (s : Subs) → (i : Nat) → s.PBits → (∀ j, j = i → s.PAt j) → (s.setBit i).PBits
  | .nil, _, _, _ => by simp [Subs.setBit, Subs.PBits]
  | .cons b n r, 0, h, hi => by
      simp only [Subs.PBits] at h
      have := hi 0 rfl
      simp only [Subs.PAt] at this
      simp only [Subs.setBit, Subs.PBits]
      exact ⟨by simpa using this, h.2⟩
  | .cons b n r, i+1, h, hi => by
      simp only [Subs.PBits] at h
      have := hi (i+1) rfl
      simp only [Subs.PAt] at this
      simp only [Subs.setBit, Subs.PBits]
      exact ⟨h.1, Subs.setBit_PBits r i h.2 (by intro j hj; subst hj; exact this)⟩

-- (B) marking one request on a CommitOK active tree yields the pre-forward condition P
mutual
theorem Node.mark_P : (n : Node) → (p : List Nat) → n.Act → n.COK → n.HasPath p → (n.mark p).1.P
  | .leaf, p, _, _, _ => by cases p <;> simp [Node.mark, Node.P]
  | .compo a r m s, [], _, hc, _ => by simpa [Node.mark] using Node.COK_imp_P _ hc
  | .compo a r m s, i :: rest, ha, hc, hp => by
      cases a with
      | none => simp [Node.Act] at ha
      | some ai =>
        simp only [Node.Act] at ha
        simp only [Node.HasPath] at hp
        have hph := Subs.markAt_p3_active s ai i rest ha
        simp only [Node.mark]
        cases r with
        | some ri =>
          generalize s.markAt i rest = res
          obtain ⟨s', ph⟩ := res
          cases ph with
          | p1 => simp [Node.P]
          | p2 => simp only; split <;> simp [Node.P]
          | p3 => simp [Node.P]
        | none =>
          simp only [Node.COK] at hc
          have ihP : i = ai → (s.markAt i rest).1.PAt ai := by
            intro e; subst e; exact Subs.markAt_PAt s i rest ha hc hp
          generalize hm : s.markAt i rest = res at hph ihP
          obtain ⟨s', ph⟩ := res
          simp only at hph ihP
          cases ph with
          | p1 => simp [Node.P]
          | p2 =>
            simp only
            split
            · simp [Node.P]
            · next hcond =>
              have e : ai = i := by
                cases Nat.decEq ai i with
                | isTrue e => exact e
                | isFalse ne => exact absurd (Or.inr (by simpa using ne)) hcond
              simp only [Node.P]
              exact ihP e.symm
          | p3 =>
            simp only [Node.P]
            exact ihP (hph rfl)
  | .ortho s, [], _, hc, _ => by simpa [Node.mark] using Node.COK_imp_P _ hc
  | .ortho s, i :: rest, ha, hc, hp => by
      simp only [Node.Act] at ha
      simp only [Node.COK] at hc
      simp only [Node.HasPath] at hp
      have ih := Subs.markAt_PBits s i rest ha hc hp
      simp only [Node.mark]
      generalize s.markAt i rest = res at ih
      obtain ⟨s', ph⟩ := res
      simp only at ih
      simp only [Node.P]
      exact ih
theorem Subs.markAt_PAt : (s : Subs) → (i : Nat) → (p : List Nat) → s.ActAt i → s.COKAt i → s.HasPathAt i p →
    (s.markAt i p).1.PAt i
  | .nil, _, _, h, _, _ => by simp [Subs.ActAt] at h
  | .cons b n r, 0, p, ha, hc, hp => by
      simp only [Subs.ActAt] at ha
      simp only [Subs.COKAt] at hc
      simp only [Subs.HasPathAt] at hp
      simpa [Subs.markAt, Subs.PAt] using Node.mark_P n p ha.1 hc hp
  | .cons b n r, i+1, p, ha, hc, hp => by
      simp only [Subs.ActAt] at ha
      simp only [Subs.COKAt] at hc
      simp only [Subs.HasPathAt] at hp
      simpa [Subs.markAt, Subs.PAt] using Subs.markAt_PAt r i p ha.2 hc hp
theorem Subs.markAt_PBits : (s : Subs) → (i : Nat) → (p : List Nat) → s.ActAll → s.COKAll → s.HasPathAt i p →
    ((s.markAt i p).1.setBit i).PBits
  | .nil, _, _, _, _, h => by simp [Subs.HasPathAt] at h
  | .cons b n r, 0, p, ha, hc, hp => by
      simp only [Subs.ActAll] at ha
      simp only [Subs.COKAll] at hc
      simp only [Subs.HasPathAt] at hp
      have h1 := Node.mark_P n p ha.1 hc.1 hp
      have h2 := Subs.COKAll_imp_PBits r hc.2
      simp only [Subs.markAt, Subs.setBit, Subs.PBits]
      exact ⟨by simpa using h1, h2⟩
  | .cons b n r, i+1, p, ha, hc, hp => by
      simp only [Subs.ActAll] at ha
      simp only [Subs.COKAll] at hc
      simp only [Subs.HasPathAt] at hp
      have ih := Subs.markAt_PBits r i p ha.2 hc.2 hp
      simp only [Subs.markAt, Subs.setBit, Subs.PBits]
      refine ⟨?_, ih⟩
      cases b
      · simpa using hc.1
      · simpa using Node.COK_imp_P n hc.1
end
#print axioms Node.mark_P

/-! ### the batch theorem of the miniature: any list of requests, then commit, keeps the tree well-formed -/
section
variable (pk : Pick)

def applyReq (n : Node) (p : List Nat) : Node := Node.fwdActive pk (n.mark p).1

structure TreeInv (n : Node) : Prop where
  act : n.Act
  ok  : n.OK
  cok : n.COK

theorem applyReq_inv (n : Node) (p : List Nat) (h : TreeInv n) (hp : n.HasPath p) : TreeInv (applyReq pk n p) := by
  have hs : (n.mark p).1.skel = n.skel := Node.mark_skel n p
  have hact : (n.mark p).1.Act := (Node.act_of_skel_eq hs).1.mpr h.act
  have hok := Node.mark_ok n p h.ok hp
  have hP := Node.mark_P n p h.act h.cok hp
  have hf := Node.fwdActive_cok pk _ hact hok hP
  have hs2 : (applyReq pk n p).skel = (n.mark p).1.skel := Node.fwdActive_skel pk _
  exact ⟨(Node.act_of_skel_eq hs2).1.mpr hact, hf.2, hf.1⟩

theorem batch_commit_act (n : Node) (h : TreeInv n) (ps : List (List Nat))
    (hps : ∀ m : Node, m.skel = n.skel → ∀ p ∈ ps, m.HasPath p) :
    (ps.foldl (applyReq pk) n).commit.Act := by
  suffices TreeInv (ps.foldl (applyReq pk) n) from Node.commit_act _ this.act this.cok
  induction ps generalizing n with
  | nil => exact h
  | cons p ps ih =>
    simp only [List.foldl]
    have hs : (applyReq pk n p).skel = n.skel := by
      unfold applyReq; rw [Node.fwdActive_skel, Node.mark_skel]
    apply ih _ (applyReq_inv pk n p h (hps n rfl p (List.mem_cons_self ..)))
    intro m hm q hq
    exact hps m (hm.trans hs) q (List.mem_cons_of_mem _ hq)
end
#print axioms batch_commit_act
