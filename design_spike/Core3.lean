import Core2
set_option autoImplicit false

/-! request resolution, forward passes, three-phase marking -/

def Subs.anyBit : Subs → Bool
  | .nil => false
  | .cons b _ r => b || r.anyBit

def Subs.setBit : Subs → Nat → Subs
  | .nil, _ => .nil
  | .cons _ n r, 0 => .cons true n r
  | .cons b n r, i+1 => .cons b n (r.setBit i)

section
variable (pk : Pick)

mutual
def Node.request : Node → Node
  | .leaf => .leaf
  | .compo a _ m s =>
      let i := pk.ch s.len a     -- (resumable not in the miniature; any oracle)
      .compo a (some i) m (s.requestAt i)
  | .ortho s => .ortho s.requestAll
def Subs.requestAt : Subs → Nat → Subs
  | .nil, _ => .nil
  | .cons b n r, 0 => .cons b n.request r
  | .cons b n r, i+1 => .cons b n (r.requestAt i)
def Subs.requestAll : Subs → Subs
  | .nil => .nil
  | .cons b n r => .cons b n.request r.requestAll
end

mutual
def Node.fwdRequest : Node → Node
  | .leaf => .leaf
  | .compo a r m s =>
      match r with
      | some ri => .compo a r m (s.fwdRequestAt ri)
      | none => Node.request pk (.compo a r m s)
  | .ortho s => if s.anyBit then .ortho s.fwdRequestAll else .ortho (Subs.requestAll pk s)
def Subs.fwdRequestAt : Subs → Nat → Subs
  | .nil, _ => .nil
  | .cons b n r, 0 => .cons b n.fwdRequest r
  | .cons b n r, i+1 => .cons b n (r.fwdRequestAt i)
def Subs.fwdRequestAll : Subs → Subs
  | .nil => .nil
  | .cons b n r => .cons b n.fwdRequest r.fwdRequestAll
end

mutual
def Node.fwdActive : Node → Node
  | .leaf => .leaf
  | .compo a r m s =>
      match r with
      | none => (match a with
                 | some ai => .compo a r m (s.fwdActiveAt ai)
                 | none => .compo a r m s)
      | some ri => .compo a r m (Subs.fwdRequestAt pk s ri)
  | .ortho s => .ortho s.fwdActiveBits
def Subs.fwdActiveAt : Subs → Nat → Subs
  | .nil, _ => .nil
  | .cons b n r, 0 => .cons b n.fwdActive r
  | .cons b n r, i+1 => .cons b n (r.fwdActiveAt i)
def Subs.fwdActiveBits : Subs → Subs
  | .nil => .nil
  | .cons b n r => .cons b (if b then n.fwdActive else n) r.fwdActiveBits
end

-- three-phase upward walk of requestImmediate, as a top-down recursion returning the phase
mutual
def Node.mark : Node → List Nat → Node × Phase
  | n, [] => (n, .p1)
  | .leaf, _ :: _ => (.leaf, .p1)
  | .compo a r m s, i :: rest =>
      let (s', ph) := s.markAt i rest
      match ph with
      | .p1 => (.compo a (some i) m s', .p2)
      | .p2 => if (r ≠ some i ∧ r ≠ none) ∨ a ≠ some i
               then (.compo a (some i) true s', .p2)
               else (.compo a r true s', .p3)
      | .p3 => (.compo a r true s', .p3)
  | .ortho s, i :: rest =>
      let (s', ph) := s.markAt i rest
      (.ortho (s'.setBit i), ph)
def Subs.markAt : Subs → Nat → List Nat → Subs × Phase
  | .nil, _, _ => (.nil, .p1)
  | .cons b n r, 0, p => let (n', ph) := n.mark p; (.cons b n' r, ph)
  | .cons b n r, i+1, p => let (r', ph) := r.markAt i p; (.cons b n r', ph)
end
end
