#!/usr/bin/env python3
"""Machine structures ("shapes") for the HFSM2 verification harnesses.

A shape mirrors `Hfsm.Shape` of /verif/lean/Hfsm/Model/Shape.lean:

    (L i<inj>)                                   leaf state
    (C h<0|1> i<inj> <strategy> <sub> ...)       composite region (h0 = headless `...Peers<>`)
    (O h<0|1> i<inj> <sub> ...)                  orthogonal region

`inj` is the number of injected handler bases of the (head) state, `strategy` one of
composite | resumable | selectable | utilitarian | random.

The module is deliberately free of any harness specifics so that every generator can reuse it:
parse / print of the canonical s-expression, pre-order numbering (`S<k>` names), the plain
tree-recursive "closed forms" of the structural metadata (used as an oracle that is independent of
both the library and the Lean model), C++ type-expression printing, a fixed corpus and a seeded
random generator biased to the interesting widths.
"""
from __future__ import annotations
import sys

STRATEGIES = ['composite', 'resumable', 'selectable', 'utilitarian', 'random']

# C++ alias stems in `hfsm2::detail::M_` (config.hpp)
_CPP_STEM = {
    'composite':   'Composite',
    'resumable':   'Resumable',
    'selectable':  'Selectable',
    'utilitarian': 'Utilitarian',
    'random':      'Random',
}


class Shape:
    """kind: 'L' | 'C' | 'O'.  After `number()`: id (pre-order), name `S<id>`, parent, prong,
    path (tuple of declaration positions from the root)."""
    __slots__ = ('kind', 'headed', 'inj', 'strategy', 'subs',
                 'id', 'name', 'parent', 'prong', 'path',
                 'compo_index', 'ortho_index', 'ortho_unit', 'region_id')

    def __init__(self, kind, headed=True, inj=0, strategy=None, subs=()):
        assert kind in ('L', 'C', 'O')
        self.kind = kind
        self.headed = bool(headed) if kind != 'L' else True
        self.inj = int(inj)
        self.strategy = strategy if kind == 'C' else None
        if kind == 'C':
            assert strategy in STRATEGIES, strategy
        self.subs = list(subs) if kind != 'L' else []
        self.id = self.name = self.parent = self.prong = self.path = None
        self.compo_index = self.ortho_index = self.ortho_unit = self.region_id = None

    # -- structure ---------------------------------------------------------------------------
    @property
    def is_region(self):
        return self.kind != 'L'

    @property
    def width(self):
        return len(self.subs) if self.is_region else 1

    def nodes(self):
        """Depth-first pre-order: the node itself (= its head state), then the sub-states in
        declaration order."""
        out = [self]
        for s in self.subs:
            out.extend(s.nodes())
        return out

    def regions(self):
        return [n for n in self.nodes() if n.is_region]

    def copy(self):
        return Shape(self.kind, self.headed, self.inj, self.strategy, [s.copy() for s in self.subs])

    def __eq__(self, other):
        return isinstance(other, Shape) and to_sexpr(self) == to_sexpr(other)

    def __hash__(self):
        return hash(to_sexpr(self))

    def __repr__(self):
        return to_sexpr(self)

    # -- closed forms (plain tree recursion; no template arithmetic) ------------------------------
    def state_count(self):
        return len(self.nodes())

    def region_count(self):
        return len(self.regions())

    def compo_count(self):
        return sum(1 for n in self.nodes() if n.kind == 'C')

    def ortho_count(self):
        return sum(1 for n in self.nodes() if n.kind == 'O')

    def compo_prongs(self):
        return sum(n.width for n in self.nodes() if n.kind == 'C')

    def ortho_units(self):
        return sum((n.width + 7) // 8 for n in self.nodes() if n.kind == 'O')

    def reverse_depth(self):
        return 1 + max((s.reverse_depth() for s in self.subs), default=0)

    def active_bits(self):
        if self.kind == 'L':
            return 0
        if self.kind == 'C':
            return bit_contain(self.width) + max((s.active_bits() for s in self.subs), default=0)
        return sum(s.active_bits() for s in self.subs)

    def resumable_bits(self):
        return sum(bit_contain(n.width) + 1 for n in self.nodes() if n.kind == 'C')

    def serial_bits(self):
        return 1 + self.active_bits() + self.resumable_bits()

    def task_capacity(self):
        return 2 * self.compo_prongs()

    def counts(self):
        return {
            'STATE_COUNT': self.state_count(),
            'REGION_COUNT': self.region_count(),
            'COMPO_COUNT': self.compo_count(),
            'ORTHO_COUNT': self.ortho_count(),
            'ORTHO_UNITS': self.ortho_units(),
            'COMPO_PRONGS': self.compo_prongs(),
            'REVERSE_DEPTH': self.reverse_depth(),
            'WIDTH': self.width,
            'ACTIVE_BITS': self.active_bits(),
            'RESUMABLE_BITS': self.resumable_bits(),
            'SERIAL_BITS': self.serial_bits(),
            'TASK_CAPACITY': self.task_capacity(),
        }

    def valid_root(self):
        """Expressible as an `M::...Root<>`: a region, every region non-empty, at least one
        composite region (root_0.hpp static_assert), within the identifier types."""
        if not self.is_region:
            return False
        if any(n.is_region and n.width == 0 for n in self.nodes()):
            return False
        if self.compo_count() < 1:
            return False
        return fits_ids(self)


def bit_contain(v):
    """`bitContain` of shared/utility.hpp."""
    for k in range(8):
        if v <= (1 << k):
            return k
    return 8


def fits_ids(shape):
    """Bounds under which no fixed-width quantity of the library wraps (Short = uint8_t,
    Long = uint16_t; 255 / 65535 are the INVALID markers)."""
    return (shape.state_count() < 0xFFFF
            and shape.region_count() < 0xFF
            and shape.ortho_units() < 0x100
            and all(n.width < 0xFF for n in shape.nodes())
            and shape.serial_bits() < 0x10000        # RF_/ArgsT::SERIAL_BITS are `Long`s
            and shape.task_capacity() < 0xFFFF)


# -- numbering ------------------------------------------------------------------------------------

def number(root):
    """Assign pre-order ids / names `S<k>`, parents, prongs, paths and the region indices
    (compo/ortho index = rank among the composite/orthogonal regions in pre-order, ortho unit =
    sum of ceil(width/8) over the orthogonal regions before, region id = rank among regions).
    Returns the node list in pre-order."""
    nodes = root.nodes()
    ci = oi = ou = 0
    for k, n in enumerate(nodes):
        n.id = k
        n.name = 'S%d' % k
        n.compo_index, n.ortho_index, n.ortho_unit = ci, oi, ou
        n.region_id = ci + oi if n.is_region else None
        if n.kind == 'C':
            ci += 1
        elif n.kind == 'O':
            oi += 1
            ou += (n.width + 7) // 8
    root.parent, root.prong, root.path = None, None, ()
    for n in nodes:
        for p, s in enumerate(n.subs):
            s.parent, s.prong, s.path = n, p, n.path + (p,)
    return nodes


def fork_id(region):
    """`COMPO_ID` / `ORTHO_ID` of a numbered region (composite.hpp / orthogonal.hpp)."""
    return region.compo_index + 1 if region.kind == 'C' else -region.ortho_index - 1


# -- text form ------------------------------------------------------------------------------------

def to_sexpr(s):
    if s.kind == 'L':
        return '(L i%d)' % s.inj
    head = '(%s h%d i%d' % (s.kind, 1 if s.headed else 0, s.inj)
    if s.kind == 'C':
        head += ' ' + s.strategy
    return head + ''.join(' ' + to_sexpr(c) for c in s.subs) + ')'


def _tokens(text):
    return text.replace('(', ' ( ').replace(')', ' ) ').split()


def parse(text):
    toks = _tokens(text)
    pos = 0

    def need(t):
        nonlocal pos
        if pos >= len(toks) or toks[pos] != t:
            raise ValueError('expected %r at token %d of %r' % (t, pos, text))
        pos += 1

    def flag(prefix):
        nonlocal pos
        t = toks[pos]
        if not t.startswith(prefix) or not t[len(prefix):].isdigit():
            raise ValueError('expected %s<n> at token %d of %r' % (prefix, pos, text))
        pos += 1
        return int(t[len(prefix):])

    def node():
        nonlocal pos
        need('(')
        kind = toks[pos]
        pos += 1
        if kind == 'L':
            inj = flag('i')
            need(')')
            return Shape('L', inj=inj)
        if kind not in ('C', 'O'):
            raise ValueError('bad kind %r in %r' % (kind, text))
        headed = flag('h')
        inj = flag('i')
        strategy = None
        if kind == 'C':
            strategy = toks[pos]
            pos += 1
            if strategy not in STRATEGIES:
                raise ValueError('bad strategy %r' % strategy)
        subs = []
        while toks[pos] != ')':
            subs.append(node())
        need(')')
        return Shape(kind, headed, inj, strategy, subs)

    s = node()
    if pos != len(toks):
        raise ValueError('trailing tokens in %r' % text)
    return s


# -- C++ ------------------------------------------------------------------------------------------

def cpp_region(s, name_of, root=False, machine='M'):
    """C++ type expression of a numbered shape.  `name_of(node)` yields the struct name of a
    named state.  Headless regions use the `...Peers<>` aliases."""
    if s.kind == 'L':
        return name_of(s)
    subs = ', '.join(cpp_region(c, name_of, False, machine) for c in s.subs)
    if s.kind == 'C':
        stem = _CPP_STEM[s.strategy]
        if root:
            if s.strategy == 'composite':
                alias = 'Root' if s.headed else 'PeerRoot'
            else:
                alias = stem + ('Root' if s.headed else 'PeerRoot')
        else:
            alias = stem if s.headed else stem + 'Peers'
    else:
        if root:
            alias = 'OrthogonalRoot' if s.headed else 'OrthogonalPeerRoot'
        else:
            alias = 'Orthogonal' if s.headed else 'OrthogonalPeers'
    head = (name_of(s) + ', ') if s.headed else ''
    return '%s::%s<%s%s>' % (machine, alias, head, subs)


def named_states(root):
    """Numbered nodes that have a user type (everything but the heads of headless regions)."""
    return [n for n in root.nodes() if n.kind == 'L' or n.headed]


# -- construction helpers ---------------------------------------------------------------------------

def L(inj=0):
    return Shape('L', inj=inj)


def C(*subs, strategy='composite', headed=True, inj=0):
    return Shape('C', headed, inj, strategy, subs)


def O(*subs, headed=True, inj=0):
    return Shape('O', headed, inj, None, subs)


def leaves(n):
    return [L() for _ in range(n)]


# -- PRNG -------------------------------------------------------------------------------------------

class SplitMix:
    """splitmix64; every random choice of a run derives from one seed."""
    MASK = (1 << 64) - 1

    def __init__(self, seed):
        self.s = seed & self.MASK

    def next(self):
        self.s = (self.s + 0x9E3779B97F4A7C15) & self.MASK
        z = self.s
        z = ((z ^ (z >> 30)) * 0xBF58476D1CE4E5B9) & self.MASK
        z = ((z ^ (z >> 27)) * 0x94D049BB133111EB) & self.MASK
        return z ^ (z >> 31)

    def below(self, n):
        return self.next() % n if n > 0 else 0

    def chance(self, num, den):
        return self.below(den) < num

    def pick(self, seq):
        return seq[self.below(len(seq))]

    def weighted(self, pairs):
        total = sum(w for _, w in pairs)
        r = self.below(total)
        for v, w in pairs:
            if r < w:
                return v
            r -= w
        return pairs[-1][0]


# widths at which the balanced split (`sizeof...(Ts) / 2`), `bitContain` and `contain(WIDTH, 8)`
# change behaviour get most of the weight
_WIDTH_WEIGHTS = [(1, 6), (2, 10), (3, 10), (4, 6), (5, 8), (6, 4), (7, 6), (8, 8), (9, 8),
                  (10, 2), (11, 2), (12, 2), (13, 2), (15, 3), (16, 6), (17, 6), (24, 1), (25, 1),
                  (31, 1), (32, 2), (33, 2)]


def random_shape(rng, max_states=32, max_depth=5, max_width=9):
    """A random valid root shape with at most `max_states` states, height at most `max_depth`
    (root region = depth 1 ... leaves), regions no wider than `max_width`."""
    max_states = max(max_states, 2)
    max_depth = max(max_depth, 2)

    def width_for(budget):
        cap = min(max_width, budget)
        cands = [(w, k) for w, k in _WIDTH_WEIGHTS if w <= cap]
        return rng.weighted(cands) if cands else 1

    def region(budget, depth_left, force_compo):
        # budget >= 2: one head + at least one sub-state
        kind = 'C' if force_compo or rng.chance(2, 3) else 'O'
        w = width_for(budget - 1)
        rest = budget - 1 - w
        shares = [1] * w
        if depth_left > 1 and rest > 0:
            # hand the remaining budget to a few sub-states which become regions
            k = 1 + rng.below(min(w, 3))
            lucky = []
            pool = list(range(w))
            for _ in range(k):
                lucky.append(pool.pop(rng.below(len(pool))))
            for j, idx in enumerate(lucky):
                part = rest if j == len(lucky) - 1 else rng.below(rest + 1)
                shares[idx] += part
                rest -= part
        subs = []
        for sh in shares:
            if sh >= 2 and depth_left > 1:
                subs.append(region(sh, depth_left - 1, False))
            else:
                subs.append(Shape('L', inj=rng.weighted([(0, 6), (1, 2), (2, 1)])))
        headed = rng.chance(3, 4)
        inj = rng.weighted([(0, 6), (1, 2), (2, 1)]) if headed else 0
        if kind == 'C':
            return Shape('C', headed, inj, rng.pick(STRATEGIES), subs)
        return Shape('O', headed, inj, None, subs)

    for _ in range(100):
        budget = 2 + rng.below(max_states - 1)
        s = region(budget, max_depth - 1, False)
        if s.compo_count() == 0:
            # orthogonal everywhere: turn one leaf into a one-leaf composite region if it fits,
            # else retry with a composite root
            s = region(budget, max_depth - 1, True)
        if s.valid_root() and s.state_count() <= max_states and s.reverse_depth() <= max_depth:
            return s
    return C(L(), L())


# -- fixed corpus -------------------------------------------------------------------------------------

def _nest(levels, width=2):
    """`levels` nested regions cycling through the five strategies and orthogonal."""
    kinds = STRATEGIES + ['ortho']

    def build(k):
        if k == levels:
            return L()
        kind = kinds[k % len(kinds)]
        subs = [L() for _ in range(width - 1)]
        subs.insert((k * 2) % width, build(k + 1))
        headed = (k % 3) != 2
        if kind == 'ortho' and k > 0:
            return O(*subs, headed=headed)
        return C(*subs, strategy=kind if kind != 'ortho' else 'composite', headed=headed)
    return build(0)


def corpus():
    """Fixed shapes: every width 1..9 under a composite root, orthogonal byte boundaries,
    deep mixed nests, headless variants, all root aliases, and the shapes of test fixtures."""
    out = []
    # single composite root with 1..9 leaves (balanced split at every small size)
    for n in range(1, 10):
        out.append(C(*leaves(n)))
    # wider: odd/even and powers of two around bitContain steps
    for n in (15, 16, 17, 31, 32, 33):
        out.append(C(*leaves(n), strategy='resumable'))
    # orthogonal regions of width exactly 8, 9, 16, 17 (unit boundary), followed by another
    # orthogonal region so that the unit offset is observable
    for n in (1, 7, 8, 9, 16, 17):
        out.append(C(O(*leaves(n)), O(L(), L())))
        out.append(O(O(*leaves(n), headed=False), C(L(), O(L(), L(), L())), headed=True))
    # nested 3..5 levels mixing all strategies and orthogonal
    for lv in (3, 4, 5, 6):
        out.append(_nest(lv, 2))
        out.append(_nest(lv, 3))
    # headless variants
    out.append(C(L(), L(), headed=False))
    out.append(C(C(L(), L(), headed=False, strategy='resumable'), O(L(), L(), headed=False),
                 C(L(), headed=False, strategy='utilitarian'), headed=False, strategy='selectable'))
    out.append(O(C(L(), L(), headed=False), C(L(), L(), L(), headed=False, strategy='random'),
                 headed=False))
    # every root alias
    for st in STRATEGIES:
        out.append(C(L(), C(L(), L(), strategy=st), strategy=st, headed=True))
        out.append(C(L(), C(L(), L(), strategy=st, headed=False), strategy=st, headed=False))
    out.append(O(C(L(), L()), C(L(), L())))
    out.append(O(C(L(), L()), O(L(), C(L())), headed=False))
    # test_ortho_units.cpp
    out.append(C(O(*leaves(5)), O(*leaves(5)), O(*leaves(5))))
    # regions at every position of an odd/even split, sub-regions of different sizes so that a
    # wrong half offset shows
    out.append(C(C(L(), L(), L()), L(), O(L(), C(L(), L())), L(), C(L()), strategy='resumable'))
    out.append(C(L(), O(C(L(), L()), C(L(), L(), L()), L()), C(O(L(), L()), L()), L(),
                 C(L(), L()), O(L()), L(), strategy='utilitarian'))
    # injections (irrelevant for ids, must stay so)
    out.append(C(L(1), C(L(2), L(0), inj=1), O(L(0), L(1), inj=2), inj=2))
    res = []
    seen = set()
    for s in out:
        assert s.valid_root(), s
        key = to_sexpr(s)
        if key not in seen:
            seen.add(key)
            res.append(s)
    return res


def enumerate_shapes(max_states, vary_headed=False):
    """Exhaustive mode: every ordered tree with at most `max_states` nodes whose inner nodes are
    labelled composite or orthogonal (valid roots only).  Strategies rotate with the pre-order
    rank of the region; `vary_headed` additionally enumerates headed/headless for every region,
    otherwise headedness alternates with the rank."""
    from functools import lru_cache

    @lru_cache(maxsize=None)
    def forests(n):
        """all sequences of trees with n nodes in total (as tuples of nested tuples)"""
        if n == 0:
            return ((),)
        out = []
        for first in range(1, n + 1):
            for t in trees(first):
                for rest in forests(n - first):
                    out.append((t,) + rest)
        return tuple(out)

    @lru_cache(maxsize=None)
    def trees(n):
        """all trees with n nodes: ('L',) or (kind, children...)"""
        if n == 1:
            return (('L',),)
        out = []
        for f in forests(n - 1):
            out.append(('C',) + f)
            out.append(('O',) + f)
        return tuple(out)

    def variants(t):
        """shapes for one labelled tree"""
        regions = []

        def count(u):
            if u[0] != 'L':
                regions.append(u)
                for c in u[1:]:
                    count(c)
        count(t)
        nreg = len(regions)
        masks = range(1 << nreg) if vary_headed else [None]
        for mask in masks:
            rank = [0]

            def build(u):
                if u[0] == 'L':
                    return Shape('L')
                k = rank[0]
                rank[0] += 1
                headed = ((mask >> k) & 1) == 0 if mask is not None else (k % 3 != 1)
                subs = [build(c) for c in u[1:]]
                if u[0] == 'C':
                    return Shape('C', headed, 0, STRATEGIES[k % len(STRATEGIES)], subs)
                return Shape('O', headed, 0, None, subs)
            yield build(t)

    out = []
    for n in range(2, max_states + 1):
        for t in trees(n):
            if t[0] == 'L':
                continue
            for s in variants(t):
                if s.valid_root():
                    out.append(s)
    return out


def big_serial_shapes():
    """Shapes whose SERIAL_BITS reach / pass 256 (the old `Short` limit of `ArgsT::SERIAL_BITS`,
    repaired in /repo) at the smallest compile cost found: an orthogonal root (ACTIVE_BITS add up)
    over 17 chains of two-state composite regions.  188 / 190 states, SERIAL_BITS 256 / 259;
    about 11 s each at -O0."""
    def chain(d):
        s = L()
        for k in range(d):
            s = C(s, L(), strategy=STRATEGIES[k % len(STRATEGIES)])
        return s
    a = O(*[chain(5) for _ in range(17)])
    b = O(*([chain(5) for _ in range(16)] + [chain(6)]), headed=False)
    for s in (a, b):
        assert s.valid_root() and s.serial_bits() >= 256, s.counts()
    return [a, b]


def generate(seed, count, max_states=32, max_depth=5, max_width=9, with_corpus=True):
    """Corpus first, then seeded random shapes (no duplicates) up to `count` in total."""
    rng = SplitMix(seed)
    out = corpus() if with_corpus else []
    seen = {to_sexpr(s) for s in out}
    out = out[:count] if with_corpus and count < len(out) else out
    guard = 0
    while len(out) < count and guard < count * 50:
        guard += 1
        s = random_shape(rng, max_states, max_depth, max_width)
        key = to_sexpr(s)
        if key in seen:
            continue
        seen.add(key)
        out.append(s)
    return out


if __name__ == '__main__':
    import argparse
    ap = argparse.ArgumentParser(description='print shapes as s-expressions')
    ap.add_argument('--seed', type=int, default=1)
    ap.add_argument('--count', type=int, default=40)
    ap.add_argument('--max-states', type=int, default=32)
    ap.add_argument('--max-depth', type=int, default=5)
    ap.add_argument('--max-width', type=int, default=9)
    ap.add_argument('--no-corpus', action='store_true')
    a = ap.parse_args()
    for s in generate(a.seed, a.count, a.max_states, a.max_depth, a.max_width, not a.no_corpus):
        assert parse(to_sexpr(s)) == s
        print(to_sexpr(s))
