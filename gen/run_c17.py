#!/usr/bin/env python3
"""C17 correspondence run: generate shapes, emit TUs, compile against the current /repo header,
run them, concatenate the transcripts and (optionally) replay them through the Lean driver.

    run_c17.py --tier quick|thorough [--seed N] [--count N] [--jobs J] [--out DIR] [--driver PATH]
               [--include DIR] [--per-tu K] [--sanitize] [--syntax-only] [--shapes FILE]
               [--exhaustive N [--vary-headed]]

Prints measured timings and the aggregated `# stat` lines; exit status 0 iff every TU compiled and
ran, no ORACLE-FAIL line was printed and (when a driver is given) the replay ended with `OK`.
"""
from __future__ import annotations
import sys, os, time, subprocess, argparse, concurrent.futures as cf
sys.path.insert(0, os.path.dirname(os.path.abspath(__file__)))
import shapes as S
import emit_c17 as E

HARNESS_DIR = os.path.normpath(os.path.join(os.path.dirname(os.path.abspath(__file__)), '..', 'harness'))

TIERS = {
    # count, max_states, max_depth, max_width, shapes per TU
    'quick':    dict(count=80,   max_states=32, max_depth=5, max_width=9,  per_tu=5, exhaustive=4, big=False),
    'thorough': dict(count=1000, max_states=64, max_depth=8, max_width=33, per_tu=8, exhaustive=6, big=True),
}


def build_one(job):
    idx, text, outdir, include, sanitize, syntax_only, harness_dir = job
    src = os.path.join(outdir, 'c17_%04d.cpp' % idx)
    exe = os.path.join(outdir, 'c17_%04d' % idx)
    with open(src, 'w') as f:
        f.write(text)
    cmd = ['g++', '-std=c++14', '-I' + include, '-I' + harness_dir]
    if syntax_only:
        cmd += ['-O0', '-fsyntax-only', '-DC17_STATIC_ASSERTS', src]
    elif sanitize:
        cmd += ['-O1', '-g', '-fsanitize=address,undefined', '-fno-sanitize-recover=all', src, '-o', exe]
    else:
        cmd += ['-O0', src, '-o', exe]
    t0 = time.time()
    p = subprocess.run(cmd, capture_output=True, text=True)
    t1 = time.time()
    if p.returncode != 0:
        return idx, None, 'COMPILE-FAIL %s\n%s' % (src, p.stderr[-4000:]), t1 - t0, 0.0
    if syntax_only:
        return idx, '', None, t1 - t0, 0.0
    r = subprocess.run([exe], capture_output=True, text=True)
    t2 = time.time()
    if r.returncode != 0:
        return idx, r.stdout, 'RUN-FAIL %s status %d\n%s' % (exe, r.returncode, r.stderr[-4000:]), t1 - t0, t2 - t1
    return idx, r.stdout, None, t1 - t0, t2 - t1


def main():
    ap = argparse.ArgumentParser()
    ap.add_argument('--tier', choices=sorted(TIERS), default='quick')
    ap.add_argument('--seed', type=int, default=int(os.environ.get('VERIF_SEED', '1')))
    ap.add_argument('--count', type=int)
    ap.add_argument('--jobs', type=int, default=os.cpu_count() or 4)
    ap.add_argument('--out', default='/tmp/c17_run')
    ap.add_argument('--include', default='/repo/include')
    ap.add_argument('--harness-dir', default=HARNESS_DIR)
    ap.add_argument('--per-tu', type=int)
    ap.add_argument('--sanitize', action='store_true')
    ap.add_argument('--syntax-only', action='store_true')
    ap.add_argument('--driver', help='path of the Lean `driver` executable; replays with component c17')
    ap.add_argument('--shapes', help='file with one s-expression per line (instead of generating)')
    ap.add_argument('--exhaustive', type=int, default=None,
                    help='also every tree with at most N states (composite/orthogonal labelling)')
    ap.add_argument('--big', action='store_true',
                    help='add the shapes with SERIAL_BITS >= 256 (always on in the thorough tier)')
    ap.add_argument('--vary-headed', action='store_true', help='exhaustive mode: all headed/headless combinations')
    a = ap.parse_args()

    tier = TIERS[a.tier]
    count = a.count or tier['count']
    per_tu = a.per_tu or tier['per_tu']
    os.makedirs(a.out, exist_ok=True)

    t0 = time.time()
    if a.shapes:
        shs = [S.parse(l) for l in open(a.shapes) if l.strip() and not l.startswith('#')]
    else:
        shs = S.generate(a.seed, count, tier['max_states'], tier['max_depth'], tier['max_width'])
    exhaustive = a.exhaustive if a.exhaustive is not None else tier['exhaustive']
    if exhaustive and not a.shapes:
        seen = {S.to_sexpr(x) for x in shs}
        for x in S.enumerate_shapes(exhaustive, a.vary_headed):
            if S.to_sexpr(x) not in seen:
                shs.append(x)
    # shapes with SERIAL_BITS >= 256: expensive to compile, one TU each, started first
    big = S.big_serial_shapes() if (tier['big'] or a.big) and not a.shapes else []
    with open(os.path.join(a.out, 'shapes.txt'), 'w') as f:
        for s in big:
            f.write(S.to_sexpr(s) + '\n')
        for s in shs:
            f.write(S.to_sexpr(s) + '\n')
    # balance the batches: sort by size, deal round-robin
    order = sorted(range(len(shs)), key=lambda i: -shs[i].state_count())
    ntu = max(1, (len(shs) + per_tu - 1) // per_tu)
    batches = [[] for _ in range(ntu)]
    for k, i in enumerate(order):
        batches[k % ntu].append(shs[i])
    batches = [[s] for s in big] + batches
    ntu = len(batches)
    jobs = [(i, E.emit_tu(b), a.out, a.include, a.sanitize, a.syntax_only, a.harness_dir)
            for i, b in enumerate(batches)]
    t_gen = time.time() - t0

    t1 = time.time()
    results = []
    with cf.ThreadPoolExecutor(max_workers=a.jobs) as ex:
        for r in ex.map(build_one, jobs):
            results.append(r)
    t_build = time.time() - t1
    results.sort()

    errors = [e for _, _, e, _, _ in results if e]
    transcript = os.path.join(a.out, 'transcript.txt')
    stats = {}
    oracle = []
    nlines = 0
    with open(transcript, 'w') as f:
        for _, out, _, _, _ in results:
            if not out:
                continue
            for line in out.splitlines():
                if line.startswith('# stat '):
                    k, v = line[7:].split('=')
                    if k.startswith('max_') or k.endswith('_max_n') or k.endswith('_max_width'):
                        stats[k] = max(stats.get(k, 0), int(v))
                    else:
                        stats[k] = stats.get(k, 0) + int(v)
                    continue
                if line.startswith('ORACLE-FAIL'):
                    oracle.append(line)
                f.write(line + '\n')
                nlines += 1
        for k in sorted(stats):
            f.write('# stat %s=%d\n' % (k, stats[k]))

    cpu_compile = sum(r[3] for r in results)
    cpu_run = sum(r[4] for r in results)
    print('shapes=%d tus=%d per_tu=%d jobs=%d mode=%s' % (
        len(shs) + len(big), ntu, per_tu, a.jobs,
        'syntax-only' if a.syntax_only else ('asan+ubsan -O1' if a.sanitize else '-O0')))
    print('time generate=%.2fs build+run(wall)=%.2fs compile(cpu-sum)=%.2fs run(cpu-sum)=%.2fs slowest-tu=%.2fs' % (
        t_gen, t_build, cpu_compile, cpu_run, max(r[3] for r in results)))
    print('transcript=%s lines=%d' % (transcript, nlines))
    for k in sorted(stats):
        print('# stat %s=%d' % (k, stats[k]))
    for e in errors:
        print(e)
    for o in oracle[:20]:
        print(o)
    status = 0
    if errors or oracle:
        status = 1
    if a.driver and not a.syntax_only:
        t2 = time.time()
        with open(transcript) as f:
            p = subprocess.run([a.driver, 'c17'], stdin=f, capture_output=True, text=True)
        print('replay: %s (%.2fs)' % (p.stdout.strip().splitlines()[-1] if p.stdout.strip() else p.stderr.strip(), time.time() - t2))
        if p.returncode != 0:
            status = 1
    return status


if __name__ == '__main__':
    sys.exit(main())
